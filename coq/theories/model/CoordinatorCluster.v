(* Several brokers, one group: the routing layer of cmd/broker (handler.Handle with
   acquireGroupLease) on top of the per-coordinator model (model/Coordinator.v).

   Every broker has its own GroupCoordinator with its own cache of the group
   ([cl_cache]); the metadata store and the committed offsets are shared; at most one
   broker holds the group's coordination lease ([cl_owner] -- the single-owner property
   of the etcd lease manager is property C18, here it is the shape of the state).
   Modelled (with fixes/C13-group-cache-follows-lease.patch):
   * a group-scoped request to a broker that does not hold the lease while another one
     does: NOT_COORDINATOR, no effect;
   * a request to a broker when nobody holds the lease: that broker acquires it, drops
     its cached copy of the group (DropGroupState) and serves the request from the store;
   * a request to the holder: served by its coordinator;
   * the cleanup sweep of a broker that does not hold the lease: no effect (it skips and
     forgets such groups); a sweep never acquires a lease;
   * the holder loses the lease (release, session expiry): [CLeaseLost].
   No proofs in this file. *)
From KS Require Import lib.Base model.Coordinator.
Open Scope Z_scope.

Record cluster := mkCl {
  cl_cache : nat -> option group;       (* broker -> its coordinator's cached copy *)
  cl_owner : option nat;                (* holder of the group's coordination lease *)
  cl_store : option pgroup;
  cl_off : list ((Z * Z) * Z)
}.

Definition cl_init : cluster := mkCl (fun _ => None) None None [].

Inductive cevent := CReq (b : nat) (o : op) | CLeaseLost.
Inductive creply := CNotCoordinator | CReply (r : reply).

Definition set_cache (f : nat -> option group) (b : nat) (v : option group) : nat -> option group :=
  fun b' => if Nat.eqb b' b then v else f b'.

Definition is_sweep (o : op) : bool := match o with Cleanup _ => true | _ => false end.

(* broker b serves o from the coordinator state [mem] *)
Definition serve (E : env) (c : cluster) (b : nat) (mem : option group) (o : op) : cluster * creply :=
  let '(s', r) := step E (mkSt mem (cl_store c) (cl_off c)) o in
  (mkCl (set_cache (cl_cache c) b (s_mem s')) (Some b) (s_store s') (s_off s'), CReply r).

Definition cstep (E : env) (c : cluster) (ev : cevent) : cluster * creply :=
  match ev with
  | CLeaseLost => (mkCl (cl_cache c) None (cl_store c) (cl_off c), CReply RNone)
  | CReq b o =>
      match cl_owner c with
      | Some b' => if Nat.eqb b' b then serve E c b (cl_cache c b) o else (c, CNotCoordinator)
      | None => if is_sweep o then (c, CNotCoordinator) else serve E c b None o
      end
  end.

Definition crun (E : env) (evs : list cevent) : cluster :=
  fold_left (fun c ev => fst (cstep E c ev)) evs cl_init.

(* the group as its coordinator -- the lease holder -- has it *)
Definition holder_view (c : cluster) : st :=
  mkSt (match cl_owner c with Some b => cl_cache c b | None => None end) (cl_store c) (cl_off c).
