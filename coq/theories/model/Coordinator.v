(* Executable model of the consumer-group coordinator, pkg/broker/coordinator.go,
   for ONE group id (groups are independent: every method touches only
   c.groups[req.Group] and the store records of that group; cleanupGroups treats
   each group separately).

   Modelled Go functions: JoinGroup, SyncGroup, Heartbeat, LeaveGroup, OffsetCommit,
   cleanupGroups, removeExpiredMembers, dropRebalanceLaggers, startRebalance,
   bumpRebalanceDeadline, completeIfReady, markStable, ensureLeader, sortedMembers,
   assignPartitions, collectTopicPartitions, memberSubscribes, ensureGroup,
   loadGroupIfMissing, persistGroupLocked, buildConsumerGroup, restoreGroupState,
   and of pkg/metadata/store.go: PutConsumerGroup / FetchConsumerGroup /
   DeleteConsumerGroup / cloneConsumerGroup, CommitConsumerOffset /
   FetchConsumerOffset (InMemoryStore).

   The model is of the code WITH the three proposed fixes
     fixes/C12-rejoin-changed-subscription.patch (JoinGroup: an existing member that
        re-joins a Stable group with a different subscription starts a rebalance),
     fixes/C43-heartbeat-during-rebalance.patch  (Heartbeat: a heartbeat of a current
        member in the current generation refreshes its session also while the group
        is rebalancing; the reply is still REBALANCE_IN_PROGRESS),
     fixes/C13-commit-under-lock.patch           (OffsetCommit: the membership check
        and the store writes happen under one critical section, so the operation is
        atomic w.r.t. the other coordinator operations).

   Abstractions (order isomorphisms, see the harness): member ids and topic names are
   integers whose order is the byte order of the Go strings (sort.Strings); the empty
   / never-issued member id is any integer that is not a key of the member map; time
   is milliseconds of the virtual clock, durations are milliseconds; new member ids
   come from the [fresh] argument of Join (oracle for math/rand); topic metadata
   (store.Metadata) is the table [e_tbl]: topic -> partition ids in increasing order
   (unknown topic or no partitions: [0], as in collectTopicPartitions).
   [e_keep] says whether the store's clone keeps SessionTimeoutMs/RebalanceTimeoutMs
   (etcd store, or InMemoryStore after the C17 fix: true; InMemoryStore today: false).
   protocolName/protocolType are carried through unchanged by the code and are not
   modelled. Store errors are not modelled (InMemoryStore never fails).
   No proofs in this file. *)
From KS Require Import lib.Base.
Open Scope Z_scope.

(* ---------- association lists keyed by Z (Go maps) ---------- *)
Section Assoc.
  Context {V : Type}.
  Fixpoint alookup (k : Z) (l : list (Z * V)) : option V :=
    match l with
    | [] => None
    | (k', v) :: l' => if k =? k' then Some v else alookup k l'
    end.
  (* m[k] = v : replace in place, or append *)
  Fixpoint aset (k : Z) (v : V) (l : list (Z * V)) : list (Z * V) :=
    match l with
    | [] => [(k, v)]
    | (k', v') :: l' => if k =? k' then (k, v) :: l' else (k', v') :: aset k v l'
    end.
  Definition aremove (k : Z) (l : list (Z * V)) : list (Z * V) :=
    filter (fun e => negb (fst e =? k)) l.
  Definition akeys (l : list (Z * V)) : list Z := map fst l.
  Definition amem (k : Z) (l : list (Z * V)) : bool :=
    match alookup k l with Some _ => true | None => false end.
End Assoc.

Fixpoint zmem (x : Z) (l : list Z) : bool :=
  match l with [] => false | y :: l' => (x =? y) || zmem x l' end.

(* sort.Strings on ids / topic names: insertion sort *)
Fixpoint zinsert (x : Z) (l : list Z) : list Z :=
  match l with
  | [] => [x]
  | y :: l' => if x <=? y then x :: l else y :: zinsert x l'
  end.
Definition zsort (l : list Z) : list Z := fold_right zinsert [] l.

Fixpoint zdedup (l : list Z) : list Z :=
  match l with
  | [] => []
  | x :: l' => if zmem x l' then zdedup l' else x :: zdedup l'
  end.

(* ---------- coordinator state ---------- *)
Inductive phase := PEmpty | PPreparing | PCompleting | PStable | PDead.
Definition phase_eqb (a b : phase) : bool :=
  match a, b with
  | PEmpty, PEmpty | PPreparing, PPreparing | PCompleting, PCompleting
  | PStable, PStable | PDead, PDead => true
  | _, _ => false
  end.

Definition default_session : Z := 30000.
Definition default_rebalance : Z := 30000.

Definition NONE : Z := 0.
Definition ILLEGAL_GENERATION : Z := 22.
Definition UNKNOWN_MEMBER_ID : Z := 25.
Definition REBALANCE_IN_PROGRESS : Z := 27.

Record member := mkMember {
  m_topics : list Z;       (* subscription *)
  m_session : Z;           (* sessionTimeout, ms *)
  m_hb : Z;                (* lastHeartbeat, ms *)
  m_joingen : Z            (* joinGeneration *)
}.

Definition tassign := list (Z * list Z).   (* []assignmentTopic: topic, partitions *)

Record group := mkGroup {
  g_gen : Z;
  g_leader : option Z;                  (* None = "" *)
  g_phase : phase;
  g_members : list (Z * member);
  g_assign : list (Z * tassign);        (* map member -> assignment; [] = nil *)
  g_rebto : Z;                          (* rebalanceTimeout, ms *)
  g_deadline : option Z                 (* rebalanceDeadline; None = zero time *)
}.

Definition new_group : group := mkGroup 0 None PEmpty [] [] default_rebalance None.

Definition opt_z_eqb (a b : option Z) : bool := opt_eqb Z.eqb a b.

Definition with_members (g : group) (ms : list (Z * member)) : group :=
  mkGroup (g_gen g) (g_leader g) (g_phase g) ms (g_assign g) (g_rebto g) (g_deadline g).
Definition with_leader (g : group) (l : option Z) : group :=
  mkGroup (g_gen g) l (g_phase g) (g_members g) (g_assign g) (g_rebto g) (g_deadline g).

Definition sorted_ids (g : group) : list Z := zsort (akeys (g_members g)).

(* ensureLeader *)
Definition ensure_leader (g : group) : group :=
  let pick := match sorted_ids g with [] => None | k :: _ => Some k end in
  match g_leader g with
  | Some l => if amem l (g_members g) then g else with_leader g pick
  | None => with_leader g pick
  end.

Definition reset_joingen (ms : list (Z * member)) : list (Z * member) :=
  map (fun e => (fst e, mkMember (m_topics (snd e)) (m_session (snd e)) (m_hb (snd e)) 0)) ms.

(* startRebalance(timeout) at time now *)
Definition start_rebalance (timeout now : Z) (g : group) : group :=
  match g_members g with
  | [] => mkGroup (g_gen g) None PEmpty [] [] (g_rebto g) None
  | _ =>
      let rebto := if timeout >? 0 then timeout
                   else if g_rebto g =? 0 then default_rebalance else g_rebto g in
      ensure_leader (mkGroup (g_gen g + 1) (g_leader g) PPreparing (reset_joingen (g_members g)) []
                             rebto (Some (now + rebto)))
  end.

(* bumpRebalanceDeadline *)
Definition bump_deadline (timeout now : Z) (g : group) : group :=
  let rebto := if timeout >? 0 then timeout
               else if g_rebto g =? 0 then default_rebalance else g_rebto g in
  mkGroup (g_gen g) (g_leader g) (g_phase g) (g_members g) (g_assign g) rebto (Some (now + rebto)).

Definition all_joined (g : group) : bool :=
  forallb (fun e => m_joingen (snd e) =? g_gen g) (g_members g).

(* completeIfReady *)
Definition complete_if_ready (g : group) : group * bool :=
  match g_members g with
  | [] => (g, false)
  | _ => if all_joined g
         then (mkGroup (g_gen g) (g_leader g) PCompleting (g_members g) (g_assign g) (g_rebto g) None, true)
         else (g, false)
  end.

(* markStable *)
Definition mark_stable (g : group) : group :=
  match g_phase g with
  | PDead => g
  | _ => mkGroup (g_gen g) (g_leader g) PStable (g_members g) (g_assign g) (g_rebto g) None
  end.

(* ---------- assignment ---------- *)
Record env := mkEnv { e_tbl : list (Z * list Z); e_keep : bool }.

(* collectTopicPartitions: partitions of one topic *)
Definition parts_of (E : env) (t : Z) : list Z :=
  match alookup t (e_tbl E) with
  | Some (p :: ps) => p :: ps
  | _ => [0]
  end.

(* member id -> subscription: all that assignPartitions reads of the members *)
Definition subs (ms : list (Z * member)) : list (Z * list Z) :=
  map (fun e => (fst e, m_topics (snd e))) ms.

(* memberSubscribes *)
Definition subscribes (sm : list (Z * list Z)) (id t : Z) : bool :=
  match alookup id sm with Some ts => zmem t ts | None => false end.

Definition eligible (sm : list (Z * list Z)) (t : Z) : list Z :=
  filter (fun id => subscribes sm id t) (zsort (akeys sm)).

(* partitions[idx] goes to eligible[idx % len(eligible)]: the ones of member id *)
Fixpoint rr_pick (elig : list Z) (ps : list Z) (i : nat) (id : Z) : list Z :=
  match ps with
  | [] => []
  | p :: ps' =>
      if nth (i mod length elig) elig (-1) =? id
      then p :: rr_pick elig ps' (S i) id
      else rr_pick elig ps' (S i) id
  end.

Definition subscribed_topics (sm : list (Z * list Z)) : list Z :=
  zsort (zdedup (flat_map snd sm)).

Definition assign_topic (E : env) (sm : list (Z * list Z)) (id t : Z) : list Z :=
  match eligible sm t with
  | [] => []
  | el => rr_pick el (parts_of E t) 0 id
  end.

Definition assign_for (E : env) (sm : list (Z * list Z)) (id : Z) : tassign :=
  flat_map (fun t => match assign_topic E sm id t with [] => [] | ps => [(t, ps)] end)
           (subscribed_topics sm).

(* assignPartitions: an entry (possibly nil) for every member *)
Definition assign_partitions (E : env) (g : group) : list (Z * tassign) :=
  map (fun id => (id, assign_for E (subs (g_members g)) id)) (sorted_ids g).

Definition assignment_of (g : group) (id : Z) : tassign :=
  match alookup id (g_assign g) with Some a => a | None => [] end.

(* ---------- persistence ---------- *)
Record pmember := mkPM { pm_topics : list Z; pm_session : Z; pm_hb : Z; pm_assign : tassign }.
Record pgroup := mkPG {
  pg_phase : phase; pg_leader : option Z; pg_gen : Z; pg_rebto : Z;
  pg_members : list (Z * pmember)
}.

(* buildConsumerGroup *)
Definition build (g : group) : pgroup :=
  mkPG (g_phase g) (g_leader g) (g_gen g) (if g_rebto g >? 0 then g_rebto g else 0)
       (map (fun e => (fst e, mkPM (m_topics (snd e))
                                   (if m_session (snd e) >? 0 then m_session (snd e) else 0)
                                   (m_hb (snd e)) (assignment_of g (fst e))))
            (g_members g)).

(* cloneConsumerGroup as used by PutConsumerGroup/FetchConsumerGroup *)
Definition store_clone (keep : bool) (pg : pgroup) : pgroup :=
  if keep then pg
  else mkPG (pg_phase pg) (pg_leader pg) (pg_gen pg) 0
            (map (fun e => (fst e, mkPM (pm_topics (snd e)) 0 (pm_hb (snd e)) (pm_assign (snd e))))
                 (pg_members pg)).

(* restoreGroupState at time now *)
Definition restore (pg : pgroup) (now : Z) : group :=
  let rebto := if pg_rebto pg >? 0 then pg_rebto pg else default_rebalance in
  let ms := map (fun e => (fst e, mkMember (pm_topics (snd e))
                                           (if pm_session (snd e) >? 0 then pm_session (snd e) else default_session)
                                           (pm_hb (snd e)) (pg_gen pg)))
                (pg_members pg) in
  let asg := flat_map (fun e => match pm_assign (snd e) with [] => [] | a => [(fst e, a)] end)
                      (pg_members pg) in
  let dl := match pg_phase pg with
            | PPreparing | PCompleting => Some (now + rebto)
            | _ => None
            end in
  ensure_leader (mkGroup (pg_gen pg) (pg_leader pg) (pg_phase pg) ms asg rebto dl).

Record st := mkSt {
  s_mem : option group;                 (* c.groups[g]; None = not in memory *)
  s_store : option pgroup;              (* store.consumerGroups[g] *)
  s_off : list ((Z * Z) * Z)            (* committed offsets: (topic, partition) -> offset *)
}.

Definition init : st := mkSt None None [].

(* persistGroupLocked *)
Definition persist (E : env) (g : group) (s : st) : st :=
  match g_members g with
  | [] => mkSt (s_mem s) None (s_off s)
  | _ => mkSt (s_mem s) (Some (store_clone (e_keep E) (build g))) (s_off s)
  end.

(* loadGroupIfMissing *)
Definition load (s : st) (now : Z) : option group :=
  match s_mem s with
  | Some g => Some g
  | None => match s_store s with
            | Some pg => Some (restore pg now)
            | None => None
            end
  end.

Definition set_mem (s : st) (g : group) : st := mkSt (Some g) (s_store s) (s_off s).

(* save in memory and persist *)
Definition commit_group (E : env) (s : st) (g : group) : st := persist E g (set_mem s g).

(* ---------- operations ---------- *)
Inductive op :=
| Join (mid fresh sess reb : Z) (topics : list Z) (now : Z)
| Sync (mid gen now : Z)
| Heartbeat (mid gen now : Z)
| Leave (mid now : Z)
| Commit (mid gen topic part off now : Z)
| Cleanup (now : Z)
| Failover.

Inductive reply :=
| RJoin (err gen : Z) (leader : option Z) (member : Z) (members : list (Z * list Z))
| RSync (err : Z) (a : tassign)
| RErr (err : Z)
| RNone.

Definition topics_eqb (a b : list Z) : bool := list_eqb Z.eqb a b.

Definition set_joingen (id gen : Z) (ms : list (Z * member)) : list (Z * member) :=
  match alookup id ms with
  | Some m => aset id (mkMember (m_topics m) (m_session m) (m_hb m) gen) ms
  | None => ms
  end.

Definition member_list (g : group) : list (Z * list Z) :=
  map (fun id => (id, match alookup id (g_members g) with Some m => m_topics m | None => [] end))
      (sorted_ids g).

(* What an operation does to the group: [Keep] leaves it (possibly just loaded) in
   memory without persisting, [Save] stores it in memory and persists it, [Gone]
   deletes it from memory and from the store. *)
Inductive outcome :=
| Keep (g : group) (r : reply)
| Save (g : group) (r : reply)
| Gone (r : reply).

Definition join_g (g : group) (mid fresh sess reb : Z) (topics : list Z) (now : Z) : outcome :=
  let timeout := if reb >? 0 then reb else default_rebalance in
  let '(exists_, id, m0) :=
    match alookup mid (g_members g) with
    | Some m => (true, mid, m)
    | None => (false, fresh, mkMember [] 0 0 0)
    end in
  let session := if sess >? 0 then sess
                 else if m_session m0 =? 0 then default_session else m_session m0 in
  let changed := exists_ && negb (topics_eqb (m_topics m0) topics) in
  let g1 := with_members g (aset id (mkMember topics session now (m_joingen m0)) (g_members g)) in
  let g2 :=
    if (Z.of_nat (length (g_members g1)) =? 1) && phase_eqb (g_phase g1) PEmpty
    then start_rebalance timeout now (with_leader g1 (Some id))
    else if phase_eqb (g_phase g1) PStable && (negb exists_ || changed)
    then start_rebalance timeout now g1
    else if phase_eqb (g_phase g1) PEmpty
    then start_rebalance timeout now g1
    else if phase_eqb (g_phase g1) PPreparing || phase_eqb (g_phase g1) PCompleting
    then bump_deadline timeout now g1
    else g1 in
  let g3 := with_members g2 (set_joingen id (g_gen g2) (g_members g2)) in
  let g4 := match g_leader g3 with None => ensure_leader g3 | Some _ => g3 end in
  let '(g5, ready) :=
    if phase_eqb (g_phase g4) PStable || phase_eqb (g_phase g4) PCompleting
    then (g4, true) else complete_if_ready g4 in
  let is_leader := opt_z_eqb (g_leader g5) (Some id) in
  Save g5 (RJoin (if ready then NONE else REBALANCE_IN_PROGRESS) (g_gen g5) (g_leader g5) id
                 (if ready && is_leader then member_list g5 else [])).

Definition sync_g (E : env) (g : group) (mid gen : Z) : outcome :=
  if negb (gen =? g_gen g) then Keep g (RSync ILLEGAL_GENERATION [])
  else if negb (amem mid (g_members g)) then Keep g (RSync UNKNOWN_MEMBER_ID [])
  else if phase_eqb (g_phase g) PPreparing then Keep g (RSync REBALANCE_IN_PROGRESS [])
  else
    let need := phase_eqb (g_phase g) PCompleting && (Z.of_nat (length (g_assign g)) =? 0) in
    if need && negb (opt_z_eqb (g_leader g) (Some mid)) then Keep g (RSync REBALANCE_IN_PROGRESS [])
    else
      let g1 := if need
                then mark_stable (mkGroup (g_gen g) (g_leader g) (g_phase g) (g_members g)
                                          (assign_partitions E g) (g_rebto g) (g_deadline g))
                else g in
      let a := assignment_of g1 mid in
      match a with
      | [] => if phase_eqb (g_phase g1) PStable
              then Save g1 (RSync NONE a)
              else Keep g1 (RSync REBALANCE_IN_PROGRESS [])
      | _ => Save g1 (RSync NONE a)
      end.

Definition heartbeat_g (g : group) (mid gen now : Z) : outcome :=
  match alookup mid (g_members g) with
  | None => Keep g (RErr UNKNOWN_MEMBER_ID)
  | Some m =>
      if negb (gen =? g_gen g) then Keep g (RErr ILLEGAL_GENERATION)
      else
        Save (with_members g (aset mid (mkMember (m_topics m) (m_session m) now (m_joingen m)) (g_members g)))
             (RErr (if phase_eqb (g_phase g) PStable then NONE else REBALANCE_IN_PROGRESS))
  end.

Definition leave_g (g : group) (mid now : Z) : outcome :=
  if negb (amem mid (g_members g)) then Keep g (RErr UNKNOWN_MEMBER_ID)
  else
    let g1 := mkGroup (g_gen g) (g_leader g) (g_phase g) (aremove mid (g_members g))
                      (aremove mid (g_assign g)) (g_rebto g) (g_deadline g) in
    match g_members g1 with
    | [] => Gone (RErr NONE)
    | _ =>
        let g2 := if opt_z_eqb (g_leader g1) (Some mid) then with_leader g1 None else g1 in
        Save (start_rebalance 0 now g2) (RErr NONE)
    end.

(* OffsetCommit's membership / generation check *)
Definition commit_err (g : group) (mid gen : Z) : Z :=
  if negb (amem mid (g_members g)) then UNKNOWN_MEMBER_ID
  else if negb (gen =? g_gen g) then ILLEGAL_GENERATION
  else NONE.

Definition off_key_eqb (a b : Z * Z) : bool := (fst a =? fst b) && (snd a =? snd b).
Fixpoint off_set (k : Z * Z) (v : Z) (l : list ((Z * Z) * Z)) : list ((Z * Z) * Z) :=
  match l with
  | [] => [(k, v)]
  | (k', v') :: l' => if off_key_eqb k k' then (k, v) :: l' else (k', v') :: off_set k v l'
  end.
Fixpoint off_get (k : Z * Z) (l : list ((Z * Z) * Z)) : Z :=
  match l with
  | [] => 0            (* FetchConsumerOffset of a missing key reads 0 *)
  | (k', v') :: l' => if off_key_eqb k k' then v' else off_get k l'
  end.

Definition expired (now : Z) (m : member) : bool :=
  let timeout := if m_session m =? 0 then default_session else m_session m in
  now - m_hb m >? timeout.

(* delete the members selected by [dead], their assignments; clear the leader if it died *)
Definition drop_members (dead : member -> bool) (g : group) : group :=
  let gone := filter (fun e => dead (snd e)) (g_members g) in
  let ms := filter (fun e => negb (dead (snd e))) (g_members g) in
  let asg := filter (fun e => negb (zmem (fst e) (akeys gone))) (g_assign g) in
  let ld := match g_leader g with
            | Some l => if zmem l (akeys gone) then None else Some l
            | None => None
            end in
  mkGroup (g_gen g) ld (match ms with [] => PEmpty | _ => g_phase g end) ms asg (g_rebto g) (g_deadline g).

Definition any_dead (dead : member -> bool) (g : group) : bool :=
  existsb (fun e => dead (snd e)) (g_members g).

(* removeExpiredMembers *)
Definition remove_expired (now : Z) (g : group) : group * bool :=
  (drop_members (expired now) g, any_dead (expired now) g).

Definition lagging (gen : Z) (m : member) : bool := negb (m_joingen m =? gen).

(* dropRebalanceLaggers *)
Definition drop_laggers (now : Z) (g : group) : group * bool :=
  match g_deadline g with
  | None => (g, false)
  | Some d =>
      if now <? d then (g, false)
      else (drop_members (lagging (g_gen g)) g, any_dead (lagging (g_gen g)) g)
  end.

(* cleanupGroups for the group; None = nothing to do *)
Definition cleanup_g (g : group) (now : Z) : option outcome :=
  let '(g1, removed) := remove_expired now g in
  let '(g2, lost) := drop_laggers now g1 in
  match g_members g2 with
  | [] => Some (Gone RNone)
  | _ => if removed || lost then Some (Save (start_rebalance 0 now g2) RNone) else None
  end.

Definition apply (E : env) (s : st) (o : outcome) : st * reply :=
  match o with
  | Keep g r => (set_mem s g, r)
  | Save g r => (commit_group E s g, r)
  | Gone r => (mkSt None None (s_off s), r)
  end.

Definition step (E : env) (s : st) (o : op) : st * reply :=
  match o with
  | Join mid fresh sess reb topics now =>
      let g := match load s now with Some g => g | None => new_group end in
      apply E s (join_g g mid fresh sess reb topics now)
  | Sync mid gen now =>
      match load s now with
      | None => (s, RSync UNKNOWN_MEMBER_ID [])
      | Some g => apply E s (sync_g E g mid gen)
      end
  | Heartbeat mid gen now =>
      match load s now with
      | None => (s, RErr UNKNOWN_MEMBER_ID)
      | Some g => apply E s (heartbeat_g g mid gen now)
      end
  | Leave mid now =>
      match load s now with
      | None => (s, RErr UNKNOWN_MEMBER_ID)
      | Some g => apply E s (leave_g g mid now)
      end
  | Commit mid gen t p off now =>
      match load s now with
      | None => (s, RErr UNKNOWN_MEMBER_ID)
      | Some g =>
          let e := commit_err g mid gen in
          (mkSt (Some g) (s_store s) (if e =? NONE then off_set (t, p) off (s_off s) else s_off s), RErr e)
      end
  | Cleanup now =>
      match s_mem s with
      | None => (s, RNone)
      | Some g => match cleanup_g g now with
                  | Some o => apply E s o
                  | None => (s, RNone)
                  end
      end
  | Failover => (mkSt None (s_store s) (s_off s), RNone)
  end.

Definition run_from (E : env) (s : st) (h : list op) : st :=
  fold_left (fun s o => fst (step E s o)) h s.
Definition run (E : env) (h : list op) : st := run_from E init h.

(* the group as the next request would see it (after loadGroupIfMissing) *)
Definition cur (s : st) (now : Z) : option group := load s now.
