(* Executable model of the consumer-group coordinator, pkg/broker/coordinator.go,
   for ONE group id (groups are independent: every method touches only
   c.groups[req.Group] and the store records of that group; cleanupGroups treats
   each group separately).

   Modelled Go functions: JoinGroup, SyncGroup, Heartbeat, LeaveGroup, OffsetCommit,
   cleanupGroups, removeExpiredMembers, dropRebalanceLaggers, startRebalance,
   bumpRebalanceDeadline, completeIfReady, markStable, ensureLeader, sortedMembers,
   assignPartitions, collectTopicPartitions, memberSubscribes, ensureGroup,
   loadGroupIfMissing, persistGroupLocked, buildConsumerGroup, restoreGroupState,
   and of pkg/metadata/store.go: PutConsumerGroup / FetchConsumerGroup /
   DeleteConsumerGroup / cloneConsumerGroup, CommitConsumerOffset /
   FetchConsumerOffset (InMemoryStore).

   The model is of the code WITH the three proposed fixes
     fixes/C12-rejoin-changed-subscription.patch (JoinGroup: an existing member that
        re-joins a Stable group with a different subscription starts a rebalance),
     fixes/C43-heartbeat-during-rebalance.patch  (Heartbeat: a heartbeat of a current
        member in the current generation refreshes its session also while the group
        is rebalancing; the reply is still REBALANCE_IN_PROGRESS),
     fixes/C13-commit-under-lock.patch           (OffsetCommit: the membership check
        and the store writes happen under one critical section, so the operation is
        atomic w.r.t. the other coordinator operations).

   Abstractions (order isomorphisms, see the harness): member ids and topic names are
   integers whose order is the byte order of the Go strings (sort.Strings); the empty
   / never-issued member id is any integer that is not a key of the member map; time
   is milliseconds of the virtual clock, durations are milliseconds; new member ids
   come from the [fresh] argument of Join (oracle for math/rand); topic metadata
   (store.Metadata) is the table [e_tbl]: topic -> partition ids in increasing order
   (unknown topic or no partitions: [0], as in collectTopicPartitions).
   [e_keep] says whether the store's clone keeps SessionTimeoutMs/RebalanceTimeoutMs
   (etcd store, or InMemoryStore after the C17 fix: true; InMemoryStore today: false).
   protocolName/protocolType are carried through unchanged by the code and are not
   modelled. Store errors are not modelled (InMemoryStore never fails).
   No proofs in this file. *)
From KS Require Import lib.Base.
Open Scope Z_scope.

(* ---------- association lists keyed by Z (Go maps) ---------- *)
Section Assoc.
  Context {V : Type}.
  Fixpoint alookup (k : Z) (l : list (Z * V)) : option V :=
    match l with
    | [] => None
    | (k', v) :: l' => if k =? k' then Some v else alookup k l'
    end.
  (* m[k] = v : replace in place, or append *)
  Fixpoint aset (k : Z) (v : V) (l : list (Z * V)) : list (Z * V) :=
    match l with
    | [] => [(k, v)]
    | (k', v') :: l' => if k =? k' then (k, v) :: l' else (k', v') :: aset k v l'
    end.
  Definition aremove (k : Z) (l : list (Z * V)) : list (Z * V) :=
    filter (fun e => negb (fst e =? k)) l.
  Definition akeys (l : list (Z * V)) : list Z := map fst l.
  Definition amem (k : Z) (l : list (Z * V)) : bool :=
    match alookup k l with Some _ => true | None => false end.
End Assoc.

Fixpoint zmem (x : Z) (l : list Z) : bool :=
  match l with [] => false | y :: l' => (x =? y) || zmem x l' end.

(* sort.Strings on ids / topic names: insertion sort *)
Fixpoint zinsert (x : Z) (l : list Z) : list Z :=
  match l with
  | [] => [x]
  | y :: l' => if x <=? y then x :: l else y :: zinsert x l'
  end.
Definition zsort (l : list Z) : list Z := fold_right zinsert [] l.

Fixpoint zdedup (l : list Z) : list Z :=
  match l with
  | [] => []
  | x :: l' => if zmem x l' then zdedup l' else x :: zdedup l'
  end.

(* ---------- coordinator state ---------- *)
Inductive phase := PEmpty | PPreparing | PCompleting | PStable | PDead.
Definition phase_eqb (a b : phase) : bool :=
  match a, b with
  | PEmpty, PEmpty | PPreparing, PPreparing | PCompleting, PCompleting
  | PStable, PStable | PDead, PDead => true
  | _, _ => false
  end.

Definition default_session : Z := 30000.
Definition default_rebalance : Z := 30000.

Definition NONE : Z := 0.
Definition ILLEGAL_GENERATION : Z := 22.
Definition UNKNOWN_MEMBER_ID : Z := 25.
Definition REBALANCE_IN_PROGRESS : Z := 27.

Record member := mkMember {
  m_topics : list Z;       (* subscription *)
  m_session : Z;           (* sessionTimeout, ms *)
  m_hb : Z;                (* lastHeartbeat, ms *)
  m_joingen : Z            (* joinGeneration *)
}.

Definition tassign := list (Z * list Z).   (* []assignmentTopic: topic, partitions *)

Record group := mkGroup {
  g_gen : Z;
  g_leader : option Z;                  (* None = "" *)
  g_phase : phase;
  g_members : list (Z * member);
  g_assign : list (Z * tassign);        (* map member -> assignment; [] = nil *)
  g_rebto : Z;                          (* rebalanceTimeout, ms *)
  g_deadline : option Z                 (* rebalanceDeadline; None = zero time *)
}.

Definition new_group : group := mkGroup 0 None PEmpty [] [] default_rebalance None.

Definition opt_z_eqb (a b : option Z) : bool := opt_eqb Z.eqb a b.

Definition with_members (g : group) (ms : list (Z * member)) : group :=
  mkGroup (g_gen g) (g_leader g) (g_phase g) ms (g_assign g) (g_rebto g) (g_deadline g).
Definition with_leader (g : group) (l : option Z) : group :=
  mkGroup (g_gen g) l (g_phase g) (g_members g) (g_assign g) (g_rebto g) (g_deadline g).

Definition sorted_ids (g : group) : list Z := zsort (akeys (g_members g)).

(* ensureLeader *)
Definition ensure_leader (g : group) : group :=
  let pick := match sorted_ids g with [] => None | k :: _ => Some k end in
  match g_leader g with
  | Some l => if amem l (g_members g) then g else with_leader g pick
  | None => with_leader g pick
  end.

Definition reset_joingen (ms : list (Z * member)) : list (Z * member) :=
  map (fun e => (fst e, mkMember (m_topics (snd e)) (m_session (snd e)) (m_hb (snd e)) 0)) ms.

(* startRebalance(timeout) at time now *)
Definition start_rebalance (timeout now : Z) (g : group) : group :=
  match g_members g with
  | [] => mkGroup (g_gen g) None PEmpty [] [] (g_rebto g) None
  | _ =>
      let rebto := if timeout >? 0 then timeout
                   else if g_rebto g =? 0 then default_rebalance else g_rebto g in
      ensure_leader (mkGroup (g_gen g + 1) (g_leader g) PPreparing (reset_joingen (g_members g)) []
                             rebto (Some (now + rebto)))
  end.

(* bumpRebalanceDeadline *)
Definition bump_deadline (timeout now : Z) (g : group) : group :=
  let rebto := if timeout >? 0 then timeout
               else if g_rebto g =? 0 then default_rebalance else g_rebto g in
  mkGroup (g_gen g) (g_leader g) (g_phase g) (g_members g) (g_assign g) rebto (Some (now + rebto)).

Definition all_joined (g : group) : bool :=
  forallb (fun e => m_joingen (snd e) =? g_gen g) (g_members g).

(* completeIfReady *)
Definition complete_if_ready (g : group) : group * bool :=
  match g_members g with
  | [] => (g, false)
  | _ => if all_joined g
         then (mkGroup (g_gen g) (g_leader g) PCompleting (g_members g) (g_assign g) (g_rebto g) None, true)
         else (g, false)
  end.

(* markStable *)
Definition mark_stable (g : group) : group :=
  match g_phase g with
  | PDead => g
  | _ => mkGroup (g_gen g) (g_leader g) PStable (g_members g) (g_assign g) (g_rebto g) None
  end.

(* ---------- assignment ---------- *)
Record env := mkEnv { e_tbl : list (Z * list Z); e_keep : bool }.

(* collectTopicPartitions: partitions of one topic *)
Definition parts_of (E : env) (t : Z) : list Z :=
  match alookup t (e_tbl E) with
  | Some (p :: ps) => p :: ps
  | _ => [0]
  end.

Definition subscribes (m : member) (t : Z) : bool := zmem t (m_topics m).

Definition eligible (ms : list (Z * member)) (t : Z) : list Z :=
  filter (fun id => match alookup id ms with Some m => subscribes m t | None => false end)
         (zsort (akeys ms)).

(* partitions[idx] goes to eligible[idx % len(eligible)]: the ones of member id *)
Fixpoint rr_pick (elig : list Z) (ps : list Z) (i : nat) (id : Z) : list Z :=
  match ps with
  | [] => []
  | p :: ps' =>
      if nth (i mod length elig) elig (-1) =? id
      then p :: rr_pick elig ps' (S i) id
      else rr_pick elig ps' (S i) id
  end.

Definition subscribed_topics (ms : list (Z * member)) : list Z :=
  zsort (zdedup (flat_map (fun e => m_topics (snd e)) ms)).

Definition assign_topic (E : env) (ms : list (Z * member)) (id t : Z) : list Z :=
  match eligible ms t with
  | [] => []
  | el => rr_pick el (parts_of E t) 0 id
  end.

Definition assign_for (E : env) (ms : list (Z * member)) (id : Z) : tassign :=
  flat_map (fun t => match assign_topic E ms id t with [] => [] | ps => [(t, ps)] end)
           (subscribed_topics ms).

(* assignPartitions: an entry (possibly nil) for every member *)
Definition assign_partitions (E : env) (g : group) : list (Z * tassign) :=
  map (fun id => (id, assign_for E (g_members g) id)) (sorted_ids g).

Definition assignment_of (g : group) (id : Z) : tassign :=
  match alookup id (g_assign g) with Some a => a | None => [] end.

(* ---------- persistence ---------- *)
Record pmember := mkPM { pm_topics : list Z; pm_session : Z; pm_hb : Z; pm_assign : tassign }.
Record pgroup := mkPG {
  pg_phase : phase; pg_leader : option Z; pg_gen : Z; pg_rebto : Z;
  pg_members : list (Z * pmember)
}.

(* buildConsumerGroup *)
Definition build (g : group) : pgroup :=
  mkPG (g_phase g) (g_leader g) (g_gen g) (if g_rebto g >? 0 then g_rebto g else 0)
       (map (fun e => (fst e, mkPM (m_topics (snd e))
                                   (if m_session (snd e) >? 0 then m_session (snd e) else 0)
                                   (m_hb (snd e)) (assignment_of g (fst e))))
            (g_members g)).

(* cloneConsumerGroup as used by PutConsumerGroup/FetchConsumerGroup *)
Definition store_clone (keep : bool) (pg : pgroup) : pgroup :=
  if keep then pg
  else mkPG (pg_phase pg) (pg_leader pg) (pg_gen pg) 0
            (map (fun e => (fst e, mkPM (pm_topics (snd e)) 0 (pm_hb (snd e)) (pm_assign (snd e))))
                 (pg_members pg)).

(* restoreGroupState at time now *)
Definition restore (pg : pgroup) (now : Z) : group :=
  let rebto := if pg_rebto pg >? 0 then pg_rebto pg else default_rebalance in
  let ms := map (fun e => (fst e, mkMember (pm_topics (snd e))
                                           (if pm_session (snd e) >? 0 then pm_session (snd e) else default_session)
                                           (pm_hb (snd e)) (pg_gen pg)))
                (pg_members pg) in
  let asg := flat_map (fun e => match pm_assign (snd e) with [] => [] | a => [(fst e, a)] end)
                      (pg_members pg) in
  let dl := match pg_phase pg with
            | PPreparing | PCompleting => Some (now + rebto)
            | _ => None
            end in
  ensure_leader (mkGroup (pg_gen pg) (pg_leader pg) (pg_phase pg) ms asg rebto dl).

Record st := mkSt {
  s_mem : option group;                 (* c.groups[g]; None = not in memory *)
  s_store : option pgroup;              (* store.consumerGroups[g] *)
  s_off : list ((Z * Z) * Z)            (* committed offsets: (topic, partition) -> offset *)
}.

Definition init : st := mkSt None None [].

(* persistGroupLocked *)
Definition persist (E : env) (g : group) (s : st) : st :=
  match g_members g with
  | [] => mkSt (s_mem s) None (s_off s)
  | _ => mkSt (s_mem s) (Some (store_clone (e_keep E) (build g))) (s_off s)
  end.

(* loadGroupIfMissing *)
Definition load (s : st) (now : Z) : option group :=
  match s_mem s with
  | Some g => Some g
  | None => match s_store s with
            | Some pg => Some (restore pg now)
            | None => None
            end
  end.

Definition set_mem (s : st) (g : group) : st := mkSt (Some g) (s_store s) (s_off s).

(* save in memory and persist *)
Definition commit_group (E : env) (s : st) (g : group) : st := persist E g (set_mem s g).

(* ---------- operations ---------- *)
Inductive op :=
| Join (mid fresh sess reb : Z) (topics : list Z) (now : Z)
| Sync (mid gen now : Z)
| Heartbeat (mid gen now : Z)
| Leave (mid now : Z)
| Commit (mid gen topic part off now : Z)
| Cleanup (now : Z)
| Failover.

Inductive reply :=
| RJoin (err gen : Z) (leader : option Z) (member : Z) (members : list (Z * list Z))
| RSync (err : Z) (a : tassign)
| RErr (err : Z)
| RNone.

Definition topics_eqb (a b : list Z) : bool := list_eqb Z.eqb a b.

Definition set_joingen (id gen : Z) (ms : list (Z * member)) : list (Z * member) :=
  match alookup id ms with
  | Some m => aset id (mkMember (m_topics m) (m_session m) (m_hb m) gen) ms
  | None => ms
  end.

Definition member_list (g : group) : list (Z * list Z) :=
  map (fun id => (id, match alookup id (g_members g) with Some m => m_topics m | None => [] end))
      (sorted_ids g).

Definition join (E : env) (s : st) (mid fresh sess reb : Z) (topics : list Z) (now : Z) : st * reply :=
  let g := match load s now with Some g => g | None => new_group end in
  let timeout := if reb >? 0 then reb else default_rebalance in
  let '(exists_, id, m0) :=
    match alookup mid (g_members g) with
    | Some m => (true, mid, m)
    | None => (false, fresh, mkMember [] 0 0 0)
    end in
  let session := if sess >? 0 then sess
                 else if m_session m0 =? 0 then default_session else m_session m0 in
  let changed := exists_ && negb (topics_eqb (m_topics m0) topics) in
  let g1 := with_members g (aset id (mkMember topics session now (m_joingen m0)) (g_members g)) in
  let g2 :=
    if (Z.of_nat (length (g_members g1)) =? 1) && phase_eqb (g_phase g1) PEmpty
    then start_rebalance timeout now (with_leader g1 (Some id))
    else if phase_eqb (g_phase g1) PStable && (negb exists_ || changed)
    then start_rebalance timeout now g1
    else if phase_eqb (g_phase g1) PEmpty
    then start_rebalance timeout now g1
    else if phase_eqb (g_phase g1) PPreparing || phase_eqb (g_phase g1) PCompleting
    then bump_deadline timeout now g1
    else g1 in
  let g3 := with_members g2 (set_joingen id (g_gen g2) (g_members g2)) in
  let g4 := match g_leader g3 with None => ensure_leader g3 | Some _ => g3 end in
  let '(g5, ready) :=
    if phase_eqb (g_phase g4) PStable || phase_eqb (g_phase g4) PCompleting
    then (g4, true) else complete_if_ready g4 in
  let is_leader := opt_z_eqb (g_leader g5) (Some id) in
  (commit_group E s g5,
   RJoin (if ready then NONE else REBALANCE_IN_PROGRESS) (g_gen g5) (g_leader g5) id
         (if ready && is_leader then member_list g5 else [])).

Definition sync (E : env) (s : st) (mid gen now : Z) : st * reply :=
  match load s now with
  | None => (s, RSync UNKNOWN_MEMBER_ID [])
  | Some g =>
      let s1 := set_mem s g in
      if negb (gen =? g_gen g) then (s1, RSync ILLEGAL_GENERATION [])
      else if negb (amem mid (g_members g)) then (s1, RSync UNKNOWN_MEMBER_ID [])
      else if phase_eqb (g_phase g) PPreparing then (s1, RSync REBALANCE_IN_PROGRESS [])
      else
        let need := phase_eqb (g_phase g) PCompleting && (Z.of_nat (length (g_assign g)) =? 0) in
        if need && negb (opt_z_eqb (g_leader g) (Some mid)) then (s1, RSync REBALANCE_IN_PROGRESS [])
        else
          let g1 := if need
                    then mark_stable (mkGroup (g_gen g) (g_leader g) (g_phase g) (g_members g)
                                              (assign_partitions E g) (g_rebto g) (g_deadline g))
                    else g in
          let a := assignment_of g1 mid in
          match a with
          | [] => if phase_eqb (g_phase g1) PStable
                  then (commit_group E s g1, RSync NONE a)
                  else (set_mem s g1, RSync REBALANCE_IN_PROGRESS [])
          | _ => (commit_group E s g1, RSync NONE a)
          end
  end.

Definition heartbeat (E : env) (s : st) (mid gen now : Z) : st * reply :=
  match load s now with
  | None => (s, RErr UNKNOWN_MEMBER_ID)
  | Some g =>
      let s1 := set_mem s g in
      match alookup mid (g_members g) with
      | None => (s1, RErr UNKNOWN_MEMBER_ID)
      | Some m =>
          if negb (gen =? g_gen g) then (s1, RErr ILLEGAL_GENERATION)
          else
            let g1 := with_members g (aset mid (mkMember (m_topics m) (m_session m) now (m_joingen m)) (g_members g)) in
            (commit_group E s g1,
             RErr (if phase_eqb (g_phase g) PStable then NONE else REBALANCE_IN_PROGRESS))
      end
  end.

Definition leave (E : env) (s : st) (mid now : Z) : st * reply :=
  match load s now with
  | None => (s, RErr UNKNOWN_MEMBER_ID)
  | Some g =>
      if negb (amem mid (g_members g)) then (set_mem s g, RErr UNKNOWN_MEMBER_ID)
      else
        let g1 := mkGroup (g_gen g) (g_leader g) (g_phase g) (aremove mid (g_members g))
                          (aremove mid (g_assign g)) (g_rebto g) (g_deadline g) in
        match g_members g1 with
        | [] => (mkSt None None (s_off s), RErr NONE)
        | _ =>
            let g2 := if opt_z_eqb (g_leader g1) (Some mid) then with_leader g1 None else g1 in
            (commit_group E s (start_rebalance 0 now g2), RErr NONE)
        end
  end.

Definition off_key_eqb (a b : Z * Z) : bool := (fst a =? fst b) && (snd a =? snd b).
Fixpoint off_set (k : Z * Z) (v : Z) (l : list ((Z * Z) * Z)) : list ((Z * Z) * Z) :=
  match l with
  | [] => [(k, v)]
  | (k', v') :: l' => if off_key_eqb k k' then (k, v) :: l' else (k', v') :: off_set k v l'
  end.
Fixpoint off_get (k : Z * Z) (l : list ((Z * Z) * Z)) : Z :=
  match l with
  | [] => 0            (* FetchConsumerOffset of a missing key reads 0 *)
  | (k', v') :: l' => if off_key_eqb k k' then v' else off_get k l'
  end.

Definition commit (s : st) (mid gen topic part off now : Z) : st * reply :=
  match load s now with
  | None => (s, RErr UNKNOWN_MEMBER_ID)
  | Some g =>
      let s1 := set_mem s g in
      if negb (amem mid (g_members g)) then (s1, RErr UNKNOWN_MEMBER_ID)
      else if negb (gen =? g_gen g) then (s1, RErr ILLEGAL_GENERATION)
      else (mkSt (s_mem s1) (s_store s1) (off_set (topic, part) off (s_off s1)), RErr NONE)
  end.

Definition expired (now : Z) (m : member) : bool :=
  let timeout := if m_session m =? 0 then default_session else m_session m in
  now - m_hb m >? timeout.

(* delete members selected by [dead]; their assignments; clear the leader if it died *)
Definition drop_members (dead : Z -> member -> bool) (g : group) : group :=
  let gone := filter (fun e => dead (fst e) (snd e)) (g_members g) in
  let ms := filter (fun e => negb (dead (fst e) (snd e))) (g_members g) in
  let asg := filter (fun e => negb (zmem (fst e) (akeys gone))) (g_assign g) in
  let ld := match g_leader g with
            | Some l => if zmem l (akeys gone) then None else Some l
            | None => None
            end in
  mkGroup (g_gen g) ld (match ms with [] => PEmpty | _ => g_phase g end) ms asg (g_rebto g) (g_deadline g).

Definition any_dead (dead : Z -> member -> bool) (g : group) : bool :=
  existsb (fun e => dead (fst e) (snd e)) (g_members g).

(* removeExpiredMembers *)
Definition remove_expired (now : Z) (g : group) : group * bool :=
  (drop_members (fun _ m => expired now m) g, any_dead (fun _ m => expired now m) g).

(* dropRebalanceLaggers *)
Definition drop_laggers (now : Z) (g : group) : group * bool :=
  match g_deadline g with
  | None => (g, false)
  | Some d =>
      if now <? d then (g, false)
      else (drop_members (fun _ m => negb (m_joingen m =? g_gen g)) g,
            any_dead (fun _ m => negb (m_joingen m =? g_gen g)) g)
  end.

Definition cleanup (E : env) (s : st) (now : Z) : st :=
  match s_mem s with
  | None => s
  | Some g =>
      let '(g1, removed) := remove_expired now g in
      let '(g2, lost) := drop_laggers now g1 in
      match g_members g2 with
      | [] => mkSt None None (s_off s)
      | _ => if removed || lost then commit_group E s (start_rebalance 0 now g2) else s
      end
  end.

Definition step (E : env) (s : st) (o : op) : st * reply :=
  match o with
  | Join mid fresh sess reb topics now => join E s mid fresh sess reb topics now
  | Sync mid gen now => sync E s mid gen now
  | Heartbeat mid gen now => heartbeat E s mid gen now
  | Leave mid now => leave E s mid now
  | Commit mid gen t p off now => commit s mid gen t p off now
  | Cleanup now => (cleanup E s now, RNone)
  | Failover => (mkSt None (s_store s) (s_off s), RNone)
  end.

Definition run_from (E : env) (s : st) (h : list op) : st :=
  fold_left (fun s o => fst (step E s o)) h s.
Definition run (E : env) (h : list op) : st := run_from E init h.

(* the group as the next request would see it (after loadGroupIfMissing) *)
Definition cur (s : st) (now : Z) : option group := load s now.
