(* Store faults for the group-coordinator model (model/Coordinator.v): every operation
   comes with a [fault] saying which of its store calls fail (transient errors of the
   metadata store: etcd timeouts etc.), and [stepf] says what the code does then --
   what is kept in memory, what reaches the store, what the reply is.

   Modelled (pkg/broker/coordinator.go, with fixes/C14-join-error-reply-no-members.patch):
   * loadGroupIfMissing: FetchConsumerGroup is called whenever the group is not in
     memory; on error JoinGroup / SyncGroup / OffsetCommit return (nil, err) -- no
     reply ([None]) --, Heartbeat / LeaveGroup answer UNKNOWN_SERVER_ERROR; nothing
     changes.
   * persistGroupLocked (PutConsumerGroup, or DeleteConsumerGroup for the last member):
     on error the reply's error code becomes UNKNOWN_SERVER_ERROR, the change STAYS in
     memory, the store keeps its previous image; a JoinGroup reply then carries no member
     list; cleanupGroups ignores the error.
   * CommitConsumerOffset: on error the partition's code is UNKNOWN_SERVER_ERROR and the
     offset is not written.
   Not modelled: a failing store.Metadata in the leader's SyncGroup (collectTopicPartitions
   then falls back to partition 0 for every subscribed topic); the harness injects no
   fault there.  No proofs in this file. *)
From KS Require Import lib.Base model.Coordinator.
Open Scope Z_scope.

Record fault := mkFault { f_load : bool; f_persist : bool; f_commit : bool }.
Definition no_fault : fault := mkFault false false false.

Definition UNKNOWN_SERVER_ERROR : Z := -1.

Inductive loaded := LGroup (g : group) | LNone | LErr.

(* loadGroupIfMissing / ensureGroup's lookup *)
Definition loadf (s : st) (now : Z) (f : fault) : loaded :=
  match s_mem s with
  | Some g => LGroup g
  | None =>
      if f_load f then LErr
      else match s_store s with
           | Some pg => LGroup (restore pg now)
           | None => LNone
           end
  end.

(* the reply after persistGroupLocked failed *)
Definition persist_failed (r : reply) : reply :=
  match r with
  | RJoin _ gen ld id _ => RJoin UNKNOWN_SERVER_ERROR gen ld id []
  | RSync _ a => RSync UNKNOWN_SERVER_ERROR a
  | RErr _ => RErr UNKNOWN_SERVER_ERROR
  | RNone => RNone
  end.

Definition applyf (E : env) (s : st) (o : outcome) (f : fault) : st * reply :=
  match o with
  | Keep g r => (set_mem s g, r)
  | Save g r =>
      if f_persist f then (set_mem s g, persist_failed r) else (commit_group E s g, r)
  | Gone r =>
      if f_persist f then (mkSt None (s_store s) (s_off s), persist_failed r)
      else (mkSt None None (s_off s), r)
  end.

Definition some_reply (x : st * reply) : st * option reply := (fst x, Some (snd x)).

(* None = the method returned a Go error and no response *)
Definition stepf (E : env) (s : st) (o : op) (f : fault) : st * option reply :=
  match o with
  | Join mid fresh sess reb topics now =>
      match loadf s now f with
      | LErr => (s, None)
      | LGroup g => some_reply (applyf E s (join_g g mid fresh sess reb topics now) f)
      | LNone => some_reply (applyf E s (join_g new_group mid fresh sess reb topics now) f)
      end
  | Sync mid gen now =>
      match loadf s now f with
      | LErr => (s, None)
      | LNone => (s, Some (RSync UNKNOWN_MEMBER_ID []))
      | LGroup g => some_reply (applyf E s (sync_g E g mid gen) f)
      end
  | Heartbeat mid gen now =>
      match loadf s now f with
      | LErr => (s, Some (RErr UNKNOWN_SERVER_ERROR))
      | LNone => (s, Some (RErr UNKNOWN_MEMBER_ID))
      | LGroup g => some_reply (applyf E s (heartbeat_g g mid gen now) f)
      end
  | Leave mid now =>
      match loadf s now f with
      | LErr => (s, Some (RErr UNKNOWN_SERVER_ERROR))
      | LNone => (s, Some (RErr UNKNOWN_MEMBER_ID))
      | LGroup g => some_reply (applyf E s (leave_g g mid now) f)
      end
  | Commit mid gen t p off now =>
      match loadf s now f with
      | LErr => (s, None)
      | LNone => (s, Some (RErr UNKNOWN_MEMBER_ID))
      | LGroup g =>
          let e := commit_err g mid gen in
          if e =? NONE
          then if f_commit f
               then (mkSt (Some g) (s_store s) (s_off s), Some (RErr UNKNOWN_SERVER_ERROR))
               else (mkSt (Some g) (s_store s) (off_set (t, p) off (s_off s)), Some (RErr NONE))
          else (mkSt (Some g) (s_store s) (s_off s), Some (RErr e))
      end
  | Cleanup now =>
      match s_mem s with
      | None => (s, Some RNone)
      | Some g => match cleanup_g g now with
                  | Some o => some_reply (applyf E s o f)
                  | None => (s, Some RNone)
                  end
      end
  | Failover => (mkSt None (s_store s) (s_off s), Some RNone)
  end.

Definition runf_from (E : env) (s : st) (h : list (op * fault)) : st :=
  fold_left (fun s of => fst (stepf E s (fst of) (snd of))) h s.
Definition runf (E : env) (h : list (op * fault)) : st := runf_from E init h.
