(* Executable model of the storage READ path of KafScale/platform (C03, C04).

   Modelled Go functions (pkg/storage):
     log.go      PartitionLog.Read (segment lookup, gap snap-forward, the
                 flush-window / write-buffer fallbacks), sliceCachedSegment,
                 sliceFullSegmentData, segmentRangeForOffset, computeSegmentRange,
                 findIndexEntry (the binary search, with fuel)
     buffer.go   WriteBuffer.RecordsFrom, recordsFromBatches
     index.go    NewIndexBuilder, IndexBuilder.MaybeAdd / Entries
     segment.go  BuildSegment, buildHeader, buildFooter (32 / 16 bytes)
     recordbatch.go NewRecordBatchFromBytes (length check, lastOffsetDelta at 23,
                 message count at 57), PatchRecordBatchBaseOffset
     s3_memory.go MemoryS3Client.DownloadSegment (inclusive range, clipped at the
                 object end, error when start is past the end) - the same
                 semantics as an HTTP Range request against S3.
   and, only as far as the read path needs a reachable state, the locked parts of
   AppendBatch (offset assignment, buffer append), prepareFlush (drain + build),
   and uploadFlush's commit / failure branches.  These are a private minimal
   write-path model; the write path proper is model/Storage.v (C01/C02/C05/C06).

   [read] is the tree WITH fixes/C03-flush-window-read-order.patch,
   fixes/C04-find-index-entry-floor.patch and fixes/C04-never-cut-inside-index-block.patch
   applied; [read_floor] is the tree without the last one, [read_head] the tree before
   all three (see [variant]).

   What uploadFlush does with the in-flight batches when an upload fails differs
   between HEAD (dropped) and fixes/C01-requeue-failed-flush.patch (put back at the
   front of the buffer): [l_requeue] selects it and every theorem is for both.

   Not modelled: int32 wrap-around of positions / message counts (segments are
   < 2 GiB), the S3 semaphore, logging, prefetch goroutines (they only copy S3
   objects into the cache; cache contents = S3 contents is C09), S3 failures on
   committed segments (a failed download is a fetch error, not a wrong answer).
   No proofs in this file. *)
From KS Require Import lib.Base.
Open Scope Z_scope.

(* ---------- byte-slice helpers ---------- *)
Definition ztake {A} (n : Z) (l : list A) : list A := firstn (Z.to_nat n) l.
Definition zdrop {A} (n : Z) (l : list A) : list A := skipn (Z.to_nat n) l.
(* Go's data[a:b] *)
Definition slice {A} (l : list A) (a b : Z) : list A := ztake (b - a) (zdrop a l).

Definition is_nil {A} (l : list A) : bool := match l with [] => true | _ => false end.

(* big-endian integers *)
Definition be_dec (l : bytes) : Z := fold_left (fun a x => a * 256 + x) l 0.
Fixpoint be_enc (n : nat) (v : Z) : bytes :=
  match n with O => [] | S n' => be_enc n' (v / 256) ++ [v mod 256] end.
Definition u16 (v : Z) := be_enc 2 (v mod 65536).
Definition u32 (v : Z) := be_enc 4 (v mod 4294967296).
Definition u64 (v : Z) := be_enc 8 (v mod 18446744073709551616).
Definition get_i32 (l : bytes) (off : Z) : Z :=
  let u := be_dec (slice l off (off + 4)) in
  if u <? 2147483648 then u else u - 4294967296.

(* ---------- record batches ---------- *)
Record batch := mkBatch { b_base : Z; b_lod : Z; b_count : Z; b_bytes : bytes }.
Definition b_last (b : batch) : Z := b_base b + b_lod b.

Definition batch_header_min : Z := 61.        (* recordBatchHeaderMinSize *)
Definition payload_lod (p : bytes) : Z := get_i32 p 23.
Definition payload_count (p : bytes) : Z := get_i32 p 57.
(* PatchRecordBatchBaseOffset *)
Definition patch_base (base : Z) (p : bytes) : bytes := u64 base ++ zdrop 8 p.

Definition body_of (bs : list batch) : bytes := concat (map b_bytes bs).

(* ---------- sparse index (index.go) ---------- *)
Record ientry := mkEntry { ie_off : Z; ie_pos : Z }.

Definition norm_interval (i : Z) : Z := if i <=? 0 then 1 else i.

(* IndexBuilder.MaybeAdd folded over the batches of one segment.  [first] = no
   entry yet; [since] = sinceLast; [pos] = headerLen + body.Len(). *)
Fixpoint build_index (interval since : Z) (first : bool) (pos : Z) (bs : list batch) : list ientry :=
  match bs with
  | [] => []
  | b :: bs' =>
      let add := first || (interval <=? since) in
      let since1 := (if add then 0 else since) + b_count b in
      let rest := build_index interval since1 false (pos + zlen (b_bytes b)) bs' in
      if add then mkEntry (b_base b) pos :: rest else rest
  end.

(* ---------- segment layout (segment.go) ---------- *)
Definition segment_header_len : Z := 32.
Definition segment_footer_len : Z := 16.
Definition magic_kafs : bytes := [75; 65; 70; 83].
Definition magic_end : bytes := [69; 78; 68; 33].

Definition build_header (base count created_ms : Z) : bytes :=
  magic_kafs ++ u16 1 ++ u16 0 ++ u64 base ++ u32 count ++ u64 created_ms ++ u32 0.
Definition build_footer (crc last : Z) : bytes := u32 crc ++ u64 last ++ magic_end.

Record segment := mkSeg {
  s_base : Z; s_last : Z; s_size : Z;      (* segmentRange *)
  s_entries : list ientry;                 (* l.indexEntries[base] *)
  s_data : bytes;                          (* the .kfs object in S3 (= the cache entry when cached) *)
  s_batches : list batch                   (* ghost: what went in *)
}.

Definition sum_counts (bs : list batch) : Z := fold_right (fun b a => b_count b + a) 0 bs.
Definition first_base (bs : list batch) : Z := match bs with [] => 0 | b :: _ => b_base b end.
Definition last_last (bs : list batch) : Z := b_last (last bs (mkBatch 0 0 0 [])).

(* BuildSegment + the segmentRange uploadFlush registers.  [created_ms] and [crc] are
   the timestamp and CRC32C BuildSegment put into header and footer (not modelled:
   any values). *)
Definition build_segment (interval created_ms crc : Z) (bs : list batch) : segment :=
  let data := build_header (first_base bs) (sum_counts bs) created_ms ++ body_of bs
              ++ build_footer crc (last_last bs) in
  mkSeg (first_base bs) (last_last bs) (zlen data)
        (build_index (norm_interval interval) 0 true segment_header_len bs) data bs.

(* ---------- partition log state ---------- *)
Record plog := mkLog {
  l_interval : Z;                          (* cfg.Segment.IndexIntervalMessages *)
  l_requeue : bool;                        (* failed flush: re-queue (C01 fix) or drop (HEAD) *)
  l_next : Z;                              (* nextOffset *)
  l_segs : list segment;                   (* l.segments + l.indexEntries *)
  l_inflight : option segment;             (* l.flushing / l.flushingBatches + the artifact *)
  l_buffer : list batch                    (* l.buffer.batches *)
}.

Definition init_log (interval : Z) (requeue : bool) (start : Z) : plog :=
  mkLog interval requeue start [] None [].

Definition flushing_batches (l : plog) : list batch :=
  match l_inflight l with Some s => s_batches s | None => [] end.

(* every batch the log currently holds, in offset order *)
Definition live (l : plog) : list batch :=
  concat (map s_batches (l_segs l)) ++ flushing_batches l ++ l_buffer l.

Inductive op :=
| OAppend (payload : bytes)          (* NewRecordBatchFromBytes + AppendBatch's locked part *)
| OPrepare (created_ms crc : Z)      (* prepareFlush (from Flush or from AppendBatch's threshold) *)
| OCommit                            (* uploadFlush: both uploads succeeded, segment registered *)
| OFail.                             (* uploadFlush: an upload failed *)

Definition step (l : plog) (o : op) : plog :=
  match o with
  | OAppend p =>
      if zlen p <? batch_header_min then l
      else
        let b := mkBatch (l_next l) (payload_lod p) (payload_count p) (patch_base (l_next l) p) in
        mkLog (l_interval l) (l_requeue l) (l_next l + payload_lod p + 1) (l_segs l) (l_inflight l)
              (l_buffer l ++ [b])
  | OPrepare created crc =>
      match l_inflight l, l_buffer l with
      | None, _ :: _ =>
          mkLog (l_interval l) (l_requeue l) (l_next l) (l_segs l)
                (Some (build_segment (l_interval l) created crc (l_buffer l))) []
      | _, _ => l
      end
  | OCommit =>
      match l_inflight l with
      | Some s => mkLog (l_interval l) (l_requeue l) (l_next l) (l_segs l ++ [s]) None (l_buffer l)
      | None => l
      end
  | OFail =>
      match l_inflight l with
      | Some s => mkLog (l_interval l) (l_requeue l) (l_next l) (l_segs l) None
                        (if l_requeue l then s_batches s ++ l_buffer l else l_buffer l)
      | None => l
      end
  end.

Definition run (l : plog) (ops : list op) : plog := fold_left step ops l.

(* ---------- findIndexEntry ---------- *)
Definition entry0 : ientry := mkEntry 0 0.
Definition nth_entry (es : list ientry) (i : Z) : ientry := nth (Z.to_nat i) es entry0.

(* the for-loop; [fixed] = true: `mid+1 < len(entries)`, false: HEAD's `mid+1 <= hi` *)
Fixpoint bsearch (fixed : bool) (fuel : nat) (es : list ientry) (o lo hi : Z) : ientry :=
  match fuel with
  | O => nth_entry es 0
  | S fuel' =>
      if hi <? lo then nth_entry es 0
      else
        let mid := (lo + hi) / 2 in
        let em := ie_off (nth_entry es mid) in
        if em =? o then nth_entry es mid
        else if em <? o then
          if (if fixed then mid + 1 <? zlen es else mid + 1 <=? hi)
             && (o <? ie_off (nth_entry es (mid + 1)))
          then nth_entry es mid
          else bsearch fixed fuel' es o (mid + 1) hi
        else bsearch fixed fuel' es o lo (mid - 1)
  end.

Definition find_entry_gen (fixed : bool) (es : list ientry) (o : Z) : ientry :=
  match es with
  | [] => entry0
  | e0 :: _ =>
      let hi := zlen es - 1 in
      if o <=? ie_off e0 then e0
      else if ie_off (nth_entry es hi) <=? o then nth_entry es hi
      else bsearch fixed (S (length es)) es o 0 hi
  end.
Definition find_entry := find_entry_gen true.
Definition find_entry_head := find_entry_gen false.

(* ---------- computeSegmentRange / sliceCachedSegment / sliceFullSegmentData ---------- *)
(* Three versions of the read path are modelled:
     VHead  - the tree before any C03/C04 fix (findIndexEntry with `mid+1 <= hi`);
     VFloor - with fixes/C04-find-index-entry-floor.patch;
     VFull  - additionally fixes/C04-never-cut-inside-index-block.patch: when the index
              entry is not exactly at the offset, computeSegmentRange does not cut the
              range before the position of the first index entry beyond the offset. *)
Inductive variant := VHead | VFloor | VFull.
Definition v_floor (v : variant) : bool := match v with VHead => false | _ => true end.
Definition v_ext (v : variant) : bool := match v with VFull => true | _ => false end.

(* indexBlockEnd *)
Fixpoint block_end (es : list ientry) (o limit : Z) : Z :=
  match es with
  | [] => limit
  | e :: r => if o <? ie_off e then ie_pos e else block_end r o limit
  end.

Definition compute_range_gen (fixed : variant) (size : Z) (es : list ientry) (o max : Z) : Z * Z :=
  if size <=? segment_footer_len then (-1, -1)
  else
    let entry := find_entry_gen (v_floor fixed) es o in
    let start := ie_pos entry in
    let end_limit := size - segment_footer_len in
    if end_limit <=? start then (-1, -1)
    else
      let e := end_limit - 1 in
      (start,
       if 0 <? max then
         let max_end := start + max - 1 in
         let max_end := if v_ext fixed && (ie_off entry <? o)
                        then Z.max max_end (block_end es o end_limit - 1) else max_end in
         Z.min e max_end
       else e).

Definition slice_full (data : bytes) (max : Z) : bytes :=
  let len := zlen data in
  let start := Z.min segment_header_len len in
  let e := if segment_footer_len <? len then len - segment_footer_len else len in
  let e := if e <? start then len else e in
  let body := slice data start e in
  if (0 <? max) && (max <? zlen body) then ztake max body else body.

Inductive rres := ROk (d : bytes) | ROutOfRange | RS3Err | RPanic.

Definition slice_cached_gen (fixed : variant) (s : segment) (o max : Z) (data : bytes) : rres :=
  if is_nil (s_entries s) then ROk (slice_full data max)
  else
    let '(st, en) := compute_range_gen fixed (s_size s) (s_entries s) o max in
    if (st <? 0) || (en <? st) then ROutOfRange
    else
      let en := if zlen data <=? en then zlen data - 1 else en in
      if zlen data <? st then RPanic           (* data[start:end+1] out of range *)
      else ROk (slice data st (en + 1)).

(* segmentRangeForOffset *)
Definition range_for_gen (fixed : variant) (s : segment) (o max : Z) : option (Z * Z) :=
  if (s_size s <=? 0) || is_nil (s_entries s) then None
  else
    let '(st, en) := compute_range_gen fixed (s_size s) (s_entries s) o max in
    if (st <? 0) || (en <? st) then None else Some (st, en).

(* DownloadSegment(key, rng) on an object with contents [data] *)
Definition s3_download (data : bytes) (rng : option (Z * Z)) : option bytes :=
  match rng with
  | None => Some data
  | Some (st, en) =>
      let st' := Z.max 0 st in
      let en' := if zlen data <=? en then zlen data - 1 else en in
      if (en' <? st') || (zlen data <=? st') then None
      else Some (slice data st' (en' + 1))
  end.

(* the three ways Read gets the bytes of a flushed segment *)
Definition read_cached_gen fixed (s : segment) (o max : Z) : rres :=
  slice_cached_gen fixed s o max (s_data s).
Definition read_range_gen fixed (s : segment) (o max : Z) : option rres :=
  match range_for_gen fixed s o max with
  | Some rng => Some (match s3_download (s_data s) (Some rng) with Some d => ROk d | None => RS3Err end)
  | None => None
  end.
Definition read_full_gen fixed (s : segment) (o max : Z) : rres :=
  match s3_download (s_data s) None with
  | Some d => slice_cached_gen fixed s o max d
  | None => RS3Err
  end.
Definition read_uncached_gen fixed (s : segment) (o max : Z) : rres :=
  match read_range_gen fixed s o max with Some r => r | None => read_full_gen fixed s o max end.

(* which path an uncached read takes: 1 = range read, 2 = full download *)
Definition uncached_path (s : segment) (o max : Z) : Z :=
  match range_for_gen VFull s o max with Some _ => 1 | None => 2 end.

(* ---------- segment lookup with gap snap-forward ---------- *)
Fixpoint find_segment (segs : list segment) (o : Z) : option (segment * Z) :=
  match segs with
  | [] => None
  | s :: r =>
      if (s_base s <=? o) && (o <=? s_last s) then Some (s, o)
      else if o <? s_base s then Some (s, s_base s)
      else find_segment r o
  end.

(* ---------- recordsFromBatches ---------- *)
Fixpoint records_from_aux (bs : list batch) (o max : Z) (out : bytes) : bytes :=
  match bs with
  | [] => out
  | b :: r =>
      if b_last b <? o then records_from_aux r o max out
      else if (0 <? zlen out) && ((max <=? 0) || (max <? zlen out + zlen (b_bytes b))) then out
      else records_from_aux r o max (out ++ b_bytes b)
  end.
Definition records_from (bs : list batch) (o max : Z) : bytes := records_from_aux bs o max [].

(* ---------- PartitionLog.Read ---------- *)
(* [cached]: the segment cache is enabled and holds the segment.
   [flush_first]: true = fixed order (in-flight batches, then buffer); false = HEAD *)
Definition read_gen (fixed : variant) (flush_first : bool) (l : plog) (cached : bool) (o max : Z) : rres :=
  match find_segment (l_segs l) o with
  | Some (s, o') => if cached then read_cached_gen fixed s o' max else read_uncached_gen fixed s o' max
  | None =>
      let fb := records_from (flushing_batches l) o max in
      let bb := records_from (l_buffer l) o max in
      let body := if flush_first then (if is_nil fb then bb else fb)
                  else (if is_nil bb then fb else bb) in
      if is_nil body then ROutOfRange else ROk body
  end.

Definition read := read_gen VFull true.
Definition read_floor := read_gen VFloor true.       (* without the cap extension *)
Definition read_head := read_gen VHead false.        (* the unpatched tree *)
Definition read_cached := read_cached_gen VFull.
Definition read_uncached := read_uncached_gen VFull.
Definition read_range := read_range_gen VFull.
Definition read_full := read_full_gen VFull.
Definition compute_range := compute_range_gen VFull.

(* ---------- fetch slice of handleFetch ---------- *)
(* [hw] = the watermark handleFetch bounds reads with (metadata store next offset,
   raised to BufferedHighWatermark when flushOnAck is off). *)
Inductive fres := FOffsetOutOfRange | FEmpty | FRecords (d : bytes) | FBackpressure.
Definition fetch_gen (v : variant) (l : plog) (cached : bool) (hw o max : Z) : fres :=
  if hw <? o then FOffsetOutOfRange
  else if o =? hw then FEmpty
  else match read_gen v true l cached o max with
       | ROk d => FRecords d
       | ROutOfRange => FOffsetOutOfRange
       | _ => FBackpressure
       end.
Definition fetch := fetch_gen VFull.

(* ---------- vocabulary of the property statements (no proofs here) ---------- *)
(* appended payloads the theorems range over: what NewRecordBatchFromBytes accepts,
   with a non-negative lastOffsetDelta (negative deltas are C02's finding) *)
Definition valid_op (o : op) : Prop :=
  match o with OAppend p => batch_header_min <= zlen p -> 0 <= payload_lod p | _ => True end.

(* [d] is a non-empty prefix of the bytes of the batches [rest], which are a suffix of
   [bs], and every batch of [bs] before that suffix ends below [o]: the run starts at
   a batch boundary at or before the batch holding o (or at the first batch after o
   when no batch holds o) *)
Definition is_run (bs : list batch) (o : Z) (d : bytes) : Prop :=
  exists pre rest n, bs = pre ++ rest /\ Forall (fun b => b_last b < o) pre /\
    d = ztake n (body_of rest) /\ d <> [].

(* ... and [d] reaches past the start of the first batch ending at or after [o] *)
Definition progress_run (bs : list batch) (o : Z) (d : bytes) : Prop :=
  exists pre mid rest n, bs = pre ++ mid ++ rest /\ Forall (fun b => b_last b < o) (pre ++ mid) /\
    (exists b r, rest = b :: r /\ o <= b_last b) /\
    d = ztake n (body_of (mid ++ rest)) /\ zlen (body_of mid) < zlen d.

(* the leading batches that end below o *)
Fixpoint lead (o : Z) (bs : list batch) : list batch :=
  match bs with [] => [] | b :: r => if b_last b <? o then b :: lead o r else [] end.

(* bytes between the position of the index entry Read starts from and the start of
   the batch holding the (snapped) offset; 0 for reads served from memory *)
Definition entry_distance (l : plog) (o : Z) : Z :=
  match find_segment (l_segs l) o with
  | Some (s, o') => segment_header_len + zlen (body_of (lead o' (s_batches s)))
                    - ie_pos (find_entry (s_entries s) o')
  | None => 0
  end.

(* decidable form of [progress_run] for the refutation witness *)
Fixpoint count_lt (o : Z) (bs : list batch) : nat :=
  match bs with [] => O | b :: r => if b_last b <? o then S (count_lt o r) else O end.
Definition progress_b (bs : list batch) (o : Z) (d : bytes) : bool :=
  let idx := count_lt o bs in
  existsb (fun i0 => bytes_eqb d (ztake (zlen d) (body_of (skipn i0 bs)))
                     && (zlen (body_of (firstn (idx - i0) (skipn i0 bs))) <? zlen d))
          (seq 0 (S idx)).
