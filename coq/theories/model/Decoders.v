(* Executable model of the segment writer and of every segment decoder.  No proofs.

   pkg/storage/segment.go        BuildSegment, buildHeader, buildFooter      [build_segment]
   pkg/storage/index.go          IndexBuilder.MaybeAdd/BuildBytes            [index_entries, index_bytes]
                                 parseIndexMetadata/ParseIndex               [parse_index_storage]
   addons/processors/iceberg-processor/internal/decoder/decoder.go
        decodeSegment, decodeRecordBatches, decodeBatchRecords, decodeRecord,
        readNullableBytes, readVarint, decodeZigZag                          [decode_segment (cfg_iceberg ..)]
        parseIndex                                                           [parse_index_iceberg]
   addons/processors/sql-processor/internal/decoder/decoder.go
        the same functions (textual copies; the differences are the varint readers:
        int32 readVarint/zigZagDecode for lengths, counts and the offset delta)  [decode_segment (cfg_sql ..)]
        parseIndex                                                           [parse_index_sql]
   addons/processors/skeleton/internal/decoder/decoder.go   noopDecoder.Decode  [decode_skeleton]
   pkg/storage/recovery_exact.go  collectRecoverableBatches,
        truncateRecordBatchToTimestamp, scanRecord, readVarint               [pitr_collect, pitr_scan_records]
   pkg/storage/recordbatch.go     NewRecordBatchFromBytes (copy of the bytes)

   Contract of the PITR scanner (collectRecoverableBatches, [pitr_collect]), as coded:
   frames are walked in order; EVERY length test precedes any field access (body < 12 ->
   stop; batchLength <= 0 -> stop; frame beyond the body -> error; frame < 61 bytes ->
   error "record batch too small"; only then are the timestamps read). Per frame:
   maxTimestamp <= cutoff -> kept whole, continue; firstTimestamp > cutoff -> stop;
   otherwise records are scanned in order and the prefix before the first record with
   timestamp > cutoff is kept (0 kept -> stop with nothing; all kept -> whole batch, stop;
   else the batch is rewritten: batchLength, lastOffsetDelta, maxTimestamp, numRecords, CRC)
   and the scan stops. For batches with consistent headers (record 0 at firstTimestamp,
   maxTimestamp = true maximum) the result is therefore: the records of the segment in scan
   order up to, not including, the first record whose timestamp is > cutoff
   (harness oracle [pitr-cutoff], cut-offs on every batch/record boundary -1/0/+1 ms).

   The model is of the code WITH the proposed fixes (fixes/C34-*.patch, fixes/C07-*.patch);
   the pre-fix behaviour is kept behind the flags of [dcfg]/[c_chk] so that the defects
   stay stated and refuted in props/C34.v and props/C07.v:
     c_chk = false    no "length/count <= remaining input" test before make()
     cfg_sql_orig     32-bit timestamp delta, zig-zag decode with an arithmetic shift

   Outcomes: [res derr A] (lib/Outcome.v) - every make() in the Go code is a [make elem n]
   here (elem = sizeof of the slice element on amd64: 1 byte, Header 40, Record 112,
   IndexEntry 16, *IndexEntry 8), so a negative/huge size is [Panic] and every requested
   size is logged.  Not modelled: growth of append() in decodeRecordBatches (amortised,
   bounded by the records already decoded), Go-heap bookkeeping.
   Loops over counts read from the input use fuel = remaining input length + 1; running
   out of fuel is [Err EFuel] and proofs/DecodersProofs.v shows it never happens.
   int64 additions wrap ([wrap_s 64]). *)
From KS Require Import lib.Base lib.Varint lib.Outcome lib.Kafka.
Open Scope Z_scope.

Inductive derr : Type :=
| ESmall        (* "segment too small" *)
| EMagic        (* "invalid segment magic" / "invalid index magic" *)
| EBatchSmall   (* "record batch too small" *)
| ECompressed   (* compressed batch *)
| ERecCount     (* record count exceeds batch payload (fix) *)
| ERecLen       (* "invalid record length" *)
| EEof          (* io.EOF / io.ErrUnexpectedEOF *)
| EVarint       (* varint overflow / too long *)
| EHdrCount     (* invalid header count (fix) *)
| EBounds       (* PITR: batch or record exceeds bounds; index entry out of bounds *)
| EIndex        (* index: too small / version / count *)
| ENoBatches    (* BuildSegment: no batches / empty payload *)
| ELastDelta    (* NewRecordBatchFromBytes: negative lastOffsetDelta *)
| EFuel.        (* model artefact, proven unreachable *)

Definition derr_eqb (a b : derr) : bool :=
  match a, b with
  | ESmall, ESmall | EMagic, EMagic | EBatchSmall, EBatchSmall | ECompressed, ECompressed
  | ERecCount, ERecCount | ERecLen, ERecLen | EEof, EEof | EVarint, EVarint
  | EHdrCount, EHdrCount | EBounds, EBounds | EIndex, EIndex | ENoBatches, ENoBatches
  | ELastDelta, ELastDelta | EFuel, EFuel => true
  | _, _ => false
  end.

Definition M := res derr.

Definition take (n : Z) (bs : bytes) : bytes := firstn (Z.to_nat n) bs.
Definition drop (n : Z) (bs : bytes) : bytes := skipn (Z.to_nat n) bs.

Definition magic_kafs : bytes := [75; 65; 70; 83].
Definition magic_end : bytes := [69; 78; 68; 33].
Definition magic_idx : bytes := [73; 68; 88; 0].

(* decoded record as the processors see it *)
Record drec := mkDRec {
  d_off : Z; d_ts : Z; d_key : option bytes; d_val : option bytes;
  d_hdrs : list (bytes * option bytes)
}.

(* which varint readers a decoder uses, and whether it has the bounds checks *)
Record dcfg := mkCfg {
  c_int : bytes -> vres;      (* lengths, counts, offset delta *)
  c_ts : bytes -> vres;       (* timestamp delta *)
  c_chk : bool
}.
Definition cfg_iceberg (chk : bool) : dcfg := mkCfg rv_ice rv_ice chk.
Definition cfg_sql (chk : bool) : dcfg := mkCfg rv_sql32 rv_xor64 chk.
Definition cfg_sql_orig (chk : bool) : dcfg := mkCfg rv_sql32_orig rv_sql32_orig chk.

Definition rd (r : bytes -> vres) (bs : bytes) : M (Z * bytes) :=
  match r bs with
  | VOk v rest => ret (v, rest)
  | VEof => fail EEof
  | VOverflow => fail EVarint
  end.

Section Decoder.
  Variable cfg : dcfg.

  (* readNullableBytes *)
  Definition read_nbytes (len : Z) (bs : bytes) : M (option bytes * bytes) :=
    if len <? 0 then ret (None, bs)
    else if len =? 0 then ret (Some [], bs)
    else if c_chk cfg && (zlen bs <? len) then fail EEof
    else do _ <- make 1 len;
         if zlen bs <? len then fail EEof
         else ret (Some (take len bs), drop len bs).

  Definition key_string (o : option bytes) : bytes := match o with Some b => b | None => [] end.

  Fixpoint hdr_loop (fuel : nat) (n : Z) (bs : bytes) : M (list (bytes * option bytes)) :=
    if n <=? 0 then ret []
    else match fuel with
         | O => fail EFuel
         | S f =>
             do (kl, b1) <- rd (c_int cfg) bs;
             do (k, b2) <- read_nbytes kl b1;
             do (vl, b3) <- rd (c_int cfg) b2;
             do (v, b4) <- read_nbytes vl b3;
             do tl <- hdr_loop f (n - 1) b4;
             ret ((key_string k, v) :: tl)
         end.

  (* decodeRecord: returns the record and the reader's remaining bytes *)
  Definition decode_record (base base_ts : Z) (bs : bytes) : M (drec * bytes) :=
    do (len, r1) <- rd (c_int cfg) bs;
    if len <? 0 then fail ERecLen
    else if c_chk cfg && (zlen r1 <? len) then fail EEof
    else
      do _ <- make 1 len;
      if zlen r1 <? len then fail EEof
      else
        let rest := drop len r1 in
        match take len r1 with
        | [] => fail EEof
        | _attr :: b0 =>
            do (ts, b1) <- rd (c_ts cfg) b0;
            do (od, b2) <- rd (c_int cfg) b1;
            do (kl, b3) <- rd (c_int cfg) b2;
            do (key, b4) <- read_nbytes kl b3;
            do (vl, b5) <- rd (c_int cfg) b4;
            do (val, b6) <- read_nbytes vl b5;
            do (hc, b7) <- rd (c_int cfg) b6;
            if c_chk cfg && ((hc <? 0) || (zlen b7 <? hc)) then fail EHdrCount
            else
              do _ <- make 40 hc;
              do hs <- hdr_loop (S (length b7)) hc b7;
              ret (mkDRec (wrap_s 64 (base + od)) (wrap_s 64 (base_ts + ts)) key val hs, rest)
        end.

  Fixpoint rec_loop (fuel : nat) (n : Z) (base base_ts : Z) (bs : bytes) : M (list drec) :=
    if n <=? 0 then ret []
    else match fuel with
         | O => fail EFuel
         | S f =>
             do (r, rest) <- decode_record base base_ts bs;
             do tl <- rec_loop f (n - 1) base base_ts rest;
             ret (r :: tl)
         end.

  (* decodeBatchRecords *)
  Definition decode_batch (batch : bytes) : M (list drec) :=
    if zlen batch <? 61 then fail EBatchSmall
    else if negb (Z.land (be_u (slice batch 21 23)) 7 =? 0) then fail ECompressed
    else
      let base := to_signed 64 (be_u (slice batch 0 8)) in
      let first_ts := to_signed 64 (be_u (slice batch 27 35)) in
      let count := to_signed 32 (be_u (slice batch 57 61)) in
      if count <=? 0 then ret []
      else
        let data := skipn 61 batch in
        if c_chk cfg && (zlen data <? count) then fail ERecCount
        else do _ <- make 112 count;
             rec_loop (S (length data)) count base first_ts data.

  (* decodeRecordBatches *)
  Fixpoint batches_loop (fuel : nat) (data : bytes) : M (list drec) :=
    match fuel with
    | O => fail EFuel
    | S f =>
        if zlen data <? 12 then ret []
        else
          let blen := be_u (slice data 8 12) in
          if blen <=? 0 then ret []
          else if zlen data <? 12 + blen then ret []
          else do rs <- decode_batch (take (12 + blen) data);
               do tl <- batches_loop f (drop (12 + blen) data);
               ret (rs ++ tl)
    end.

  (* decodeSegment *)
  Definition decode_segment (seg : bytes) : M (list drec) :=
    if zlen seg <? 48 then fail ESmall
    else if negb (bytes_eqb (firstn 4 seg) magic_kafs) then fail EMagic
    else let body := take (zlen seg - 48) (skipn 32 seg) in
         batches_loop (S (length body)) body.
End Decoder.

Definition decode_iceberg : bytes -> M (list drec) := decode_segment (cfg_iceberg true).
Definition decode_sql : bytes -> M (list drec) := decode_segment (cfg_sql true).
Definition decode_iceberg_orig : bytes -> M (list drec) := decode_segment (cfg_iceberg false).
Definition decode_sql_orig : bytes -> M (list drec) := decode_segment (cfg_sql_orig false).

(* skeleton: noopDecoder.Decode returns (nil, nil) without looking at anything *)
Definition decode_skeleton (seg : bytes) : M (list drec) := ret [].

(* ---------- index parsers ---------- *)
Fixpoint idx_entries (n : nat) (bs : bytes) : list (Z * Z) :=
  match n with
  | O => []
  | S k => (to_signed 64 (be_u (firstn 8 bs)), to_signed 32 (be_u (slice bs 8 12))) :: idx_entries k (skipn 12 bs)
  end.

(* binary.Read past the end fails with EOF: entries are read while 12 bytes remain *)
Fixpoint idx_read (fuel : nat) (n : Z) (bs : bytes) : M (list (Z * Z)) :=
  if n <=? 0 then ret []
  else match fuel with
       | O => fail EFuel
       | S f =>
           if zlen bs <? 12 then fail EEof
           else do tl <- idx_read f (n - 1) (skipn 12 bs);
                ret ((to_signed 64 (be_u (firstn 8 bs)), to_signed 32 (be_u (slice bs 8 12))) :: tl)
       end.

Definition idx_header_ok (data : bytes) : M Z :=
  if zlen data <? 16 then fail EIndex
  else if negb (bytes_eqb (firstn 4 data) magic_idx) then fail EMagic
  else if negb (be_u (slice data 4 6) =? 1) then fail EIndex
  else ret (to_signed 32 (be_u (slice data 6 10))).

(* pkg/storage parseIndexMetadata: count < 0 and count*12 > remaining are errors;
   make([]*IndexEntry, count) (8 bytes each) then one 16-byte IndexEntry per entry *)
Definition parse_index_storage (data : bytes) : M (list (Z * Z)) :=
  do count <- idx_header_ok data;
  if count <? 0 then fail EIndex
  else if zlen data - 16 <? count * 12 then fail EBounds
  else do _ <- make 8 count;
       idx_read (S (length data)) count (skipn 16 data).

(* Iceberg parseIndex: chk = the added count test *)
Definition parse_index_iceberg (chk : bool) (data : bytes) : M (list (Z * Z)) :=
  do count <- idx_header_ok data;
  if chk && ((count <? 0) || (zlen data - 16 <? count * 12)) then fail EIndex
  else do _ <- make 16 count;
       idx_read (S (length data)) count (skipn 16 data).

(* SQL parseIndex: no version check, count read as uint32 *)
Fixpoint idx_read_sql (fuel : nat) (n : Z) (bs : bytes) : M (list (Z * Z)) :=
  if n <=? 0 then ret []
  else match fuel with
       | O => fail EFuel
       | S f =>
           if zlen bs <? 12 then fail EBounds
           else do tl <- idx_read_sql f (n - 1) (skipn 12 bs);
                ret ((to_signed 64 (be_u (firstn 8 bs)), to_signed 32 (be_u (slice bs 8 12))) :: tl)
       end.

Definition parse_index_sql (chk : bool) (data : bytes) : M (list (Z * Z)) :=
  if zlen data <? 16 then fail EIndex
  else if negb (bytes_eqb (firstn 4 data) magic_idx) then fail EMagic
  else
    let count := be_u (slice data 6 10) in
    if chk && ((zlen data - 16) / 12 <? count) then fail EBounds
    else do _ <- make 16 count;
         idx_read_sql (S (length data)) count (skipn 16 data).

(* ---------- PITR scanner ---------- *)
(* scanRecord: (timestampDelta, int32(offsetDelta), remaining reader) *)
Definition scan_record (bs : bytes) : M (Z * Z * bytes) :=
  do (len, r1) <- rd rv_xor64 bs;
  if len <? 0 then fail ERecLen
  else if zlen r1 <? len then fail EBounds
  else
    do _ <- make 1 len;
    match take len r1 with
    | [] => fail EEof
    | _attr :: b0 =>
        do (ts, b1) <- rd rv_xor64 b0;
        do (od, _) <- rd rv_xor64 b1;
        ret (ts, wrap_s 32 od, drop len r1)
    end.

(* the record scan alone: every record's (timestampDelta, offsetDelta) *)
Fixpoint pitr_scan_records (fuel : nat) (n : Z) (bs : bytes) : M (list (Z * Z)) :=
  if n <=? 0 then ret []
  else match fuel with
       | O => fail EFuel
       | S f =>
           do (ts, od, rest) <- scan_record bs;
           do tl <- pitr_scan_records f (n - 1) rest;
           ret ((ts, od) :: tl)
       end.

Definition patch (bs : bytes) (off : nat) (nb : bytes) : bytes :=
  firstn off bs ++ nb ++ skipn (off + length nb) bs.

Section Pitr.
  Variable crc : bytes -> Z.

  Record scan_st := mkScan { s_kept : Z; s_kept_bytes : Z; s_lod : Z; s_max_ts : Z }.

  (* the for-loop of truncateRecordBatchToTimestamp *)
  Fixpoint trunc_loop (fuel : nat) (n : Z) (first_ts cutoff total : Z) (bs : bytes) (st : scan_st) : M scan_st :=
    if n <=? 0 then ret st
    else match fuel with
         | O => fail EFuel
         | S f =>
             do (tsd, od, rest) <- scan_record bs;
             let ts := wrap_s 64 (first_ts + tsd) in
             if cutoff <? ts then ret st
             else trunc_loop f (n - 1) first_ts cutoff total rest
                    (mkScan (s_kept st + 1) (total - zlen rest) od (Z.max (s_max_ts st) ts))
         end.

  (* NewRecordBatchFromBytes on a batch of >= 61 bytes: rejects a negative lastOffsetDelta,
     otherwise copies the bytes ([sz] = len(data); the in-place PutUint32/64 of the
     truncation path never change the length) *)
  Definition new_record_batch (data : bytes) (sz : Z) : M bytes :=
    if to_signed 32 (be_u (slice data 23 27)) <? 0 then fail ELastDelta
    else do _ <- make 1 sz; ret data.

  (* truncateRecordBatchToTimestamp: (kept batch bytes if keep, done) *)
  Definition pitr_truncate (batch : bytes) (cutoff : Z) : M (option bytes * bool) :=
    if zlen batch <? 61 then fail EBatchSmall
    else
      let first_ts := to_signed 64 (be_u (slice batch 27 35)) in
      let max_ts := to_signed 64 (be_u (slice batch 35 43)) in
      if max_ts <=? cutoff then (do b <- new_record_batch batch (zlen batch); ret (Some b, false))
      else if cutoff <? first_ts then ret (None, true)
      else if negb (Z.land (be_u (slice batch 21 23)) 7 =? 0) then fail ECompressed
      else
        let count := to_signed 32 (be_u (slice batch 57 61)) in
        let data := skipn 61 batch in
        do st <- trunc_loop (S (length data)) count first_ts cutoff (zlen data) data (mkScan 0 0 0 first_ts);
        if s_kept st =? 0 then ret (None, true)
        else if s_kept st =? count then (do b <- new_record_batch batch (zlen batch); ret (Some b, true))
        else
          let t0 := take (61 + s_kept_bytes st) batch in
          do _ <- make 1 (zlen t0);
          let t1 := patch t0 8 (be_put 4 (zlen t0 - 12)) in
          let t2 := patch t1 23 (be_put 4 (s_lod st)) in
          let t3 := patch t2 35 (be_put 8 (s_max_ts st)) in
          let t4 := patch t3 57 (be_put 4 (s_kept st)) in
          let t5 := patch t4 17 (be_put 4 (crc (skipn 21 t4))) in
          do b <- new_record_batch t5 (zlen t0);
          ret (Some b, true).

  (* collectRecoverableBatches: the bytes of the kept batches *)
  Fixpoint pitr_loop (fuel : nat) (body : bytes) (cutoff : Z) : M (list bytes) :=
    match fuel with
    | O => fail EFuel
    | S f =>
        if zlen body <? 12 then ret []
        else
          let blen := be_u (slice body 8 12) in
          if blen <=? 0 then ret []
          else if zlen body <? 12 + blen then fail EBounds
          else
            do _ <- make 1 (12 + blen);
            do (kept, done) <- pitr_truncate (take (12 + blen) body) cutoff;
            let hd := match kept with Some b => [b] | None => [] end in
            if (done : bool) then ret hd
            else do tl <- pitr_loop f (drop (12 + blen) body) cutoff;
                 ret (hd ++ tl)
    end.

  Definition pitr_collect (seg : bytes) (cutoff : Z) : M (list bytes) :=
    if zlen seg <? 48 then fail ESmall
    else if negb (bytes_eqb (firstn 4 seg) magic_kafs) then fail EMagic
    else let body := take (zlen seg - 48) (skipn 32 seg) in
         pitr_loop (S (length body)) body cutoff.

  (* ---------- writer: BuildSegment ---------- *)
  Record rbatch := mkRBatch { rb_base : Z; rb_lod : Z; rb_count : Z; rb_bytes : bytes }.

  (* NewRecordBatchFromBytes *)
  Definition rbatch_of_bytes (data : bytes) : rbatch :=
    mkRBatch (to_signed 64 (be_u (slice data 0 8))) (to_signed 32 (be_u (slice data 23 27)))
             (to_signed 32 (be_u (slice data 57 61))) data.

  (* IndexBuilder.MaybeAdd folded over the batches: (entries so far reversed, sinceLast, position) *)
  Fixpoint index_entries (interval : Z) (bs : list rbatch) (have : bool) (since pos : Z) : list (Z * Z) :=
    match bs with
    | [] => []
    | b :: bs' =>
        let add := negb have || (interval <=? since) in
        let since1 := if add then 0 else since in
        let tl := index_entries interval bs' true (wrap_s 32 (since1 + rb_count b)) (pos + zlen (rb_bytes b)) in
        if add then (rb_base b, wrap_s 32 pos) :: tl else tl
    end.

  Definition index_bytes (interval : Z) (es : list (Z * Z)) : bytes :=
    magic_idx ++ be_put 2 1 ++ be_put 4 (zlen es) ++ be_put 4 interval ++ be_put 2 0 ++
    concat (map (fun e => be_put 8 (fst e) ++ be_put 4 (snd e)) es).

  Definition seg_header (base count created : Z) : bytes :=
    magic_kafs ++ be_put 2 1 ++ be_put 2 0 ++ be_put 8 base ++ be_put 4 count ++ be_put 8 created ++ be_put 4 0.
  Definition seg_footer (crcv last : Z) : bytes := be_put 4 crcv ++ be_put 8 last ++ magic_end.

  Record artifact := mkArt { a_segment : bytes; a_index : bytes; a_entries : list (Z * Z); a_base : Z; a_last : Z; a_count : Z }.

  Definition build_segment (interval : Z) (bs : list rbatch) (created : Z) : option artifact :=
    match bs with
    | [] => None
    | b0 :: _ =>
        if existsb (fun b => match rb_bytes b with [] => true | _ => false end) bs then None
        else
          let lastb := last bs b0 in
          let last_off := wrap_s 64 (rb_base lastb + rb_lod lastb) in
          let iv := if interval <=? 0 then 1 else interval in
          let body := concat (map rb_bytes bs) in
          let total := wrap_s 32 (fold_left (fun a b => a + rb_count b) bs 0) in
          let es := index_entries iv bs false 0 32 in
          Some (mkArt (seg_header (rb_base b0) total created ++ body ++ seg_footer (crc body) last_off)
                      (index_bytes iv es) es (rb_base b0) last_off total)
    end.
End Pitr.
