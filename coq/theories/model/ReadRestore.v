(* Restart for the read path: getPartitionLog's NewPartitionLog(startOffset = the
   metadata store's next offset) + PartitionLog.RestoreFromS3, as far as Read can
   observe it.

   RestoreFromS3 lists the partition's .kfs objects, reads each footer (last offset),
   sorts by base offset, downloads and parses each .index and registers the segment;
   a .kfs whose .index is missing or corrupt is skipped when its base offset is >= the
   start offset and makes the restore FAIL otherwise; nextOffset becomes
   max(start, last registered offset + 1).  The write buffer and the in-flight
   batches of the old process are gone.

   What S3 holds for a partition in this model: both objects of every committed
   segment (uploadFlush registers a segment only after both uploads succeeded), plus
   possibly one orphan .kfs (or .index) left by a failed flush under the key of the
   first unflushed batch - the next successful flush overwrites it.  A restore that
   succeeds therefore registers exactly the committed segments ([l_segs]); a restore
   that fails produces no log, hence no reads, and is not an event here (the harness
   ends the history there; whether it can fail is C06's question).
   Assumed, and checked by the correspondence on every restored log (SRestart
   compares the registered ranges, sizes and index entries): parseSegmentFooter
   (buildFooter ...) returns the last offset and ParseIndex (IndexBuilder.BuildBytes)
   returns the entries.  No proofs in this file. *)
From KS Require Import lib.Base model.ReadPath.
Open Scope Z_scope.

Definition last_seg_next (segs : list segment) : Z :=
  match segs with [] => 0 | _ => s_last (last segs (mkSeg 0 0 0 [] [] [])) + 1 end.

Definition restore (l : plog) (store_next : Z) : plog :=
  mkLog (l_interval l) (l_requeue l)
        (match l_segs l with [] => store_next | _ => Z.max store_next (last_seg_next (l_segs l)) end)
        (l_segs l) None [].

Inductive xop :=
| XOp (o : op)
| XRestart (store_next : Z).       (* a restart whose RestoreFromS3 succeeded *)

Definition xstep (l : plog) (x : xop) : plog :=
  match x with XOp o => step l o | XRestart sn => restore l sn end.
Definition xrun (l : plog) (xs : list xop) : plog := fold_left xstep xs l.

Definition valid_xop (x : xop) : Prop := match x with XOp o => valid_op o | XRestart _ => True end.

(* ---------- S3 keys and the listing RestoreFromS3 works from ---------- *)
(* segmentPrefix() = path.Join(namespace, topic, "%d" partition) + "/" ;
   segmentKey(base) = path.Join(namespace, topic, "%d" partition, "segment-%020d.kfs").
   Names are taken as already clean path elements (no "/", ".", ".."; C22), base >= 0. *)
From KS Require Import lib.Strings.
Definition part_prefix (ns topic : bytes) (p : Z) : bytes :=
  ns ++ slash :: topic ++ slash :: dec p ++ [slash].
Definition pad20 (d : bytes) : bytes := repeat 48 (20 - length d) ++ d.
Definition seg_key (ns topic : bytes) (p base : Z) : bytes :=
  part_prefix ns topic p ++ (* "segment-" *) [115; 101; 103; 109; 101; 110; 116; 45] ++ pad20 (dec base) ++ [46; 107; 102; 115].

Fixpoint has_prefix (pre k : bytes) : bool :=
  match pre, k with
  | [], _ => true
  | x :: pre', y :: k' => (x =? y) && has_prefix pre' k'
  | _ :: _, [] => false
  end.

(* S3 ListObjects with a prefix, over all the keys of the bucket *)
Definition list_segments (all_keys : list bytes) (prefix : bytes) : list bytes :=
  filter (has_prefix prefix) all_keys.
