(* Model of internal/console/auth.go: authManager (sessions map, ttl, enabled),
   handleLogin, handleLogout, handleSession, requireAuth, hasValidSession,
   sessionToken, validCredentials (as the event's kind), loginRateLimiter.Allow,
   newLoginRateLimiter's nil case.  Time is an input ([EAdvance], a monotonic clock:
   negative amounts are ignored), token generation is a fresh-token oracle (the
   token is part of the login event), the session cookie is the value net/http's
   Request.Cookie hands to the code ([None] = no such cookie).  Every step yields the
   HTTP status.  No proofs here. *)
From KS Require Import lib.Base.
Open Scope Z_scope.

Record config := mkConfig { cf_enabled : bool; cf_ttl : Z; cf_limit : Z; cf_window : Z }.

(* the limiter exists only for limit > 0 and window > 0 (newLoginRateLimiter) *)
Definition limiter_on (c : config) : bool := (cf_limit c >? 0) && (cf_window c >? 0).

Inductive login_kind :=
| LGood (tok : bytes)      (* valid credentials; generateToken returns tok *)
| LBad                     (* well-formed payload, wrong or empty credentials *)
| LMalformed               (* body is not JSON *)
| LWrongMethod.            (* not POST *)

Inductive event :=
| ELogin (ip : bytes) (k : login_kind)
| ELogout (post : bool) (cookie : option bytes)
| ERequest (cookie : option bytes)          (* any endpoint behind requireAuth *)
| ESession (cookie : option bytes)          (* GET /ui/api/auth/session *)
| EAdvance (d : Z).

(* statuses / observable answers *)
Inductive answer :=
| A200                      (* handler ran / login ok / logout ok *)
| A400 | A401 | A405 | A429 | A503
| ASession (enabled authenticated : bool)   (* body of /ui/api/auth/session *)
| ANone.                    (* EAdvance *)

Definition smap := list (bytes * Z).          (* token -> expiry *)
Fixpoint mfind {V} (k : bytes) (m : list (bytes * V)) : option V :=
  match m with
  | [] => None
  | (k', v) :: m' => if bytes_eqb k k' then Some v else mfind k m'
  end.
Fixpoint mremove {V} (k : bytes) (m : list (bytes * V)) : list (bytes * V) :=
  match m with
  | [] => []
  | (k', v) :: m' => if bytes_eqb k k' then mremove k m' else (k', v) :: mremove k m'
  end.
Definition mput {V} (k : bytes) (v : V) (m : list (bytes * V)) : list (bytes * V) := (k, v) :: mremove k m.

Record state := mkState {
  s_now : Z;
  s_sessions : smap;
  s_hits : list (bytes * list Z)              (* client address -> attempt times, oldest first *)
}.
Definition state0 : state := mkState 0 [] [].

Definition hits_of (s : state) (ip : bytes) : list Z :=
  match mfind ip (s_hits s) with Some l => l | None => [] end.

(* loginRateLimiter.Allow: keep the hits after now - window; refuse at limit *)
Definition allow (c : config) (s : state) (ip : bytes) : state * bool :=
  if negb (limiter_on c) then (s, true) else
  let kept := filter (fun ts => ts >? s_now s - cf_window c) (hits_of s ip) in
  if zlen kept >=? cf_limit c
  then (mkState (s_now s) (s_sessions s) (mput ip kept (s_hits s)), false)
  else (mkState (s_now s) (s_sessions s) (mput ip (kept ++ [s_now s]) (s_hits s)), true).

(* sessionToken *)
Definition session_token (cookie : option bytes) : option bytes :=
  match cookie with
  | Some (c :: t) => Some (c :: t)
  | _ => None
  end.

(* hasValidSession: also drops the entry when it has expired *)
Definition has_valid (s : state) (cookie : option bytes) : state * bool :=
  match session_token cookie with
  | None => (s, false)
  | Some tok =>
      match mfind tok (s_sessions s) with
      | None => (s, false)
      | Some exp =>
          if s_now s >? exp
          then (mkState (s_now s) (mremove tok (s_sessions s)) (s_hits s), false)
          else (s, true)
      end
  end.

Definition step (c : config) (s : state) (e : event) : state * answer :=
  match e with
  | EAdvance d => (mkState (s_now s + Z.max 0 d) (s_sessions s) (s_hits s), ANone)
  | ELogin ip k =>
      match k with
      | LWrongMethod => (s, A405)
      | _ =>
        if negb (cf_enabled c) then (s, A503) else
        let '(s1, ok) := allow c s ip in
        if negb ok then (s1, A429) else
        match k with
        | LMalformed => (s1, A400)
        | LBad => (s1, A401)
        | LGood tok => (mkState (s_now s1) (mput tok (s_now s1 + cf_ttl c) (s_sessions s1)) (s_hits s1), A200)
        | LWrongMethod => (s1, A405)
        end
      end
  | ELogout post cookie =>
      if negb post then (s, A405) else
      match session_token cookie with
      | Some tok => (mkState (s_now s) (mremove tok (s_sessions s)) (s_hits s), A200)
      | None => (s, A200)
      end
  | ERequest cookie =>
      if negb (cf_enabled c) then (s, A503) else
      let '(s1, ok) := has_valid s cookie in
      (s1, if ok then A200 else A401)
  | ESession cookie =>
      if negb (cf_enabled c) then (s, ASession false false) else
      let '(s1, ok) := has_valid s cookie in
      (s1, ASession true ok)
  end.

(* a trace entry: the event, its answer, and the clock when it was handled;
   traces are kept NEWEST FIRST *)
Definition entry := (event * answer * Z)%type.

Fixpoint run (c : config) (s : state) (tr : list entry) (evs : list event) : state * list entry :=
  match evs with
  | [] => (s, tr)
  | e :: evs' =>
      let '(s', a) := step c s e in
      run c s' ((e, a, s_now s') :: tr) evs'
  end.

(* would a request with this cookie be let through to the handler now? *)
Definition accepts (c : config) (s : state) (cookie : option bytes) : bool :=
  cf_enabled c && snd (has_valid s cookie).

(* ---------- specification vocabulary over traces ---------- *)
(* the entry is a successful login that issued tok *)
Definition issuesb (en : entry) (tok : bytes) : bool :=
  match en with
  | (ELogin _ (LGood tok'), A200, _) => bytes_eqb tok tok'
  | _ => false
  end.
(* the entry is an effective logout (POST) presenting tok as its session cookie *)
Definition revokesb (en : entry) (tok : bytes) : bool :=
  match en with
  | (ELogout true ck, A200, _) =>
      match session_token ck with Some tok' => bytes_eqb tok tok' | None => false end
  | _ => false
  end.

(* "tok was issued by a successful login, has not been logged out since, and that
   login is at most ttl old at time t": some entry issues tok, no newer entry
   revokes it, t <= its time + ttl.  (Traces are newest first.) *)
Definition live (c : config) (tr : list entry) (tok : bytes) (t : Z) : Prop :=
  exists newer en older,
    tr = newer ++ en :: older /\ issuesb en tok = true /\
    (forall x, In x newer -> revokesb x tok = false) /\ t <= snd en + cf_ttl c.

(* computed form: expiry set by the most recent successful login of tok unless an
   effective logout of tok came later *)
Fixpoint spec_expiry (c : config) (tr : list entry) (tok : bytes) : option Z :=
  match tr with
  | [] => None
  | en :: rest =>
      if issuesb en tok then Some (snd en + cf_ttl c)
      else if revokesb en tok then None else spec_expiry c rest tok
  end.

(* the login attempt of [ip] got past the rate limiter (its payload was read and,
   unless malformed, its credentials were checked) *)
Definition passedb (ip : bytes) (en : entry) : bool :=
  match en with
  | (ELogin ip' _, A200, _) | (ELogin ip' _, A400, _) | (ELogin ip' _, A401, _) => bytes_eqb ip ip'
  | _ => false
  end.

Definition in_window (t w : Z) (en : entry) : bool := (t <? snd en) && (snd en <=? t + w).

(* number of attempts of ip that got past the limiter in the window (t, t+w] *)
Definition window_count (ip : bytes) (t w : Z) (tr : list entry) : Z :=
  zlen (filter (fun en => passedb ip en && in_window t w en) tr).
