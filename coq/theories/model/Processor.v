(* Executable model of one polling cycle of the add-on processors' Run loops
   (identical up to types in the three modules), AFTER the proposed fixes
   fixes/C33-*.patch:
     addons/processors/iceberg-processor/internal/processor/processor.go  Run, filterRecords
     addons/processors/iceberg-processor/internal/processor/lfs.go        resolveLfsRecords (error => segment fails)
     addons/processors/sql-processor/internal/processor/processor.go      Run, filterRecords
     addons/processors/skeleton/internal/processor/processor.go           Run, filterRecords
     addons/processors/*/internal/checkpoint/checkpoint.go                noopStore (LoadOffset = -1, CommitOffset = no-op)
     addons/processors/iceberg-processor/internal/checkpoint/etcd.go      LoadOffset (-1 when the key is absent),
                                                                          CommitOffset (offset put, then watermark puts)
   Modelled control flow of the ticker branch:
     segments, err := ListCompleted        -> err: nothing happens this cycle
     if !hasLease: ClaimLease for the listed segments in order until one succeeds
     for each listed segment of the leased (topic,partition), in listing order:
        LoadOffset  (fail -> break)        Decode (fail -> break)
        filterRecords (offset > committed)
        iceberg only: resolveLfsRecords (a blob fetch error -> break), deterministic
        drops (LFS mode "skip", lenient schema validation) = the section variable [keep]
        no records left -> continue
        sink.Write (fail -> break)
        CommitOffset(last written record)  (an error is counted/ignored; the pass continues;
                                            the offset may or may not have been stored)
   A lease-lost notification clears the lease; the next cycle claims again.
   Partitions are abstract keys (Z) standing for (topic, partition); a segment is
   (partition key, segment id); the decoder is a section variable mapping segment ids
   to records, so the skeleton's placeholder and any user decoder are covered.
   Not modelled: strict schema validation (Run returns the error: the process exits),
   metrics, several workers competing for one partition. No proofs in this file. *)
From Coq Require Import Sorted.
From KS Require Import lib.Base.
Open Scope Z_scope.

Record rec := mkRec { r_part : Z; r_off : Z; r_lfs : bool }.
Record seg := mkSeg { s_part : Z; s_id : Z }.

Inductive sfault := FNone | FLoad | FDecode | FLfs | FSink | FCommitPre | FCommitPost.
Inductive store_kind := Noop | Persistent.

(* a listed segment with the outcome of ClaimLease (used only while no lease is held)
   and the fault hitting its processing (used only if it is processed) *)
Definition listed := (seg * bool * sfault)%type.

Inductive event :=
| ECycle (listing : option (list listed))   (* None: ListCompleted failed *)
| ELeaseLost.

Record state := mkState {
  st_lease : option Z;             (* partition key held *)
  st_commit : list (Z * Z);        (* checkpoint store: partition key -> committed offset *)
  st_written : list (Z * Z)        (* every (partition, offset) handed to a successful sink.Write, in order *)
}.

Definition init : state := mkState None [] [].

Fixpoint lookup (p : Z) (m : list (Z * Z)) : option Z :=
  match m with
  | [] => None
  | (k, v) :: m' => if k =? p then Some v else lookup p m'
  end.

Fixpoint update (p v : Z) (m : list (Z * Z)) : list (Z * Z) :=
  match m with
  | [] => [(p, v)]
  | (k, w) :: m' => if k =? p then (k, v) :: m' else (k, w) :: update p v m'
  end.

Definition is_lfs_fault (f : sfault) : bool := match f with FLfs => true | _ => false end.

Section Model.
  Variable kind : store_kind.
  Variable decode : Z -> list rec.
  Variable keep : rec -> bool.

  Definition load_offset (st : state) (p : Z) : Z :=
    match kind with
    | Noop => -1
    | Persistent => match lookup p (st_commit st) with Some c => c | None => -1 end
    end.

  Definition store_offset (st : state) (p o : Z) : state :=
    match kind with
    | Noop => st
    | Persistent => mkState (st_lease st) (update p o (st_commit st)) (st_written st)
    end.

  Definition filter_records (c : Z) (rs : list rec) : list rec :=
    filter (fun r => c <? r_off r) rs.

  Definition add_written (st : state) (rs : list rec) : state :=
    mkState (st_lease st) (st_commit st) (st_written st ++ map (fun r => (r_part r, r_off r)) rs).

  (* one segment of the leased partition; the boolean says whether the pass goes on *)
  Definition process_seg (st : state) (sg : seg) (f : sfault) : state * bool :=
    match f with
    | FLoad => (st, false)
    | FDecode => (st, false)
    | _ =>
      let c := load_offset st (s_part sg) in
      let filtered := filter_records c (decode (s_id sg)) in
      if is_lfs_fault f && existsb r_lfs filtered then (st, false) else
      let kept := filter keep filtered in
      match kept with
      | [] => (st, true)
      | r0 :: _ =>
        match f with
        | FSink => (st, false)
        | _ =>
          let st1 := add_written st kept in
          let l := last kept r0 in
          match f with
          | FCommitPre => (st1, true)
          | _ => (store_offset st1 (r_part l) (r_off l), true)
          end
        end
      end
    end.

  Fixpoint pass (st : state) (p : Z) (l : list listed) : state :=
    match l with
    | [] => st
    | (sg, _, f) :: l' =>
      if s_part sg =? p then
        let '(st', go) := process_seg st sg f in
        if go then pass st' p l' else st'
      else pass st p l'
    end.

  Fixpoint claim (l : list listed) : option Z :=
    match l with
    | [] => None
    | (sg, ok, _) :: l' => if ok then Some (s_part sg) else claim l'
    end.

  (* number of ClaimLease calls of a cycle *)
  Fixpoint claim_attempts (l : list listed) : Z :=
    match l with
    | [] => 0
    | (_, ok, _) :: l' => if ok then 1 else 1 + claim_attempts l'
    end.

  Definition with_lease (st : state) (le : option Z) : state :=
    mkState le (st_commit st) (st_written st).

  Definition step (st : state) (e : event) : state :=
    match e with
    | ELeaseLost => with_lease st None
    | ECycle None => st
    | ECycle (Some l) =>
      let le := match st_lease st with Some p => Some p | None => claim l end in
      match le with
      | None => st
      | Some p => pass (with_lease st (Some p)) p l
      end
    end.

  Definition run (st : state) (evs : list event) : state := fold_left step evs st.

  Definition attempts (st : state) (e : event) : Z :=
    match e, st_lease st with
    | ECycle (Some l), None => claim_attempts l
    | _, _ => 0
    end.

  (* the fault-free cycle over a listing of every segment *)
  Definition clean_cycle (segs : list seg) : event :=
    ECycle (Some (map (fun sg => (sg, true, FNone)) segs)).
End Model.

(* ---- vocabulary of the theorems (no proofs) ---- *)

Definition part_is (p : Z) (sg : seg) : bool := s_part sg =? p.
Definition listed_seg (x : listed) : seg := fst (fst x).

Definition is_prefix {A} (a b : list A) : Prop := exists t, b = a ++ t.

(* per partition the listing shows a gap-free prefix of the partition's segments *)
Definition listing_ok (segs : list seg) (l : list listed) : Prop :=
  forall p, is_prefix (filter (part_is p) (map listed_seg l)) (filter (part_is p) segs).

Definition event_ok (segs : list seg) (e : event) : Prop :=
  match e with ECycle (Some l) => listing_ok segs l | _ => True end.

(* the universe of completed segments: records carry their segment's partition,
   offsets are non-negative and strictly increasing along each partition *)
Definition universe_ok (decode : Z -> list rec) (segs : list seg) : Prop :=
  (forall sg r, In sg segs -> In r (decode (s_id sg)) -> r_part r = s_part sg /\ 0 <= r_off r) /\
  (forall p, StronglySorted Z.lt
     (map r_off (flat_map (fun sg => decode (s_id sg)) (filter (part_is p) segs)))).
