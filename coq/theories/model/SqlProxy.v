(* Executable model of the query branch of the SQL proxy,
   addons/processors/sql-processor/internal/proxy/proxy.go + cache.go, after
   "fix: sql proxy: authorize and cache the query text that is forwarded".

   Modelled by hand:
     handleConn, case *pgproto3.Query (cache lookup, authorizeQuery on a miss,
       cache.set, deny -> error to the client / allow -> frontend.Send(m));
       every other message type is answered with an error and never forwarded;
     cacheKey (strings.Fields, strings.Join " ", ASCII lower-casing);
     queryCache.get / set / removeOrder (entries + insertion order as one list,
       oldest first; expiry by TTL is an input of the step: [expired]);
     newQueryCache (ttl <= 0 or maxEntries <= 0 -> no cache);
     authorizeQuery, isSessionCommand, queryTopics;
     ACL.Allows / ACL.AllowShowTopics on top of an abstract matchPatterns
       (internal/proxy/acl.go belongs to C23; only "no patterns -> no match" is used);
     trimQuery (used for the audit log only; kept to state what the unfixed code did).
   The upstream: what the KafSQL server reads for a text m is queryTopics(Parse(m))
   when Parse(m) succeeds and nothing otherwise (handleQuery returns the parse
   error; its catalog / SET shortcuts read no topic either). Parse's topic
   extraction is the token-level part of the C35 model (parse_show,
   parse_describe, parse_from, parse_join over strings.Fields of the lowered
   text); whether Parse(m) succeeds as a whole also depends on the text-level and
   regular-expression parts and is the oracle [parse_ok].
   No proofs in this file. *)
From KS Require Import lib.Base model.SqlParse.
Open Scope Z_scope.

(* strings.Join(fs, " ") *)
Fixpoint join32 (fs : list bytes) : bytes :=
  match fs with
  | [] => []
  | [f] => f
  | f :: fs' => f ++ 32 :: join32 fs'
  end.

(* cacheKey (fixed: ASCII letters only are folded) *)
Definition cache_key (q : bytes) : bytes := ascii_lower (join32 (fields q)).

(* the token list sql.Parse works on *)
Definition tokens (q : bytes) : list bytes := fields (ascii_lower (trim_semi (trim_space q))).

(* what stripping one trailing ';' from a text does to its fields: the ';' goes from
   the last field, and the field itself when nothing else is left of it *)
Fixpoint strip_semi (l : bytes) : option bytes :=
  match l with
  | [] => None
  | b :: r =>
    match r with
    | [] => if b =? 59 then Some [] else None
    | _ :: _ => match strip_semi r with Some r' => Some (b :: r') | None => None end
    end
  end.

Fixpoint drop_semi (fs : list bytes) : list bytes :=
  match fs with
  | [] => []
  | f :: fs' =>
    match fs' with
    | [] => match strip_semi f with
            | None => [f]
            | Some [] => []
            | Some f' => [f']
            end
    | _ :: _ => f :: drop_semi fs'
    end
  end.

Definition no_topics : list bytes * bool := ([], false).

(* topics of a select statement from its tokens (nothing when there is no from clause: Parse fails) *)
Definition select_topics (fs : list bytes) : list bytes * bool :=
  match parse_from fs, parse_join fs with
  | Ok (t, _), Ok (_, jt, _) => (t :: (if is_nil jt then [] else [jt]), false)
  | _, _ => no_topics
  end.

(* queryTopics(Parse(m)) as a function of the tokens of m (provided Parse succeeds) *)
Definition token_topics (fs : list bytes) : list bytes * bool :=
  match fs with
  | [] => no_topics
  | f0 :: rest =>
    if bytes_eqb f0 kw_show then
      match parse_show fs with Ok q => query_topics q | _ => no_topics end
    else if bytes_eqb f0 kw_describe then
      match parse_describe fs with Ok q => query_topics q | _ => no_topics end
    else if bytes_eqb f0 kw_select then select_topics fs
    else if bytes_eqb f0 kw_explain then
      (* parseExplain: Parse(inner) strips one more ';'; only a select is accepted *)
      let inner := drop_semi rest in
      match inner with
      | f1 :: _ => if bytes_eqb f1 kw_select then select_topics inner else no_topics
      | [] => no_topics
      end
    else no_topics
  end.

(* ------------------------------------------------------------------ ACL *)
Record acl := mkAcl { a_allow : list bytes; a_deny : list bytes }.

Section Proxy.
Variable mp : list bytes -> bytes -> bool.       (* matchPatterns *)
Variable parse_ok : bytes -> bool.               (* sql.Parse(text) returns no error *)

Definition allows (a : acl) (t : bytes) : bool :=
  if mp (a_deny a) t then false
  else if is_nil (a_allow a) then true
  else mp (a_allow a) t.

Definition allow_show (a : acl) : bool :=
  if negb (is_nil (a_deny a)) then false
  else if is_nil (a_allow a) then true
  else mp (a_allow a) [42].

Definition acl_empty (a : acl) : bool := is_nil (a_allow a) && is_nil (a_deny a).

(* what the upstream reads when it executes exactly the text m *)
Definition upstream_topics (m : bytes) : list bytes * bool :=
  if parse_ok m then token_topics (tokens m) else no_topics.

Definition kw_set_sp : bytes := [115;101;116;32].
Definition kw_reset_sp : bytes := [114;101;115;101;116;32].

(* isSessionCommand *)
Definition session (q : bytes) : bool :=
  let t := trim_space (trim_semi (trim_space q)) in
  is_nil t || has_prefix (ascii_lower t) kw_set_sp || has_prefix (ascii_lower t) kw_reset_sp.

Inductive verdict := Allow | DenyShow | DenyTopic (t : bytes) | DenyCannot.

Definition verdict_allowed (v : verdict) : bool := match v with Allow => true | _ => false end.

Fixpoint first_denied (a : acl) (ts : list bytes) : option bytes :=
  match ts with
  | [] => None
  | t :: ts' => if allows a t then first_denied a ts' else Some t
  end.

(* authorizeQuery(acl, text) *)
Definition authorize (a : acl) (q : bytes) : verdict :=
  if acl_empty a then Allow
  else if parse_ok q then
    let '(ts, show) := token_topics (tokens q) in
    if show && negb (allow_show a) then DenyShow
    else match first_denied a ts with Some t => DenyTopic t | None => Allow end
  else if session q then Allow else DenyCannot.

(* ------------------------------------------------------------------ decision cache *)
Record cache := mkCache {
  c_on : bool;                         (* newQueryCache returned a cache *)
  c_max : Z;
  c_entries : list (bytes * verdict)   (* oldest first *)
}.

Definition new_cache (ttl_seconds max_entries : Z) : cache :=
  mkCache ((0 <? ttl_seconds) && (0 <? max_entries)) max_entries [].

Fixpoint c_find (k : bytes) (l : list (bytes * verdict)) : option verdict :=
  match l with
  | [] => None
  | (k', v) :: l' => if bytes_eqb k k' then Some v else c_find k l'
  end.

Fixpoint c_remove (k : bytes) (l : list (bytes * verdict)) : list (bytes * verdict) :=
  match l with
  | [] => []
  | (k', v) :: l' => if bytes_eqb k k' then l' else (k', v) :: c_remove k l'
  end.

(* get: an entry older than the TTL is deleted and reported as a miss *)
Definition c_get (c : cache) (k : bytes) (expired : bool) : cache * option verdict :=
  if negb (c_on c) then (c, None) else
  match c_find k (c_entries c) with
  | None => (c, None)
  | Some v => if expired then (mkCache (c_on c) (c_max c) (c_remove k (c_entries c)), None)
              else (c, Some v)
  end.

Fixpoint evict (n : nat) (l : list (bytes * verdict)) : list (bytes * verdict) :=
  match n with O => l | S n' => evict n' (tl l) end.

Definition c_set (c : cache) (k : bytes) (v : verdict) : cache :=
  if negb (c_on c) then c else
  let l := c_remove k (c_entries c) ++ [(k, v)] in
  mkCache (c_on c) (c_max c) (evict (Z.to_nat (zlen l - c_max c)) l).

(* ------------------------------------------------------------------ handleConn, query branch *)
Inductive outcome :=
  | Forwarded (text : bytes)     (* frontend.Send(m): the upstream receives this text *)
  | Refused (v : verdict).       (* ErrorResponse to the client, nothing sent upstream *)

(* one *pgproto3.Query message with text m *)
Definition step (a : acl) (c : cache) (m : bytes) (expired : bool) : cache * outcome :=
  let key := cache_key m in
  let '(c1, hit) := c_get c key expired in
  let '(c2, v) := match hit with
                  | Some v => (c1, v)
                  | None => let v := authorize a m in (c_set c1 key v, v)
                  end in
  (c2, if verdict_allowed v then Forwarded m else Refused v).

Fixpoint run (a : acl) (c : cache) (ms : list (bytes * bool)) : list outcome :=
  match ms with
  | [] => []
  | (m, e) :: ms' => let '(c', o) := step a c m e in o :: run a c' ms'
  end.

(* ------------------------------------------------------------------ the unfixed branch (for the refutation example) *)
Definition trim_query (q : bytes) : bytes :=
  let t := trim_space q in
  if 512 <? zlen t then firstn 512 t ++ [46;46;46] else t.

(* before the fix: authorization (and the cache key) on trimQuery(m), m forwarded *)
Definition step_unfixed_nocache (a : acl) (m : bytes) : outcome :=
  if verdict_allowed (authorize a (trim_query m)) then Forwarded m else Refused DenyCannot.
End Proxy.

(* the property for one forwarded text *)
Definition upstream_ok (mp : list bytes -> bytes -> bool) (parse_ok : bytes -> bool) (a : acl) (m : bytes) : Prop :=
  (forall t, In t (fst (upstream_topics parse_ok m)) -> allows mp a t = true) /\
  (snd (upstream_topics parse_ok m) = true -> allow_show mp a = true).
