(* Decision rules for C11 over the tables regenerated from the code on every run
   (gen/ApiTables.v):

     cmd/broker/main.go  generateApiVersions        -> broker_advertised
                         handler.Handle type switch -> broker_dispatch ([dispatched])
                         version guards             -> broker_rejected ([rejected])
                         ApiVersions downgrade      -> apiversions_downgrade ([reply_version])
     pkg/broker/server.go handleConnection error path + buildErrorResponse -> [broker_reply]
     pkg/protocol/response.go EncodeResponse        -> [encode_header_flexible]
     cmd/proxy/main.go   generateProxyApiVersions   -> proxy_advertised
                         buildNotReadyResponse      -> proxy_notready
     kmsg (run)          MaxVersion / IsFlexible    -> kmsg_requests

   [kafka_header_flexible] is the Kafka protocol's rule for the response header
   version: header v1 (with tagged fields) iff the response version is flexible,
   except ApiVersions (key 18), whose response header is always v0 (KIP-511). *)
From KS Require Import lib.Base gen.ApiTables.
Open Scope Z_scope.

Definition kmsg_entry (k : Z) : option (Z * Z * Z * Z) :=
  find (fun e => let '(key, _, _, _) := e in key =? k) kmsg_requests.
Definition kmsg_knows (k : Z) : bool := match kmsg_entry k with Some _ => true | None => false end.
Definition kmsg_max (k : Z) : Z := match kmsg_entry k with Some (_, mx, _, _) => mx | None => -1 end.
Definition req_flexible (k v : Z) : bool :=
  match kmsg_entry k with Some (_, _, fr, _) => (0 <=? fr) && (fr <=? v) | None => false end.
Definition resp_flexible (k v : Z) : bool :=
  match kmsg_entry k with Some (_, _, _, fp) => (0 <=? fp) && (fp <=? v) | None => false end.

Definition mem (k : Z) (l : list Z) : bool := existsb (Z.eqb k) l.
Definition mem2 (k v : Z) (l : list (Z * Z)) : bool := existsb (fun p => (fst p =? k) && (snd p =? v)) l.

(* the Kafka rule *)
Definition kafka_header_flexible (k v : Z) : bool := resp_flexible k v && negb (k =? 18).
(* EncodeResponse, as extracted: resp.IsFlexible() && resp.Key() != k for each exempt k *)
Definition encode_header_flexible (k v : Z) : bool := resp_flexible k v && negb (mem k encode_header_exempt).

(* versions lo..hi *)
Definition zrange (lo hi : Z) : list Z := map (fun i => lo + Z.of_nat i) (seq 0 (Z.to_nat (hi - lo + 1))).

(* the (key, version) pairs an ApiVersions table advertises: min <= v <= max, v >= 0
   (entries (-1, -1) are the "known but unsupported" markers and advertise nothing) *)
Definition advertised_pairs (tab : list (Z * Z * Z)) : list (Z * Z) :=
  flat_map (fun e => let '(k, mn, mx) := e in map (fun v => (k, v)) (zrange (Z.max 0 mn) mx)) tab.

Definition dispatched (k : Z) : bool := mem k broker_dispatch.
Definition rejected (k v : Z) : bool := mem2 k v broker_rejected.

(* version at which handler.Handle encodes its reply *)
Definition reply_version (k v : Z) : Z :=
  if (k =? 18) && (fst apiversions_downgrade <? v) then snd apiversions_downgrade else v.

(* the reply to a parsed request (k, v): Some (version it is encoded at, header is
   flexible), None = no reply can be built.  A request without a dispatch case, or
   rejected by a guard, makes Handle return an error; handleConnection then sends
   buildErrorResponse(header) = EncodeResponse(corr, v, kmsg.ResponseForKey(k)). *)
Definition broker_reply (k v : Z) : option (Z * bool) :=
  if dispatched k && negb (rejected k v) then
    Some (reply_version k v, encode_header_flexible k (reply_version k v))
  else if kmsg_knows k then Some (v, encode_header_flexible k v)
  else None.

(* ---- the checks, as booleans over the finite tables *)
Definition adv_ok (p : Z * Z) : bool :=
  let '(k, v) := p in
  dispatched k && negb (rejected k v) && (v <=? guard_window) &&
  kmsg_knows k && (v <=? kmsg_max k) &&
  (reply_version k v =? v) &&
  Bool.eqb (encode_header_flexible k v) (kafka_header_flexible k v).

Definition known_pairs : list (Z * Z) :=
  flat_map (fun e => let '(k, mx, _, _) := e in map (fun v => (k, v)) (zrange 0 mx)) kmsg_requests.

Definition known_ok (p : Z * Z) : bool :=
  let '(k, v) := p in
  (v <=? guard_window) &&
  match broker_reply k v with
  | Some (rv, fl) => (rv =? v) && Bool.eqb fl (kafka_header_flexible k v)
  | None => false
  end.

(* ApiVersions above the supported maximum (inside the guard window): answered at the
   downgrade version with the version-0 (non-flexible) header, as KIP-511 prescribes *)
Definition downgrade_ok (v : Z) : bool :=
  match broker_reply 18 v with
  | Some (rv, fl) => (rv =? 0) && negb fl
  | None => false
  end.

Definition proxy_ok (p : Z * Z) : bool :=
  let '(k, v) := p in
  mem2 k v (advertised_pairs broker_advertised) &&      (* the broker behind the proxy serves it *)
  ((k =? 18) || mem k proxy_notready) &&                 (* the proxy can answer while not ready *)
  Bool.eqb (encode_header_flexible k v) (kafka_header_flexible k v).

(* ---- strings in responses.  A non-flexible response writes a string (or nullable string)
   as int16(len(s)) followed by the bytes, without a range check (kmsg AppendString); a
   flexible one writes an unsigned varint.  So every string the handler places in a
   non-flexible response must be shorter than 2^15 bytes: an obligation on response
   construction, which the harness measures (longest string per API/version). *)
Definition resp_strings_fit (flexible : bool) (maxlen : Z) : bool := flexible || (maxlen <? 32768).
