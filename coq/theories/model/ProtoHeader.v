(* Executable model of the Kafka request framing and header parsing (C10).
   Modelled by hand, function for function:

     pkg/protocol/frame.go     ReadFrame                         -> read_frame
     pkg/protocol/encoding.go  byteReader.read                   -> rd_read
                               byteReader.Int16 / Int32          -> rd_i16 / rd_i32
                               byteReader.NullableString         -> rd_nullable_string
                               byteReader.UVarint (binary.Uvarint)-> rd_uvarint
                               byteReader.SkipTaggedFields       -> skip_fields
     pkg/protocol/request.go   ParseRequestHeader                -> parse_header
                               ParseRequest / ParseRequestBody   -> parse_request
     pkg/broker/server.go      handleConnection's read loop      -> serve

   The reader state (buf, pos) is the list of bytes not yet consumed.  Every slice
   expression / make() is a checked operation whose failure is [Panic], so "never a
   crash" is a statement about this model.  [fixed = true] is the code with
   fixes/C10-tagged-field-size.patch (read rejects n < 0; SkipTaggedFields compares the
   size with remaining() as uint64 before the int conversion); [fixed = false] is the
   code before the patch, kept for the refutation witness.  int(size) for a uint64 is
   the explicit two's-complement wrap [wrap_s 64].

   [flex key version] is kmsg.RequestForKey(key) != nil && req.IsFlexible() at that
   version: a parameter here (the theorems hold for every such function); the
   correspondence check instantiates it with the table regenerated from kmsg in
   gen/ApiTables.v.  The kmsg body decoder (req.ReadFrom) is a Section variable. *)
From KS Require Import lib.Base lib.Wire.
Open Scope Z_scope.

Record header := mkHeader { h_key : Z; h_version : Z; h_corr : Z; h_client : option bytes }.

(* error classes *)
Definition E_SHORT := 1.     (* insufficient bytes *)
Definition E_STRLEN := 2.    (* invalid string length *)
Definition E_UVARINT := 3.   (* read uvarint: n <= 0 *)
Definition E_NEGLEN := 4.    (* invalid read length (patched read) *)
Definition E_KEY := 5.       (* unsupported api key *)
Definition E_BODY := 6.      (* kmsg ReadFrom error *)
Definition E_EOF := 10.      (* ReadFrame: io.EOF before the first size byte *)
Definition E_SIZE := 11.     (* ReadFrame: size truncated *)
Definition E_FRAMELEN := 12. (* ReadFrame: invalid (negative) frame length *)
Definition E_PAYLOAD := 13.  (* ReadFrame: payload truncated *)
Definition E_CLOSED := 20.   (* handleConnection: request parse error logged, connection closed *)

(* r.read(n): returns (bytes read, reader after) *)
Definition rd_read (fixed : bool) (rest : bytes) (n : Z) : outcome (bytes * bytes) :=
  if fixed && (n <? 0) then Err E_NEGLEN
  else if zlen rest <? n then Err E_SHORT
  else if n <? 0 then Panic 1                 (* r.buf[start:start+n] with n < 0 *)
  else Ok (ztake n rest, zdrop n rest).

Definition rd_i16 (fixed : bool) (rest : bytes) : outcome (Z * bytes) :=
  bind (rd_read fixed rest 2) (fun '(b, r) =>
    match b with [b0; b1] => Ok (wrap_s 16 (be16 b0 b1), r) | _ => Panic 1 end).

Definition rd_i32 (fixed : bool) (rest : bytes) : outcome (Z * bytes) :=
  bind (rd_read fixed rest 4) (fun '(b, r) =>
    match b with [b0; b1; b2; b3] => Ok (wrap_s 32 (be32 b0 b1 b2 b3), r) | _ => Panic 1 end).

Definition rd_nullable_string (fixed : bool) (rest : bytes) : outcome (option bytes * bytes) :=
  bind (rd_i16 fixed rest) (fun '(l, r) =>
    if l =? -1 then Ok (None, r)
    else if l <? 0 then Err E_STRLEN
    else bind (rd_read fixed r l) (fun '(s, r') => Ok (Some s, r'))).

Definition rd_uvarint (rest : bytes) : outcome (Z * bytes) :=
  let '(v, n) := uvarint rest in
  if n <=? 0 then Err E_UVARINT else Ok (v, zdrop n rest).

(* for i := uint64(0); i < count; i++ { tag; size; if size == 0 continue; read(int(size)) } *)
Fixpoint skip_fields (fixed : bool) (fuel : nat) (i count : Z) (rest : bytes) : outcome bytes :=
  if count <=? i then Ok rest else
  match fuel with
  | O => OutOfFuel
  | S f =>
      bind (rd_uvarint rest) (fun '(_, r1) =>
      bind (rd_uvarint r1) (fun '(size, r2) =>
        if size =? 0 then skip_fields fixed f (i + 1) count r2
        else if fixed && (zlen r2 <? size) then Err E_SHORT        (* size > uint64(r.remaining()) *)
        else bind (rd_read fixed r2 (wrap_s 64 size)) (fun '(_, r3) =>
             skip_fields fixed f (i + 1) count r3)))
  end.

Definition skip_tagged_fields (fixed : bool) (rest : bytes) : outcome bytes :=
  bind (rd_uvarint rest) (fun '(count, r) => skip_fields fixed (S (length r)) 0 count r).

Definition parse_header (flex : Z -> Z -> bool) (fixed : bool) (b : bytes) : outcome (header * bytes) :=
  bind (rd_i16 fixed b) (fun '(key, r1) =>
  bind (rd_i16 fixed r1) (fun '(ver, r2) =>
  bind (rd_i32 fixed r2) (fun '(corr, r3) =>
  bind (rd_nullable_string fixed r3) (fun '(cid, r4) =>
  bind (if flex key ver then skip_tagged_fields fixed r4 else Ok r4) (fun body =>
  Ok (mkHeader key ver corr cid, body)))))).

(* ReadFrame on a connection modelled as the complete byte string the peer sends before
   closing: (payload, rest of the stream) *)
Definition gmake (n : Z) : outcome Z := if n <? 0 then Panic 2 else Ok n.

Definition read_frame (s : bytes) : outcome (bytes * bytes) :=
  match s with
  | [] => Err E_EOF
  | _ =>
    match get_i32 s with
    | None => Err E_SIZE
    | Some (len, r) =>
        if len <? 0 then Err E_FRAMELEN else
        bind (gmake len) (fun n =>
        if zlen r <? n then Err E_PAYLOAD else Ok (ztake n r, zdrop n r))
    end
  end.

Section Body.
  Variable B : Type.
  (* kmsg: RequestForKey(key) != nil *)
  Variable known : Z -> bool.
  (* kmsg: req.SetVersion(v); req.ReadFrom(body) — total, may reject *)
  Variable body_read : Z -> Z -> bytes -> option B.

  Definition parse_request (flex : Z -> Z -> bool) (fixed : bool) (b : bytes) : outcome (header * B) :=
    bind (parse_header flex fixed b) (fun '(h, body) =>
      if known (h_key h) then
        match body_read (h_key h) (h_version h) body with
        | Some m => Ok (h, m)
        | None => Err E_BODY
        end
      else Err E_KEY).

  (* handleConnection: read frames and parse requests until the first error; the handler
     itself is outside this model.  Result: the per-frame parse outcomes, how the loop
     ended, and the bytes of the stream the server never read.
       - ReadFrame error: the loop returns with that error (io.EOF silently, the others
         logged); io.ReadFull has consumed whatever was there, except after an invalid
         (negative) size, where only the 4 size bytes were read;
       - ParseRequest error (header error, unsupported key, undecodable body): the ERROR
         PATH — the error is logged and the function returns, the deferred conn.Close()
         runs and nothing after that frame is read: [Err E_CLOSED];
       - otherwise the request goes to the handler and the loop continues. *)
  Definition unread_after_frame_error (e : Z) (s : bytes) : bytes :=
    if e =? E_FRAMELEN then zdrop 4 s else [].

  Fixpoint serve (flex : Z -> Z -> bool) (fixed : bool) (fuel : nat) (s : bytes)
    : list (outcome (header * B)) * outcome unit * bytes :=
    match fuel with
    | O => ([], OutOfFuel, s)
    | S f =>
        match read_frame s with
        | Ok (payload, rest) =>
            match parse_request flex fixed payload with
            | Ok r => let '(l, t, u) := serve flex fixed f rest in (Ok r :: l, t, u)
            | o => ([o], Err E_CLOSED, rest)
            end
        | Err e => ([], Err e, unread_after_frame_error e s)
        | Panic w => ([], Panic w, s)
        | OutOfFuel => ([], OutOfFuel, s)
        end
    end.
End Body.

(* ---------------------------------------------------------------- spec-side encoders *)
Definition enc_nullable (c : option bytes) : bytes :=
  match c with None => put_i16 (-1) | Some s => put_i16 (zlen s) ++ s end.
Definition enc_tag (t : Z * bytes) : bytes := put_uvarint (fst t) ++ put_uvarint (zlen (snd t)) ++ snd t.
Definition enc_tags (ts : list (Z * bytes)) : bytes := put_uvarint (zlen ts) ++ concat (map enc_tag ts).
Definition encode_header (flexible : bool) (h : header) (ts : list (Z * bytes)) : bytes :=
  put_i16 (h_key h) ++ put_i16 (h_version h) ++ put_i32 (h_corr h) ++ enc_nullable (h_client h) ++
  (if flexible then enc_tags ts else []).
Definition frame (p : bytes) : bytes := put_i32 (zlen p) ++ p.

Definition header_ok (h : header) : Prop :=
  -32768 <= h_key h < 32768 /\ -32768 <= h_version h < 32768 /\
  -2147483648 <= h_corr h < 2147483648 /\
  match h_client h with None => True | Some s => zlen s < 32768 end.
Definition tag_ok (t : Z * bytes) : Prop := 0 <= fst t < 2 ^ 64 /\ zlen (snd t) < 2 ^ 63.
Definition tags_ok (ts : list (Z * bytes)) : Prop := Forall tag_ok ts /\ zlen ts < 2 ^ 64.
