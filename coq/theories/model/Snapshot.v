(* Executable model of the cluster-metadata snapshot shared through etcd (C21):
     pkg/metadata/etcd_store.go : CreateTopic, CreatePartitions, DeleteTopic,
                                  refreshSnapshot, persistSnapshot(Locked)
     pkg/metadata/store.go      : InMemoryStore.CreateTopic / CreatePartitions /
                                  DeleteTopic / Update (the topic list only)
     pkg/operator/snapshot.go   : BuildClusterMetadata (topic list), mergeSnapshots,
                                  PublishMetadataSnapshot (read, merge, conditional put,
                                  at most 5 attempts)
   A snapshot is its topic list in slice order: (name, number of partitions); the
   partitions of a topic are always 0..n-1, so the count is all C21 talks about.
   Every broker has a local copy; etcd holds one copy under one key with a
   modification revision ([w_rev], 0 = key absent).

   Granularity = what the code makes atomic:
   * CreateTopic / DeleteTopic hold persistMu from the local change to the etcd put;
     the only other access to that broker's local copy that is not excluded by the
     mutex is the local part of CreatePartitions, which commutes with them: one event.
   * CreatePartitions changes the local copy WITHOUT persistMu and takes the mutex
     only for the put: two events (BGrowLocal, BGrowPersist); a refresh of the same
     broker, or anything else, may come in between.
   * refreshSnapshot reads etcd and replaces the local copy under persistMu. Between
     its Get and its Update only events that do not touch this broker's local copy
     or only etcd can occur, except BGrowLocal; all of them commute with one of the
     two halves, so one event at the Get is faithful.
   * the broker put is a plain, unconditional Put of the whole local copy.
   * the operator reads (OGet), merges into its accumulated [o_next], and writes with
     a transaction guarded by the revision it read (OTxn); a conflict starts the next
     attempt with the already merged snapshot, as the Go loop does.
   [mfix = true] is mergeSnapshots with fixes/C21-merge-keeps-grown-partitions.patch
   (a topic present on both sides keeps the longer partition list); [mfix = false]
   is the code before (the resource definition wins).
   Ghost: [w_acks] = the (topic, count) pairs acknowledged to a client (CreateTopic /
   CreatePartitions returned nil) and not explicitly deleted since.
   Not modelled: the topic-config key that CreatePartitions syncs after its put
   (syncTopicConfigPartitions; no such key exists in the harness), replication-factor check (the harness always uses factor 1 with at
   least one broker in the snapshot), topic entries with a non-zero error code (never
   persisted), failures of the etcd calls themselves.  No proofs in this file. *)
From KS Require Import lib.Base.
Open Scope Z_scope.

Definition snap := list (bytes * Z).

Fixpoint count_of (s : snap) (t : bytes) : option Z :=
  match s with
  | [] => None
  | (t', m) :: s' => if bytes_eqb t t' then Some m else count_of s' t
  end.

Definition mem_name (s : snap) (t : bytes) : bool :=
  match count_of s t with Some _ => true | None => false end.

(* set the count of the first entry named t *)
Fixpoint set_first (s : snap) (t : bytes) (n : Z) : snap :=
  match s with
  | [] => []
  | (t', m) :: s' => if bytes_eqb t t' then (t', n) :: s' else (t', m) :: set_first s' t n
  end.

Fixpoint remove_first (s : snap) (t : bytes) : snap :=
  match s with
  | [] => []
  | (t', m) :: s' => if bytes_eqb t t' then s' else (t', m) :: remove_first s' t
  end.

Inductive err := ROk | RInvalid | RExists | RUnknown.

Definition err_code (e : err) : Z :=
  match e with ROk => 0 | RInvalid => 1 | RExists => 2 | RUnknown => 3 end.

(* metadata.ValidTopicName: non-empty, at most 249 bytes, not "." or "..", only
   [A-Za-z0-9._-] *)
Definition name_char (c : Z) : bool :=
  ((97 <=? c) && (c <=? 122)) || ((65 <=? c) && (c <=? 90)) || ((48 <=? c) && (c <=? 57)) ||
  (c =? 46) || (c =? 95) || (c =? 45).

Definition valid_name (t : bytes) : bool :=
  match t with
  | [] => false
  | _ => (zlen t <=? 249) && negb (bytes_eqb t [46]) && negb (bytes_eqb t [46; 46]) &&
         forallb name_char t
  end.

(* InMemoryStore.CreateTopic *)
Definition create_local (s : snap) (t : bytes) (n : Z) : err * snap :=
  if negb (valid_name t) || (n <=? 0) then (RInvalid, s)
  else if mem_name s t then (RExists, s)
  else (ROk, s ++ [(t, n)]).

(* EtcdStore.CreatePartitions up to and including InMemoryStore.CreatePartitions:
   empty name / non-positive count are rejected before the lookup *)
Definition grow_local (s : snap) (t : bytes) (n : Z) : err * snap :=
  match t with
  | [] => (RInvalid, s)
  | _ =>
      if n <=? 0 then (RInvalid, s)
      else match count_of s t with
           | None => (RUnknown, s)
           | Some cur => if n <=? cur then (RInvalid, s) else (ROk, set_first s t n)
           end
  end.

(* EtcdStore.DeleteTopic up to and including InMemoryStore.DeleteTopic *)
Definition delete_local (s : snap) (t : bytes) : err * snap :=
  if mem_name s t then (ROk, remove_first s t) else (RUnknown, s).

(* mergeSnapshots(next, existing) *)
Definition bump (mfix : bool) (acc : snap) (t : bytes) (m : Z) : snap :=
  if mfix then
    match count_of acc t with
    | Some cur => if cur <? m then set_first acc t m else acc
    | None => acc
    end
  else acc.

Definition merge (mfix : bool) (next existing : snap) : snap :=
  match existing with
  | [] => next
  | _ =>
      fold_left (fun acc e =>
                   match fst e with
                   | [] => acc                                     (* empty name: skipped *)
                   | _ => if mem_name next (fst e)                 (* the [seen] set: names of next *)
                          then bump mfix acc (fst e) (snd e)
                          else acc ++ [e]
                   end) existing next
  end.

Record opstate := mkOp {
  o_next : snap;            (* the snapshot being published, merged so far *)
  o_attempt : Z;            (* attempts already failed *)
  o_read : option Z         (* Some rev = OGet done, the revision it saw (0 = absent) *)
}.

Record world := mkWorld {
  w_etcd : option snap;
  w_rev : Z;
  w_local : list snap;                      (* per broker *)
  w_pgrow : list (option (bytes * Z));      (* per broker: CreatePartitions between its two parts *)
  w_op : option opstate;
  w_acks : list (bytes * Z)
}.

Definition init (brokers : nat) (s0 : snap) : world :=
  mkWorld None 0 (repeat s0 brokers) (repeat None brokers) None [].

Fixpoint set_nth {A} (l : list A) (i : nat) (x : A) : list A :=
  match l, i with
  | [], _ => []
  | _ :: l', O => x :: l'
  | y :: l', S i' => y :: set_nth l' i' x
  end.

Definition drop_acks (acks : list (bytes * Z)) (t : bytes) : list (bytes * Z) :=
  filter (fun a => negb (bytes_eqb t (fst a))) acks.

Inductive event :=
| BCreate (b : nat) (t : bytes) (n : Z)      (* CreateTopic on broker b *)
| BGrowLocal (b : nat) (t : bytes) (n : Z)   (* CreatePartitions: checks + local growth *)
| BGrowPersist (b : nat)                     (* CreatePartitions: put of the local copy, returns nil *)
| BDelete (b : nat) (t : bytes)              (* DeleteTopic on broker b *)
| BRefresh (b : nat)                         (* refreshSnapshot on broker b *)
| OStart (crd : snap)                        (* operator Publish: topics rendered from the resources *)
| OGet                                       (* operator: read + merge *)
| OTxn.                                      (* operator: conditional put / conflict *)

(* result of the call the event belongs to (the harness compares it) *)
Definition put_local (w : world) (b : nat) (loc : snap) (pg : list (option (bytes * Z)))
                     (acks : list (bytes * Z)) : world :=
  mkWorld (Some loc) (w_rev w + 1) (set_nth (w_local w) b loc) pg (w_op w) acks.

Definition step (mfix : bool) (w : world) (e : event) : option (world * err) :=
  match e with
  | BCreate b t n =>
      match nth_error (w_local w) b with
      | Some loc =>
          match create_local loc t n with
          | (ROk, loc') => Some (put_local w b loc' (w_pgrow w) (w_acks w ++ [(t, n)]), ROk)
          | (r, _) => Some (w, r)
          end
      | None => None
      end
  | BGrowLocal b t n =>
      match nth_error (w_local w) b, nth_error (w_pgrow w) b with
      | Some loc, Some None =>
          match grow_local loc t n with
          | (ROk, loc') =>
              Some (mkWorld (w_etcd w) (w_rev w) (set_nth (w_local w) b loc')
                            (set_nth (w_pgrow w) b (Some (t, n))) (w_op w) (w_acks w), ROk)
          | (r, _) => Some (w, r)
          end
      | _, _ => None
      end
  | BGrowPersist b =>
      match nth_error (w_local w) b, nth_error (w_pgrow w) b with
      | Some loc, Some (Some (t, n)) =>
          Some (put_local w b loc (set_nth (w_pgrow w) b None) (w_acks w ++ [(t, n)]), ROk)
      | _, _ => None
      end
  | BDelete b t =>
      match nth_error (w_local w) b with
      | Some loc =>
          match delete_local loc t with
          | (ROk, loc') => Some (put_local w b loc' (w_pgrow w) (drop_acks (w_acks w) t), ROk)
          | (r, _) => Some (w, r)
          end
      | None => None
      end
  | BRefresh b =>
      match nth_error (w_local w) b with
      | Some _ =>
          match w_etcd w with
          | Some s => Some (mkWorld (w_etcd w) (w_rev w) (set_nth (w_local w) b s)
                                    (w_pgrow w) (w_op w) (w_acks w), ROk)
          | None => Some (w, ROk)
          end
      | None => None
      end
  | OStart crd =>
      match w_op w with
      | None => Some (mkWorld (w_etcd w) (w_rev w) (w_local w) (w_pgrow w)
                              (Some (mkOp crd 0 None)) (w_acks w), ROk)
      | Some _ => None
      end
  | OGet =>
      match w_op w with
      | Some (mkOp next att None) =>
          let next' := match w_etcd w with Some ex => merge mfix next ex | None => next end in
          Some (mkWorld (w_etcd w) (w_rev w) (w_local w) (w_pgrow w)
                        (Some (mkOp next' att (Some (w_rev w)))) (w_acks w), ROk)
      | _ => None
      end
  | OTxn =>
      match w_op w with
      | Some (mkOp next att (Some r)) =>
          if r =? w_rev w
          then Some (mkWorld (Some next) (w_rev w + 1) (w_local w) (w_pgrow w) None (w_acks w), ROk)
          else if att + 1 <? 5
               then Some (mkWorld (w_etcd w) (w_rev w) (w_local w) (w_pgrow w)
                                  (Some (mkOp next (att + 1) None)) (w_acks w), RExists)
               else Some (mkWorld (w_etcd w) (w_rev w) (w_local w) (w_pgrow w) None (w_acks w), RInvalid)
      | _ => None
      end
  end.

Fixpoint run (mfix : bool) (w : world) (evs : list event) : option world :=
  match evs with
  | [] => Some w
  | e :: evs' => match step mfix w e with Some (w', _) => run mfix w' evs' | None => None end
  end.

(* ---------- the property ---------- *)
Definition has (s : snap) (t : bytes) (k : Z) : Prop := exists m, In (t, m) s /\ k <= m.

Definition hasb (s : snap) (t : bytes) (k : Z) : bool :=
  existsb (fun e => bytes_eqb t (fst e) && (k <=? snd e)) s.

Definition covers (s : snap) (acks : list (bytes * Z)) : Prop :=
  forall t n, In (t, n) acks -> has s t n.

Definition coversb (s : snap) (acks : list (bytes * Z)) : bool :=
  forallb (fun a => hasb s (fst a) (snd a)) acks.

(* every acknowledged, not explicitly deleted (topic, count) is in the etcd snapshot *)
Definition acks_hold (w : world) : Prop :=
  match w_etcd w with Some s => covers s (w_acks w) | None => w_acks w = [] end.

Definition acks_holdb (w : world) : bool :=
  match w_etcd w with
  | Some s => coversb s (w_acks w)
  | None => match w_acks w with [] => true | _ => false end
  end.

(* ---------- the known finding's input class ---------- *)
(* A broker put is DERIVED when the copy it writes is the current etcd snapshot with
   only the operation's own change applied — what a read-modify-write transaction
   would guarantee.  The finding: persistSnapshotLocked puts whatever the local copy
   is.  [derivedb w e] is decided on the state before the event. *)
Definition snap_eqb (a b : snap) : bool :=
  list_eqb (fun x y => bytes_eqb (fst x) (fst y) && (snd x =? snd y)) a b.

Definition freshb (w : world) (b : nat) : bool :=
  match w_etcd w, nth_error (w_local w) b with
  | None, _ => true
  | Some s, Some loc => snap_eqb s loc
  | Some _, None => true
  end.

Definition derivedb (w : world) (e : event) : bool :=
  match e with
  | BCreate b _ _ => freshb w b
  | BDelete b _ => freshb w b
  | BGrowPersist b =>
      match w_etcd w, nth_error (w_local w) b, nth_error (w_pgrow w) b with
      | None, Some loc, Some (Some (t, n)) => hasb loc t n   (* no snapshot yet: the copy has the growth *)
      | Some s, Some loc, Some (Some (t, n)) =>
          match grow_local s t n with
          | (ROk, s') => snap_eqb s' loc
          | _ => false
          end
      | _, _, _ => true
      end
  | _ => true
  end.

Fixpoint derived_run (mfix : bool) (w : world) (evs : list event) : bool :=
  match evs with
  | [] => true
  | e :: evs' =>
      derivedb w e &&
      match step mfix w e with Some (w', _) => derived_run mfix w' evs' | None => true end
  end.

(* ---------- WatchDeliver (liveness of the snapshot watcher) ---------- *)
(* EtcdStore.watchSnapshot calls refreshSnapshot for every watch response. The model
   has no clock, so liveness is a NAMED ASSUMPTION about the watcher, checked on the
   real watchSnapshot goroutines by the C21_watch harness: every write of the
   snapshot key is eventually followed by a BRefresh of every live broker.  Its
   consequence at quiescence (no further writes) is that the refreshes of all
   brokers have run after the last write: *)
Definition deliver_all (brokers : nat) : list event := map BRefresh (seq 0 brokers).

Definition quiesced (w : world) : Prop :=
  match w_etcd w with
  | Some s => forall b loc, nth_error (w_local w) b = Some loc -> loc = s
  | None => True
  end.
