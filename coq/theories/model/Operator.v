(* Model of the operator functions behind C39:
   pkg/operator/snapshot.go: BuildClusterMetadata, buildReplicaIDs, mergeSnapshots and the
   merge-then-put of PublishMetadataSnapshot - with reassignMissingBrokers as in
   fixes/C39-merge-reassign-missing-brokers.patch ([merge_orig] keeps the unfixed merge);
   the broker-side changes of the stored snapshot between two publishes are modelled
   after pkg/metadata/store.go InMemoryStore.CreatePartitions / CreateTopic / DeleteTopic;
   pkg/operator/cluster_controller.go: reconcileBrokerDeployment (StatefulSet name,
   ServiceName, replica count), brokerHeadlessServiceName, brokerContainer's
   KAFSCALE_BROKER_HOST rule;
   pkg/operator/etcd_resources.go: defaultEtcdSnapshotBucket, sanitizeBucketName - as
   in fixes/C39-bucket-name-length.patch (result capped at 63 characters, trailing '-'
   re-trimmed, results shorter than 3 replaced by the default prefix).
   External string functions are oracles: [trim] = strings.TrimSpace on bytes,
   [lower_trim] = the runes of strings.ToLower(strings.TrimSpace(raw)).
   fmt "%d" is lib.Strings.dec.  No proofs here. *)
From Coq Require Import String.
From KS Require Import lib.Base lib.Strings.
Open Scope Z_scope.

Definition str (s : string) : bytes := codes s.

(* ---------- cluster spec and rendered objects ---------- *)
Record spec := mkSpec {
  sp_name : bytes; sp_ns : bytes;
  sp_replicas : option Z;          (* *int32 *)
  sp_host : bytes;                 (* Spec.Brokers.AdvertisedHost *)
  sp_port : option Z;              (* *int32 *)
  sp_uid : bytes }.

Record topic := mkTopic { t_name : bytes; t_parts : Z }.

Record broker := mkBroker { b_id : Z; b_host : bytes; b_port : Z }.
Record part := mkPart { p_id : Z; p_leader : Z; p_replicas : list Z; p_isr : list Z }.
Record mtopic := mkMTopic { mt_name : bytes; mt_err : Z (* ErrorCode *); mt_parts : list part }.
Record meta := mkMeta {
  m_brokers : list broker; m_controller : Z; m_topics : list mtopic;
  m_cname : option bytes; m_cid : option bytes }.

Inductive outcome := Panic | Done (m : meta).

Definition seqZ (n : Z) : list Z := map Z.of_nat (seq 0 (Z.to_nat n)).

(* buildReplicaIDs *)
Definition build_replica_ids (n : Z) : list Z := if n <=? 0 then [] else seqZ n.

Definition nonempty (b : bytes) : bool := match b with [] => false | _ => true end.
Definition opt_str (b : bytes) : option bytes := if nonempty b then Some b else None.

Definition meta_replicas (sp : spec) : Z :=
  match sp_replicas sp with Some r => if r >? 0 then r else 1 | None => 1 end.
Definition meta_port (sp : spec) : Z :=
  match sp_port sp with Some p => if p >? 0 then p else 9092 | None => 9092 end.

Definition headless_name (name : bytes) : bytes := name ++ str "-broker-headless".

(* the host string BuildClusterMetadata formats for broker i *)
Definition meta_pod_host (sp : spec) (i : Z) : bytes :=
  sp_name sp ++ str "-broker-" ++ dec i ++ str "." ++ headless_name (sp_name sp) ++ str "." ++ sp_ns sp ++ str ".svc.cluster.local".

Section WithTrim.
Variable trim : bytes -> bytes.

Definition meta_host (sp : spec) (i : Z) : bytes :=
  let r := meta_replicas sp in
  let h := trim (sp_host sp) in
  if (r >? 1) || negb (nonempty h) then meta_pod_host sp i else h.

Definition build_parts (ids : list Z) (n : Z) : list part :=
  map (fun i => mkPart i (nth (Z.to_nat (i mod zlen ids)) ids 0) ids ids) (seqZ n).

(* BuildClusterMetadata; make([]T, n) panics for n < 0 *)
Definition build_meta (sp : spec) (topics : list topic) : outcome :=
  let r := meta_replicas sp in
  let ids := build_replica_ids r in
  if existsb (fun t => t_parts t <? 0) topics then Panic else
  Done (mkMeta (map (fun i => mkBroker i (meta_host sp i) (meta_port sp)) (seqZ r))
               0
               (map (fun t => mkMTopic (t_name t) 0 (build_parts ids (t_parts t))) topics)
               (opt_str (sp_name sp)) (opt_str (sp_uid sp))).

(* ---------- the deployed side: StatefulSet rendered by reconcileBrokerDeployment ---------- *)
Record sts := mkSts { sts_name : bytes; sts_ns : bytes; sts_service : bytes; sts_replicas : Z;
                      sts_env_host : option bytes (* KAFSCALE_BROKER_HOST of the broker container *) }.

Definition sts_of (sp : spec) : sts :=
  let r := match sp_replicas sp with Some r => r | None => 3 end in
  let h := trim (sp_host sp) in
  mkSts (sp_name sp ++ str "-broker") (sp_ns sp) (headless_name (sp_name sp)) r
        (if (r >? 1) || negb (nonempty h) then None else Some h).

End WithTrim.

(* Kubernetes: pod i of a StatefulSet is <sts>-<i>; with a governing headless service
   its stable DNS name is <pod>.<service>.<namespace>.svc.cluster.local *)
Definition pod_name (s : sts) (i : Z) : bytes := sts_name s ++ str "-" ++ dec i.
Definition pod_dns (s : sts) (i : Z) : bytes :=
  pod_name s i ++ str "." ++ sts_service s ++ str "." ++ sts_ns s ++ str ".svc.cluster.local".

(* CRD schema deploy/helm/kafscale/crds: spec.brokers.replicas integer, minimum 1,
   default 3 (so never absent after admission); topic spec.partitions minimum 1 *)
Definition admissible (sp : spec) : Prop :=
  exists r, sp_replicas sp = Some r /\ 1 <= r <= 2147483647.
Definition topics_admissible (ts : list topic) : Prop := Forall (fun t => 0 <= t_parts t) ts.


(* ---------- the publish path: mergeSnapshots + PublishMetadataSnapshot ---------- *)
Definition live (ids : list Z) (x : Z) : bool := existsb (Z.eqb x) ids.
Definition all_live (ids l : list Z) : bool := forallb (live ids) l.

(* reassignMissingBrokers: a leader that is not a listed broker is re-assigned
   round-robin, a replica / ISR list naming an unlisted broker is re-rendered *)
Definition reassign_part (ids : list Z) (i : nat) (p : part) : part :=
  mkPart (p_id p)
         (if live ids (p_leader p) then p_leader p else nth (Nat.modulo i (length ids)) ids 0)
         (if all_live ids (p_replicas p) then p_replicas p else ids)
         (if all_live ids (p_isr p) then p_isr p else ids).
Fixpoint reassign_from (ids : list Z) (i : nat) (ps : list part) : list part :=
  match ps with
  | [] => []
  | p :: ps' => reassign_part ids i p :: reassign_from ids (S i) ps'
  end.
Definition reassign (brokers : list broker) (ps : list part) : list part :=
  match brokers with [] => ps | _ => reassign_from (map b_id brokers) 0 ps end.

Fixpoint find_idx (name : bytes) (ts : list mtopic) (i : nat) : option nat :=
  match ts with
  | [] => None
  | t :: ts' => if bytes_eqb name (mt_name t) then Some i else find_idx name ts' (S i)
  end.
Fixpoint set_parts (idx : nat) (ps : list part) (ts : list mtopic) : list mtopic :=
  match ts, idx with
  | [], _ => []
  | t :: ts', O => mkMTopic (mt_name t) (mt_err t) ps :: ts'
  | t :: ts', S k => t :: set_parts k ps ts'
  end.
Definition parts_at (idx : nat) (ts : list mtopic) : list part :=
  match nth_error ts idx with Some t => mt_parts t | None => [] end.

(* one iteration of the loop over existing.Topics; [fx] selects the fixed code *)
Definition merge_step (fx : bool) (brokers : list broker) (next0 : list mtopic) (acc : list mtopic) (t : mtopic) : list mtopic :=
  let keep := fun ps => if fx then reassign brokers ps else ps in
  if negb (nonempty (mt_name t)) || negb (mt_err t =? 0) then acc else
  match find_idx (mt_name t) next0 O with
  | Some idx =>
      if (length (parts_at idx acc) <? length (mt_parts t))%nat
      then set_parts idx (keep (mt_parts t)) acc else acc
  | None => acc ++ [mkMTopic (mt_name t) (mt_err t) (keep (mt_parts t))]
  end.

Definition merge_gen (fx : bool) (next existing : meta) : meta :=
  match m_topics existing with
  | [] => next
  | ets => mkMeta (m_brokers next) (m_controller next)
                  (fold_left (merge_step fx (m_brokers next) (m_topics next)) ets (m_topics next))
                  (m_cname next) (m_cid next)
  end.
Definition merge := merge_gen true.
Definition merge_orig := merge_gen false.

Definition meta0 : meta := mkMeta [] 0 [] None None.   (* no snapshot stored yet *)

(* InMemoryStore.defaultLeaderID *)
Definition default_leader (m : meta) : Z :=
  match m_brokers m with b :: _ => b_id b | [] => m_controller m end.
Definition new_parts (l : Z) (from to : Z) : list part :=
  map (fun i => mkPart (from + i) l [l] [l]) (seqZ (to - from)).

Fixpoint grow_in (l : Z) (name : bytes) (n : Z) (ts : list mtopic) : list mtopic :=
  match ts with
  | [] => []
  | t :: ts' =>
      if bytes_eqb name (mt_name t)
      then (if n <=? zlen (mt_parts t) then t
            else mkMTopic (mt_name t) (mt_err t) (mt_parts t ++ new_parts l (zlen (mt_parts t)) n)) :: ts'
      else t :: grow_in l name n ts'
  end.
Fixpoint delete_first (name : bytes) (ts : list mtopic) : list mtopic :=
  match ts with
  | [] => []
  | t :: ts' => if bytes_eqb name (mt_name t) then ts' else t :: delete_first name ts'
  end.
Fixpoint set_err (name : bytes) (code : Z) (ts : list mtopic) : list mtopic :=
  match ts with
  | [] => []
  | t :: ts' => if bytes_eqb name (mt_name t) then mkMTopic (mt_name t) code (mt_parts t) :: ts' else t :: set_err name code ts'
  end.
Definition with_topics (m : meta) (ts : list mtopic) : meta :=
  mkMeta (m_brokers m) (m_controller m) ts (m_cname m) (m_cid m).

Inductive pevent :=
| PPublish (sp : spec) (topics : list topic)       (* operator: render, merge with the stored snapshot, put *)
| PGrow (name : bytes) (n : Z)                      (* broker: CreatePartitions *)
| PCreate (name : bytes) (n : Z)                    (* broker: CreateTopic (replication factor 1) *)
| PDelete (name : bytes)                            (* broker: DeleteTopic *)
| PSetErr (name : bytes) (code : Z).                (* stored topic entry carries an error code *)

Section Publish.
Variable trim : bytes -> bytes.
Variable fx : bool.

Definition pstep (m : meta) (e : pevent) : meta :=
  match e with
  | PPublish sp topics =>
      match build_meta trim sp topics with
      | Done next => merge_gen fx next m
      | Panic => m
      end
  | PGrow name n => with_topics m (grow_in (default_leader m) name n (m_topics m))
  | PCreate name n =>
      if (n <=? 0) || negb (nonempty name) || match m_brokers m with [] => true | _ => false end
         || match find_idx name (m_topics m) O with Some _ => true | None => false end
      then m
      else with_topics m (m_topics m ++ [mkMTopic name 0 (new_parts (default_leader m) 0 n)])
  | PDelete name => with_topics m (delete_first name (m_topics m))
  | PSetErr name code => with_topics m (set_err name code (m_topics m))
  end.

Fixpoint prun (m : meta) (es : list pevent) : meta :=
  match es with [] => m | e :: es' => prun (pstep m e) es' end.
End Publish.

(* what C39 demands of a published snapshot *)
Definition broker_ids (m : meta) : list Z := map b_id (m_brokers m).
Definition part_ok (ids : list Z) (p : part) : Prop :=
  In (p_leader p) ids /\ incl (p_replicas p) ids /\ incl (p_isr p) ids.
Definition dense (ps : list part) : Prop := map p_id ps = seqZ (zlen ps).
Definition meta_ok (m : meta) : Prop :=
  forall mt, In mt (m_topics m) -> dense (mt_parts mt) /\ forall p, In p (mt_parts mt) -> part_ok (broker_ids m) p.
Definition part_okb (ids : list Z) (p : part) : bool :=
  live ids (p_leader p) && all_live ids (p_replicas p) && all_live ids (p_isr p).
Definition meta_okb (m : meta) : bool :=
  forallb (fun mt => list_eqb Z.eqb (map p_id (mt_parts mt)) (seqZ (zlen (mt_parts mt))) &&
                     forallb (part_okb (broker_ids m)) (mt_parts mt)) (m_topics m).
Definition pevent_admissible (e : pevent) : Prop :=
  match e with PPublish sp topics => admissible sp /\ topics_admissible topics | _ => True end.

(* ---------- bucket names ---------- *)
Definition bucket_prefix : bytes := str "kafscale-etcd".
Definition dash : Z := 45.

Definition is_lower (c : Z) : bool := (97 <=? c) && (c <=? 122).
Definition is_digit (c : Z) : bool := (48 <=? c) && (c <=? 57).
Definition alnum (c : Z) : bool := is_lower c || is_digit c.
Definition okc (c : Z) : bool := alnum c || (c =? dash).

(* the rune loop of sanitizeBucketName *)
Fixpoint sanitize_loop (rs : list Z) (last_dash : bool) : bytes :=
  match rs with
  | [] => []
  | r :: rs' =>
      if alnum r then r :: sanitize_loop rs' false
      else if last_dash then sanitize_loop rs' true
      else dash :: sanitize_loop rs' true
  end.

Fixpoint drop_dashes (l : bytes) : bytes :=
  match l with
  | c :: l' => if c =? dash then drop_dashes l' else l
  | [] => []
  end.

Fixpoint trim_right_dash (l : bytes) : bytes :=
  match l with
  | [] => []
  | c :: l' =>
      match trim_right_dash l' with
      | [] => if c =? dash then [] else [c]
      | r => c :: r
      end
  end.

(* strings.Trim(s, "-") *)
Definition trim_dash (l : bytes) : bytes := trim_right_dash (drop_dashes l).

Definition max_bucket_len : Z := 63.
Definition min_bucket_len : Z := 3.

(* sanitizeBucketName after raw = ToLower(TrimSpace(raw)), on the runes of raw *)
Definition sanitize_core (rs : list Z) : bytes :=
  match rs with
  | [] => bucket_prefix
  | _ =>
      let out := trim_dash (sanitize_loop rs false) in
      let out := if zlen out >? max_bucket_len
                 then trim_right_dash (firstn (Z.to_nat max_bucket_len) out) else out in
      if zlen out <? min_bucket_len then bucket_prefix else out
  end.

(* the unfixed function (no cap, only the empty result replaced), for the record *)
Definition sanitize_core_orig (rs : list Z) : bytes :=
  match rs with
  | [] => bucket_prefix
  | _ => match trim_dash (sanitize_loop rs false) with [] => bucket_prefix | out => out end
  end.

Section WithStrings.
Variable trim : bytes -> bytes.
Variable lower_trim : bytes -> list Z.

Definition sanitize (raw : bytes) : bytes := sanitize_core (lower_trim raw).

(* defaultEtcdSnapshotBucket *)
Definition default_bucket (name ns : bytes) : bytes :=
  let name := trim name in
  let ns := trim ns in
  match nonempty name, nonempty ns with
  | false, false => bucket_prefix
  | true, false => sanitize (bucket_prefix ++ str "-" ++ name)
  | false, true => sanitize (bucket_prefix ++ str "-" ++ ns)
  | true, true => sanitize (bucket_prefix ++ str "-" ++ ns ++ str "-" ++ name)
  end.

End WithStrings.

(* S3 bucket naming as the operator intends it: 3-63 characters of [a-z0-9-],
   beginning and ending with a letter or digit *)
Definition s3_valid (b : bytes) : Prop :=
  min_bucket_len <= zlen b <= max_bucket_len /\ forallb okc b = true /\
  alnum (hd 0 b) = true /\ alnum (last b 0) = true.

Definition s3_validb (b : bytes) : bool :=
  (min_bucket_len <=? zlen b) && (zlen b <=? max_bucket_len) && forallb okc b &&
  alnum (hd 0 b) && alnum (last b 0).

(* ---------- oracle tables for the correspondence instance ---------- *)
Fixpoint table_bytes (t : list (bytes * bytes)) (x : bytes) : bytes :=
  match t with
  | [] => x
  | (k, v) :: t' => if bytes_eqb x k then v else table_bytes t' x
  end.
Fixpoint table_runes (t : list (bytes * list Z)) (x : bytes) : list Z :=
  match t with
  | [] => []
  | (k, v) :: t' => if bytes_eqb x k then v else table_runes t' x
  end.
