(* Model of the operator functions behind C39:
   pkg/operator/snapshot.go: BuildClusterMetadata, buildReplicaIDs;
   pkg/operator/cluster_controller.go: reconcileBrokerDeployment (StatefulSet name,
   ServiceName, replica count), brokerHeadlessServiceName, brokerContainer's
   KAFSCALE_BROKER_HOST rule;
   pkg/operator/etcd_resources.go: defaultEtcdSnapshotBucket, sanitizeBucketName - as
   in fixes/C39-bucket-name-length.patch (result capped at 63 characters, trailing '-'
   re-trimmed, results shorter than 3 replaced by the default prefix).
   External string functions are oracles: [trim] = strings.TrimSpace on bytes,
   [lower_trim] = the runes of strings.ToLower(strings.TrimSpace(raw)).
   fmt "%d" is lib.Strings.dec.  No proofs here. *)
From Coq Require Import String.
From KS Require Import lib.Base lib.Strings.
Open Scope Z_scope.

Definition str (s : string) : bytes := codes s.

(* ---------- cluster spec and rendered objects ---------- *)
Record spec := mkSpec {
  sp_name : bytes; sp_ns : bytes;
  sp_replicas : option Z;          (* *int32 *)
  sp_host : bytes;                 (* Spec.Brokers.AdvertisedHost *)
  sp_port : option Z;              (* *int32 *)
  sp_uid : bytes }.

Record topic := mkTopic { t_name : bytes; t_parts : Z }.

Record broker := mkBroker { b_id : Z; b_host : bytes; b_port : Z }.
Record part := mkPart { p_id : Z; p_leader : Z; p_replicas : list Z; p_isr : list Z }.
Record mtopic := mkMTopic { mt_name : bytes; mt_parts : list part }.
Record meta := mkMeta {
  m_brokers : list broker; m_controller : Z; m_topics : list mtopic;
  m_cname : option bytes; m_cid : option bytes }.

Inductive outcome := Panic | Done (m : meta).

Definition seqZ (n : Z) : list Z := map Z.of_nat (seq 0 (Z.to_nat n)).

(* buildReplicaIDs *)
Definition build_replica_ids (n : Z) : list Z := if n <=? 0 then [] else seqZ n.

Definition nonempty (b : bytes) : bool := match b with [] => false | _ => true end.
Definition opt_str (b : bytes) : option bytes := if nonempty b then Some b else None.

Definition meta_replicas (sp : spec) : Z :=
  match sp_replicas sp with Some r => if r >? 0 then r else 1 | None => 1 end.
Definition meta_port (sp : spec) : Z :=
  match sp_port sp with Some p => if p >? 0 then p else 9092 | None => 9092 end.

Definition headless_name (name : bytes) : bytes := name ++ str "-broker-headless".

(* the host string BuildClusterMetadata formats for broker i *)
Definition meta_pod_host (sp : spec) (i : Z) : bytes :=
  sp_name sp ++ str "-broker-" ++ dec i ++ str "." ++ headless_name (sp_name sp) ++ str "." ++ sp_ns sp ++ str ".svc.cluster.local".

Section WithTrim.
Variable trim : bytes -> bytes.

Definition meta_host (sp : spec) (i : Z) : bytes :=
  let r := meta_replicas sp in
  let h := trim (sp_host sp) in
  if (r >? 1) || negb (nonempty h) then meta_pod_host sp i else h.

Definition build_parts (ids : list Z) (n : Z) : list part :=
  map (fun i => mkPart i (nth (Z.to_nat (i mod zlen ids)) ids 0) ids ids) (seqZ n).

(* BuildClusterMetadata; make([]T, n) panics for n < 0 *)
Definition build_meta (sp : spec) (topics : list topic) : outcome :=
  let r := meta_replicas sp in
  let ids := build_replica_ids r in
  if existsb (fun t => t_parts t <? 0) topics then Panic else
  Done (mkMeta (map (fun i => mkBroker i (meta_host sp i) (meta_port sp)) (seqZ r))
               0
               (map (fun t => mkMTopic (t_name t) (build_parts ids (t_parts t))) topics)
               (opt_str (sp_name sp)) (opt_str (sp_uid sp))).

(* ---------- the deployed side: StatefulSet rendered by reconcileBrokerDeployment ---------- *)
Record sts := mkSts { sts_name : bytes; sts_ns : bytes; sts_service : bytes; sts_replicas : Z;
                      sts_env_host : option bytes (* KAFSCALE_BROKER_HOST of the broker container *) }.

Definition sts_of (sp : spec) : sts :=
  let r := match sp_replicas sp with Some r => r | None => 3 end in
  let h := trim (sp_host sp) in
  mkSts (sp_name sp ++ str "-broker") (sp_ns sp) (headless_name (sp_name sp)) r
        (if (r >? 1) || negb (nonempty h) then None else Some h).

End WithTrim.

(* Kubernetes: pod i of a StatefulSet is <sts>-<i>; with a governing headless service
   its stable DNS name is <pod>.<service>.<namespace>.svc.cluster.local *)
Definition pod_name (s : sts) (i : Z) : bytes := sts_name s ++ str "-" ++ dec i.
Definition pod_dns (s : sts) (i : Z) : bytes :=
  pod_name s i ++ str "." ++ sts_service s ++ str "." ++ sts_ns s ++ str ".svc.cluster.local".

(* CRD schema deploy/helm/kafscale/crds: spec.brokers.replicas integer, minimum 1,
   default 3 (so never absent after admission); topic spec.partitions minimum 1 *)
Definition admissible (sp : spec) : Prop :=
  exists r, sp_replicas sp = Some r /\ 1 <= r <= 2147483647.
Definition topics_admissible (ts : list topic) : Prop := Forall (fun t => 0 <= t_parts t) ts.

(* ---------- bucket names ---------- *)
Definition bucket_prefix : bytes := str "kafscale-etcd".
Definition dash : Z := 45.

Definition is_lower (c : Z) : bool := (97 <=? c) && (c <=? 122).
Definition is_digit (c : Z) : bool := (48 <=? c) && (c <=? 57).
Definition alnum (c : Z) : bool := is_lower c || is_digit c.
Definition okc (c : Z) : bool := alnum c || (c =? dash).

(* the rune loop of sanitizeBucketName *)
Fixpoint sanitize_loop (rs : list Z) (last_dash : bool) : bytes :=
  match rs with
  | [] => []
  | r :: rs' =>
      if alnum r then r :: sanitize_loop rs' false
      else if last_dash then sanitize_loop rs' true
      else dash :: sanitize_loop rs' true
  end.

Fixpoint drop_dashes (l : bytes) : bytes :=
  match l with
  | c :: l' => if c =? dash then drop_dashes l' else l
  | [] => []
  end.

Fixpoint trim_right_dash (l : bytes) : bytes :=
  match l with
  | [] => []
  | c :: l' =>
      match trim_right_dash l' with
      | [] => if c =? dash then [] else [c]
      | r => c :: r
      end
  end.

(* strings.Trim(s, "-") *)
Definition trim_dash (l : bytes) : bytes := trim_right_dash (drop_dashes l).

Definition max_bucket_len : Z := 63.
Definition min_bucket_len : Z := 3.

(* sanitizeBucketName after raw = ToLower(TrimSpace(raw)), on the runes of raw *)
Definition sanitize_core (rs : list Z) : bytes :=
  match rs with
  | [] => bucket_prefix
  | _ =>
      let out := trim_dash (sanitize_loop rs false) in
      let out := if zlen out >? max_bucket_len
                 then trim_right_dash (firstn (Z.to_nat max_bucket_len) out) else out in
      if zlen out <? min_bucket_len then bucket_prefix else out
  end.

(* the unfixed function (no cap, only the empty result replaced), for the record *)
Definition sanitize_core_orig (rs : list Z) : bytes :=
  match rs with
  | [] => bucket_prefix
  | _ => match trim_dash (sanitize_loop rs false) with [] => bucket_prefix | out => out end
  end.

Section WithStrings.
Variable trim : bytes -> bytes.
Variable lower_trim : bytes -> list Z.

Definition sanitize (raw : bytes) : bytes := sanitize_core (lower_trim raw).

(* defaultEtcdSnapshotBucket *)
Definition default_bucket (name ns : bytes) : bytes :=
  let name := trim name in
  let ns := trim ns in
  match nonempty name, nonempty ns with
  | false, false => bucket_prefix
  | true, false => sanitize (bucket_prefix ++ str "-" ++ name)
  | false, true => sanitize (bucket_prefix ++ str "-" ++ ns)
  | true, true => sanitize (bucket_prefix ++ str "-" ++ ns ++ str "-" ++ name)
  end.

End WithStrings.

(* S3 bucket naming as the operator intends it: 3-63 characters of [a-z0-9-],
   beginning and ending with a letter or digit *)
Definition s3_valid (b : bytes) : Prop :=
  min_bucket_len <= zlen b <= max_bucket_len /\ forallb okc b = true /\
  alnum (hd 0 b) = true /\ alnum (last b 0) = true.

Definition s3_validb (b : bytes) : bool :=
  (min_bucket_len <=? zlen b) && (zlen b <=? max_bucket_len) && forallb okc b &&
  alnum (hd 0 b) && alnum (last b 0).

(* ---------- oracle tables for the correspondence instance ---------- *)
Fixpoint table_bytes (t : list (bytes * bytes)) (x : bytes) : bytes :=
  match t with
  | [] => x
  | (k, v) :: t' => if bytes_eqb x k then v else table_bytes t' x
  end.
Fixpoint table_runes (t : list (bytes * list Z)) (x : bytes) : list Z :=
  match t with
  | [] => []
  | (k, v) :: t' => if bytes_eqb x k then v else table_runes t' x
  end.
