(* Executable model of pkg/broker/s3_health.go and of the S3-health gate in
   cmd/broker/main.go (property C25).

   Modelled: NewS3HealthMonitor (defaults), RecordOperation (append, keep the last
   MaxSamples, truncateLocked, recomputeLocked), State/Snapshot (truncateLocked,
   recomputeLocked), backpressureErrorCode, and the per-partition guard order of
   handleProduce / handleFetch (ACL -> etcd -> partition lease -> S3 health for
   produce; ACL -> S3 health for fetch).

   Numbers: timestamps and durations are nanoseconds in Z. The latency sum is an
   int64 (wrap64 of the exact sum: wrapping addition is associative, so wrapping once
   at the end equals Go's incremental wrap); the average is Go's truncated division
   (Z.quot). The error rate float64(errors)/float64(n) and its comparison with the
   float64 thresholds use Coq's PRIMITIVE FLOATS (IEEE-754 binary64, evaluated by
   vm_compute), so boundary cases such as 1/5 against the literal 0.2 are decided
   exactly as Go decides them. NaN / infinite thresholds are values of [float] too.
   No proofs in this file. *)
From Coq Require Import Floats.
From KS Require Import lib.Base.
Open Scope Z_scope.

Inductive hstate := Healthy | Degraded | Unavailable.

Definition rank (s : hstate) : Z := match s with Healthy => 0 | Degraded => 1 | Unavailable => 2 end.

Definition hstate_eqb (a b : hstate) : bool := rank a =? rank b.

Record sample := mkSample { s_ts : Z; s_lat : Z; s_err : bool }.

Record hcfg := mkHcfg {
  h_window : Z; h_lwarn : Z; h_lcrit : Z;
  h_ewarn : float; h_ecrit : float;
  h_max : Z
}.

Definition fzero : float := 0%float.

(* NewS3HealthMonitor: "if x <= 0 { x = default }" for every field *)
Definition with_defaults (c : hcfg) : hcfg :=
  mkHcfg (if h_window c <=? 0 then 60000000000 else h_window c)
         (if h_lwarn c <=? 0 then 500000000 else h_lwarn c)
         (if h_lcrit c <=? 0 then 3000000000 else h_lcrit c)
         (if PrimFloat.leb (h_ewarn c) fzero then 0x1.999999999999ap-3%float else h_ewarn c)   (* 0.2 *)
         (if PrimFloat.leb (h_ecrit c) fzero then 0x1.3333333333333p-1%float else h_ecrit c)   (* 0.6 *)
         (if h_max c <=? 0 then 512 else h_max c).

Definition wrap64 (z : Z) : Z := (z + 9223372036854775808) mod 18446744073709551616 - 9223372036854775808.

Definition total_latency (l : list sample) : Z := wrap64 (fold_right (fun s a => s_lat s + a) 0 l).
Definition avg_latency (l : list sample) : Z := Z.quot (total_latency l) (zlen l).
Definition error_count (l : list sample) : Z := zlen (filter s_err l).

Definition float_of_Z (z : Z) : float := PrimFloat.of_uint63 (Uint63.of_Z z).
Definition error_rate (l : list sample) : float := PrimFloat.div (float_of_Z (error_count l)) (float_of_Z (zlen l)).

(* the rating as a function of the two aggregates (recomputeLocked, second half) *)
Definition rate (c : hcfg) (avg : Z) (er : float) : hstate :=
  if (h_lcrit c <=? avg) || PrimFloat.leb (h_ecrit c) er then Unavailable
  else if (h_lwarn c <=? avg) || PrimFloat.leb (h_ewarn c) er then Degraded
  else Healthy.

Definition classify (c : hcfg) (l : list sample) : hstate :=
  match l with
  | [] => Healthy
  | _ => rate c (avg_latency l) (error_rate l)
  end.

(* truncateLocked: drop the leading samples that are not After(cutoff) *)
Fixpoint drop_old (cutoff : Z) (l : list sample) : list sample :=
  match l with
  | [] => []
  | s :: l' => if cutoff <? s_ts s then l else drop_old cutoff l'
  end.

Definition last_n (n : Z) (l : list sample) : list sample := skipn (length l - Z.to_nat n) l.

Record monitor := mkMon { m_samples : list sample; m_state : hstate }.

Definition new_monitor : monitor := mkMon [] Healthy.

Inductive hevent :=
| HRecord (now lat : Z) (err : bool)     (* RecordOperation at time now *)
| HQuery (now : Z).                      (* State() / Snapshot() at time now *)

Definition ev_time (e : hevent) : Z := match e with HRecord t _ _ => t | HQuery t => t end.

Definition hstep (c : hcfg) (m : monitor) (e : hevent) : monitor :=
  match e with
  | HRecord now lat err =>
      let l1 := m_samples m ++ [mkSample now lat err] in
      let l2 := if h_max c <? zlen l1 then last_n (h_max c) l1 else l1 in
      let l3 := drop_old (now - h_window c) l2 in
      mkMon l3 (classify c l3)
  | HQuery now =>
      let l := drop_old (now - h_window c) (m_samples m) in
      mkMon l (classify c l)
  end.

Definition hrun (c : hcfg) (evs : list hevent) : monitor := fold_left (hstep c) evs new_monitor.

(* ---- vocabulary of the statement ---- *)
(* every operation ever recorded, in order *)
Fixpoint recorded (evs : list hevent) : list sample :=
  match evs with
  | [] => []
  | HRecord t lat err :: evs' => mkSample t lat err :: recorded evs'
  | HQuery _ :: evs' => recorded evs'
  end.

Definition last_time (evs : list hevent) : Z := match rev evs with e :: _ => ev_time e | [] => 0 end.

(* the clock never goes backwards (Go's monotonic clock reading) *)
Fixpoint times_ok (t0 : Z) (evs : list hevent) : Prop :=
  match evs with
  | [] => True
  | e :: evs' => t0 <= ev_time e /\ times_ok (ev_time e) evs'
  end.

(* "the samples inside the window among the last MaxSamples" *)
Definition in_window (c : hcfg) (now : Z) (all : list sample) : list sample :=
  filter (fun s => now - h_window c <? s_ts s) (last_n (h_max c) all).

(* ---- the handler's gate (cmd/broker/main.go) ---- *)
(* backpressureErrorCode: REQUEST_TIMED_OUT = 7, UNKNOWN_SERVER_ERROR = -1 *)
Definition bp_code (s : hstate) : Z := match s with Degraded => 7 | _ => -1 end.

Inductive lease_res := LeaseOk | LeaseNotOwner | LeaseFailed.

(* what handleProduce / handleFetch see for one partition. st_gate is the State()
   read by the gate, st_code the second State() read inside backpressureErrorCode
   (time passes between the two reads, so they may differ). *)
Record penv := mkPenv { pe_allowed : bool; pe_etcd : bool; pe_lease : lease_res; pe_gate : hstate; pe_code : hstate }.

Inductive pout :=
| PReject (code : Z)      (* partition answered with this error code, nothing appended / read *)
| PProceed.               (* reaches getPartitionLog + AppendBatch (produce) or Read (fetch) *)

Definition produce_partition (e : penv) : pout :=
  if negb (pe_allowed e) then PReject 29                      (* TOPIC_AUTHORIZATION_FAILED *)
  else if negb (pe_etcd e) then PReject 7                     (* REQUEST_TIMED_OUT *)
  else match pe_lease e with
       | LeaseNotOwner => PReject 6                           (* NOT_LEADER_OR_FOLLOWER *)
       | LeaseFailed => PReject 7
       | LeaseOk => if hstate_eqb (pe_gate e) Healthy then PProceed else PReject (bp_code (pe_code e))
       end.

Definition fetch_partition (e : penv) : pout :=
  if negb (pe_allowed e) then PReject 29
  else match pe_gate e with
       | Degraded | Unavailable => PReject (bp_code (pe_code e))
       | Healthy => PProceed
       end.

(* a request = list of topics, each a list of partition environments *)
Definition produce_request (ts : list (list penv)) : list (list pout) := map (map produce_partition) ts.
Definition fetch_request (ts : list (list penv)) : list (list pout) := map (map fetch_partition) ts.

Definition rejected (o : pout) : Prop := exists c, o = PReject c /\ c <> 0.
