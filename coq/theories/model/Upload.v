(* Executable model of the LFS HTTP upload API of cmd/proxy (package main), WITH the three
   proposed fixes fixes/C32-*.patch applied (see the comments marked FIX).
   Modelled Go functions:
     lfs_http.go: handleHTTPProduce (from the S3 upload on), handleHTTPUploadInit,
       handleHTTPUploadSession (dispatch), handleHTTPUploadPart, handleHTTPUploadComplete,
       handleHTTPUploadAbort, lfsStatusForUploadError, lfsCheckProduceResponse (FIX a);
     lfs_s3.go: s3Uploader.UploadStream, StartMultipartUpload, UploadPart,
       CompleteMultipartUpload, AbortMultipartUpload, DeleteObject;
     lfs.go: connectBackend / forwardToBackend as the broker reply oracle.
   Data are abstract: a body is a list of chunks (id, size); two bodies are the same bytes
   when the chunk lists are equal (the harness gives every uploaded body a fresh id).
   S3 multipart model: an upload collects (part number -> chunk, ETag = chunk id); completing
   it with a list of (part number, ETag) stores the concatenation of exactly the listed parts
   (strictly ascending part numbers and matching ETags, otherwise InvalidPartOrder /
   InvalidPart) and closes the upload id; UploadPart / CompleteMultipartUpload on an upload id
   that was completed or aborted answer NoSuchUpload; every S3 call may also fail
   transiently (fault oracle).  Broker model: the reply to the produce request is an oracle
   value (error code of the partition, transport error, unparseable frame, no partition, no
   backend).  Digests are a Section variable.  Session map, expiry and overlapping requests:
   see [sys]/[cstep] at the end.  Not modelled: API key / S3 health / topic validation (all
   before the upload), request-id, metrics, tracker.
   No proofs in this file. *)
From KS Require Import lib.Base.
Open Scope Z_scope.

Definition chunk := (Z * Z)%type.          (* id, size in bytes *)
Definition blob := list chunk.
Definition bsize (b : blob) : Z := fold_right (fun c a => snd c + a) 0 b.

Inductive reply :=
| RCode (c : Z)        (* produce response with this error code for the partition *)
| RTransport           (* connection closed / read error *)
| RGarbage             (* a frame that does not parse as a produce response *)
| RNoPartition         (* a well-formed response that names no partition *)
| RNoBackend           (* connectBackend fails *)
| RLate (c : Z)        (* the broker answers this request with code c, but only after the proxy's
                          deadline (dialTimeout): forwardToBackend returns a timeout error *)
| RWrongCorr (c : Z).  (* the broker's answer (code c) carries another correlation id *)

(* the error code with which the broker itself answered THIS produce request, if it did *)
Definition broker_answer (r : reply) : option Z :=
  match r with
  | RCode c => Some c
  | RLate c => Some c
  | RWrongCorr c => Some c
  | _ => None
  end.

Record config := mkCfg { c_part_size : Z; c_min_part : Z; c_max_blob : Z }.

Record envelope := mkEnv { e_key : Z; e_size : Z; e_sha : bytes; e_checksum : bytes }.

Record session := mkSess {
  s_key : Z;                       (* object key id *)
  s_size : Z;                      (* declared SizeBytes *)
  s_expect : bytes;                (* client checksum ("" = none given) *)
  s_alg : Z;                       (* 0 sha256, 1 md5, 2 crc32, 3 none *)
  s_next : Z;                      (* NextPart *)
  s_total : Z;                     (* TotalUploaded *)
  s_parts : list (Z * Z);          (* Parts: part number -> ETag, in upload order *)
  s_hashed : blob }.               (* what has been written to the hashers, in order *)

Record world := mkWorld {
  w_sess : option session;         (* the upload session, if it exists *)
  w_s3open : bool;                 (* the S3 multipart upload of the session is still open *)
  w_s3parts : list (Z * chunk);    (* S3 side: parts of the open upload, in upload order *)
  w_objects : list (Z * blob);     (* S3 objects, latest first *)
  w_nextkey : Z }.                 (* object keys seen by S3 so far *)

Inductive event :=
| EProduce (pieces : blob) (csum : bytes) (alg : Z) (faults : list bool) (r : reply)
    (* POST /lfs/produce; pieces = the body cut at the chunk size; alg < 0: invalid *)
| EInit (size : Z) (csum : bytes) (alg : Z) (fault : bool)
| EPart (n : Z) (body : chunk) (fault : bool)       (* size 0 = empty body *)
| EComplete (listed : list (Z * Z)) (fault : bool) (r : reply)
| EAbort.

(* [p_s3]: class of the S3 error behind a 502 of a Part / Complete request (0 none or not
   observed, 1 NoSuchUpload, 2 InvalidPart / InvalidPartOrder / EntityTooSmall, 5 injected
   transient failure): the handlers map every S3 error to 502 s3_upload_failed and echo it *)
Record response := mkResp { p_status : Z; p_env : option envelope; p_s3 : Z }.
Definition fail (st : Z) := mkResp st None 0.
Definition fails3 (cls : Z) := mkResp 502 None cls.

Fixpoint get_obj (k : Z) (l : list (Z * blob)) : option blob :=
  match l with [] => None | (k', b) :: l' => if k' =? k then Some b else get_obj k l' end.
Fixpoint get_part {A} (n : Z) (l : list (Z * A)) : option A :=
  match l with [] => None | (n', c) :: l' => if n' =? n then Some c else get_part n l' end.
Definition del_obj (k : Z) (l : list (Z * blob)) := filter (fun kv => negb (fst kv =? k)) l.

Definition next_fault (fs : list bool) : bool * list bool :=
  match fs with [] => (false, []) | f :: fs' => (f, fs') end.

(* S3 CompleteMultipartUpload: the listed parts, strictly ascending, ETags matching *)
Fixpoint assemble (parts : list (Z * chunk)) (prev : Z) (listed : list (Z * Z)) : option blob :=
  match listed with
  | [] => Some []
  | (n, etag) :: l' =>
      if n <=? prev then None else
      match get_part n parts with
      | None => None
      | Some c => if fst c =? etag then
                    match assemble parts n l' with Some b => Some (c :: b) | None => None end
                  else None
      end
  end.

Section Ext.
  Variable hashf : Z -> blob -> bytes.     (* hex digest of the bytes of a blob, per algorithm *)

  Definition nonempty (s : bytes) : bool := match s with [] => false | _ => true end.
  Definition checksum_of (alg : Z) (b : blob) : bytes :=
    if alg =? 3 then [] else hashf alg b.

  (* FIX a: lfsCheckProduceResponse — only an error-free acknowledgement counts.
     ASSUMPTION "one request per connection": connectBackend dials a fresh connection for every
     upload and the handler closes it afterwards, so the first frame forwardToBackend reads on
     it is the broker's answer to this very request.  forwardToBackend does NOT compare the
     correlation id of the frame with the request's ([RWrongCorr] is taken at face value); the
     obligation "the frame read answers this request" rests on that assumption alone.  The
     harness checks it on every run: the broker fake counts the requests per accepted
     connection (must be 1) and the acknowledgement clause of the oracle is evaluated on the
     broker's own log for the envelope's record, not on what the proxy read. *)
  Definition broker_status (r : reply) : Z :=
    match r with
    | RNoBackend => 503
    | RTransport => 502
    | RGarbage => 502
    | RNoPartition => 502
    | RLate _ => 502
    | RCode c => if c =? 0 then 200 else 502
    | RWrongCorr c => if c =? 0 then 200 else 502
    end.

  (* UploadStream's multipart loop over the remaining pieces: (status, faults left, parts, total) *)
  Fixpoint stream_parts (cfg : config) (ps : blob) (n total : Z) (fs : list bool) (acc : list (Z * chunk))
    : Z * list bool * list (Z * chunk) :=
    match ps with
    | [] => (200, fs, acc)
    | p :: ps' =>
        let total' := total + snd p in
        if (0 <? c_max_blob cfg) && (c_max_blob cfg <? total') then (400, fs, acc) else
        let '(f, fs') := next_fault fs in
        if f then (502, fs', acc) else stream_parts cfg ps' (n + 1) total' fs' (acc ++ [(n, p)])
    end.

  Definition listed_all (acc : list (Z * chunk)) : list (Z * Z) :=
    map (fun nc => (fst nc, fst (snd nc))) acc.

  (* handleHTTPProduce after a successful UploadStream: checksum comparison, envelope, produce *)
  Definition produce_finish (key : Z) (pieces : blob) (csum : bytes) (alg : Z) (r : reply) (w2 : world)
    : world * response :=
    let sum := checksum_of alg pieces in
    if nonempty csum && nonempty sum && negb (bytes_eqb csum sum) then
      (mkWorld (w_sess w2) (w_s3open w2) (w_s3parts w2) (del_obj key (w_objects w2)) (w_nextkey w2), fail 400)
    else
      let env := mkEnv key (bsize pieces) (hashf 0 pieces) sum in
      let st := broker_status r in
      (w2, if st =? 200 then mkResp 200 (Some env) 0 else fail st).

  Definition put_obj (w : world) (key : Z) (obj : blob) : world :=
    mkWorld (w_sess w) (w_s3open w) (w_s3parts w) ((key, obj) :: w_objects w) (w_nextkey w).

  (* handleHTTPProduce from UploadStream on *)
  Definition do_produce (cfg : config) (w : world) (pieces : blob) (csum : bytes) (alg : Z)
      (faults : list bool) (r : reply) : world * response :=
    if alg <? 0 then (w, fail 400) else
    if nonempty csum && (alg =? 3) then (w, fail 400) else
    match pieces with
    | [] => (w, fail 400)                                   (* empty upload *)
    | first :: rest =>
      let key := w_nextkey w in
      let w1 := mkWorld (w_sess w) (w_s3open w) (w_s3parts w) (w_objects w) (key + 1) in
      let use_put := match rest with [] => snd first <? c_min_part cfg | _ => false end in
      if use_put then
        (* PutObject *)
        if fst (next_fault faults) then (w1, fail 502)
        else produce_finish key pieces csum alg r (put_obj w1 key pieces)
      else
        (* CreateMultipartUpload, UploadPart per piece, CompleteMultipartUpload *)
        if fst (next_fault faults) then (w1, fail 502) else
        let '(st, fs1, acc) := stream_parts cfg pieces 1 0 (snd (next_fault faults)) [] in
        if negb (st =? 200) then (w1, fail st) else
        if fst (next_fault fs1) then (w1, fail 502) else
        match assemble acc 0 (listed_all acc) with
        | None => (w1, fail 502)
        | Some obj => produce_finish key pieces csum alg r (put_obj w1 key obj)
        end
    end.

  (* handleHTTPUploadInit (one session per world: a second Init replaces the model's session
     slot; the harness issues one Init per case) *)
  Definition do_init (cfg : config) (w : world) (size : Z) (csum : bytes) (alg : Z) (fault : bool)
    : world * response :=
    if size <=? 0 then (w, fail 400) else
    if (0 <? c_max_blob cfg) && (c_max_blob cfg <? size) then (w, fail 400) else
    if alg <? 0 then (w, fail 400) else
    if nonempty csum && (alg =? 3) then (w, fail 400) else
    let key := w_nextkey w in
    if fault then (mkWorld (w_sess w) (w_s3open w) (w_s3parts w) (w_objects w) (key + 1), fail 502) else
    (mkWorld (Some (mkSess key size csum alg 1 0 [] [])) true [] (w_objects w) (key + 1), fail 200).

  (* handleHTTPUploadPart *)
  Definition do_part (cfg : config) (w : world) (n : Z) (body : chunk) (fault : bool) : world * response :=
    if (n <=? 0) || (2147483647 <? n) then (w, fail 400) else
    match w_sess w with
    | None => (w, fail 404)
    | Some s =>
      match get_part n (s_parts s) with
      | Some _ => (w, fail 200)                      (* already received: answered from the session *)
      | None =>
        if negb (n =? s_next s) then (w, fail 409) else
        let len := snd body in
        if len =? 0 then (w, fail 400) else
        if c_part_size cfg <? len then (w, fail 400) else
        if s_size s <? s_total s + len then (w, fail 400) else
        if (s_total s + len <? s_size s) && (len <? c_min_part cfg) then (w, fail 400) else
        (* FIX c: the hashers are written only after UploadPart succeeded *)
        (* UploadPart: injected failure, or NoSuchUpload when the upload id is no longer open
           (completed or aborted) *)
        if fault || negb (w_s3open w) then (w, fails3 (if fault then 5 else 1)) else
        let s' := mkSess (s_key s) (s_size s) (s_expect s) (s_alg s) (s_next s + 1) (s_total s + len)
                         (s_parts s ++ [(n, fst body)]) (s_hashed s ++ [body]) in
        (mkWorld (Some s') (w_s3open w) (w_s3parts w ++ [(n, body)]) (w_objects w) (w_nextkey w), fail 200)
      end
    end.

  (* FIX b: the completion request must list exactly parts 1..NextPart-1, in order *)
  Fixpoint listed_exact (listed : list (Z * Z)) (from upto : Z) : bool :=
    match listed with
    | [] => from =? upto
    | (n, _) :: l' => (n =? from) && listed_exact l' (from + 1) upto
    end.

  (* handleHTTPUploadComplete *)
  Definition do_complete (cfg : config) (w : world) (listed : list (Z * Z)) (fault : bool) (r : reply)
    : world * response :=
    match w_sess w with
    | None => (w, fail 404)
    | Some s =>
      if negb (s_total s =? s_size s) then (w, fail 400) else
      match listed with
      | [] => (w, fail 400)
      | _ =>
        if negb (forallb (fun ne => match get_part (fst ne) (s_parts s) with
                                    | Some etag => etag =? snd ne
                                    | None => false end) listed) then (w, fail 400) else
        if negb (listed_exact listed 1 (s_next s)) then (w, fail 400) else
        (* CompleteMultipartUpload: injected failure; NoSuchUpload for an upload id that was
           already completed or aborted (also for a completion that arrives while an abort or
           another completion is in flight and runs after it); InvalidPart / InvalidPartOrder
           when the list does not match S3's parts *)
        if fault || negb (w_s3open w) then (w, fails3 (if fault then 5 else 1)) else
        match assemble (w_s3parts w) 0 listed with
        | None => (w, fails3 2)
        | Some obj =>
          let w1 := mkWorld (w_sess w) false [] ((s_key s, obj) :: w_objects w) (w_nextkey w) in
          let sum := checksum_of (s_alg s) (s_hashed s) in
          if nonempty (s_expect s) && nonempty sum && negb (bytes_eqb (s_expect s) sum) then (w1, fail 400) else
          let env := mkEnv (s_key s) (s_total s) (hashf 0 (s_hashed s)) sum in
          let st := broker_status r in
          (* on 200 the session is deleted from the map (see [body]); the object stays *)
          if st =? 200 then (w1, mkResp 200 (Some env) 0) else (w1, fail st)
        end
      end
    end.

  (* handleHTTPUploadAbort *)
  Definition do_abort (w : world) : world * response :=
    match w_sess w with
    | None => (w, fail 404)
    | Some _ => (mkWorld (w_sess w) false [] (w_objects w) (w_nextkey w), fail 204)
    end.

  Definition step (cfg : config) (w : world) (e : event) : world * response :=
    match e with
    | EProduce ps cs alg fs r => do_produce cfg w ps cs alg fs r
    | EInit size cs alg f => do_init cfg w size cs alg f
    | EPart n b f => do_part cfg w n b f
    | EComplete l f r => do_complete cfg w l f r
    | EAbort => do_abort w
    end.

  Fixpoint run (cfg : config) (w : world) (es : list event) : world * list response :=
    match es with
    | [] => (w, [])
    | e :: es' => let '(w1, p) := step cfg w e in
                  let '(w2, ps) := run cfg w1 es' in (w2, p :: ps)
    end.

  Definition init_world : world := mkWorld None false [] [] 0.

  (* ---------- the session map, expiry and requests in flight ----------
     [w_sess] is the session OBJECT; it outlives its deletion from m.uploadSessions because a
     handler looks the session up first and locks session.mu afterwards: a request that found
     the session keeps working on it even if a concurrent request deletes it meanwhile.
     Every Part/Complete/Abort body runs under session.mu from the lock to the response, so
     overlapping requests on one session are: arrival (lookup; 404 when not in the map),
     waiting for the mutex, then the whole body atomically.  [CRun i] lets the i-th waiting
     request take the mutex: all lock orders are event lists.  [CExpire]: the clock passes
     ExpiresAt (lookups then drop the session from the map; a body that already holds the
     pointer answers 410 and deletes it). *)
  Record sys := mkSys {
    y_w : world;
    y_live : bool;            (* the session is in m.uploadSessions *)
    y_expired : bool;         (* now > session.ExpiresAt *)
    y_pending : list event }. (* requests that found the session and wait for session.mu *)

  Inductive cevent :=
  | CReq (e : event)          (* a request that arrives and runs without overlapping another one *)
  | CArrive (e : event)       (* a request arrives (session lookup) and waits for the mutex *)
  | CRun (i : nat)            (* the i-th waiting request gets the mutex and runs to its response *)
  | CExpire.

  Definition is_session_event (e : event) : bool :=
    match e with EPart _ _ _ | EComplete _ _ _ | EAbort => true | _ => false end.

  (* lfsGetUploadSession: cleanup of expired sessions, then the map lookup *)
  Definition lookup (y : sys) : sys * bool :=
    if y_expired y then (mkSys (y_w y) false (y_expired y) (y_pending y), false) else (y, y_live y).

  (* checks of handleHTTPUploadSession before the lookup *)
  Definition precheck (e : event) : option response :=
    match e with
    | EPart n _ _ => if (n <=? 0) || (2147483647 <? n) then Some (fail 400) else None
    | _ => None
    end.

  (* a handler body, from session.mu.Lock() to the response *)
  Definition body (cfg : config) (y : sys) (e : event) : sys * response :=
    match e with
    | EPart _ _ _ | EComplete _ _ _ =>
        if y_expired y then (mkSys (y_w y) false (y_expired y) (y_pending y), fail 410) else
        let '(w', p) := step cfg (y_w y) e in
        let deleted := match e with EComplete _ _ _ => p_status p =? 200 | _ => false end in
        (mkSys w' (y_live y && negb deleted) (y_expired y) (y_pending y), p)
    | EAbort =>
        let '(w', p) := step cfg (y_w y) e in (mkSys w' false (y_expired y) (y_pending y), p)
    | EInit _ _ _ _ =>
        let '(w', p) := step cfg (y_w y) e in
        if p_status p =? 200 then (mkSys w' true false (y_pending y), p)
        else (mkSys w' (y_live y) (y_expired y) (y_pending y), p)
    | EProduce _ _ _ _ _ =>
        let '(w', p) := step cfg (y_w y) e in (mkSys w' (y_live y) (y_expired y) (y_pending y), p)
    end.

  Fixpoint remove_nth {A} (i : nat) (l : list A) : list A :=
    match l, i with
    | [], _ => []
    | _ :: l', O => l'
    | x :: l', S i' => x :: remove_nth i' l'
    end.

  Definition cstep (cfg : config) (y : sys) (c : cevent) : sys * option response :=
    match c with
    | CExpire => (mkSys (y_w y) (y_live y) true (y_pending y), None)
    | CReq e =>
        if is_session_event e then
          match precheck e with
          | Some p => (y, Some p)
          | None => let '(y1, found) := lookup y in
                    if found then let '(y2, p) := body cfg y1 e in (y2, Some p) else (y1, Some (fail 404))
          end
        else let '(y2, p) := body cfg y e in (y2, Some p)
    | CArrive e =>
        if is_session_event e then
          match precheck e with
          | Some p => (y, Some p)
          | None => let '(y1, found) := lookup y in
                    if found then (mkSys (y_w y1) (y_live y1) (y_expired y1) (y_pending y1 ++ [e]), None)
                    else (y1, Some (fail 404))
          end
        else let '(y2, p) := body cfg y e in (y2, Some p)
    | CRun i =>
        match nth_error (y_pending y) i with
        | None => (y, None)
        | Some e =>
            let y1 := mkSys (y_w y) (y_live y) (y_expired y) (remove_nth i (y_pending y)) in
            let '(y2, p) := body cfg y1 e in (y2, Some p)
        end
    end.

  Fixpoint crun (cfg : config) (y : sys) (cs : list cevent) : sys * list (option response) :=
    match cs with
    | [] => (y, [])
    | c :: cs' => let '(y1, p) := cstep cfg y c in
                  let '(y2, ps) := crun cfg y1 cs' in (y2, p :: ps)
    end.

  Definition init_sys : sys := mkSys init_world false false [].
End Ext.
