(* Model of cmd/broker/s3_dual.go (dualS3Client: UploadSegment, UploadIndex,
   DeleteSegment, DeleteIndex, DownloadSegment, DownloadIndex, ListSegments,
   EnsureBucket) over two buckets modelled after pkg/storage/s3_memory.go
   (MemoryS3Client: two key->bytes maps, byte-range clamping of DownloadSegment,
   prefix listing, bucketReady flag).  Each call carries two fault flags chosen by
   the environment: [rf] = the replica client fails this call, [pf] = the primary
   client fails this call.  The replica bucket's content changes only through
   environment events [ERSeg]/[ERIdx] (cross-region replication copying an object,
   not having copied it yet, or - outside the property's hypothesis - anything else).
   No proofs here. *)
From KS Require Import lib.Base.
Open Scope Z_scope.

(* ---------- one bucket ---------- *)
Definition store := list (bytes * bytes).   (* at most one binding per key *)

Fixpoint sfind (k : bytes) (s : store) : option bytes :=
  match s with
  | [] => None
  | (k', v) :: s' => if bytes_eqb k k' then Some v else sfind k s'
  end.

Fixpoint sremove (k : bytes) (s : store) : store :=
  match s with
  | [] => []
  | (k', v) :: s' => if bytes_eqb k k' then sremove k s' else (k', v) :: sremove k s'
  end.

Definition sput (k v : bytes) (s : store) : store := (k, v) :: sremove k s.

Definition sset (k : bytes) (v : option bytes) (s : store) : store :=
  match v with Some b => sput k b s | None => sremove k s end.

Record mem := mkMem { m_seg : store; m_idx : store; m_ready : bool }.
Definition mem0 : mem := mkMem [] [] false.

Inductive res := ROk (b : bytes) | RNotFound | RBadRange | RFault | RCtx (* the call's context ended: cancelled / deadline exceeded *).

Definition rng := option (Z * Z).            (* *storage.ByteRange, nil = whole object *)

Definition slice (data : bytes) (s e : Z) : bytes :=
  firstn (Z.to_nat (e + 1 - s)) (skipn (Z.to_nat s) data).

(* MemoryS3Client.DownloadSegment on an object that exists *)
Definition read_range (data : bytes) (r : rng) : res :=
  match r with
  | None => ROk data
  | Some (s0, e0) =>
      let n := zlen data in
      let s := if s0 <? 0 then 0 else s0 in
      let e := if e0 >=? n then n - 1 else e0 in
      if (s >? e) || (s >=? n) then RBadRange else ROk (slice data s e)
  end.

Definition mem_get_seg (m : mem) (k : bytes) (r : rng) : res :=
  match sfind k (m_seg m) with Some d => read_range d r | None => RNotFound end.

Definition mem_get_idx (m : mem) (k : bytes) : res :=
  match sfind k (m_idx m) with Some d => ROk d | None => RNotFound end.

Fixpoint has_prefix (p s : bytes) : bool :=
  match p, s with
  | [], _ => true
  | x :: p', y :: s' => (x =? y) && has_prefix p' s'
  | _ :: _, [] => false
  end.

Definition mem_list (m : mem) (p : bytes) : list (bytes * Z) :=
  map (fun kv => (fst kv, zlen (snd kv))) (filter (fun kv => has_prefix p (fst kv)) (m_seg m)).

(* ---------- client operations and results ---------- *)
Inductive op :=
| OUpSeg (k b : bytes) | OUpIdx (k b : bytes)
| ODelSeg (k : bytes) | ODelIdx (k : bytes)
| OGetSeg (k : bytes) (r : rng) | OGetIdx (k : bytes)
| OList (p : bytes) | OEnsure
| ERSeg (k : bytes) (v : option bytes)      (* environment: replica bucket object k := v *)
| ERIdx (k : bytes) (v : option bytes).

Inductive out := VErr (failed : bool) | VRes (r : res) | VList (l : list (bytes * Z)) | VEnv.

(* A single bucket client with a fault flag (the harness's fault wrapper around
   MemoryS3Client): a failing call returns an error and changes nothing. *)
Definition mem_step (m : mem) (o : op) (fault : bool) : mem * out :=
  if fault then
    (m, match o with
        | OGetSeg _ _ | OGetIdx _ => VRes RFault
        | ERSeg _ _ | ERIdx _ _ => VEnv
        | _ => VErr true
        end)
  else
  match o with
  | OUpSeg k b => (mkMem (sput k b (m_seg m)) (m_idx m) (m_ready m), VErr false)
  | OUpIdx k b => (mkMem (m_seg m) (sput k b (m_idx m)) (m_ready m), VErr false)
  | ODelSeg k => (mkMem (sremove k (m_seg m)) (m_idx m) (m_ready m), VErr false)
  | ODelIdx k => (mkMem (m_seg m) (sremove k (m_idx m)) (m_ready m), VErr false)
  | OGetSeg k r => (m, VRes (mem_get_seg m k r))
  | OGetIdx k => (m, VRes (mem_get_idx m k))
  | OList p => (m, VList (mem_list m p))
  | OEnsure => (mkMem (m_seg m) (m_idx m) true, VErr false)
  | ERSeg _ _ | ERIdx _ _ => (m, VEnv)
  end.

(* ---------- the dual client ---------- *)
Record dual := mkDual { d_prim : mem; d_repl : mem }.
Definition dual0 : dual := mkDual mem0 mem0.

Definition is_ok (r : res) : bool := match r with ROk _ => true | _ => false end.

(* DownloadSegment / DownloadIndex: replica first, any error falls back to the primary *)
Definition dual_get_seg (d : dual) (k : bytes) (r : rng) (rf pf : bool) : res :=
  let a := if rf then RFault else mem_get_seg (d_repl d) k r in
  if is_ok a then a else if pf then RFault else mem_get_seg (d_prim d) k r.

Definition dual_get_idx (d : dual) (k : bytes) (rf pf : bool) : res :=
  let a := if rf then RFault else mem_get_idx (d_repl d) k in
  if is_ok a then a else if pf then RFault else mem_get_idx (d_prim d) k.

Definition dual_step (d : dual) (o : op) (rf pf : bool) : dual * out :=
  match o with
  | OGetSeg k r => (d, VRes (dual_get_seg d k r rf pf))
  | OGetIdx k => (d, VRes (dual_get_idx d k rf pf))
  | ERSeg k v => (mkDual (d_prim d) (mkMem (sset k v (m_seg (d_repl d))) (m_idx (d_repl d)) (m_ready (d_repl d))), VEnv)
  | ERIdx k v => (mkDual (d_prim d) (mkMem (m_seg (d_repl d)) (sset k v (m_idx (d_repl d))) (m_ready (d_repl d))), VEnv)
  | _ => let '(p', v) := mem_step (d_prim d) o pf in (mkDual p' (d_repl d), v)
  end.

Record call := mkCall { c_op : op; c_rf : bool; c_pf : bool }.

Fixpoint run (d : dual) (cs : list call) : dual :=
  match cs with
  | [] => d
  | c :: cs' => run (fst (dual_step d (c_op c) (c_rf c) (c_pf c))) cs'
  end.

(* Which replica calls one dual-client call makes (what the harness's recording
   wrapper around the replica sees): only downloads ever reach the replica. *)
Definition replica_calls (o : op) : list op :=
  match o with
  | OGetSeg k r => [OGetSeg k r]
  | OGetIdx k => [OGetIdx k]
  | _ => []
  end.

(* Whether the call reaches the primary client at all. *)
Definition primary_called (d : dual) (o : op) (rf : bool) : bool :=
  match o with
  | OGetSeg k r => negb (is_ok (if rf then RFault else mem_get_seg (d_repl d) k r))
  | OGetIdx k => negb (is_ok (if rf then RFault else mem_get_idx (d_repl d) k))
  | ERSeg _ _ | ERIdx _ _ => false
  | _ => true
  end.

(* ---------- the property's hypothesis ---------- *)
(* "lagging" = not yet copied: a replica object, when present, equals the primary's
   object under the same key (docs/operations.md, CRR). *)
Definition sub_store (r p : store) : Prop := forall k b, sfind k r = Some b -> sfind k p = Some b.
Definition replica_consistent (d : dual) : Prop :=
  sub_store (m_seg (d_repl d)) (m_seg (d_prim d)) /\ sub_store (m_idx (d_repl d)) (m_idx (d_prim d)).

(* decidable version used by the correspondence checker and the examples *)
Definition sub_storeb (r p : store) : bool :=
  forallb (fun kv => opt_eqb bytes_eqb (sfind (fst kv) r) (sfind (fst kv) p)) r.
Definition replica_consistentb (d : dual) : bool :=
  sub_storeb (m_seg (d_repl d)) (m_seg (d_prim d)) && sub_storeb (m_idx (d_repl d)) (m_idx (d_prim d)).

(* A history keeps the replica consistent when (i) replication events only copy the
   primary's current object or remove the replica's copy, (ii) an upload never
   changes the bytes under a key the replica already holds (segment keys are written
   once) and (iii) a delete never removes an object the replica still holds. *)
Definition call_disciplined (d : dual) (c : call) : Prop :=
  match c_op c with
  | ERSeg k (Some b) => sfind k (m_seg (d_prim d)) = Some b
  | ERIdx k (Some b) => sfind k (m_idx (d_prim d)) = Some b
  | OUpSeg k b => c_pf c = true \/ sfind k (m_seg (d_repl d)) = None \/ sfind k (m_seg (d_repl d)) = Some b
  | OUpIdx k b => c_pf c = true \/ sfind k (m_idx (d_repl d)) = None \/ sfind k (m_idx (d_repl d)) = Some b
  | ODelSeg k => c_pf c = true \/ sfind k (m_seg (d_repl d)) = None
  | ODelIdx k => c_pf c = true \/ sfind k (m_idx (d_repl d)) = None
  | _ => True
  end.

Fixpoint disciplined (d : dual) (cs : list call) : Prop :=
  match cs with
  | [] => True
  | c :: cs' => call_disciplined d c /\ disciplined (fst (dual_step d (c_op c) (c_rf c) (c_pf c))) cs'
  end.

(* ---------- time: the fallback runs under the CALLER's context ---------- *)
(* A bucket call takes time and honours its context.  [budget] is what is left of the
   caller's context when the call starts ([None] = no deadline, never cancelled); a
   planned call returns its outcome after [pl_lat] ([None] = stalls until the context
   ends), or the context error as soon as the budget runs out.  Times in ms. *)
Inductive plan_out := POk | PFail | PPartial.       (* PPartial: error together with partial bytes *)
Record plan := mkPlan { pl_lat : option Z; pl_out : plan_out }.

(* result and elapsed time; [None] = the call never returns (stall without any deadline) *)
Definition timed_call (budget : option Z) (p : plan) (content : res) : option (res * Z) :=
  let outcome := match pl_out p with POk => content | _ => RFault end in
  match budget, pl_lat p with
  | None, None => None
  | None, Some l => Some (outcome, l)
  | Some b, None => Some (RCtx, Z.max 0 b)
  | Some b, Some l => if b <=? 0 then Some (RCtx, 0) else if l <? b then Some (outcome, l) else Some (RCtx, b)
  end.

Definition budget_after (budget : option Z) (t : Z) : option Z :=
  match budget with Some b => Some (b - t) | None => None end.

(* DownloadSegment with time: the replica attempt and the primary fallback both run
   under the caller's context, so the fallback has whatever budget the replica left *)
Definition dual_get_seg_timed (d : dual) (k : bytes) (r : rng) (budget : option Z) (rp pp : plan) : option (res * Z) :=
  match timed_call budget rp (mem_get_seg (d_repl d) k r) with
  | None => None
  | Some (a, t1) =>
      if is_ok a then Some (a, t1) else
      match timed_call (budget_after budget t1) pp (mem_get_seg (d_prim d) k r) with
      | None => None
      | Some (b, t2) => Some (b, t1 + t2)
      end
  end.

Definition dual_get_idx_timed (d : dual) (k : bytes) (budget : option Z) (rp pp : plan) : option (res * Z) :=
  match timed_call budget rp (mem_get_idx (d_repl d) k) with
  | None => None
  | Some (a, t1) =>
      if is_ok a then Some (a, t1) else
      match timed_call (budget_after budget t1) pp (mem_get_idx (d_prim d) k) with
      | None => None
      | Some (b, t2) => Some (b, t1 + t2)
      end
  end.

(* the caller's context is still live when the call returns after t *)
Definition caller_live (budget : option Z) (t : Z) : Prop :=
  match budget with Some b => t < b | None => True end.
Definition caller_liveb (budget : option Z) (t : Z) : bool :=
  match budget with Some b => t <? b | None => true end.
