(* Executable hand model of the authorization decisions of handler.Handle
   (cmd/broker/main.go) for property C24, WITH the proposed fix
   fixes/C24-metadata-autocreate-acl.patch (the Metadata branch requires
   acl.ActionProduce on a topic before auto-creating it).

   Modelled: for each of the 21 request kinds Handle accepts, which permission is
   asked for which item (topic / group / config resource / the cluster), in which
   granularity (whole request vs per item), and what a denied item gets (error code;
   the guarded effectful call is not attempted for it, no record bytes are returned).
   Everything after the guards (the coordinator, the store, the partition log) is
   abstracted to [Proceeds]. The guard ORDER of the code is cross-checked against
   gen/DispatchTable.v (regenerated from the source on every run) through
   [expected_rows] below: proofs/DispatchProofs.v has one vm_compute lemma per request
   kind, so a dispatch case whose effectful call is no longer dominated by its guard
   breaks the lemma that names the case.

   The permission oracle [perm] is allowTopic/allowGroup/allowCluster of the requesting
   principal (the correspondence check instantiates it with the C23 model of the
   authorizer). No proofs in this file. *)
From Coq Require Import String.
From KS Require Import lib.Base lib.Strings.
Open Scope Z_scope.

Inductive action := AProduce | AFetch | AGroupRead | AGroupWrite | AGroupAdmin | AAdmin.
Inductive resource := RTopic | RGroup | RCluster.

Definition perm_t := action -> resource -> bytes -> bool.

Definition s_cluster : bytes := codes "cluster".
Definition s_star : bytes := codes "*".

(* an item of a request: (config resource type or 0, name) *)
Definition item := (Z * bytes)%type.

(* how a Fetch request names a topic: by name (all versions) or, from v13, by topic ID with
   an empty name; [ById None] is an ID the metadata store does not know *)
Inductive faddr := ByName (n : bytes) | ById (resolved : option bytes).

(* the name handleFetch authorises and reads: the RESOLVED name, never the wire field *)
Definition fetch_name (a : faddr) : option bytes :=
  match a with ByName n => Some n | ById r => r end.

Inductive req :=
| RApiVersions
| RFindCoordinator
| RMetadata (topics : list bytes)
| RProduce (topics : list bytes)
| RFetch (topics : list faddr)
| RJoinGroup (g : bytes) | RSyncGroup (g : bytes) | RHeartbeat (g : bytes) | RLeaveGroup (g : bytes)
| ROffsetCommit (g : bytes) | ROffsetFetch (g : bytes)
| RDescribeGroups (gs : list bytes) | RDeleteGroups (gs : list bytes)
| RListGroups
| ROffsetForLeaderEpoch (topics : list bytes) | RListOffsets (topics : list bytes)
| RDescribeConfigs (rs : list item)
| RAlterConfigs (rs : list item)
| RCreatePartitions (topics : list bytes)
| RCreateTopics (topics : list bytes)
| RDeleteTopics (topics : list bytes).

Record env := mkEnv {
  auto_create : bool;              (* h.autoCreateTopics *)
  admin_apis : bool;               (* h.allowAdminAPIs *)
  topic_exists : bytes -> bool;    (* metadata store *)
  blank : bytes -> bool            (* strings.TrimSpace(name) == "" *)
}.

Inductive item_out :=
| Denied (code : Z)   (* the item is answered with this code; the guarded call is not attempted for it; no record bytes *)
| Proceeds            (* the handler goes on to the effectful / disclosing call for this item *)
| Harmless.           (* nothing guarded happens for this item and no permission was needed *)

Definition TOPIC_AUTHZ : Z := 29.
Definition GROUP_AUTHZ : Z := 30.
Definition CLUSTER_AUTHZ : Z := 31.
Definition authz_code (c : Z) : bool := (c =? 29) || (c =? 30) || (c =? 31).

Definition topic_items (ts : list bytes) : list item := map (fun t => (0, t)) ts.

Definition per_item (p : perm_t) (a : action) (r : resource) (code : Z) (its : list item) : list (item * item_out) :=
  map (fun it => (it, if p a r (snd it) then Proceeds else Denied code)) its.

(* allowTopics: one missing permission rejects the whole request *)
Definition whole_request (ok : bool) (code : item -> Z) (its : list item) : list (item * item_out) :=
  map (fun it => (it, if ok then Proceeds else Denied (code it))) its.

Definition config_code (it : item) : Z := if fst it =? 2 then TOPIC_AUTHZ else CLUSTER_AUTHZ.

Definition handle (e : env) (p : perm_t) (r : req) : list (item * item_out) :=
  let admin := p AAdmin RCluster s_cluster in
  match r with
  | RApiVersions | RFindCoordinator => []
  | RMetadata ts =>
      map (fun it => (it, if negb (auto_create e) then Harmless
                          else if p AProduce RTopic (snd it) then Proceeds
                          else if topic_exists e (snd it) then Harmless else Denied TOPIC_AUTHZ))
          (topic_items (filter (fun t => negb (blank e t)) ts))
  | RProduce ts => per_item p AProduce RTopic TOPIC_AUTHZ (topic_items ts)
  | RFetch ts =>
      map (fun a => match fetch_name a with
                    | Some n => ((0, n), if p AFetch RTopic n then Proceeds else Denied TOPIC_AUTHZ)
                    | None => ((-1, []), Harmless)        (* UNKNOWN_TOPIC_ID: nothing is read *)
                    end) ts
  | RJoinGroup g | RSyncGroup g | RHeartbeat g | RLeaveGroup g | ROffsetCommit g =>
      per_item p AGroupWrite RGroup GROUP_AUTHZ [(0, g)]
  | ROffsetFetch g => per_item p AGroupRead RGroup GROUP_AUTHZ [(0, g)]
  | RDescribeGroups gs => per_item p AGroupRead RGroup GROUP_AUTHZ (topic_items gs)
  | RDeleteGroups gs => per_item p AGroupAdmin RGroup GROUP_AUTHZ (topic_items gs)
  | RListGroups => per_item p AGroupRead RGroup GROUP_AUTHZ [(0, s_star)]
  | ROffsetForLeaderEpoch ts | RListOffsets ts =>
      whole_request (forallb (p AFetch RTopic) ts) (fun _ => TOPIC_AUTHZ) (topic_items ts)
  | RDescribeConfigs rs =>
      map (fun it => (it, if fst it =? 2
                          then (if p AFetch RTopic (snd it) then Proceeds else Denied TOPIC_AUTHZ)
                          else (if admin then Harmless else Denied CLUSTER_AUTHZ))) rs
  | RAlterConfigs rs => whole_request admin config_code rs
  | RCreatePartitions ts => whole_request admin (fun _ => TOPIC_AUTHZ) (topic_items ts)
  | RCreateTopics ts | RDeleteTopics ts =>
      whole_request (admin && admin_apis e) (fun _ => TOPIC_AUTHZ) (topic_items ts)
  end.

(* the permission an item of a request needs (None: none) -- the statement's
   "required permission", written down independently of [handle] *)
Definition required (e : env) (r : req) (it : item) : option (action * resource * bytes) :=
  match r with
  | RApiVersions | RFindCoordinator => None
  | RMetadata _ => if auto_create e && negb (topic_exists e (snd it)) then Some (AProduce, RTopic, snd it) else None
  | RProduce _ => Some (AProduce, RTopic, snd it)
  | RFetch _ => if fst it =? -1 then None else Some (AFetch, RTopic, snd it)
  | ROffsetForLeaderEpoch _ | RListOffsets _ => Some (AFetch, RTopic, snd it)
  | RJoinGroup _ | RSyncGroup _ | RHeartbeat _ | RLeaveGroup _ | ROffsetCommit _ => Some (AGroupWrite, RGroup, snd it)
  | ROffsetFetch _ | RDescribeGroups _ | RListGroups => Some (AGroupRead, RGroup, snd it)
  | RDeleteGroups _ => Some (AGroupAdmin, RGroup, snd it)
  | RDescribeConfigs _ => if fst it =? 2 then Some (AFetch, RTopic, snd it) else Some (AAdmin, RCluster, s_cluster)
  | RAlterConfigs _ | RCreatePartitions _ | RCreateTopics _ | RDeleteTopics _ => Some (AAdmin, RCluster, s_cluster)
  end.

Definition lacks_permission (e : env) (p : perm_t) (r : req) (it : item) : Prop :=
  exists a rs n, required e r it = Some (a, rs, n) /\ p a rs n = false.

(* items for which the handler goes on to its effectful / disclosing call *)
Definition effects (out : list (item * item_out)) : list item :=
  map fst (filter (fun x => match snd x with Proceeds => true | _ => false end) out).

(* Topics the handler may CREATE while serving the request (auto-creation through the
   Metadata, Produce, Fetch and ListOffsets paths; CreateTopics). With
   fixes/C24-fetch-autocreate-acl.patch the read paths (Fetch, ListOffsets) auto-create a
   missing topic only for a principal that may also produce to it. *)
Definition fetch_names (ts : list faddr) : list bytes :=
  flat_map (fun a => match fetch_name a with Some n => [n] | None => [] end) ts.

Definition creates (e : env) (p : perm_t) (r : req) : list bytes :=
  let fresh := fun n => negb (topic_exists e n) in
  match r with
  | RMetadata ts => if auto_create e then filter (fun n => negb (blank e n) && fresh n && p AProduce RTopic n) ts else []
  | RProduce ts => if auto_create e then filter (fun n => fresh n && p AProduce RTopic n) ts else []
  | RFetch ts => if auto_create e then filter (fun n => fresh n && p AFetch RTopic n && p AProduce RTopic n) (fetch_names ts) else []
  | RListOffsets ts =>
      if auto_create e && forallb (p AFetch RTopic) ts then filter (fun n => fresh n && p AProduce RTopic n) ts else []
  | RCreateTopics ts => if p AAdmin RCluster s_cluster && admin_apis e then ts else []
  | _ => []
  end.

(* items for which record bytes may be returned: only Fetch items that proceed *)
Definition data_items (r : req) (out : list (item * item_out)) : list item :=
  match r with RFetch _ => effects out | _ => [] end.

(* ---------- the guard order the model relies on, per dispatch case ---------- *)
Definition row := (string * list (string * string) * string)%type.

Definition group_write_row (k c : string) : row :=
  (k, [("allowGroup[req.Group]:ActionGroupWrite", "reject"); ("acquireGroupLease", "reject"); ("etcdAvailable", "reject")], c)%string.

Definition expected_rows : list row := [
  ("AlterConfigs", [("allowAdmin", "reject"); ("etcdAvailable", "reject")], "h.store.FetchTopicConfig");
  ("ApiVersions", [], "none");
  ("CreatePartitions", [("allowAdmin", "reject"); ("etcdAvailable", "reject")], "h.store.CreatePartitions");
  ("CreateTopics", [("allowAdmin", "reject"); ("allowAdminAPIs", "reject"); ("etcdAvailable", "reject")], "h.store.CreateTopic");
  ("DeleteGroups", [("allowGroup[groupID]:ActionGroupAdmin", "filter"); ("etcdAvailable", "reject")], "h.coordinator.DeleteGroups");
  ("DeleteTopics", [("allowAdmin", "reject"); ("allowAdminAPIs", "reject"); ("etcdAvailable", "reject")], "h.store.DeleteTopic");
  ("DescribeConfigs", [("allowTopic[resource.ResourceName]:ActionFetch", "skip")], "h.store.FetchTopicConfig");
  ("DescribeGroups", [("allowGroup[groupID]:ActionGroupRead", "filter"); ("acquireGroupLease", "filter"); ("etcdAvailable", "reject")], "h.coordinator.DescribeGroups");
  ("Fetch", [("resolved[topicName]", "pre"); ("allowTopic[topicName]:ActionFetch", "skip"); ("s3Health.State:S3StateDegraded|S3StateUnavailable", "skip");
             ("mayCreate=allowTopic[topicName]:ActionProduce", "flag")], "h.partitionLog");
  ("FindCoordinator", [], "none");
  group_write_row "Heartbeat" "h.coordinator.Heartbeat";
  group_write_row "JoinGroup" "h.coordinator.JoinGroup";
  group_write_row "LeaveGroup" "h.coordinator.LeaveGroup";
  ("ListGroups", [("allowGroup[""*""]:ActionGroupRead", "reject"); ("etcdAvailable", "reject")], "h.coordinator.ListGroups");
  ("ListOffsets", [("allowTopics[topicsFromListOffsets()]:ActionFetch", "reject"); ("mayCreate=allowTopic[topic.Topic]:ActionProduce", "flag")], "h.partitionLog");
  ("Metadata", [("allowTopic[name]:ActionProduce", "skip")], "h.ensureTopic");
  group_write_row "OffsetCommit" "h.coordinator.OffsetCommit";
  ("OffsetFetch", [("allowGroup[req.Group]:ActionGroupRead", "reject"); ("acquireGroupLease", "reject"); ("etcdAvailable", "reject")], "h.coordinator.OffsetFetch");
  ("OffsetForLeaderEpoch", [("allowTopics[topicsFromOffsetForLeaderEpoch()]:ActionFetch", "reject")], "h.store.NextOffset");
  ("Produce", [("acquirePartitionLeases", "pre"); ("allowTopic[topic.Topic]:ActionProduce", "skip"); ("etcdAvailable", "skip"); ("leaseErrors", "skip"); ("s3Health.State!=S3StateHealthy", "skip")], "h.getPartitionLog");
  group_write_row "SyncGroup" "h.coordinator.SyncGroup"
]%string.

Definition row_bytes (r : row) : bytes * list (bytes * bytes) * bytes :=
  let '(k, gs, c) := r in (codes k, map (fun g => (codes (fst g), codes (snd g))) gs, codes c).

Fixpoint find_row (k : bytes) (t : list (bytes * list (bytes * bytes) * bytes)) : option (list (bytes * bytes) * bytes) :=
  match t with
  | [] => None
  | (k', gs, c) :: t' => if bytes_eqb k k' then Some (gs, c) else find_row k t'
  end.

Definition guards_eqb (a b : list (bytes * bytes)) : bool :=
  list_eqb (fun x y => bytes_eqb (fst x) (fst y) && bytes_eqb (snd x) (snd y)) a b.

(* the generated row of dispatch case [k] is exactly the expected one *)
Definition row_ok (gen : list (bytes * list (bytes * bytes) * bytes)) (k : string) : bool :=
  match find_row (codes k) gen, find_row (codes k) (map row_bytes expected_rows) with
  | Some (g, c), Some (g', c') => guards_eqb g g' && bytes_eqb c c'
  | _, _ => false
  end.

(* no case of Handle is missing from / unknown to the model *)
Definition same_kinds (gen : list (bytes * list (bytes * bytes) * bytes)) : bool :=
  list_eqb bytes_eqb (map (fun r => fst (fst r)) gen) (map (fun r => fst (fst (row_bytes r))) expected_rows).

(* ---------- every call site that can reach topic creation is guarded ----------
   gen/DispatchTable.v lists, per dispatch case, EVERY call in the case's handler code that can
   reach topic creation (h.store.CreateTopic or a handler method that transitively reaches it),
   with the guards accumulated at that point. A site is fine when
   - a produce guard on a topic (allowTopic[..]:ActionProduce) or allowAdmin dominates it as a
     `skip` / `reject` guard, or
   - the callee takes an autoCreate argument (recorded as call[<arg>]) and that argument is a
     variable holding a stored produce verdict ("<arg>=allowTopic[..]:ActionProduce" / flag).
   This is what makes [creates] (and so C24_creation_needs_permission) a faithful summary of
   the code: a new unguarded path to getPartitionLog / ensureTopic in ANY handler makes the
   lemma that names that dispatch case fail. *)
Fixpoint bprefix (s p : bytes) {struct p} : bool :=
  match p, s with
  | [], _ => true
  | x :: p', y :: s' => (x =? y) && bprefix s' p'
  | _ :: _, [] => false
  end.

Fixpoint bcontains (sub s : bytes) {struct s} : bool :=
  bprefix s sub || match s with [] => false | _ :: s' => bcontains sub s' end.

Fixpoint after_bracket (s : bytes) : option bytes :=
  match s with
  | [] => None
  | c :: s' => if c =? 91 then Some (removelast s') else after_bracket s'
  end.

Definition create_guard (g : bytes * bytes) : bool :=
  (bytes_eqb (snd g) (codes "skip") || bytes_eqb (snd g) (codes "reject")) &&
  (bcontains (codes ":ActionProduce") (fst g) || bytes_eqb (fst g) (codes "allowAdmin")).

Definition stored_create_verdict (v : bytes) (g : bytes * bytes) : bool :=
  bytes_eqb (snd g) (codes "flag") && bprefix (fst g) (v ++ codes "=") && bcontains (codes ":ActionProduce") (fst g).

Definition site_ok (st : bytes * list (bytes * bytes)) : bool :=
  let '(call, gs) := st in
  negb (bprefix call (codes "UNGUARDED:")) &&
  (existsb create_guard gs ||
   match after_bracket call with
   | Some v => existsb (stored_create_verdict v) gs
   | None => false
   end).

Fixpoint find_sites (k : bytes) (t : list (bytes * list (bytes * list (bytes * bytes)))) : option (list (bytes * list (bytes * bytes))) :=
  match t with
  | [] => None
  | (k', ss) :: t' => if bytes_eqb k k' then Some ss else find_sites k t'
  end.

(* all creation-reaching call sites of dispatch case [k] are guarded (the case must be listed) *)
Definition sites_ok (gen : list (bytes * list (bytes * list (bytes * bytes)))) (k : string) : bool :=
  match find_sites (codes k) gen with
  | Some ss => forallb site_ok ss
  | None => false
  end.

(* ---------- principal resolution (principalFromContext + buildConnContextFunc) ----------
   A function of (principal source, the connection's address-derived principal, the header of
   THIS request). conn_principal is what buildConnContextFunc stored in ConnContext.Principal:
   the peer host (remote_addr), the PROXY source host (proxy_addr), or nothing (client_id, with
   or without PROXY protocol). Nothing about earlier requests on the connection is an input. *)
Inductive psource := SrcClientId | SrcRemoteAddr | SrcProxyAddr.

Definition s_anon : bytes := codes "anonymous".

Definition resolve_principal (is_blank : bytes -> bool) (trim : bytes -> bytes)
                             (src : psource) (conn_host : bytes) (client_id : option bytes) : bytes :=
  let conn_principal := match src with SrcClientId => [] | _ => conn_host end in
  if negb (is_blank conn_principal) then trim conn_principal
  else match client_id with
       | Some c => if is_blank c then s_anon else c
       | None => s_anon
       end.
