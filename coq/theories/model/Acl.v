(* Executable model of the two ACL implementations (property C23).

   (1) pkg/acl/acl.go: NewAuthorizer (WITH the proposed fix
       fixes/C23-merge-duplicate-principals.patch: entries whose trimmed names are
       equal are merged, their rule lists appended in configuration order; the
       unpatched "later entry replaces the earlier one" behaviour is kept as
       [new_authorizer_lastwins] for the record), Authorizer.Allows, matches,
       actionMatches, resourceMatches, nameMatches.
       The Go map principals[name] is an association list keyed by the trimmed
       name; only lookups by key are ever performed on it, so order is irrelevant.
   (2) addons/processors/sql-processor/internal/proxy/acl.go: ACL.Allows,
       ACL.AllowShowTopics, matchPatterns.

   External code is a Section variable: strings.TrimSpace ([trim]),
   strings.EqualFold ([eqfold]) and path.Match ([pmatch] = "err == nil && matched").
   No law about them is needed by any theorem. The correspondence check
   instantiates them with the ASCII versions defined at the end of this file
   (harness alphabets are ASCII) and, for path.Match, with a table of the results
   the real path.Match returned for exactly the (pattern, topic) pairs of the case.
   Byte strings are [list Z]. No proofs in this file. *)
From KS Require Import lib.Base.
Open Scope Z_scope.

Definition is_nil {A} (l : list A) : bool := match l with [] => true | _ => false end.

Definition star : bytes := [42].
Definition s_allow : bytes := [97;108;108;111;119].                       (* "allow" *)
Definition s_anonymous : bytes := [97;110;111;110;121;109;111;117;115].   (* "anonymous" *)

(* strings.HasPrefix s p *)
Fixpoint has_prefix (s p : bytes) {struct p} : bool :=
  match p, s with
  | [], _ => true
  | x :: p', y :: s' => (x =? y) && has_prefix s' p'
  | _ :: _, [] => false
  end.

(* strings.HasSuffix s "*" *)
Definition has_suffix_star (s : bytes) : bool :=
  match rev s with c :: _ => c =? 42 | [] => false end.

Record rule := mkRule { r_action : bytes; r_resource : bytes; r_name : bytes }.
Record entry := mkEntry { e_name : bytes; e_allow : list rule; e_deny : list rule }.
Record config := mkConfig { c_enabled : bool; c_default : bytes; c_principals : list entry }.

(* the stored PrincipalRules of one map key *)
Record prules := mkPr { p_key : bytes; p_allow : list rule; p_deny : list rule }.
Record auth := mkAuth { a_enabled : bool; a_default : bool; a_principals : list prules }.

Section Broker.
  Variable trim : bytes -> bytes.              (* strings.TrimSpace *)
  Variable eqfold : bytes -> bytes -> bool.    (* strings.EqualFold *)

  (* actionMatches / resourceMatches (same shape) *)
  Definition word_matches (rule w : bytes) : bool :=
    is_nil rule || bytes_eqb rule star || eqfold rule w.

  Definition name_matches (rule_name name : bytes) : bool :=
    let rn := trim rule_name in
    if is_nil rn || bytes_eqb rn star then true
    else if has_suffix_star rn then has_prefix name (removelast rn)
    else bytes_eqb rn name.

  Definition matches (r : rule) (act res name : bytes) : bool :=
    if negb (word_matches (r_action r) act) then false
    else if negb (word_matches (r_resource r) res) then false
    else name_matches (r_name r) name.

  (* principals[name] = merged entry (patched NewAuthorizer) *)
  Fixpoint upsert (k : bytes) (al dn : list rule) (m : list prules) : list prules :=
    match m with
    | [] => [mkPr k al dn]
    | p :: m' => if bytes_eqb (p_key p) k then mkPr k (p_allow p ++ al) (p_deny p ++ dn) :: m'
                 else p :: upsert k al dn m'
    end.

  (* principals[name] = p (unpatched NewAuthorizer: the later entry wins) *)
  Fixpoint replace_key (k : bytes) (al dn : list rule) (m : list prules) : list prules :=
    match m with
    | [] => [mkPr k al dn]
    | p :: m' => if bytes_eqb (p_key p) k then mkPr k al dn :: m' else p :: replace_key k al dn m'
    end.

  Definition add_entry (m : list prules) (e : entry) : list prules :=
    let k := trim (e_name e) in
    if is_nil k then m else upsert k (e_allow e) (e_deny e) m.

  Definition add_entry_lastwins (m : list prules) (e : entry) : list prules :=
    let k := trim (e_name e) in
    if is_nil k then m else replace_key k (e_allow e) (e_deny e) m.

  Definition default_allow (cfg : config) : bool := eqfold (trim (c_default cfg)) s_allow.

  Definition new_authorizer (cfg : config) : auth :=
    mkAuth (c_enabled cfg) (default_allow cfg) (fold_left add_entry (c_principals cfg) []).

  Definition new_authorizer_lastwins (cfg : config) : auth :=
    mkAuth (c_enabled cfg) (default_allow cfg) (fold_left add_entry_lastwins (c_principals cfg) []).

  Fixpoint lookup (k : bytes) (m : list prules) : option (list rule * list rule) :=
    match m with
    | [] => None
    | p :: m' => if bytes_eqb (p_key p) k then Some (p_allow p, p_deny p) else lookup k m'
    end.

  (* principal = TrimSpace(principal); "" -> "anonymous" *)
  Definition norm_principal (p : bytes) : bytes :=
    let p := trim p in if is_nil p then s_anonymous else p.

  Definition any_match (rs : list rule) (act res name : bytes) : bool :=
    existsb (fun r => matches r act res name) rs.

  (* Authorizer.Allows for a non-nil receiver *)
  Definition allows (a : auth) (principal act res name : bytes) : bool :=
    if negb (a_enabled a) then true
    else match lookup (norm_principal principal) (a_principals a) with
         | None => a_default a
         | Some (al, dn) =>
             if any_match dn act res name then false
             else if any_match al act res name then true
             else a_default a
         end.

  (* ---- vocabulary of the property statement, on the configuration itself ---- *)
  (* the entries of the configuration that speak about map key [k] *)
  Definition entries_of (k : bytes) (es : list entry) : list entry :=
    filter (fun e => bytes_eqb (trim (e_name e)) k) es.
  Definition denies_of (k : bytes) (es : list entry) : list rule := flat_map e_deny (entries_of k es).
  Definition allows_of (k : bytes) (es : list entry) : list rule := flat_map e_allow (entries_of k es).

  (* the decision procedure of the statement: deny overrides, then allow, then default *)
  Definition spec_allows (cfg : config) (principal act res name : bytes) : bool :=
    if negb (c_enabled cfg) then true
    else let k := norm_principal principal in
         if any_match (denies_of k (c_principals cfg)) act res name then false
         else if any_match (allows_of k (c_principals cfg)) act res name then true
         else default_allow cfg.

  (* cfg' has, for every principal, no deny rule that cfg lacks and every allow rule
     of cfg ("allow rules were added"); same switch and default policy *)
  Definition allow_extends (cfg cfg' : config) : Prop :=
    c_enabled cfg' = c_enabled cfg /\ default_allow cfg' = default_allow cfg /\
    forall k, k <> [] ->
      incl (denies_of k (c_principals cfg')) (denies_of k (c_principals cfg)) /\
      incl (allows_of k (c_principals cfg)) (allows_of k (c_principals cfg')).

  (* "deny rules were added" *)
  Definition deny_extends (cfg cfg' : config) : Prop :=
    c_enabled cfg' = c_enabled cfg /\ default_allow cfg' = default_allow cfg /\
    forall k, k <> [] ->
      incl (denies_of k (c_principals cfg)) (denies_of k (c_principals cfg')) /\
      incl (allows_of k (c_principals cfg')) (allows_of k (c_principals cfg)).
End Broker.

Section SqlProxy.
  Variable trim : bytes -> bytes.              (* strings.TrimSpace *)
  Variable pmatch : bytes -> bytes -> bool.    (* path.Match(p, t): err == nil && matched *)

  Definition pat_match (topic p0 : bytes) : bool :=
    let p := trim p0 in
    if is_nil p then false
    else if bytes_eqb p star then true
    else if pmatch p topic then true
    else bytes_eqb p topic.

  (* matchPatterns, written as the Go loop *)
  Fixpoint match_patterns (ps : list bytes) (topic : bytes) : bool :=
    match ps with
    | [] => false
    | p0 :: ps' =>
        let p := trim p0 in
        if is_nil p then match_patterns ps' topic
        else if bytes_eqb p star then true
        else if pmatch p topic then true
        else if bytes_eqb p topic then true
        else match_patterns ps' topic
    end.

  Definition sql_allows (al dn : list bytes) (topic : bytes) : bool :=
    if match_patterns dn topic then false
    else if is_nil al then true
    else match_patterns al topic.

  Definition sql_show_topics (al dn : list bytes) : bool :=
    if negb (is_nil dn) then false
    else if is_nil al then true
    else match_patterns al star.

  (* this ACL's default policy: "allow iff the allow list is empty" *)
  Definition sql_default (al : list bytes) : bool := is_nil al.
End SqlProxy.

(* ---- ASCII instances used by the correspondence check ---- *)
Definition is_space (c : Z) : bool :=
  (c =? 32) || ((9 <=? c) && (c <=? 13)).

Fixpoint drop_space (s : bytes) : bytes :=
  match s with
  | c :: s' => if is_space c then drop_space s' else s
  | [] => []
  end.

Definition ascii_trim (s : bytes) : bytes := rev (drop_space (rev (drop_space s))).

Definition ascii_lower (c : Z) : Z := if (65 <=? c) && (c <=? 90) then c + 32 else c.

Definition ascii_eqfold (a b : bytes) : bool := bytes_eqb (map ascii_lower a) (map ascii_lower b).

(* path.Match results recorded by the harness: (pattern, topic, matched-without-error) *)
Fixpoint table_pmatch (tbl : list (bytes * bytes * bool)) (p t : bytes) : bool :=
  match tbl with
  | [] => false
  | (p', t', b) :: tbl' => if bytes_eqb p p' && bytes_eqb t t' then b else table_pmatch tbl' p t
  end.
