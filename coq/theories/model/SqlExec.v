(* Executable model of the single-topic SELECT path of the SQL processor.
   Modelled Go functions (addons/processors/sql-processor):
     internal/server/server.go   handleSelect (limit/tail normalisation, the tail+order-by
                                 rejection, the segment/record loop with its time and offset
                                 filters, early return at the limit, tail ring, order-by
                                 collection + sort + truncation), filterSegments,
                                 segmentMatchesOffsets, segmentMatchesTimestamps, appendTailRow
     internal/discovery/time_index_builder.go  TimeIndexBuilder.scanSegment (the .kfst footer numbers)
     internal/discovery/discovery.go  s3Lister.ListCompleted: statistics attached to a listed
                                 segment (MinOffset = base offset; MaxOffset = next segment's base
                                 - 1 within the same topic/partition, else the .kfst footer's
                                 max offset; Min/MaxTimestamp from the .kfst footer),
                                 findNextSegment, timeIndexReader.enrich
   A record is (offset, timestamp); a row is (partition, offset, timestamp) standing for
   the DataRow built from the record. The decoder is not modelled: a segment carries the
   records the decoder returns for it. sort.Slice is not stable: the executable model
   uses an insertion sort as one representative; theorems and the correspondence
   check treat ORDER BY results up to the order of rows with equal timestamps.
   Not modelled: LAST (reads the wall clock; it only computes timeMin/timeMax),
   aggregates, joins, result cache, scan limits, RequireTimeBound/MaxRows/MaxUnbounded
   rejections (they do not depend on the segments). No proofs in this file. *)
From Coq Require Import Permutation.
From KS Require Import lib.Base.
Open Scope Z_scope.

Record rec := mkRec { r_off : Z; r_ts : Z }.

Record segment := mkSegment {
  g_topic : Z;                 (* topic key *)
  g_part : Z;
  g_min_off : option Z; g_max_off : option Z;
  g_min_ts : option Z; g_max_ts : option Z;
  g_recs : list rec            (* what Decode returns for the segment *)
}.

Record query := mkQuery {
  q_topic : Z;
  q_part : option Z;
  q_omin : option Z; q_omax : option Z;      (* _offset >= / <= *)
  q_tmin : option Z; q_tmax : option Z;      (* _ts >= / <= (after LAST was folded in) *)
  q_limit : option Z;                        (* LIMIT n *)
  q_tail : option Z;                         (* TAIL n *)
  q_order : option bool;                     (* ORDER BY _ts [DESC]: Some desc *)
  q_default_limit : Z                        (* cfg.Query.DefaultLimit *)
}.

Definition row := (Z * Z * Z)%type.          (* partition, offset, timestamp *)
Definition row_ts (r : row) : Z := snd r.
Definition mk_row (sg : segment) (r : rec) : row := (g_part sg, r_off r, r_ts r).

(* ---------- segment pruning ---------- *)

Definition is_none {A} (o : option A) : bool := match o with None => true | Some _ => false end.

(* segmentMatchesOffsets / segmentMatchesTimestamps (same shape) *)
Definition range_matches (smin smax qmin qmax : option Z) : bool :=
  if is_none qmin && is_none qmax then true else
  if is_none smin && is_none smax then true else
  match qmin, smax with
  | Some m, Some sm => if sm <? m then false else
      match qmax, smin with Some x, Some sn => negb (x <? sn) | _, _ => true end
  | _, _ =>
      match qmax, smin with Some x, Some sn => negb (x <? sn) | _, _ => true end
  end.

Definition seg_selected (q : query) (sg : segment) : bool :=
  (g_topic sg =? q_topic q) &&
  match q_part q with Some p => g_part sg =? p | None => true end.

Definition seg_kept (q : query) (sg : segment) : bool :=
  seg_selected q sg &&
  range_matches (g_min_off sg) (g_max_off sg) (q_omin q) (q_omax q) &&
  range_matches (g_min_ts sg) (g_max_ts sg) (q_tmin q) (q_tmax q).

Definition filter_segments (q : query) (segs : list segment) : list segment :=
  filter (seg_kept q) segs.

(* ---------- record filter ---------- *)

Definition ge_opt (v : Z) (m : option Z) : bool := match m with Some x => negb (v <? x) | None => true end.
Definition le_opt (v : Z) (m : option Z) : bool := match m with Some x => negb (x <? v) | None => true end.

Definition rec_matches (q : query) (r : rec) : bool :=
  ge_opt (r_ts r) (q_tmin q) && le_opt (r_ts r) (q_tmax q) &&
  ge_opt (r_off r) (q_omin q) && le_opt (r_off r) (q_omax q).

(* ---------- limit / tail normalisation ---------- *)

Definition tail_count (q : query) : Z := match q_tail q with Some t => t | None => 0 end.

Definition eff_limit (q : query) : Z :=
  let l0 := match q_limit q with Some l => l | None => q_default_limit q end in
  let l1 := match q_tail q with Some t => t | None => l0 end in
  if l1 <=? 0 then q_default_limit q else l1.

(* ---------- the record loop ---------- *)

Definition append_tail (rows : list row) (r : row) (n : Z) : list row :=
  if n <=? 0 then rows
  else if zlen rows <? n then rows ++ [r]
  else tl rows ++ [r].

Record scan := mkScan { sc_sent : Z; sc_out : list row; sc_tail : list row; sc_rows : list row }.

(* one matching record; inr = the loop returned (limit reached) *)
Definition scan_row (q : query) (st : scan) (r : row) : scan + list row :=
  match q_order q with
  | Some _ => inl (mkScan (sc_sent st) (sc_out st) (sc_tail st) (sc_rows st ++ [r]))
  | None =>
    if 0 <? tail_count q then
      inl (mkScan (sc_sent st) (sc_out st) (append_tail (sc_tail st) r (tail_count q)) (sc_rows st))
    else
      let out := sc_out st ++ [r] in
      let sent := sc_sent st + 1 in
      if eff_limit q <=? sent then inr out
      else inl (mkScan sent out (sc_tail st) (sc_rows st))
  end.

Fixpoint scan_rows (q : query) (st : scan) (rs : list row) : scan + list row :=
  match rs with
  | [] => inl st
  | r :: rs' => match scan_row q st r with inl st' => scan_rows q st' rs' | inr out => inr out end
  end.

Definition seg_rows (q : query) (sg : segment) : list row :=
  map (mk_row sg) (filter (rec_matches q) (g_recs sg)).

Fixpoint scan_segs (q : query) (st : scan) (segs : list segment) : scan + list row :=
  match segs with
  | [] => inl st
  | sg :: segs' =>
    match scan_rows q st (seg_rows q sg) with
    | inl st' => scan_segs q st' segs'
    | inr out => inr out
    end
  end.

(* insertion sort by timestamp; less = (ts_i < ts_j) or, descending, (ts_i > ts_j) *)
Definition ts_less (desc : bool) (a b : row) : bool :=
  if desc then row_ts b <? row_ts a else row_ts a <? row_ts b.

Fixpoint insert_row (desc : bool) (r : row) (l : list row) : list row :=
  match l with
  | [] => [r]
  | x :: l' => if ts_less desc r x then r :: l else x :: insert_row desc r l'
  end.

Definition sort_rows (desc : bool) (l : list row) : list row :=
  fold_right (fun r acc => insert_row desc r acc) [] l.

Definition truncate (limit : Z) (l : list row) : list row :=
  if (0 <? limit) && (limit <? zlen l) then firstn (Z.to_nat limit) l else l.

Inductive result := Rows (rs : list row) | Rejected.

Definition window_invalid (q : query) : bool :=      (* "time window is invalid" *)
  match q_tmin q, q_tmax q with Some a, Some b => b <? a | _, _ => false end.

(* rows sent by handleSelect over the listing [segs] *)
Definition select (q : query) (segs : list segment) : result :=
  if window_invalid q then Rejected else
  match q_order q with
  | Some desc =>
      if 0 <? tail_count q then Rejected else       (* "tail cannot be combined with order by" *)
      match scan_segs q (mkScan 0 [] [] []) (filter_segments q segs) with
      | inr out => Rows out
      | inl st => Rows (truncate (eff_limit q) (sort_rows desc (sc_rows st)))
      end
  | None =>
      match scan_segs q (mkScan 0 [] [] []) (filter_segments q segs) with
      | inr out => Rows out
      | inl st => if 0 <? tail_count q then Rows (sc_tail st) else Rows (sc_out st)
      end
  end.

(* ---------- specification: direct filtering of all records ---------- *)

(* all matching rows of the topic's (and, if given, the partition's) segments in listing
   order, which is (partition, offset) order for a listing sorted by partition and base *)
Definition matching (q : query) (segs : list segment) : list row :=
  flat_map (seg_rows q) (filter (seg_selected q) segs).

(* the rows handleSelect collects: matching rows of the segments that survive pruning *)
Definition collected (q : query) (segs : list segment) : list row :=
  flat_map (seg_rows q) (filter_segments q segs).

Definition lastn {A} (n : nat) (l : list A) : list A := skipn (length l - n) l.

(* what the query asks for, given all matching rows, for the modes whose result is a function *)
Definition spec_plain (q : query) (segs : list segment) : list row :=
  firstn (Z.to_nat (eff_limit q)) (matching q segs).
Definition spec_tail (q : query) (segs : list segment) : list row :=
  lastn (Z.to_nat (tail_count q)) (matching q segs).

(* ---------- discovery: statistics of listed segments ---------- *)

Record raw_segment := mkRaw {
  w_topic : Z; w_part : Z; w_base : Z;
  w_footer : option (Z * Z * Z * Z);     (* .kfst footer: min ts, max ts, min offset, max offset *)
  w_recs : list rec
}.

(* TimeIndexBuilder.scanSegment (time_index_builder.go): the .kfst footer written for a
   segment: minimum and maximum of timestamps and offsets over the decoded records,
   starting from the first record; no footer for a segment without records *)
Definition scan_step (acc : Z * Z * Z * Z) (r : rec) : Z * Z * Z * Z :=
  let '(mint, maxt, mino, maxo) := acc in
  (if r_ts r <? mint then r_ts r else mint,
   if maxt <? r_ts r then r_ts r else maxt,
   if r_off r <? mino then r_off r else mino,
   if maxo <? r_off r then r_off r else maxo).

Definition scan_segment (recs : list rec) : option (Z * Z * Z * Z) :=
  match recs with
  | [] => None
  | r0 :: rest => Some (fold_left scan_step rest (r_ts r0, r_ts r0, r_off r0, r_off r0))
  end.

(* the listing is sorted by (topic, partition, base); findNextSegment looks at the next entry *)
Definition next_base (w : raw_segment) (rest : list raw_segment) : option Z :=
  match rest with
  | n :: _ => if (w_topic n =? w_topic w) && (w_part n =? w_part w) then Some (w_base n) else None
  | [] => None
  end.

Definition discover_one (w : raw_segment) (rest : list raw_segment) : segment :=
  let fmax := match w_footer w with Some (_, _, _, mo) => Some mo | None => None end in
  let maxo := match next_base w rest with
              | Some nb => if 0 <? nb then Some (nb - 1) else fmax
              | None => fmax
              end in
  mkSegment (w_topic w) (w_part w) (Some (w_base w)) maxo
    (match w_footer w with Some (a, _, _, _) => Some a | None => None end)
    (match w_footer w with Some (_, b, _, _) => Some b | None => None end)
    (w_recs w).

Fixpoint discover (ws : list raw_segment) : list segment :=
  match ws with
  | [] => []
  | w :: rest => discover_one w rest :: discover rest
  end.

(* ---------- discovery cache / manifest cache (cachedLister, manifestLister) ----------
   Both keep a copy (cloneSegments) of the last listing they obtained and hand out copies
   of it until the TTL has elapsed; an empty cached listing counts as a miss; the
   discovery cache does not store listings longer than MaxEntries (when > 0).
   [fresh] is what the wrapped lister returns at the time of the call. *)
Definition cache_state := option (list segment).

Definition cache_call (enabled : bool) (max_entries : Z) (st : cache_state)
           (expired : bool) (fresh : list segment) : list segment * cache_state :=
  if negb enabled then (fresh, st) else
  match st with
  | Some (x :: l) => if expired then
                       (fresh, if (0 <? max_entries) && (max_entries <? zlen fresh) then st else Some fresh)
                     else (x :: l, st)
  | _ => (fresh, if (0 <? max_entries) && (max_entries <? zlen fresh) then st else Some fresh)
  end.

(* a sequence of calls over an unchanged bucket *)
Fixpoint cache_calls (enabled : bool) (max_entries : Z) (st : cache_state)
         (fresh : list segment) (calls : list bool) : list (list segment) :=
  match calls with
  | [] => []
  | e :: calls' => let '(l, st') := cache_call enabled max_entries st e fresh in
                   l :: cache_calls enabled max_entries st' fresh calls'
  end.

(* ---------- vocabulary of the theorems ---------- *)

Definition opt_le (o : option Z) (v : Z) : Prop := match o with Some m => m <= v | None => True end.
Definition opt_ge (o : option Z) (v : Z) : Prop := match o with Some m => v <= m | None => True end.

(* the statistics attached to a segment bound its records *)
Definition stats_sound (sg : segment) : Prop :=
  forall r, In r (g_recs sg) ->
    opt_le (g_min_off sg) (r_off r) /\ opt_ge (g_max_off sg) (r_off r) /\
    opt_le (g_min_ts sg) (r_ts r) /\ opt_ge (g_max_ts sg) (r_ts r).

(* broker side: a segment's records start at its base offset and stay below the base of
   the next segment of the same partition *)
Fixpoint contiguous (ws : list raw_segment) : Prop :=
  match ws with
  | [] => True
  | w :: rest =>
    (forall r, In r (w_recs w) -> w_base w <= r_off r /\
               match next_base w rest with Some nb => r_off r < nb | None => True end) /\
    contiguous rest
  end.

(* named hypothesis about the .kfst footer (built by scanSegment from the same immutable
   segment): its four numbers bound the segment's records *)
Definition footer_sound (w : raw_segment) : Prop :=
  match w_footer w with
  | None => True
  | Some (mint, maxt, mino, maxo) =>
      forall r, In r (w_recs w) -> mint <= r_ts r <= maxt /\ mino <= r_off r <= maxo
  end.

(* ORDER BY results up to ties: [out] is the first [limit] rows of SOME arrangement of
   [rows] that is sorted by timestamp *)
Definition ts_le (desc : bool) (x y : row) : Prop :=
  if desc then row_ts y <= row_ts x else row_ts x <= row_ts y.

Fixpoint ts_sorted (desc : bool) (l : list row) : Prop :=
  match l with
  | [] => True
  | x :: l' => (forall y, In y l' -> ts_le desc x y) /\ ts_sorted desc l'
  end.

(* every result an (unstable) sort by timestamp followed by the LIMIT cut can produce *)
Definition order_result (desc : bool) (limit : Z) (rows out : list row) : Prop :=
  exists s, Permutation s rows /\ ts_sorted desc s /\ out = truncate limit s.
