(* Executable model of the etcd lease managers and of the lease slice of the
   produce path.  No proofs in this file.

   Part 1 (C18) models pkg/metadata/lease_manager.go: NewLeaseManager, leaseKey,
   Acquire, doAcquire, reacquire, getOrCreateSession, monitorSession, Owns,
   Release, ReleaseAll (PartitionLeaseManager / GroupLeaseManager in
   partition_lease.go / group_lease.go only translate (topic, partition) / group id
   into the resource id and fix the key prefix).  Several managers (one per broker
   id) share one etcd (lib/EtcdKV.v).  Events are single etcd operations or single
   critical sections of one manager:

     AcqBegin b r        Acquire's closed / owned checks, singleflight, doAcquire's
                         re-check and getOrCreateSession (a new session = LeaseGrant)
     AcqTxn b r          the create-if-absent transaction of doAcquire
     ReacqTxn b r        the value = own-id transaction of reacquire
     AcqCommitLocal b r  the critical section that checks m.session and sets owned[r]
     RelLocal b r        Release's critical section (entry removed from owned)
     RelDelete b r       Release's etcd request (oldest pending one for r)
     SessionExpire b     b's session lease expires: etcd drops its keys AND
                         monitorSession clears owned -- one event (lease-clock
                         assumption, DESIGN 9.2)
     ReleaseAll b        first step of ReleaseAll: closed := true, owned cleared, m.session
                         dropped.  Its second step, session.Close() = LeaseRevoke of the
                         old session lease, is a separate event: OrphanExpire of that lease
                         (the lease is no manager's session any more)
     Restart b           the broker process is replaced by a fresh manager with the
                         same broker id; its old session lease stays in etcd
     OrphanExpire l      a lease that is no live manager's session expires or is revoked
     AcqTxnLost b r      lost response: etcd applies the create-if-absent transaction but the
     ReacqTxnLost b r    client call returns an error (timeout / connection reset after the
                         server applied it).  doAcquire / reacquire return the error without
                         recording anything; the key may now exist with b's id.  (Release
                         ignores the outcome of its request and ReleaseAll that of the
                         LeaseRevoke, so a lost response there is RelDelete / OrphanExpire.)

   [c_guard = true] is the code with fixes/C18-release-guarded-delete.patch:
   owned maps the resource to the revision of the manager's own write of the key,
   and Release deletes in a transaction guarded by ModRevision(key) = that
   revision.  [c_guard = false] is the original unconditional Delete (kept to show
   in Coq that the guard is what makes the property hold).

   Part 2 (C19) models the lease slice of cmd/broker/main.go: handleProduce,
   acquirePartitionLeases, PartitionLeaseManager.AcquireAll and the per-partition
   error-code mapping. *)
From KS Require Import lib.Base lib.Strings lib.EtcdKV.
Open Scope Z_scope.

(* ------------------------------------------------------------------ part 1 *)

Record config := mkConfig { c_prefix : bytes; c_guard : bool }.

(* leaseKey: fmt.Sprintf("%s/%s", prefix, resourceID) *)
Definition lease_key (cfg : config) (r : bytes) : bytes := c_prefix cfg ++ 47 :: r.

(* partitionResourceID: fmt.Sprintf("%s/%d", topic, partition) *)
Definition partition_rid (topic : bytes) (partition : Z) : bytes := topic ++ 47 :: dec partition.

(* a doAcquire call in flight (singleflight: at most one per resource and manager) *)
Inductive flight :=
| FTxn (sess : Z)                 (* holds session sess; create-if-absent txn not sent yet *)
| FReacq (sess : Z)               (* key exists with own broker id; reacquire txn not sent yet *)
| FCommit (sess : Z) (rev : Z).   (* txn wrote the key at revision rev; local commit pending *)

Record mgr := mkMgr {
  m_closed : bool;
  m_session : option Z;             (* lease id of the current concurrency.Session *)
  m_owned : list (bytes * Z);       (* owned: resource -> revision of own write *)
  m_flights : list (bytes * flight);
  m_rel : list (bytes * Z)          (* Release calls past their critical section: (resource, revision) *)
}.

Definition fresh_mgr : mgr := mkMgr false None [] [] [].

Record state := mkState { s_etcd : etcd; s_mgrs : list (bytes * mgr) }.

Definition init : state := mkState etcd_init [].

Definition get_mgr (s : state) (b : bytes) : mgr :=
  match alookup b (s_mgrs s) with Some m => m | None => fresh_mgr end.

Definition set_mgr (s : state) (b : bytes) (m : mgr) : list (bytes * mgr) := aset b m (s_mgrs s).

Inductive event :=
| AcqBegin (b r : bytes)
| AcqTxn (b r : bytes)
| ReacqTxn (b r : bytes)
| AcqCommitLocal (b r : bytes)
| RelLocal (b r : bytes)
| RelDelete (b r : bytes)
| SessionExpire (b : bytes)
| ReleaseAll (b : bytes)
| Restart (b : bytes)
| OrphanExpire (l : Z)
| AcqTxnLost (b r : bytes)     (* AcqTxn applied by etcd, but the client call returns an error *)
| ReacqTxnLost (b r : bytes).  (* same for the reacquire transaction *)

(* what an Acquire call returns *)
Inductive ares := AOk | ANotOwner | AShutdown | AErr.

(* remove the first binding of k only *)
Fixpoint aremove1 {V} (k : bytes) (l : list (bytes * V)) : list (bytes * V) :=
  match l with
  | [] => []
  | (k', v) :: l' => if bytes_eqb k k' then l' else (k', v) :: aremove1 k l'
  end.

Definition with_flights (m : mgr) (f : list (bytes * flight)) : mgr :=
  mkMgr (m_closed m) (m_session m) (m_owned m) f (m_rel m).

Definition session_is (m : mgr) (l : Z) : bool :=
  match m_session m with Some l' => l' =? l | None => false end.

Definition step (cfg : config) (s : state) (ev : event) : state * option ares :=
  let e := s_etcd s in
  match ev with
  | AcqBegin b r =>
      let m := get_mgr s b in
      if m_closed m then (s, Some AShutdown)
      else match alookup r (m_owned m) with
      | Some _ => (s, Some AOk)
      | None =>
        match alookup r (m_flights m) with
        | Some _ => (s, None)          (* joins the flight already running *)
        | None =>
          match m_session m with
          | Some l => (mkState e (set_mgr s b (with_flights m (aset r (FTxn l) (m_flights m)))), None)
          | None =>
              let '(e', l) := grant e in
              (mkState e' (set_mgr s b (mkMgr false (Some l) (m_owned m) (aset r (FTxn l) (m_flights m)) (m_rel m))), None)
          end
        end
      end
  | AcqTxn b r =>
      let m := get_mgr s b in
      match alookup r (m_flights m) with
      | Some (FTxn l) =>
          let k := lease_key cfg r in
          let '(e', res) := txn e [CmpCreate k 0] [OpPut k b l] [OpGet k] in
          if t_err res then (mkState e' (set_mgr s b (with_flights m (aremove r (m_flights m)))), Some AErr)
          else if t_succ res then
            (mkState e' (set_mgr s b (with_flights m (aset r (FCommit l (t_rev res)) (m_flights m)))), None)
          else match t_gets res with
          | Some x :: _ =>
              if bytes_eqb (kv_val x) b
              then (mkState e' (set_mgr s b (with_flights m (aset r (FReacq l) (m_flights m)))), None)
              else (mkState e' (set_mgr s b (with_flights m (aremove r (m_flights m)))), Some ANotOwner)
          | _ => (mkState e' (set_mgr s b (with_flights m (aremove r (m_flights m)))), Some ANotOwner)
          end
      | _ => (s, None)
      end
  | ReacqTxn b r =>
      let m := get_mgr s b in
      match alookup r (m_flights m) with
      | Some (FReacq l) =>
          let k := lease_key cfg r in
          let '(e', res) := txn e [CmpValue k b] [OpPut k b l] [] in
          if t_err res then (mkState e' (set_mgr s b (with_flights m (aremove r (m_flights m)))), Some AErr)
          else if t_succ res then
            (mkState e' (set_mgr s b (with_flights m (aset r (FCommit l (t_rev res)) (m_flights m)))), None)
          else (mkState e' (set_mgr s b (with_flights m (aremove r (m_flights m)))), Some ANotOwner)
      | _ => (s, None)
      end
  | AcqCommitLocal b r =>
      let m := get_mgr s b in
      match alookup r (m_flights m) with
      | Some (FCommit l rev) =>
          if session_is m l
          then (mkState e (set_mgr s b (mkMgr (m_closed m) (m_session m) (aset r rev (m_owned m))
                                              (aremove r (m_flights m)) (m_rel m))), Some AOk)
          else (mkState e (set_mgr s b (with_flights m (aremove r (m_flights m)))), Some AErr)
      | _ => (s, None)
      end
  | RelLocal b r =>
      let m := get_mgr s b in
      match alookup r (m_owned m) with
      | Some rev =>
          (mkState e (set_mgr s b (mkMgr (m_closed m) (m_session m) (aremove r (m_owned m))
                                          (m_flights m) (m_rel m ++ [(r, rev)]))), None)
      | None => (s, None)
      end
  | RelDelete b r =>
      let m := get_mgr s b in
      match alookup r (m_rel m) with
      | Some rev =>
          let k := lease_key cfg r in
          let e' := if c_guard cfg then fst (txn e [CmpMod k rev] [OpDel k] []) else delete e k in
          (mkState e' (set_mgr s b (mkMgr (m_closed m) (m_session m) (m_owned m) (m_flights m)
                                          (aremove1 r (m_rel m)))), None)
      | None => (s, None)
      end
  | SessionExpire b =>
      let m := get_mgr s b in
      match m_session m with
      | Some l =>
          (mkState (revoke e l) (set_mgr s b (mkMgr (m_closed m) None [] (m_flights m) (m_rel m))), None)
      | None => (s, None)
      end
  | ReleaseAll b =>
      let m := get_mgr s b in
      (mkState e (set_mgr s b (mkMgr true None [] (m_flights m) (m_rel m))), None)
  | Restart b => (mkState e (set_mgr s b fresh_mgr), None)
  | AcqTxnLost b r =>
      let m := get_mgr s b in
      match alookup r (m_flights m) with
      | Some (FTxn l) =>
          let k := lease_key cfg r in
          let '(e', _) := txn e [CmpCreate k 0] [OpPut k b l] [OpGet k] in
          (mkState e' (set_mgr s b (with_flights m (aremove r (m_flights m)))), Some AErr)
      | _ => (s, None)
      end
  | ReacqTxnLost b r =>
      let m := get_mgr s b in
      match alookup r (m_flights m) with
      | Some (FReacq l) =>
          let k := lease_key cfg r in
          let '(e', _) := txn e [CmpValue k b] [OpPut k b l] [] in
          (mkState e' (set_mgr s b (with_flights m (aremove r (m_flights m)))), Some AErr)
      | _ => (s, None)
      end
  | OrphanExpire l =>
      if existsb (fun bm => session_is (snd bm) l) (s_mgrs s) then (s, None)
      else (mkState (revoke e l) (s_mgrs s), None)
  end.

Definition run_from (cfg : config) (s : state) (evs : list event) : state :=
  fold_left (fun s ev => fst (step cfg s ev)) evs s.

Definition run (cfg : config) (evs : list event) : state := run_from cfg init evs.

(* Owns(r) on broker b's live manager *)
Definition owns (s : state) (b r : bytes) : bool :=
  match alookup r (m_owned (get_mgr s b)) with Some _ => true | None => false end.

(* the broker id stored under r's lease key, if the key exists *)
Definition key_owner (cfg : config) (s : state) (r : bytes) : option bytes :=
  option_map kv_val (get (s_etcd s) (lease_key cfg r)).

(* ------------------------------------------------------------------ part 2 *)

(* A whole Acquire call executed without interleaving (C19's named assumption:
   request handling is atomic w.r.t. lease state).  Events that do not apply are
   no-ops, so the four steps can simply be chained; the call's result is the first
   result produced. *)
Definition acquire (cfg : config) (s : state) (b r : bytes) : state * ares :=
  let '(s1, r1) := step cfg s (AcqBegin b r) in
  match r1 with Some a => (s1, a) | None =>
  let '(s2, r2) := step cfg s1 (AcqTxn b r) in
  match r2 with Some a => (s2, a) | None =>
  let '(s3, r3) := step cfg s2 (ReacqTxn b r) in
  match r3 with Some a => (s3, a) | None =>
  let '(s4, r4) := step cfg s3 (AcqCommitLocal b r) in
  match r4 with Some a => (s4, a) | None => (s4, AErr) end end end end.

(* AcquireAll: partitions this broker does not own yet are acquired (the Go code
   does it concurrently; distinct resources touch distinct keys), the others get a
   nil error without any etcd request. *)
Fixpoint acquire_all (cfg : config) (s : state) (b : bytes) (rs : list bytes) : state * list ares :=
  match rs with
  | [] => (s, [])
  | r :: rs' =>
      let '(s1, a) := if owns s b r then (s, AOk) else acquire cfg s b r in
      let '(s2, l) := acquire_all cfg s1 b rs' in
      (s2, a :: l)
  end.

(* acquirePartitionLeases: map partition -> error, later entries overwrite *)
Fixpoint lease_errors (rs : list bytes) (res : list ares) (acc : list (bytes * ares)) : list (bytes * ares) :=
  match rs, res with
  | r :: rs', a :: res' =>
      lease_errors rs' res' (match a with AOk => acc | _ => aset r a acc end)
  | _, _ => acc
  end.

(* Kafka error codes (pkg/protocol/errors.go) *)
Definition NONE := 0.
Definition UNKNOWN_SERVER_ERROR := -1.
Definition NOT_LEADER_OR_FOLLOWER := 6.
Definition REQUEST_TIMED_OUT := 7.
Definition TOPIC_AUTHORIZATION_FAILED := 29.

Record pitem := mkPItem {
  p_part : Z;
  p_down : Z          (* error code the storage path yields once reached (0 = appended and flushed) *)
}.
Record titem := mkTItem { t_topic : bytes; t_allowed : bool; t_parts : list pitem }.

Record penv := mkPEnv {
  pe_leasing : bool;       (* h.leaseManager != nil *)
  pe_etcd_avail : bool;    (* h.etcdAvailable() *)
  pe_s3_healthy : bool;    (* h.s3Health.State() == healthy *)
  pe_bp_code : Z           (* h.backpressureErrorCode() *)
}.

(* per-partition outcome: response code and whether the storage path (getPartitionLog /
   AppendBatch / Flush) was entered for it *)
Definition part_outcome (env : penv) (errs : list (bytes * ares)) (topic : bytes) (p : pitem) : Z * bool :=
  if negb (pe_etcd_avail env) then (REQUEST_TIMED_OUT, false)
  else match alookup (partition_rid topic (p_part p)) errs with
  | Some ANotOwner | Some AShutdown => (NOT_LEADER_OR_FOLLOWER, false)
  | Some _ => (REQUEST_TIMED_OUT, false)
  | None =>
      if negb (pe_s3_healthy env) then (pe_bp_code env, false)
      else (p_down p, true)
  end.

Definition topic_outcome (env : penv) (errs : list (bytes * ares)) (t : titem) : list (Z * bool) :=
  if t_allowed t then map (part_outcome env errs (t_topic t)) (t_parts t)
  else map (fun _ => (TOPIC_AUTHORIZATION_FAILED, false)) (t_parts t).

Definition req_rids (req : list titem) : list bytes :=
  flat_map (fun t => map (fun p => partition_rid (t_topic t) (p_part p)) (t_parts t)) req.

(* handleProduce, lease slice: leases are acquired for every partition named in the
   request (before the ACL and availability checks), then each partition is answered *)
Definition produce (cfg : config) (env : penv) (s : state) (b : bytes) (req : list titem)
  : state * list (list (Z * bool)) :=
  let rids := req_rids req in
  let '(s', res) := if pe_leasing env then acquire_all cfg s b rids else (s, map (fun _ => AOk) rids) in
  (s', map (topic_outcome env (lease_errors rids res [])) req).
