(* Executable model of pkg/cache/segment_cache.go (SegmentCache).
   Modelled: NewSegmentCache, makeKey, GetSegment, SetSegment, evictIfNeeded.
   The Go slices handed out by GetSegment alias the entry's backing array, so the
   model has an explicit heap of buffers: an entry points at a buffer id and a
   hand-out is that id. After the "fix: copy on overwrite" commit SetSegment
   always allocates a fresh buffer, which is what [set] does here.
   The LRU list is kept oldest-first (the Go list is newest-first; MoveToFront =
   move to the end here, eviction from the head). No proofs in this file. *)
From KS Require Import lib.Base lib.Strings.
Open Scope Z_scope.

Definition make_key (topic : bytes) (partition base : Z) : bytes :=
  topic ++ colon :: dec partition ++ colon :: dec base.

Record cache := mkCache {
  c_cap : Z;
  c_size : Z;                          (* the Go field, maintained incrementally *)
  c_lru : list (bytes * nat);          (* (key string, buffer id), oldest first *)
  c_heap : list bytes                  (* buffer id -> contents; append-only *)
}.

Definition new_cache (cap : Z) : cache :=
  mkCache (if cap <=? 0 then 1 else cap) 0 [] [].

Definition buf (h : list bytes) (id : nat) : bytes := nth id h [].

Fixpoint find_key (k : bytes) (l : list (bytes * nat)) : option nat :=
  match l with
  | [] => None
  | (k', b) :: l' => if bytes_eqb k k' then Some b else find_key k l'
  end.

Fixpoint remove_key (k : bytes) (l : list (bytes * nat)) : list (bytes * nat) :=
  match l with
  | [] => []
  | (k', b) :: l' => if bytes_eqb k k' then l' else (k', b) :: remove_key k l'
  end.

(* evictIfNeeded: drop oldest entries while size > capacity *)
Fixpoint evict (cap size : Z) (h : list bytes) (l : list (bytes * nat)) : Z * list (bytes * nat) :=
  match l with
  | [] => (size, [])
  | (k, b) :: l' => if cap <? size then evict cap (size - zlen (buf h b)) h l' else (size, l)
  end.

Definition get (c : cache) (k : bytes) : cache * option nat :=
  match find_key k (c_lru c) with
  | Some b => (mkCache (c_cap c) (c_size c) (remove_key k (c_lru c) ++ [(k, b)]) (c_heap c), Some b)
  | None => (c, None)
  end.

Definition set (c : cache) (k : bytes) (data : bytes) : cache :=
  let id := length (c_heap c) in
  let heap' := c_heap c ++ [data] in
  match find_key k (c_lru c) with
  | Some b =>
      let size1 := c_size c - zlen (buf (c_heap c) b) + zlen data in
      let l1 := remove_key k (c_lru c) ++ [(k, id)] in
      let '(size2, l2) := evict (c_cap c) size1 heap' l1 in
      mkCache (c_cap c) size2 l2 heap'
  | None =>
      let size1 := c_size c + zlen data in
      let l1 := c_lru c ++ [(k, id)] in
      let '(size2, l2) := evict (c_cap c) size1 heap' l1 in
      mkCache (c_cap c) size2 l2 heap'
  end.

(* API-level operations: keys are (topic, partition, baseOffset). *)
Inductive op :=
| OSet (topic : bytes) (partition base : Z) (data : bytes)
| OGet (topic : bytes) (partition base : Z).

Definition step (c : cache) (o : op) : cache * option nat :=
  match o with
  | OSet t p b d => (set c (make_key t p b) d, None)
  | OGet t p b => get c (make_key t p b)
  end.

Definition run (c : cache) (ops : list op) : cache :=
  fold_left (fun c o => fst (step c o)) ops c.

(* bytes actually held by the cache *)
Definition held (c : cache) : Z :=
  fold_right (fun e acc => zlen (buf (c_heap c) (snd e)) + acc) 0 (c_lru c).

(* what a lookup returns to the caller: the bytes behind the handed-out buffer *)
Definition lookup (c : cache) (t : bytes) (p b : Z) : option bytes :=
  option_map (buf (c_heap c)) (snd (get c (make_key t p b))).
