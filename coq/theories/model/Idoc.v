(* Model of pkg/idoc/explode.go: ExplodeXML's token loop (StartElement / CharData /
   EndElement; every other token kind is ignored), segmentFrame stack, buildPath,
   attrsToMap, Fields population, the routing into Items/Partners/Statuses/Dates,
   buildSegmentSets/sliceToSet - with the routing as in fixes/C45-route-every-list.patch
   (four independent tests instead of a first-match switch; [route_first] keeps the
   original switch for the record).  encoding/xml tokenisation is an oracle: a
   document is a tree ([node]) and [tokens] maps it to the token list the decoder
   yields; the one decoder setting that changes this for well-formed input,
   AutoClose = xml.HTMLAutoClose, is modelled in [explode_doc] (an element whose
   name case-folds to an HTML void tag and that has content makes the decoder
   report "unexpected end element": ExplodeXML returns an error).
   strings.TrimSpace is the parameter [trim].  No proofs here. *)
From KS Require Import lib.Base.
Open Scope Z_scope.

Definition amap := list (bytes * bytes).     (* Go map[string]string: unique keys *)

Fixpoint alookup (k : bytes) (m : amap) : option bytes :=
  match m with
  | [] => None
  | (k', v) :: m' => if bytes_eqb k k' then Some v else alookup k m'
  end.

Fixpoint aremove (k : bytes) (m : amap) : amap :=
  match m with
  | [] => []
  | (k', v) :: m' => if bytes_eqb k k' then aremove k m' else (k', v) :: aremove k m'
  end.

Definition aput (k v : bytes) (m : amap) : amap := (k, v) :: aremove k m.

(* attrsToMap: later attributes with the same local name win *)
Definition attrs_to_map (attrs : list (bytes * bytes)) : amap :=
  fold_left (fun m kv => aput (fst kv) (snd kv) m) attrs [].

Inductive token :=
| TStart (name : bytes) (attrs : list (bytes * bytes))
| TChars (s : bytes)
| TEnd
| TOther.                                     (* Comment, ProcInst, Directive *)

Record frame := mkFrame {
  f_name : bytes; f_path : bytes; f_attrs : amap; f_value : bytes; f_fields : option amap }.

Record segment := mkSeg {
  s_name : bytes; s_path : bytes; s_attrs : amap; s_value : bytes; s_fields : option amap }.

Record sets := mkSets { z_items : list bytes; z_partners : list bytes; z_statuses : list bytes; z_dates : list bytes }.

Definition mem (n : bytes) (s : list bytes) : bool := existsb (bytes_eqb n) s.

Definition is_routed (z : sets) (n : bytes) : bool :=
  mem n (z_items z) || mem n (z_partners z) || mem n (z_statuses z) || mem n (z_dates z).

Record state := mkState {
  st_stack : list frame;                       (* top first *)
  st_header : option (bytes * amap);
  st_segs : list segment;
  st_items : list segment; st_partners : list segment; st_statuses : list segment; st_dates : list segment }.

Definition state0 : state := mkState [] None [] [] [] [] [].

Definition slash : Z := 47.

(* strings.Join(parts, "/") *)
Fixpoint join_slash (parts : list bytes) : bytes :=
  match parts with
  | [] => []
  | [p] => p
  | p :: ps => p ++ slash :: join_slash ps
  end.

(* buildPath: names of the stack bottom-up, then the new name *)
Definition build_path (stack : list frame) (name : bytes) : bytes :=
  join_slash (rev (map f_name stack) ++ [name]).

Definition is_empty (b : bytes) : bool := match b with [] => true | _ => false end.

Definition nil_b {A} (l : list A) : bool := match l with [] => true | _ => false end.

Inductive route := RItems | RPartners | RStatuses | RDates.
Definition route_set (z : sets) (r : route) : list bytes :=
  match r with RItems => z_items z | RPartners => z_partners z | RStatuses => z_statuses z | RDates => z_dates z end.
Definition st_route (st : state) (r : route) : list segment :=
  match r with RItems => st_items st | RPartners => st_partners st | RStatuses => st_statuses st | RDates => st_dates st end.

Definition add_if (b : bool) (seg : segment) (l : list segment) : list segment :=
  if b then l ++ [seg] else l.

Section WithTrim.
Variable trim : bytes -> bytes.                (* strings.TrimSpace *)

(* sliceToSet *)
Definition slice_to_set (l : list bytes) : list bytes :=
  filter (fun v => negb (is_empty v)) (map trim l).

Record config := mkCfg { c_items : list bytes; c_partners : list bytes; c_statuses : list bytes; c_dates : list bytes }.

Definition build_sets (c : config) : sets :=
  mkSets (slice_to_set (c_items c)) (slice_to_set (c_partners c)) (slice_to_set (c_statuses c)) (slice_to_set (c_dates c)).

Definition step (z : sets) (st : state) (t : token) : state :=
  match t with
  | TStart name attrs =>
      let fr := mkFrame name (build_path (st_stack st) name) (attrs_to_map attrs) []
                        (if is_routed z name then Some [] else None) in
      mkState (fr :: st_stack st)
              (match st_header st with None => Some (name, attrs_to_map attrs) | h => h end)
              (st_segs st) (st_items st) (st_partners st) (st_statuses st) (st_dates st)
  | TChars s =>
      match st_stack st with
      | [] => st
      | fr :: rest =>
          mkState (mkFrame (f_name fr) (f_path fr) (f_attrs fr) (f_value fr ++ s) (f_fields fr) :: rest)
                  (st_header st) (st_segs st) (st_items st) (st_partners st) (st_statuses st) (st_dates st)
      end
  | TEnd =>
      match st_stack st with
      | [] => st
      | fr :: rest =>
          let val := trim (f_value fr) in
          let rest' :=
            match rest with
            | parent :: up =>
                if is_empty val then rest else
                match f_fields parent with
                | Some fl => mkFrame (f_name parent) (f_path parent) (f_attrs parent) (f_value parent)
                                     (Some (aput (f_name fr) val fl)) :: up
                | None => rest
                end
            | [] => rest
            end in
          let seg := mkSeg (f_name fr) (f_path fr) (f_attrs fr) val (f_fields fr) in
          mkState rest' (st_header st) (st_segs st ++ [seg])
                  (add_if (mem (s_name seg) (z_items z)) seg (st_items st))
                  (add_if (mem (s_name seg) (z_partners z)) seg (st_partners st))
                  (add_if (mem (s_name seg) (z_statuses z)) seg (st_statuses st))
                  (add_if (mem (s_name seg) (z_dates z)) seg (st_dates st))
      end
  | TOther => st
  end.

Fixpoint run (z : sets) (st : state) (ts : list token) : state :=
  match ts with
  | [] => st
  | t :: ts' => run z (step z st t) ts'
  end.

(* the original first-match switch (before the fix), for the record *)
Definition route_first (z : sets) (seg : segment) : option route :=
  if mem (s_name seg) (z_items z) then Some RItems
  else if mem (s_name seg) (z_partners z) then Some RPartners
  else if mem (s_name seg) (z_statuses z) then Some RStatuses
  else if mem (s_name seg) (z_dates z) then Some RDates else None.

(* ---------- documents ---------- *)
Inductive node :=
| NText (s : bytes)                            (* character data, entities already decoded *)
| NOther                                       (* comment / processing instruction *)
| NElem (name : bytes) (attrs : list (bytes * bytes)) (kids : list node).

Fixpoint tokens (n : node) : list token :=
  match n with
  | NText s => [TChars s]
  | NOther => [TOther]
  | NElem name attrs kids => TStart name attrs :: flat_map tokens kids ++ [TEnd]
  end.


(* ---------- specification over the document tree ---------- *)
Definition own_text (kids : list node) : bytes :=
  flat_map (fun k => match k with NText s => s | _ => [] end) kids.

(* the (trimmed) text of a child element; [] for non-elements *)
Definition node_value (n : node) : bytes :=
  match n with NElem _ _ kids => trim (own_text kids) | _ => [] end.

Definition is_elem (n : node) : bool := match n with NElem _ _ _ => true | _ => false end.

Definition names_field (c : node) (k : bytes) : bool :=
  match c with
  | NElem nm _ _ => bytes_eqb k nm && negb (is_empty (node_value c))
  | _ => false
  end.

(* value of the LAST direct child element named k that has non-empty trimmed text *)
Fixpoint field_spec (kids : list node) (k : bytes) : option bytes :=
  match kids with
  | [] => None
  | c :: ks =>
      match field_spec ks k with
      | Some v => Some v
      | None => if names_field c k then Some (node_value c) else None
      end
  end.

Definition field_step (m : amap) (c : node) : amap :=
  match c with
  | NElem nm _ _ => if is_empty (node_value c) then m else aput nm (node_value c) m
  | _ => m
  end.
Definition fields_of (kids : list node) : amap := fold_left field_step kids [].

(* segments of a document: elements in closing (post-) order, path = ancestors *)
Fixpoint spec_segs (z : sets) (anc : list bytes) (n : node) : list segment :=
  match n with
  | NElem name attrs kids =>
      flat_map (spec_segs z (anc ++ [name])) kids ++
      [mkSeg name (join_slash (anc ++ [name])) (attrs_to_map attrs) (trim (own_text kids))
             (if is_routed z name then Some (fields_of kids) else None)]
  | _ => []
  end.

Fixpoint elem_count (n : node) : nat :=
  match n with
  | NElem _ _ kids => S (list_sum (map elem_count kids))
  | _ => O
  end.

Definition routed_spec (z : sets) (r : route) (segs : list segment) : list segment :=
  filter (fun s => mem (s_name s) (route_set z r)) segs.

(* xml.HTMLAutoClose, compared with strings.EqualFold (ASCII folding modelled) *)
Definition lower_ascii (c : Z) : Z := if (65 <=? c) && (c <=? 90) then c + 32 else c.
Definition html_void : list bytes :=
  [ [98;97;115;101;102;111;110;116] (* basefont *); [98;114] (* br *); [97;114;101;97] (* area *);
    [108;105;110;107] (* link *); [105;109;103] (* img *); [112;97;114;97;109] (* param *); [104;114] (* hr *);
    [105;110;112;117;116] (* input *); [99;111;108] (* col *); [102;114;97;109;101] (* frame *);
    [105;115;105;110;100;101;120] (* isindex *); [98;97;115;101] (* base *); [109;101;116;97] (* meta *) ].
Definition void_name (n : bytes) : bool := mem (map lower_ascii n) html_void.

(* does the decoder's auto-close interfere: a void-named element with any content *)
Fixpoint autoclose_hit (n : node) : bool :=
  match n with
  | NElem name _ kids => (void_name name && negb (nil_b kids)) || existsb autoclose_hit kids
  | _ => false
  end.

Inductive result := Err | Ok (st : state).

(* ExplodeXML on the text of a well-formed document whose root element is [doc],
   surrounded by [pre]/[post] (prolog, comments, whitespace outside the root) *)
Definition explode_doc (c : config) (pre : list node) (doc : node) (post : list node) : result :=
  if autoclose_hit doc then Err
  else Ok (run (build_sets c) state0 (flat_map tokens pre ++ tokens doc ++ flat_map tokens post)).

End WithTrim.

(* strings.TrimSpace on ASCII text (the correspondence instance; generated texts
   contain no non-ASCII white space) *)
Definition is_space (c : Z) : bool :=
  (c =? 32) || ((9 <=? c) && (c <=? 13)).
Fixpoint trim_left (b : bytes) : bytes :=
  match b with
  | c :: b' => if is_space c then trim_left b' else b
  | [] => []
  end.
Definition trim_ascii (b : bytes) : bytes := rev (trim_left (rev (trim_left b))).
