(* Executable model of the LFS readers' integrity checks (C30).  Modelled by hand
   (no proofs in this file):

     pkg/lfs/checksum.go   NormalizeChecksumAlg, ComputeChecksum, EnvelopeChecksum
     pkg/lfs/resolver.go   Resolver.Resolve
     pkg/lfs/consumer.go   Consumer.Unwrap        (Record.Value delegates to it)
     cmd/proxy/lfs_http.go handleHTTPDownload (every validation step, presign and
                           stream mode) and streamDownloadWithVerify (LimitReader at
                           size+1, buffer-then-verify) — with
                           fixes/C30-download-size-must-match.patch applied

   The hash functions (crypto/sha256, crypto/md5, hash/crc32 + hex.EncodeToString)
   are the parameter [digest]; JSON decoding of the envelope / request body and the
   object-key validation are inputs of the model (observed by the harness).
   strings.TrimSpace and strings.ToLower are modelled on UTF-8 byte strings as far
   as any comparison in this code can see: all Unicode White_Space characters are
   trimmed; A-Z, U+0130 and U+212A (the only non-ASCII characters whose simple lower
   case is ASCII) are lowered, every other byte is kept (another non-ASCII letter
   lowers to a non-ASCII letter, which no constant compared here contains). *)
From Coq Require Import String.
From KS Require Import lib.Base lib.Strings model.Envelope.
Open Scope Z_scope.

(* ---------- strings.TrimSpace ---------- *)
Definition is_ascii_space (c : Z) : bool := (c =? 32) || ((9 <=? c) && (c <=? 13)).
(* U+0085, U+00A0 *)
Definition space2 (a b : Z) : bool := (a =? 194) && ((b =? 133) || (b =? 160)).
(* U+1680, U+2000..U+200A, U+2028, U+2029, U+202F, U+205F, U+3000 *)
Definition space3 (a b c : Z) : bool :=
  ((a =? 225) && (b =? 154) && (c =? 128))
  || ((a =? 226) && (b =? 128) && (((128 <=? c) && (c <=? 138)) || (c =? 168) || (c =? 169) || (c =? 175)))
  || ((a =? 226) && (b =? 129) && (c =? 159))
  || ((a =? 227) && (b =? 128) && (c =? 128)).

(* remove one white-space character from the front; [rv] = the list is reversed
   (so the character's bytes come last-first) *)
Definition strip_space (rv : bool) (s : bytes) : option bytes :=
  match s with
  | [] => None
  | c :: r =>
    if is_ascii_space c then Some r else
    match r with
    | [] => None
    | x :: r2 =>
      if (if rv then space2 x c else space2 c x) then Some r2 else
      match r2 with
      | [] => None
      | y :: r3 => if (if rv then space3 y x c else space3 c x y) then Some r3 else None
      end
    end
  end.

Fixpoint trim_front (rv : bool) (fuel : nat) (s : bytes) : bytes :=
  match fuel with
  | O => s
  | S f => match strip_space rv s with Some r => trim_front rv f r | None => s end
  end.

Definition trim_space (s : bytes) : bytes :=
  let l := trim_front false (length s) s in
  rev (trim_front true (length l) (rev l)).

(* ---------- strings.ToLower (see the header) ---------- *)
Fixpoint to_lower (s : bytes) : bytes :=
  match s with
  | [] => []
  | c :: r =>
    if (65 <=? c) && (c <=? 90) then (c + 32) :: to_lower r else
    match r with
    | [] => [c]
    | x :: r2 =>
      if (c =? 196) && (x =? 176) then 105 :: to_lower r2 else      (* U+0130 -> i *)
      match r2 with
      | [] => c :: to_lower r
      | y :: r3 => if (c =? 226) && (x =? 132) && (y =? 170) then 107 :: to_lower r3   (* U+212A -> k *)
                   else c :: to_lower r
      end
    end
  end.

Definition norm (s : bytes) : bytes := to_lower (trim_space s).

(* ---------- NormalizeChecksumAlg ---------- *)
Inductive alg := ASha256 | AMd5 | ACrc32 | ANone.

Definition alg_eqb (a b : alg) : bool :=
  match a, b with
  | ASha256, ASha256 | AMd5, AMd5 | ACrc32, ACrc32 | ANone, ANone => true
  | _, _ => false
  end.

Definition s_sha256 : bytes := codes "sha256".
Definition s_md5 : bytes := codes "md5".
Definition s_crc32 : bytes := codes "crc32".
Definition s_none : bytes := codes "none".

(* None = errors.New("unsupported checksum algorithm") *)
Definition normalize_alg (raw : bytes) : option alg :=
  let v := norm raw in
  if bytes_eqb v [] then Some ASha256
  else if bytes_eqb v s_sha256 then Some ASha256
  else if bytes_eqb v s_md5 then Some AMd5
  else if bytes_eqb v s_crc32 then Some ACrc32
  else if bytes_eqb v s_none then Some ANone
  else None.

(* ---------- EnvelopeChecksum ---------- *)
Inductive ecs :=
| EcsErr                              (* err != nil *)
| EcsNo (a : alg)                     (* ok = false: nothing to validate *)
| EcsYes (a : alg) (expected : bytes). (* ok = true *)

Definition nonempty (s : bytes) : bool := negb (bytes_eqb s []).

Definition envelope_checksum (e : envelope) : ecs :=
  match normalize_alg (e_alg e) with
  | None => EcsErr
  | Some ANone => EcsNo ANone
  | Some ASha256 =>
      if nonempty (e_checksum e) then EcsYes ASha256 (e_checksum e)
      else if nonempty (e_sha256 e) then EcsYes ASha256 (e_sha256 e)
      else EcsNo ASha256
  | Some a =>                                             (* md5, crc32 *)
      if nonempty (e_checksum e) then EcsYes a (e_checksum e)
      else if nonempty (e_sha256 e) then EcsYes ASha256 (e_sha256 e)   (* backward compatibility *)
      else EcsNo a
  end.

(* vocabulary for the specification (props/C30.v): what an envelope declares about
   its blob — an unusable declaration, no digest at all, or a digest under an algorithm *)
Inductive decl := DInvalid | DNothing | DDigest (a : alg) (hex : bytes).

(* what the storage returns for a key *)
Inductive fetched := FErr | FOk (blob : bytes).

Inductive rerr := EDecode | ENoS3 | EFetch | ETooLarge | EAlg | EMismatch.

Inductive rres :=
| RPass (payload : bytes)        (* not an envelope: the value itself, ok = false *)
| RErr (e : rerr)
| ROk (payload : bytes) (a : option alg) (expected : bytes).   (* Payload, ChecksumAlg, Checksum *)

Section Readers.
  (* ComputeChecksum for a real algorithm: lower-case hex of the digest *)
  Variable digest : alg -> bytes -> bytes.
  (* json.Unmarshal into an Envelope *)
  Variable unmarshal : bytes -> option envelope.
  (* S3Reader.Fetch / BlobFetcher.Fetch by key *)
  Variable fetch : bytes -> fetched.

  (* ComputeChecksum: "" for none *)
  Definition compute_checksum (a : alg) (data : bytes) : bytes :=
    match a with ANone => [] | _ => digest a data end.

  (* Resolver.Resolve; [has_s3] = r.s3 != nil *)
  Definition resolve (max_size : Z) (validate : bool) (has_s3 : bool) (value : bytes) : rres :=
    if negb (go_is_envelope value) then RPass value else
    match decode unmarshal value with
    | None => RErr EDecode
    | Some env =>
      if negb has_s3 then RErr ENoS3 else
      match fetch (e_key env) with
      | FErr => RErr EFetch
      | FOk payload =>
        if (0 <? max_size) && (max_size <? zlen payload) then RErr ETooLarge else
        match envelope_checksum env with
        | EcsErr => RErr EAlg
        | EcsNo a => ROk payload (Some a) []
        | EcsYes a expected =>
            if validate && negb (bytes_eqb (compute_checksum a payload) expected) then RErr EMismatch
            else ROk payload (Some a) expected
        end
      end
    end.

  (* Consumer.Unwrap: RPass = (nil, value, nil); ROk blob = (&env, blob, nil); the alg /
     expected components are not returned by Unwrap and are left empty *)
  Definition unwrap (validate : bool) (value : bytes) : rres :=
    if negb (go_is_envelope value) then RPass value else
    match decode unmarshal value with
    | None => RErr EDecode
    | Some env =>
      match fetch (e_key env) with
      | FErr => RErr EFetch
      | FOk blob =>
        if validate then
          match envelope_checksum env with
          | EcsErr => RErr EAlg
          | EcsNo _ => ROk blob None []
          | EcsYes a expected =>
              if bytes_eqb (compute_checksum a blob) expected then ROk blob None [] else RErr EMismatch
          end
        else ROk blob None []
      end
    end.
End Readers.

(* ---------- POST /lfs/download ---------- *)
Record dlreq := mkReq {
  q_post : bool;          (* r.Method == POST *)
  q_auth : bool;          (* m.httpAPIKey == "" || lfsValidateHTTPAPIKey(r) *)
  q_healthy : bool;       (* m.isS3Healthy() *)
  q_json : bool;          (* the body decoded as JSON *)
  q_bucket : bytes; q_key : bytes; q_mode : bytes;
  q_key_ok : bool;        (* lfsValidateObjectKey(TrimSpace(key)) == nil *)
  q_integrity : bool;     (* req.Integrity != nil *)
  q_sha : bytes; q_alg : bytes; q_size : Z }.

Record dlcfg := mkCfg { c_bucket : bytes; c_max_blob : Z; c_presign : bool }.

(* S3 GetObject: error, or a body that yields [data] and then either EOF or a read error *)
Inductive s3obj := GErr | GBody (data : bytes) (read_error_after : bool).

Inductive dlresp :=
| DError (status : Z) (code : bytes)
| DPresign (sha : bytes) (size : Z)      (* 200, JSON: url + echoed integrity; no object bytes *)
| DStream (body : bytes) (sha : bytes).  (* 200, the object bytes; X-Kafscale-LFS-Checksum *)

Definition is_hex (c : Z) : bool := ((48 <=? c) && (c <=? 57)) || ((97 <=? c) && (c <=? 102)) || ((65 <=? c) && (c <=? 70)).

Definition max_int64 : Z := 9223372036854775807.

(* the first n elements, n a Z (io.LimitReader; no unary numbers: n can be 2^63-1) *)
Fixpoint takez (n : Z) (l : bytes) : bytes :=
  match l with
  | [] => []
  | x :: r => if n <=? 0 then [] else x :: takez (n - 1) r
  end.

Section Download.
  Variable sha256hex : bytes -> bytes.            (* hex.EncodeToString(sha256(data)) *)
  Variable presign_ok : bool.                     (* PresignGetObject succeeded *)
  (* s3Uploader.GetObject by key: the outcomes of SUCCESSIVE calls for this request
     (attempt 1, attempt 2, ...).  The code makes exactly one call and any failure of
     it ends the request with 502 — there is no retry; the list is there so that a
     retrying variant is a correspondence mismatch (status / number of calls) at once. *)
  Variable get : bytes -> list s3obj.

  Definition first_attempt (key : bytes) : s3obj :=
    match get key with [] => GErr | o :: _ => o end.

  (* streamDownloadWithVerify *)
  Definition stream_download (key expected_sha : bytes) (expected_size : Z) : dlresp :=
    match first_attempt key with
    | GErr => DError 502 (codes "s3_get_failed")
    | GBody data rerr =>
      let limit := expected_size + 1 in                          (* io.LimitReader(obj.Body, size+1) *)
      let buffered := takez limit data in
      (* the underlying reader is asked again (and fails) only if the limit was not reached *)
      if rerr && (zlen data <? limit) then DError 502 (codes "s3_get_failed")
      else if expected_size <? zlen buffered then DError 502 (codes "integrity_failure")
      else if zlen buffered <? expected_size then DError 502 (codes "integrity_failure")   (* the fix *)
      else if negb (bytes_eqb (sha256hex buffered) expected_sha) then DError 502 (codes "integrity_failure")
      else DStream buffered (sha256hex buffered)
    end.

  (* handleHTTPDownload *)
  Definition download (cfg : dlcfg) (q : dlreq) : dlresp :=
    if negb (q_post q) then DError 405 (codes "method_not_allowed")
    else if negb (q_auth q) then DError 401 (codes "unauthorized")
    else if negb (q_healthy q) then DError 503 (codes "proxy_not_ready")
    else if negb (q_json q) then DError 400 (codes "invalid_request")
    else
    let bucket := trim_space (q_bucket q) in
    let key := trim_space (q_key q) in
    if bytes_eqb bucket [] || bytes_eqb key [] then DError 400 (codes "invalid_request")
    else if negb (bytes_eqb bucket (c_bucket cfg)) then DError 400 (codes "invalid_bucket")
    else if negb (q_key_ok q) then DError 400 (codes "invalid_key")
    else
    let mode0 := norm (q_mode q) in
    let mode := if bytes_eqb mode0 [] then codes "stream" else mode0 in
    let presign := bytes_eqb mode (codes "presign") in
    let stream := bytes_eqb mode (codes "stream") in
    if negb presign && negb stream then DError 400 (codes "invalid_mode")
    else if presign && negb (c_presign cfg) then DError 400 (codes "presign_disabled")
    else if negb (q_integrity q) || bytes_eqb (trim_space (q_sha q)) [] then DError 400 (codes "missing_integrity")
    else
    let sha := norm (q_sha q) in
    if negb (zlen sha =? 64) || negb (forallb is_hex sha) then DError 400 (codes "invalid_integrity")
    else
    let alg0 := norm (q_alg q) in
    if negb (bytes_eqb alg0 []) && negb (bytes_eqb alg0 s_sha256) then DError 400 (codes "unsupported_checksum_alg")
    else if q_size q <? 0 then DError 400 (codes "invalid_integrity")
    else if stream && (q_size q <=? 0) then DError 400 (codes "missing_integrity_size")
    else if stream && (0 <? c_max_blob cfg) && (c_max_blob cfg <? q_size q) then DError 400 (codes "payload_too_large")
    else if stream && (q_size q =? max_int64) then DError 400 (codes "payload_too_large")
    else if presign then
      (if presign_ok then DPresign sha (q_size q) else DError 502 (codes "s3_presign_failed"))
    else stream_download key sha (q_size q).
  (* number of GetObject calls the request makes: one iff it reaches the stream path *)
  Definition reaches_stream (r : dlresp) : bool :=
    match r with
    | DStream _ _ => true
    | DError 502 c => bytes_eqb c (codes "s3_get_failed") || bytes_eqb c (codes "integrity_failure")
    | _ => false
    end.
  Definition get_calls (cfg : dlcfg) (q : dlreq) : Z := if reaches_stream (download cfg q) then 1 else 0.
End Download.
