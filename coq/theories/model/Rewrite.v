(* Executable model of the LFS produce rewriting in cmd/proxy (package main).
   Modelled Go functions:
     lfs_rewrite.go: rewriteProduceRecords, lfsDecodeRecordBatches, lfsJoinRecordBatches,
       lfsDecodeBatchRecords, lfsReadRawRecordsInto, lfsCompressRecords (dispatch only),
       lfsFindHeaderValue, lfsHeaderValue, lfsHeadersToMap, lfsDropHeader, lfsInt32FromBytes,
       the batch Length/CRC/Attributes recomputation;
     lfs_record.go: lfsEncodeRecords, lfsEncodeRecord, lfsAppendVarint/Varlong/VarintBytes/
       VarintString, lfsVarint (lib/RecVarint.v);
     lfs.go: resolveChecksumAlg (+ lfs.NormalizeChecksumAlg on ASCII input);
     lfs_s3.go: s3Uploader.Upload (PutObject, and multipartUpload abstracted to "stores the whole
       payload"; the harness runs it over a part-assembling S3 fake) and DeleteObject.
   External code = Section variables: kmsg Record.ReadFrom ([decode_rec]), kgo (de)compressors,
   crc32 Castagnoli, the digest functions, lfs.EncodeEnvelope (JSON).  kmsg RecordBatch
   AppendTo/ReadFrom (fixed-width big-endian layout) is written out ([enc_batch]/[dec_batch]).
   Oracles: the fresh object key + creation time per upload ([u_supply]), S3 PutObject faults.
   Strings handled by strings.TrimSpace/ToLower/EqualFold are modelled for ASCII input.
   No proofs in this file. *)
From KS Require Import lib.Base lib.RecVarint.
Open Scope Z_scope.

(* ---------- records ---------- *)
Record header := mkHeader { h_key : bytes; h_val : option bytes }.
Record rec := mkRec {
  r_attr : Z; r_ts : Z; r_off : Z;
  r_key : option bytes; r_val : option bytes; r_hdrs : list header }.

Definition optb (o : option bytes) : bytes := match o with Some b => b | None => [] end.

(* lfsAppendVarintBytes: nil -> -1 *)
Definition put_vbytes (o : option bytes) : bytes :=
  match o with
  | None => put_varint (-1)
  | Some b => put_varint (wrap32 (zlen b)) ++ b
  end.
Definition enc_header (h : header) : bytes :=
  put_varint (wrap32 (zlen (h_key h))) ++ h_key h ++ put_vbytes (h_val h).
Definition enc_record_body (r : rec) : bytes :=
  [(r_attr r) mod 256] ++ put_varint (r_ts r) ++ put_varint (r_off r) ++
  put_vbytes (r_key r) ++ put_vbytes (r_val r) ++
  put_varint (wrap32 (zlen (r_hdrs r))) ++ flat_map enc_header (r_hdrs r).
(* lfsEncodeRecord *)
Definition enc_record (r : rec) : bytes :=
  let body := enc_record_body r in put_varint (wrap32 (zlen body)) ++ body.
(* lfsEncodeRecords *)
Definition enc_records (rs : list rec) : bytes := flat_map enc_record rs.

(* ---------- ASCII string helpers ---------- *)
Definition is_space (c : Z) : bool := ((9 <=? c) && (c <=? 13)) || (c =? 32).
Fixpoint trim_left (s : bytes) : bytes :=
  match s with c :: s' => if is_space c then trim_left s' else s | [] => [] end.
Definition trim_space (s : bytes) : bytes := rev (trim_left (rev (trim_left s))).
Definition lower_c (c : Z) : Z := if (65 <=? c) && (c <=? 90) then c + 32 else c.
Definition lower (s : bytes) : bytes := map lower_c s.
Definition equal_fold (a b : bytes) : bool := bytes_eqb (lower a) (lower b).
Definition nonempty (s : bytes) : bool := match s with [] => false | _ => true end.

Definition s_LFS_BLOB : bytes := [76;70;83;95;66;76;79;66].
Definition s_LFS_BLOB_ALG : bytes := [76;70;83;95;66;76;79;66;95;65;76;71].
Definition s_content_type : bytes := [99;111;110;116;101;110;116;45;116;121;112;101].
Definition s_sha256 : bytes := [115;104;97;50;53;54].
Definition s_md5 : bytes := [109;100;53].
Definition s_crc32 : bytes := [99;114;99;51;50].
Definition s_none : bytes := [110;111;110;101].
(* lfsSafeHeaderAllowlist *)
Definition allowlist : list bytes :=
  [ s_content_type;
    [99;111;110;116;101;110;116;45;101;110;99;111;100;105;110;103];
    [99;111;114;114;101;108;97;116;105;111;110;45;105;100];
    [109;101;115;115;97;103;101;45;105;100];
    [120;45;99;111;114;114;101;108;97;116;105;111;110;45;105;100];
    [120;45;114;101;113;117;101;115;116;45;105;100];
    [116;114;97;99;101;112;97;114;101;110;116];
    [116;114;97;99;101;115;116;97;116;101] ].

(* checksum algorithms: 0 sha256, 1 md5, 2 crc32, 3 none *)
Definition alg_name (a : Z) : bytes :=
  if a =? 0 then s_sha256 else if a =? 1 then s_md5 else if a =? 2 then s_crc32 else s_none.
(* lfs.NormalizeChecksumAlg *)
Definition normalize_alg (raw : bytes) : option Z :=
  let v := lower (trim_space raw) in
  if bytes_eqb v [] then Some 0
  else if bytes_eqb v s_sha256 then Some 0
  else if bytes_eqb v s_md5 then Some 1
  else if bytes_eqb v s_crc32 then Some 2
  else if bytes_eqb v s_none then Some 3
  else None.

(* ---------- headers ---------- *)
Fixpoint find_header (k : bytes) (hs : list header) : option (option bytes) :=
  match hs with
  | [] => None
  | h :: hs' => if bytes_eqb (h_key h) k then Some (h_val h) else find_header k hs'
  end.
Definition flagged (r : rec) : bool :=
  match find_header s_LFS_BLOB (r_hdrs r) with Some _ => true | None => false end.
(* lfsDropHeader *)
Definition drop_header (k : bytes) (hs : list header) : list header :=
  filter (fun h => negb (bytes_eqb (h_key h) k)) hs.
(* lfsHeaderValue *)
Definition header_value (k : bytes) (hs : list header) : bytes :=
  match find_header k hs with Some v => optb v | None => [] end.
(* lfsHeadersToMap, as the list of insertions (a later one for the same key wins) *)
Definition headers_to_map (hs : list header) : list (bytes * bytes) :=
  map (fun h => (h_key h, optb (h_val h)))
      (filter (fun h => existsb (bytes_eqb (lower (h_key h))) allowlist) hs).

(* ---------- batches (kmsg.RecordBatch layout) ---------- *)
Record batch := mkBatch {
  b_first : Z; b_len : Z; b_ple : Z; b_magic : Z; b_crc : Z; b_attrs : Z; b_lod : Z;
  b_fts : Z; b_mts : Z; b_pid : Z; b_pepoch : Z; b_fseq : Z; b_num : Z; b_recs : bytes }.

(* big-endian two's complement of [v] on [w] bytes *)
Fixpoint be (w : nat) (v : Z) : bytes :=
  match w with O => [] | S w' => be w' (v / 256) ++ [v mod 256] end.
Definition ube (bs : bytes) : Z := fold_left (fun acc b => acc * 256 + b) bs 0.
Definition sbe (bs : bytes) : Z :=
  let u := ube bs in let m := 256 ^ zlen bs in if u <? m / 2 then u else u - m.

(* RecordBatch.AppendTo *)
Definition enc_batch (b : batch) : bytes :=
  be 8 (b_first b) ++ be 4 (b_len b) ++ be 4 (b_ple b) ++ be 1 (b_magic b) ++ be 4 (b_crc b) ++
  be 2 (b_attrs b) ++ be 4 (b_lod b) ++ be 8 (b_fts b) ++ be 8 (b_mts b) ++ be 8 (b_pid b) ++
  be 2 (b_pepoch b) ++ be 4 (b_fseq b) ++ be 4 (b_num b) ++ b_recs b.

Definition take (n : nat) (bs : bytes) : option (bytes * bytes) :=
  if (length bs <? n)%nat then None else Some (firstn n bs, skipn n bs).

(* RecordBatch.ReadFrom on exactly the batch's bytes *)
Definition dec_batch (bs : bytes) : option batch :=
  match take 8 bs with None => None | Some (f0, r0) =>
  match take 4 r0 with None => None | Some (f1, r1) =>
  match take 4 r1 with None => None | Some (f2, r2) =>
  match take 1 r2 with None => None | Some (f3, r3) =>
  match take 4 r3 with None => None | Some (f4, r4) =>
  match take 2 r4 with None => None | Some (f5, r5) =>
  match take 4 r5 with None => None | Some (f6, r6) =>
  match take 8 r6 with None => None | Some (f7, r7) =>
  match take 8 r7 with None => None | Some (f8, r8) =>
  match take 8 r8 with None => None | Some (f9, r9) =>
  match take 2 r9 with None => None | Some (f10, r10) =>
  match take 4 r10 with None => None | Some (f11, r11) =>
  match take 4 r11 with None => None | Some (f12, r12) =>
  let n := sbe f1 - 49 in
  if (n <? 0) || (zlen r12 <? n) then None else
  Some (mkBatch (sbe f0) (sbe f1) (sbe f2) (sbe f3) (sbe f4) (sbe f5) (sbe f6) (sbe f7)
                (sbe f8) (sbe f9) (sbe f10) (sbe f11) (sbe f12) (firstn (Z.to_nat n) r12))
  end end end end end end end end end end end end end.

(* lfsDecodeRecordBatches: (decoded header, Raw) per batch; None = error *)
Fixpoint split_batches (fuel : nat) (buf : bytes) : option (list (batch * bytes)) :=
  match buf with
  | [] => Some []
  | _ =>
    match fuel with
    | O => None
    | S fuel' =>
      if zlen buf <? 12 then None else
      let len := sbe (firstn 4 (skipn 8 buf)) in
      let total := 12 + len in
      if (len <? 0) || (zlen buf <? total) then None else
      let bb := firstn (Z.to_nat total) buf in
      match dec_batch bb with
      | None => None
      | Some b =>
          match split_batches fuel' (skipn (Z.to_nat total) buf) with
          | None => None
          | Some l => Some ((b, bb) :: l)
          end
      end
    end
  end.

(* lfsJoinRecordBatches *)
Definition join_batches (l : list (batch * bytes)) : bytes := flat_map snd l.

(* ---------- outcome ---------- *)
Inductive outcome (A S : Type) :=
| Ok (a : A)
| Err (code : Z) (s : S)     (* error return; [s] = the state left behind *)
| Panic.
Arguments Ok {A S} a.
Arguments Err {A S} code s.
Arguments Panic {A S}.
(* error codes: 1 unsupported checksum algorithm, 2 checksum given with alg none,
   3 blob exceeds max, 4 S3 put failed, 5 checksum mismatch (object deleted),
   7 record-batch framing/decoding error, 8 decompression error, 9 envelope encode error,
   90 payload above chunk size (multipartUpload branch: not modelled), 99 oracle exhausted *)

Record envelope := mkEnv {
  e_bucket : bytes; e_key : bytes; e_size : Z; e_sha : bytes; e_checksum : bytes;
  e_alg : bytes; e_ctype : bytes; e_orig : list (bytes * bytes); e_created : bytes;
  e_proxy : bytes }.

Record config := mkCfg {
  c_bucket : bytes; c_proxy : bytes; c_max_blob : Z; c_default_alg : bytes; c_chunk : Z }.

Record ust := mkUst {
  u_store : list (bytes * bytes);     (* S3 objects, most recent put first *)
  u_supply : list (bytes * bytes);    (* oracle: (buildObjectKey result, CreatedAt) per flagged record *)
  u_faults : list bool;               (* oracle: PutObject k fails *)
  u_bytes : Z;                        (* uploadBytes *)
  u_orphans : list bytes }.           (* orphan candidates (keys), in order *)

Fixpoint store_get (k : bytes) (st : list (bytes * bytes)) : option bytes :=
  match st with
  | [] => None
  | (k', v) :: st' => if bytes_eqb k' k then Some v else store_get k st'
  end.
Definition store_del (k : bytes) (st : list (bytes * bytes)) : list (bytes * bytes) :=
  filter (fun kv => negb (bytes_eqb (fst kv) k)) st.

Section Ext.
  Variable decode_rec : bytes -> option rec.            (* kmsg Record.ReadFrom *)
  Variable decompress : Z -> bytes -> option bytes.     (* kgo DefaultDecompressor, codec 1..7 *)
  Variable compress : Z -> bytes -> bytes * Z.          (* kgo DefaultCompressor(codec).Compress, codec 1..4 *)
  Variable crc32c : bytes -> Z.                         (* crc32.Checksum(_, Castagnoli), 0..2^32-1 *)
  Variable hashf : Z -> bytes -> bytes.                 (* hex digest: 0 sha256, 1 md5, 2 crc32 *)
  Variable enc_env : envelope -> bytes.                 (* lfs.EncodeEnvelope (json.Marshal) *)

  (* lfsReadRawRecordsInto *)
  Fixpoint read_records (n : nat) (inp : bytes) : list rec :=
    match n with
    | O => []
    | S n' =>
        match lfs_varint inp with
        | None => []
        | Some (len, used) =>
            let total := used + len in
            if (len <? 0) || (zlen inp <? total) then [] else
            match decode_rec (firstn (Z.to_nat total) inp) with
            | None => []
            | Some r => r :: read_records n' (skipn (Z.to_nat total) inp)
            end
        end
    end.

  (* resolveChecksumAlg *)
  Definition resolve_alg (cfg : config) (raw : bytes) : option Z :=
    if bytes_eqb (trim_space raw) [] then normalize_alg (c_default_alg cfg) else normalize_alg raw.

  (* the body of the per-record loop of rewriteProduceRecords *)
  Definition process_record (cfg : config) (st : ust) (r : rec) : outcome (rec * ust * bool) ust :=
    match find_header s_LFS_BLOB (r_hdrs r) with
    | None => Ok (r, st, false)
    | Some lfsv =>
      let csum_hdr := trim_space (optb lfsv) in
      let alg_hdr := header_value s_LFS_BLOB_ALG (r_hdrs r) in
      match resolve_alg cfg alg_hdr with
      | None => Err 1 st
      | Some alg =>
        if nonempty csum_hdr && (alg =? 3) then Err 2 st else
        let payload := optb (r_val r) in
        if c_max_blob cfg <? zlen payload then Err 3 st else
        match u_supply st with
        | [] => Err 99 st
        | (key, created) :: sup' =>
          let '(fail, faults') := match u_faults st with [] => (false, []) | f :: fs => (f, fs) end in
          let st1 := mkUst (u_store st) sup' faults' (u_bytes st) (u_orphans st) in
          (* s3Uploader.Upload: PutObject up to the chunk size, multipartUpload above it (chunks of
             c_chunk bytes, the last one short); either way the object is the whole payload *)
          if fail then Err 4 st1 else
          let st2 := mkUst ((key, payload) :: u_store st) sup' faults' (u_bytes st) (u_orphans st) in
          let sha := hashf 0 payload in
          let csum := if alg =? 3 then [] else if alg =? 0 then sha else hashf alg payload in
          if nonempty csum_hdr && nonempty csum && negb (equal_fold csum_hdr csum) then
            Err 5 (mkUst (store_del key (u_store st2)) sup' faults' (u_bytes st) (u_orphans st))
          else if negb (nonempty (c_bucket cfg)) || negb (nonempty key) || negb (nonempty sha) then Err 9 st2
          else
            let env := mkEnv (c_bucket cfg) key (zlen payload) sha csum (alg_name alg)
                             (header_value s_content_type (r_hdrs r)) (headers_to_map (r_hdrs r))
                             created (c_proxy cfg) in
            let r' := mkRec (r_attr r) (r_ts r) (r_off r) (r_key r) (Some (enc_env env))
                            (drop_header s_LFS_BLOB (r_hdrs r)) in
            Ok (r', mkUst (u_store st2) sup' faults' (u_bytes st + zlen payload) (u_orphans st ++ [key]), true)
        end
      end
    end.

  Fixpoint process_records (cfg : config) (st : ust) (rs : list rec)
    : outcome (list rec * ust * bool) ust :=
    match rs with
    | [] => Ok ([], st, false)
    | r :: rs' =>
        match process_record cfg st r with
        | Ok (r', st1, ch1) =>
            match process_records cfg st1 rs' with
            | Ok (rs'', st2, ch2) => Ok (r' :: rs'', st2, ch1 || ch2)
            | Err c s => Err c s
            | Panic => Panic
            end
        | Err c s => Err c s
        | Panic => Panic
        end
    end.

  (* lfsCompressRecords *)
  Definition compress_records (codec : Z) (raw : bytes) : bytes * Z :=
    if codec =? 0 then (raw, 0)
    else if (1 <=? codec) && (codec <=? 4) then compress codec raw
    else (raw, 0).

  (* the Length / CRC recomputation at the end of the per-batch loop *)
  Definition rebuild_batch (b : batch) (payload : bytes) (used : Z) (n : Z) : batch * bytes :=
    let attrs := wrap16 (b_attrs b - (b_attrs b) mod 8 + used) in
    let b1 := mkBatch (b_first b) 0 (b_ple b) (b_magic b) 0 attrs (b_lod b) (b_fts b) (b_mts b)
                      (b_pid b) (b_pepoch b) (b_fseq b) (wrap32 n) payload in
    let bytes1 := enc_batch b1 in
    let b2 := mkBatch (b_first b) (wrap32 (zlen bytes1 - 12)) (b_ple b) (b_magic b) 0 attrs (b_lod b)
                      (b_fts b) (b_mts b) (b_pid b) (b_pepoch b) (b_fseq b) (wrap32 n) payload in
    let bytes2 := enc_batch b2 in
    let b3 := mkBatch (b_first b) (b_len b2) (b_ple b) (b_magic b) (wrap32 (crc32c (skipn 21 bytes2)))
                      attrs (b_lod b) (b_fts b) (b_mts b) (b_pid b) (b_pepoch b) (b_fseq b)
                      (wrap32 n) payload in
    (b3, enc_batch b3).

  (* lfsDecodeBatchRecords: None = decompression error *)
  Definition batch_records (b : batch) : option (list rec) :=
    let codec := (b_attrs b) mod 8 in
    match (if codec =? 0 then Some (b_recs b) else decompress codec (b_recs b)) with
    | None => None
    | Some raw => Some (read_records (Z.to_nat (b_num b)) raw)
    end.

  (* one iteration of the per-batch loop; bool = batch rewritten *)
  Definition process_batch (cfg : config) (st : ust) (bt : batch * bytes)
    : outcome ((batch * bytes) * ust * bool) ust :=
    let b := fst bt in
    match batch_records b with
    | None => Err 8 st
    | Some records =>
      if b_num b <? 0 then Panic else     (* make([]kmsg.Record, n) with n < 0 *)
      match records with
      | [] => Ok (bt, st, false)
      | _ =>
        match process_records cfg st records with
        | Err c s => Err c s
        | Panic => Panic
        | Ok (records', st', changed) =>
          if negb changed then Ok (bt, st', false) else
          let '(payload, used) := compress_records ((b_attrs b) mod 8) (enc_records records') in
          Ok (rebuild_batch b payload used (zlen records'), st', true)
        end
      end
    end.

  Fixpoint process_batches (cfg : config) (st : ust) (bts : list (batch * bytes))
    : outcome (list (batch * bytes) * ust * bool) ust :=
    match bts with
    | [] => Ok ([], st, false)
    | bt :: bts' =>
        match process_batch cfg st bt with
        | Ok (bt', st1, ch1) =>
            match process_batches cfg st1 bts' with
            | Ok (l, st2, ch2) => Ok (bt' :: l, st2, ch1 || ch2)
            | Err c s => Err c s
            | Panic => Panic
            end
        | Err c s => Err c s
        | Panic => Panic
        end
    end.

  (* one partition: its Records bytes *)
  Definition process_partition (cfg : config) (st : ust) (records : bytes)
    : outcome (bytes * ust * bool) ust :=
    match records with
    | [] => Ok (records, st, false)
    | _ =>
      match split_batches (S (length records)) records with
      | None => Err 7 st
      | Some bts =>
        match process_batches cfg st bts with
        | Err c s => Err c s
        | Panic => Panic
        | Ok (bts', st', changed) =>
            if changed then Ok (join_batches bts', st', true) else Ok (records, st', false)
        end
      end
    end.

  (* request = topics x partitions, flattened: (topic index, partition bytes) in request order *)
  Fixpoint process_partitions (cfg : config) (st : ust) (ps : list bytes)
    : outcome (list bytes * ust * bool) ust :=
    match ps with
    | [] => Ok ([], st, false)
    | p :: ps' =>
        match process_partition cfg st p with
        | Ok (p', st1, ch1) =>
            match process_partitions cfg st1 ps' with
            | Ok (l, st2, ch2) => Ok (p' :: l, st2, ch1 || ch2)
            | Err c s => Err c s
            | Panic => Panic
            end
        | Err c s => Err c s
        | Panic => Panic
        end
    end.

  (* rewriteProduceRecords on the partitions of the request in iteration order
     (topic-major); topic names only enter through the key oracle *)
  Definition rewrite_request := process_partitions.
End Ext.
