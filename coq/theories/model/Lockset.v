(* Lock-discipline model of the broker data path (C41, partial).  No proofs here.
   NOT a model of the Go memory model.  What is modelled: the atomic steps (critical
   sections and unlocked accesses) of
     pkg/storage/log.go      AppendBatch (incl. WriteBuffer.Append/ShouldFlush/Drain and
                             prepareFlush), uploadFlush's commit section, Read's locked
                             lookup (segments, indexEntries, buffer.RecordsFrom,
                             flushingBatches), startPrefetch's collection loop, the
                             prefetch goroutine, NewPartitionLog + RestoreFromS3
     pkg/cache/segment_cache.go  SetSegment, GetSegment (through the C09 model Cache.v:
                             SetSegment always allocates a fresh buffer)
     cmd/broker/main.go      handler.getPartitionLog: map lookup under logMu.RLock, the
                             single-flight initialisation, insertion under logMu.Lock
   each annotated with the shared locations it reads and writes and the locks held.
   Locations: per-log fields guarded by l.mu, the write buffer's fields (guarded by
   l.mu and buffer.mu), the cache's list/map/size, every cache buffer ever allocated
   (handed-out slices alias them), the handler's partition-log map. *)
From Coq Require Import String.
From KS Require Import lib.Base lib.Strings model.Cache.
Open Scope Z_scope.

Inductive loc :=
| LLog (l : Z)          (* nextOffset, segments, indexEntries, flushing, flushingBatches *)
| LBuffer (l : Z)       (* WriteBuffer.batches/sizeBytes/messageCount/lastFlush *)
| LCache                (* SegmentCache.ll/items/size *)
| LBuf (id : nat)       (* backing array of cache buffer id *)
| LMap.                 (* handler.logs *)

Inductive lock := KMu (l : Z) | KBufMu (l : Z) | KPrefetch (l : Z) | KCache | KMap.

Definition loc_eqb (a b : loc) : bool :=
  match a, b with
  | LLog x, LLog y => x =? y
  | LBuffer x, LBuffer y => x =? y
  | LCache, LCache => true
  | LBuf x, LBuf y => Nat.eqb x y
  | LMap, LMap => true
  | _, _ => false
  end.
Definition lock_eqb (a b : lock) : bool :=
  match a, b with
  | KMu x, KMu y => x =? y
  | KBufMu x, KBufMu y => x =? y
  | KPrefetch x, KPrefetch y => x =? y
  | KCache, KCache => true
  | KMap, KMap => true
  | _, _ => false
  end.

Inductive act :=
| ABeginInit (l : Z)     (* getPartitionLog miss: this thread wins the single-flight for l *)
| AInit (l : Z)          (* NewPartitionLog + RestoreFromS3 on the unpublished log, no lock *)
| APublish (l : Z)       (* h.logs[topic][partition] = plog under logMu.Lock *)
| ALookup (l : Z)        (* h.logs lookup under logMu.RLock *)
| AAppend (l : Z)        (* AppendBatch critical section *)
| AFlushPrepare (l : Z)  (* Flush: wait loop + prepareFlush under l.mu *)
| AFlushCommit (l : Z)   (* uploadFlush: commit / failure reset under l.mu *)
| AReadLookup (l : Z)    (* Read: segment lookup + buffer / flushingBatches fallback under l.mu *)
| APrefetchCollect (l : Z) (* startPrefetch: prefetchMu, l.mu, and GetSegment inside *)
| ACacheSet (topic : bytes) (part base : Z) (data : bytes)   (* SetSegment: uploadFlush, Read miss, prefetch goroutine *)
| ACacheGet (topic : bytes) (part base : Z)                  (* GetSegment in Read *)
| AUseBuf (id : nat).    (* Read slices / copies out of a handed-out cache buffer, no lock *)

Record state := mkSt {
  st_cache : cache;
  st_hand : list (Z * nat);      (* (thread, buffer id) handed out by GetSegment *)
  st_pub : list Z;               (* published logs *)
  st_creator : list (Z * Z)      (* (log, thread) single-flight winners of unpublished logs *)
}.

Definition init (cap : Z) : state := mkSt (new_cache cap) [] [] [].

(* "cold" initial states: the logs in [pubs] are already published (constructed, or
   rebuilt by RestoreFromS3) and nothing has run on them yet -- every thread's first
   operation on such a log is concurrent with every other thread's first operation *)
Definition init_cold (cap : Z) (pubs : list Z) : state := mkSt (new_cache cap) [] pubs [].

Definition published (s : state) (l : Z) : bool := existsb (Z.eqb l) (st_pub s).
Fixpoint creator_of (cs : list (Z * Z)) (l : Z) : option Z :=
  match cs with
  | [] => None
  | (l', t) :: cs' => if l =? l' then Some t else creator_of cs' l
  end.
Definition holds (s : state) (t : Z) (id : nat) : bool :=
  existsb (fun h => (fst h =? t) && Nat.eqb (snd h) id) (st_hand s).

Definition enabled (s : state) (t : Z) (a : act) : bool :=
  match a with
  | ABeginInit l => negb (published s l) && match creator_of (st_creator s) l with None => true | Some _ => false end
  | AInit l | APublish l => negb (published s l) && match creator_of (st_creator s) l with Some t' => t' =? t | None => false end
  | ALookup _ => true
  | AAppend l | AFlushPrepare l | AFlushCommit l | AReadLookup l | APrefetchCollect l => published s l
  | ACacheSet _ _ _ _ | ACacheGet _ _ _ => true
  | AUseBuf id => holds s t id
  end.

(* (reads, writes, locks held) of a step in state s *)
Definition footprint (s : state) (a : act) : list loc * list loc * list lock :=
  match a with
  | ABeginInit l => ([LMap], [], [KMap])
  | AInit l => ([LLog l; LBuffer l], [LLog l; LBuffer l], [])
  | APublish l => ([LMap], [LMap], [KMap])
  | ALookup l => ([LMap], [], [KMap])
  | AAppend l => ([LLog l; LBuffer l], [LLog l; LBuffer l], [KMu l; KBufMu l])
  | AFlushPrepare l => ([LLog l; LBuffer l], [LLog l; LBuffer l], [KMu l; KBufMu l])
  | AFlushCommit l => ([LLog l], [LLog l], [KMu l])
  | AReadLookup l => ([LLog l; LBuffer l], [], [KMu l; KBufMu l])
  | APrefetchCollect l => ([LLog l; LCache], [LCache], [KPrefetch l; KMu l; KCache])
  | ACacheSet _ _ _ _ => ([LCache], [LCache; LBuf (length (c_heap (st_cache s)))], [KCache])
  | ACacheGet _ _ _ => ([LCache], [LCache], [KCache])
  | AUseBuf id => ([LBuf id], [], [])
  end.

Definition step (s : state) (t : Z) (a : act) : option state :=
  if negb (enabled s t a) then None
  else Some
    match a with
    | ABeginInit l => mkSt (st_cache s) (st_hand s) (st_pub s) ((l, t) :: st_creator s)
    | APublish l => mkSt (st_cache s) (st_hand s) (l :: st_pub s) (st_creator s)
    | ACacheSet tp p b d => mkSt (fst (Cache.step (st_cache s) (OSet tp p b d))) (st_hand s) (st_pub s) (st_creator s)
    | ACacheGet tp p b =>
        let '(c', r) := Cache.step (st_cache s) (OGet tp p b) in
        mkSt c' (match r with Some id => (t, id) :: st_hand s | None => st_hand s end) (st_pub s) (st_creator s)
    | _ => s
    end.

Fixpoint run (s : state) (evs : list (Z * act)) : option state :=
  match evs with
  | [] => Some s
  | (t, a) :: evs' => match step s t a with Some s' => run s' evs' | None => None end
  end.

Definition mem_loc (x : loc) (l : list loc) : bool := existsb (loc_eqb x) l.
Definition conflict (f1 f2 : list loc * list loc * list lock) : bool :=
  let '(r1, w1, _) := f1 in let '(r2, w2, _) := f2 in
  existsb (fun x => mem_loc x r2 || mem_loc x w2) w1 || existsb (fun x => mem_loc x r1) w2.
Definition common_lock (f1 f2 : list loc * list loc * list lock) : bool :=
  existsb (fun k => existsb (lock_eqb k) (snd f2)) (snd f1).

(* ------------------------------------------------------------------ field table *)
(* Every field of the structs on the data path, with what protects it.  The harness
   compares this table with the structs' field lists obtained by reflection: a field
   the code has and the table lacks is an unannotated shared location (e.g. a lazily
   initialised cache written on first use) and fails the correspondence.
   GConst  = written only during construction, before the object is shared (for a
             PartitionLog: before publication; RestoreFromS3 included), read-only after;
   GSync   = a synchronisation object (mutex, cond, semaphore, single-flight group);
   GOwn    = pointer/interface to an object with its own internal synchronisation,
             the field itself is GConst;
   G<lock> = read AND written only while holding that lock (the steps' footprints
             use the location of that class: LLog / LBuffer / LCache / LMap); every Go
             map field is in this class -- a map read concurrent with a map write is a
             race (and can crash), so e.g. handler.logs needs logMu.RLock for the
             fast-path lookup AND for the double-check inside the single-flight
             initialiser (steps ALookup and ABeginInit hold KMap): single-flight
             serialises per key only, initialisers of different partitions overlap;
   GUnguarded = written after construction without a lock: NOT allowed (C41_fields_guarded). *)
Inductive guard := GConst | GSync | GOwn | GMu | GBufMu | GCacheMu | GLogMapMu | GAuthLogMu | GUnguarded.

Definition field_table : list (string * string * guard) := [
  ("PartitionLog", "namespace", GConst); ("PartitionLog", "topic", GConst); ("PartitionLog", "partition", GConst);
  ("PartitionLog", "s3", GOwn); ("PartitionLog", "cache", GOwn); ("PartitionLog", "cfg", GConst);
  ("PartitionLog", "buffer", GOwn); ("PartitionLog", "nextOffset", GMu); ("PartitionLog", "onFlush", GConst);
  ("PartitionLog", "onS3Op", GConst); ("PartitionLog", "segments", GMu); ("PartitionLog", "indexEntries", GMu);
  ("PartitionLog", "prefetchMu", GSync); ("PartitionLog", "mu", GSync); ("PartitionLog", "flushCond", GSync);
  ("PartitionLog", "s3sem", GSync); ("PartitionLog", "flushing", GMu); ("PartitionLog", "flushingBatches", GMu);
  ("WriteBuffer", "cfg", GConst); ("WriteBuffer", "mu", GSync); ("WriteBuffer", "batches", GBufMu);
  ("WriteBuffer", "sizeBytes", GBufMu); ("WriteBuffer", "messageCount", GBufMu); ("WriteBuffer", "lastFlush", GBufMu);
  ("SegmentCache", "mu", GSync); ("SegmentCache", "capacity", GConst); ("SegmentCache", "size", GCacheMu);
  ("SegmentCache", "ll", GCacheMu); ("SegmentCache", "items", GCacheMu);
  ("handler", "apiVersions", GConst); ("handler", "store", GOwn); ("handler", "s3", GOwn); ("handler", "cache", GOwn);
  ("handler", "logs", GLogMapMu); ("handler", "logMu", GSync); ("handler", "logInit", GSync); ("handler", "logConfig", GConst);
  ("handler", "coordinator", GOwn); ("handler", "leaseManager", GOwn); ("handler", "groupLeaseManager", GOwn);
  ("handler", "s3Health", GOwn); ("handler", "s3Namespace", GConst); ("handler", "brokerInfo", GConst);
  ("handler", "logger", GOwn); ("handler", "autoCreateTopics", GConst); ("handler", "autoCreatePartitions", GConst);
  ("handler", "allowAdminAPIs", GConst); ("handler", "traceKafka", GConst); ("handler", "produceRate", GOwn);
  ("handler", "fetchRate", GOwn); ("handler", "produceLatency", GOwn); ("handler", "consumerLag", GOwn);
  ("handler", "startTime", GConst); ("handler", "cpuTracker", GOwn); ("handler", "cacheSize", GConst);
  ("handler", "readAhead", GConst); ("handler", "segmentBytes", GConst); ("handler", "flushInterval", GConst);
  ("handler", "flushOnAck", GConst); ("handler", "adminMetrics", GOwn); ("handler", "authorizer", GOwn);
  ("handler", "authMetrics", GOwn); ("handler", "authLogMu", GSync); ("handler", "authLogLast", GAuthLogMu);
  ("handler", "s3sem", GSync)
]%string.

Definition fields_of (st : string) : list string :=
  map (fun e => snd (fst e)) (filter (fun e => String.eqb (fst (fst e)) st) field_table).

Definition is_unguarded (g : guard) : bool := match g with GUnguarded => true | _ => false end.

(* the location class and lock of a lock-guarded field (for log 0 / the shared cache / map) *)
Definition guard_loc (g : guard) (l : Z) : option (loc * lock) :=
  match g with
  | GMu => Some (LLog l, KMu l)
  | GBufMu => Some (LBuffer l, KBufMu l)
  | GCacheMu => Some (LCache, KCache)
  | GLogMapMu => Some (LMap, KMap)
  | _ => None
  end.

Definition touches (s : state) (a : act) (x : loc) : bool :=
  let '(r, w, _) := footprint s a in mem_loc x r || mem_loc x w.
Definition holds_lock (s : state) (a : act) (k : lock) : bool :=
  existsb (lock_eqb k) (snd (footprint s a)).
Definition is_init (a : act) : bool := match a with AInit _ => true | _ => false end.
