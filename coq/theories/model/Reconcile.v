(* Executable semantics of the reconcile IR (C42).  No proofs in this file.
   The IR is produced by tools/reconcileir from every controllerutil.CreateOrUpdate
   mutate closure of pkg/operator (gen/ReconcileIR.v).  A closure is a body of
   assignments to target paths (fields of the Kubernetes object being mutated;
   "$x" = a local variable of the closure) and conditionals, followed by at most one
   idempotent update (controllerutil.SetControllerReference).  Every expression and
   condition records the inputs it reads (cluster fields, environment variables,
   captured variables, helper calls) and the target paths it reads.
   Objects are abstract: total maps path -> option value.  Expressions are
   uninterpreted: their value is an arbitrary function ([fe], [fc], [fu]) of the
   expression id, the values of the inputs and the values of the target paths read.
   Not modelled: API-server defaulting/admission between reconciles, the error branch
   of SetControllerReference (object owned by another controller). *)
From Coq Require Export String List ZArith Bool.
Export ListNotations.
Open Scope string_scope.
Open Scope Z_scope.

Definition path := string.
Record expr := mkE { e_id : Z; e_ins : list string; e_reads : list path }.

Inductive prog :=
| Skip
| Seq (a b : prog)
| Assign (p : path) (e : expr)
| If (c : expr) (t f : prog).

Record closure := mkClosure {
  c_fn : string; c_kind : string; c_suffix : string;
  c_body : prog;
  c_upd : option (path * expr)
}.

Section Sem.
Variable value : Type.
Variable inputs : string -> value.                          (* cluster + environment *)
Variable fe : Z -> list value -> list (option value) -> value.       (* expressions *)
Variable fc : Z -> list value -> list (option value) -> bool.        (* conditions *)
Variable fu : Z -> list value -> option value -> value.              (* idempotent update *)

Definition obj := path -> option value.
Definition empty : obj := fun _ => None.
Definition set (o : obj) (p : path) (v : value) : obj := fun q => if String.eqb q p then Some v else o q.

Definition eval (e : expr) (o : obj) : value := fe (e_id e) (map inputs (e_ins e)) (map o (e_reads e)).
Definition test (e : expr) (o : obj) : bool := fc (e_id e) (map inputs (e_ins e)) (map o (e_reads e)).

Fixpoint run (p : prog) (o : obj) : obj :=
  match p with
  | Skip => o
  | Seq a b => run b (run a o)
  | Assign q e => set o q (eval e o)
  | If c t f => if test c o then run t o else run f o
  end.

Definition run_upd (u : option (path * expr)) (o : obj) : obj :=
  match u with
  | None => o
  | Some (q, e) => set o q (fu (e_id e) (map inputs (e_ins e)) (o q))
  end.

(* one CreateOrUpdate mutate call *)
Definition mutate (c : closure) (o : obj) : obj := run_upd (c_upd c) (run (c_body c) o).
End Sem.

(* ---------------------------------------------------- the syntactic side condition *)
Definition mem (q : path) (k : list path) : bool := existsb (String.eqb q) k.
Definition subset (a k : list path) : bool := forallb (fun q => mem q k) a.

(* every target path read is dominated by an assignment earlier in the same run;
   returns the paths definitely assigned afterwards *)
Fixpoint dom_ok (k : list path) (p : prog) : option (list path) :=
  match p with
  | Skip => Some k
  | Seq a b => match dom_ok k a with Some k1 => dom_ok k1 b | None => None end
  | Assign q e => if subset (e_reads e) k then Some (q :: k) else None
  | If c t f =>
      if subset (e_reads c) k then
        match dom_ok k t, dom_ok k f with
        | Some _, Some _ => Some k
        | _, _ => None
        end
      else None
  end.

Fixpoint assigned (p : prog) : list path :=
  match p with
  | Skip => []
  | Seq a b => assigned a ++ assigned b
  | Assign q _ => [q]
  | If _ t f => assigned t ++ assigned f
  end.

Definition target_reads_dominated (c : closure) : bool :=
  match dom_ok [] (c_body c) with
  | None => false
  | Some _ =>
      match c_upd c with
      | None => true
      | Some (q, e) => negb (mem q (assigned (c_body c))) && match e_reads e with [] => true | _ => false end
      end
  end.
