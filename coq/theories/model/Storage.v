(* Executable model of the storage WRITE path of one partition (C01, C02, C05, C06).

   Modelled Go functions (with the three proposed fixes applied, see the C01, C02
   and C05 patch files in the fixes directory):
     pkg/storage/recordbatch.go  NewRecordBatchFromBytes (incl. the new rejection of a
                                 negative lastOffsetDelta), PatchRecordBatchBaseOffset
     pkg/storage/buffer.go       WriteBuffer.Append / ShouldFlush / Drain / Prepend
     pkg/storage/log.go          AppendBatch, Flush, prepareFlush, uploadFlush (failure
                                 branch re-queues flushingBatches at the front of the
                                 buffer), RestoreFromS3
     pkg/storage/segment.go      BuildSegment (body = concatenated batch bytes, header
                                 base/message count, footer last offset), IndexBuilder.MaybeAdd
     cmd/broker/main.go          produce slice of handleProduce (parse, AppendBatch,
                                 Flush when acks<>0 && flushOnAck, success/error code),
                                 getPartitionLog (NextOffset, RestoreFromS3, offset sync),
                                 the onFlush -> store.UpdateOffsets callback
     pkg/metadata                UpdateOffsets = unconditional put of lastOffset+1

   One [event] is one atomic step of the real code: a critical section under l.mu,
   one S3 call outcome, one metadata-store call outcome, a response, a crash, a
   restart. "Every schedule x fault sequence x crash point" = "every [list event]".
   Threads are produce requests in flight on the partition (one per producer id).
   A Flush that is parked on flushCond is simply a thread whose [EFlushBegin] is not
   enabled while [s_owner] is set.

   Not modelled: the read path (model/ReadPath.v), prefetch, the S3 semaphore,
   metrics/logging, CRC and timestamps inside segment header/footer, WriteBuffer's
   time-based FlushInterval (the harness configures 0), int64 overflow of offsets.
   No proofs in this file. *)
From KS Require Import lib.Base.
Open Scope Z_scope.

(* ------------------------------------------------------------------ bytes *)
Definition be_u32 (d : bytes) (i : nat) : Z :=
  ((nth i d 0 * 256 + nth (i + 1) d 0) * 256 + nth (i + 2) d 0) * 256 + nth (i + 3) d 0.
Definition to_i32 (u : Z) : Z := if u <? 2147483648 then u else u - 4294967296.
Definition be_i32 (d : bytes) (i : nat) : Z := to_i32 (be_u32 d i).
Definition be_u64 (d : bytes) (i : nat) : Z := be_u32 d i * 4294967296 + be_u32 d (i + 4).
Definition be_i64 (d : bytes) (i : nat) : Z :=
  let u := be_u64 d i in if u <? 9223372036854775808 then u else u - 18446744073709551616.

(* Go fixed-width signed arithmetic: the value an int32 / int64 variable holds after an
   operation whose mathematical result is z (two's-complement wrap). *)
Definition wrap32 (z : Z) : Z := (z + 2147483648) mod 4294967296 - 2147483648.
Definition wrap64 (z : Z) : Z := (z + 9223372036854775808) mod 18446744073709551616 - 9223372036854775808.

(* AppendBatch: l.nextOffset = baseOffset + int64(batch.LastOffsetDelta) + 1
   The int32 header field is widened to int64 BEFORE the additions; both additions are
   int64 additions. [step] below uses the mathematical value base + lod + 1;
   proofs/StorageProofs.v (advance_go_exact) shows the two agree whenever
   0 <= base < 2^62 and lod is an int32, i.e. no wrap occurs for any accepted batch
   as long as offsets stay below 2^62. Doing the +1 in int32 instead
   (wrap32 (lod + 1)) is different: it is -2^31 for lod = 2^31-1. *)
Definition advance_go (base lod : Z) : Z := wrap64 (wrap64 (base + wrap64 lod) + 1).

(* binary.BigEndian.PutUint64(uint64(z)) *)
Definition be64 (z : Z) : bytes :=
  let u := z mod 18446744073709551616 in
  [ u / 72057594037927936 mod 256; u / 281474976710656 mod 256;
    u / 1099511627776 mod 256;     u / 4294967296 mod 256;
    u / 16777216 mod 256;          u / 65536 mod 256;
    u / 256 mod 256;               u mod 256 ].

(* ------------------------------------------------------------------ batches *)
Record batch := mkBatch {
  b_base : Z;        (* assigned base offset *)
  b_lod : Z;         (* header lastOffsetDelta (int32) *)
  b_count : Z;       (* header record count (int32) *)
  b_raw : bytes      (* record-set bytes as sent by the producer *)
}.

Definition hdr_min : Z := 61.

(* NewRecordBatchFromBytes: Some (lastOffsetDelta, messageCount) or None = error *)
Definition parse_hdr (raw : bytes) : option (Z * Z) :=
  if zlen raw <? hdr_min then None
  else let lod := be_i32 raw 23 in
       if lod <? 0 then None            (* fix C02: negative lastOffsetDelta rejected *)
       else Some (lod, be_i32 raw 57).

(* PatchRecordBatchBaseOffset: the first 8 bytes become the assigned base offset *)
Definition patch (base : Z) (raw : bytes) : bytes := be64 base ++ skipn 8 raw.

(* the bytes held in the buffer and written to the segment body.
   What the code stores for ANY accepted record set -- also one whose first frame's
   batchLength field (offset 8) does not match its length (0 as in the repository's test
   fixtures, shorter = further frames/garbage follow, longer = "overrun") -- is the bytes
   exactly as given, with only bytes 0..7 replaced by the assigned base offset.
   NewRecordBatchFromBytes copies the slice, PatchRecordBatchBaseOffset writes 8 bytes,
   BuildSegment concatenates the batches' Bytes; batchLength is never read on the write
   path. Hence an overrun cannot touch a neighbouring record set's bytes in S3
   (C02_stored_bytes_are_appended_bytes); what a reader that trusts batchLength then sees is
   the reader-side consequence recorded with the open finding concatenated-batches. *)
Definition b_bytes (b : batch) : bytes := patch (b_base b) (b_raw b).

Definition b_last (b : batch) : Z := b_base b + b_lod b.

Definition batch_eqb (a b : batch) : bool :=
  (b_base a =? b_base b) && (b_lod a =? b_lod b) && (b_count a =? b_count b) &&
  bytes_eqb (b_raw a) (b_raw b).

(* ------------------------------------------------------------------ config, buffer *)
Record cfg := mkCfg {
  c_max_bytes : Z; c_max_msgs : Z; c_max_batches : Z;   (* WriteBufferConfig, 0 = off *)
  c_interval : Z                                          (* IndexIntervalMessages *)
}.

Definition buf_bytes (l : list batch) : Z := fold_right (fun b a => zlen (b_bytes b) + a) 0 l.
Definition buf_msgs (l : list batch) : Z := fold_right (fun b a => b_count b + a) 0 l.

(* WriteBuffer.ShouldFlush with FlushInterval = 0 *)
Definition should_flush (c : cfg) (l : list batch) : bool :=
  negb (buf_bytes l =? 0) &&
  (((0 <? c_max_bytes c) && (c_max_bytes c <=? buf_bytes l)) ||
   ((0 <? c_max_msgs c) && (c_max_msgs c <=? buf_msgs l)) ||
   ((0 <? c_max_batches c) && (c_max_batches c <=? zlen l))).

(* ------------------------------------------------------------------ S3 objects *)
(* An S3 object is represented by the batch list BuildSegment serialised; the
   observable rendering (header fields, body, footer last offset, index entries) is
   computed from it below. Keys are the base offset in the object name. *)
Definition smap := list (Z * list batch).

Fixpoint lookup (k : Z) (m : smap) : option (list batch) :=
  match m with
  | [] => None
  | (k', v) :: m' => if k =? k' then Some v else lookup k m'
  end.

(* put keeps the listing sorted by key when it was sorted (ListSegments order) *)
Fixpoint put (k : Z) (v : list batch) (m : smap) : smap :=
  match m with
  | [] => [(k, v)]
  | (k', v') :: m' =>
      if k =? k' then (k, v) :: m'
      else if k <? k' then (k, v) :: (k', v') :: m'
      else (k', v') :: put k v m'
  end.

Definition has (k : Z) (m : smap) : bool := match lookup k m with Some _ => true | None => false end.

Definition art_key (fl : list batch) : Z := match fl with b :: _ => b_base b | [] => 0 end.
Definition last_off (fl : list batch) : Z := b_last (last fl (mkBatch 0 0 0 [])).

Definition seg_body (bs : list batch) : bytes := flat_map b_bytes bs.
(* BuildSegment: var totalMessages int32; totalMessages += batch.MessageCount *)
Definition seg_msgs (bs : list batch) : Z := wrap32 (buf_msgs bs).

(* IndexBuilder.MaybeAdd over the batches: (offset, position) entries; position is an
   int32 in Go, the harness keeps segments far below 2^31 bytes *)
Fixpoint index_from (interval since pos : Z) (first : bool) (bs : list batch) : list (Z * Z) :=
  match bs with
  | [] => []
  | b :: r =>
      let add := first || (interval <=? since) in
      let since' := wrap32 ((if add then 0 else since) + b_count b) in   (* sinceLast is an int32 *)
      let rest := index_from interval since' (pos + zlen (b_bytes b)) false r in
      if add then (b_base b, pos) :: rest else rest
  end.
Definition index_entries (c : cfg) (bs : list batch) : list (Z * Z) :=
  index_from (if c_interval c <=? 0 then 1 else c_interval c) 0 32 true bs.

(* ------------------------------------------------------------------ threads *)
Inductive upst := UPend | UOk | UFail.
Inductive origin := FromAppend | FromFlush.   (* who drained: AppendBatch's threshold flush or Flush *)

Inductive pc :=
| PIdle
| PAppended (b : batch)                          (* AppendBatch returned nil error; Flush not yet past its wait loop *)
| PUp (o : origin) (b : batch) (sg ix : upst)     (* owns the in-flight flush: the two errgroup uploads *)
| PCb (o : origin) (b : batch) (v : Z)            (* onFlush(LastOffset = v) pending *)
| PRet (b : batch) (ok : bool).                   (* produce outcome decided, response not yet sent *)

Definition upd (f : nat -> pc) (t : nat) (v : pc) : nat -> pc :=
  fun x => if Nat.eqb x t then v else f x.

Record state := mkState {
  s_cfg : cfg;
  s_live : bool;                 (* a PartitionLog exists in the broker process *)
  s_next : Z;                    (* l.nextOffset *)
  s_buf : list batch;            (* l.buffer.batches *)
  s_owner : option nat;          (* l.flushing = true, and which thread drained *)
  s_fl : list batch;             (* l.flushingBatches *)
  s_clast : option Z;            (* lastOffset of l.segments[len-1], None when no segments *)
  s_seg : smap;                  (* S3 .kfs objects *)
  s_idx : smap;                  (* S3 .index objects *)
  s_store : Z;                   (* metadata store next_offset *)
  s_pcs : nat -> pc;
  (* ghost history *)
  s_start : Z;                   (* nextOffset when this PartitionLog became live *)
  s_done : list batch;           (* batches committed by this PartitionLog, in order *)
  s_acked : list batch;          (* success responses sent (all incarnations) *)
  s_pubs : list Z                (* values written to the store, newest first *)
}.

Definition init (c : cfg) : state :=
  mkState c true 0 [] None [] None [] [] 0 (fun _ => PIdle) 0 [] [] [].

Inductive event :=
| EAppend (t : nat) (raw : bytes)     (* parse + AppendBatch critical section *)
| EFlushBegin (t : nat)               (* Flush: wait loop passed + prepareFlush (+ empty branch) *)
| EUpSeg (t : nat) (ok : bool)        (* s3.UploadSegment outcome *)
| EUpIdx (t : nat) (ok : bool)        (* s3.UploadIndex outcome *)
| ECommit (t : nat)                   (* uploadFlush success: commit under l.mu *)
| EFailReset (t : nat)                (* uploadFlush failure: re-queue + reset under l.mu *)
| ECallback (t : nat) (ok : bool)     (* onFlush -> store.UpdateOffsets outcome *)
| ERespond (t : nat)                  (* produce response leaves the broker *)
| ECrash                              (* broker process dies *)
| ERestart (sync_ok : bool)           (* getPartitionLog: NextOffset, RestoreFromS3, offset sync *)
| ERestartFault.                      (* a transient S3/store error during getPartitionLog *)

Definition set_pc (s : state) (t : nat) (p : pc) : state :=
  mkState (s_cfg s) (s_live s) (s_next s) (s_buf s) (s_owner s) (s_fl s) (s_clast s)
          (s_seg s) (s_idx s) (s_store s) (upd (s_pcs s) t p)
          (s_start s) (s_done s) (s_acked s) (s_pubs s).

Definition up_of (ok : bool) : upst := if ok then UOk else UFail.

(* ---- RestoreFromS3 on the S3 contents ----
   Go: list .kfs objects, read footers, sort by base, then for each: download index;
   missing index and base >= nextOffset -> skipped as orphan; missing index below
   nextOffset -> error. last = lastOffset of the highest-base segment kept.
   (S3 returns what was put: an index object present always parses.) *)
Inductive restored := RErr | RNone | RLast (last : Z).

Fixpoint restore_scan (next : Z) (seg idx : smap) (keys : list Z) (best : option (Z * Z)) : option (option (Z * Z)) :=
  match keys with
  | [] => Some best
  | k :: r =>
      match lookup k seg with                 (* footer of the listed object, fetched by key *)
      | None => restore_scan next seg idx r best
      | Some bs =>
          if has k idx then
            let best' := match best with
                         | Some (k0, _) => if k0 <? k then Some (k, last_off bs) else best
                         | None => Some (k, last_off bs)
                         end in
            restore_scan next seg idx r best'
          else if next <=? k then restore_scan next seg idx r best
          else None
      end
  end.

Definition restore (next : Z) (seg idx : smap) : restored :=
  match restore_scan next seg idx (map fst seg) None with
  | None => RErr
  | Some None => RNone
  | Some (Some (_, l)) => RLast l
  end.

Definition step (s : state) (e : event) : option state :=
  match e with
  | EAppend t raw =>
      if negb (s_live s) then None else
      match s_pcs s t with
      | PIdle =>
          match parse_hdr raw with
          | None => Some s                          (* error code, nothing appended *)
          | Some (lod, cnt) =>
              let b := mkBatch (s_next s) lod cnt raw in
              let next' := s_next s + lod + 1 in
              let buf' := s_buf s ++ [b] in
              if should_flush (s_cfg s) buf' && (match s_owner s with None => true | Some _ => false end)
              then Some (mkState (s_cfg s) true next' [] (Some t) buf' (s_clast s)
                                 (s_seg s) (s_idx s) (s_store s)
                                 (upd (s_pcs s) t (PUp FromAppend b UPend UPend))
                                 (s_start s) (s_done s) (s_acked s) (s_pubs s))
              else Some (mkState (s_cfg s) true next' buf' (s_owner s) (s_fl s) (s_clast s)
                                 (s_seg s) (s_idx s) (s_store s)
                                 (upd (s_pcs s) t (PAppended b))
                                 (s_start s) (s_done s) (s_acked s) (s_pubs s))
          end
      | _ => None
      end
  | EFlushBegin t =>
      if negb (s_live s) then None else
      match s_pcs s t, s_owner s with
      | PAppended b, None =>
          match s_buf s with
          | [] =>
              (* nothing drained: (fix C05) publish the last committed offset, if any *)
              match s_clast s with
              | Some v => Some (set_pc s t (PCb FromFlush b v))
              | None => Some (set_pc s t (PRet b true))
              end
          | _ :: _ =>
              Some (mkState (s_cfg s) true (s_next s) [] (Some t) (s_buf s) (s_clast s)
                            (s_seg s) (s_idx s) (s_store s)
                            (upd (s_pcs s) t (PUp FromFlush b UPend UPend))
                            (s_start s) (s_done s) (s_acked s) (s_pubs s))
          end
      | _, _ => None
      end
  | EUpSeg t ok =>
      if negb (s_live s) then None else
      match s_pcs s t with
      | PUp o b UPend ix =>
          Some (mkState (s_cfg s) true (s_next s) (s_buf s) (s_owner s) (s_fl s) (s_clast s)
                        (if ok then put (art_key (s_fl s)) (s_fl s) (s_seg s) else s_seg s)
                        (s_idx s) (s_store s)
                        (upd (s_pcs s) t (PUp o b (up_of ok) ix))
                        (s_start s) (s_done s) (s_acked s) (s_pubs s))
      | _ => None
      end
  | EUpIdx t ok =>
      if negb (s_live s) then None else
      match s_pcs s t with
      | PUp o b sg UPend =>
          Some (mkState (s_cfg s) true (s_next s) (s_buf s) (s_owner s) (s_fl s) (s_clast s)
                        (s_seg s)
                        (if ok then put (art_key (s_fl s)) (s_fl s) (s_idx s) else s_idx s)
                        (s_store s)
                        (upd (s_pcs s) t (PUp o b sg (up_of ok)))
                        (s_start s) (s_done s) (s_acked s) (s_pubs s))
      | _ => None
      end
  | ECommit t =>
      if negb (s_live s) then None else
      match s_pcs s t with
      | PUp o b UOk UOk =>
          Some (mkState (s_cfg s) true (s_next s) (s_buf s) None [] (Some (last_off (s_fl s)))
                        (s_seg s) (s_idx s) (s_store s)
                        (upd (s_pcs s) t (PCb o b (last_off (s_fl s))))
                        (s_start s) (s_done s ++ s_fl s) (s_acked s) (s_pubs s))
      | _ => None
      end
  | EFailReset t =>
      if negb (s_live s) then None else
      match s_pcs s t with
      | PUp o b sg ix =>
          match sg, ix with
          | UPend, _ | _, UPend => None            (* g.Wait() waits for both uploads *)
          | UOk, UOk => None
          | _, _ =>
              (* fix C01: flushingBatches go back to the front of the buffer *)
              Some (mkState (s_cfg s) true (s_next s) (s_fl s ++ s_buf s) None [] (s_clast s)
                            (s_seg s) (s_idx s) (s_store s)
                            (upd (s_pcs s) t (PRet b false))
                            (s_start s) (s_done s) (s_acked s) (s_pubs s))
          end
      | _ => None
      end
  | ECallback t ok =>
      if negb (s_live s) then None else
      match s_pcs s t with
      | PCb o b v =>
          let p' := match o with FromAppend => PAppended b | FromFlush => PRet b true end in
          Some (mkState (s_cfg s) true (s_next s) (s_buf s) (s_owner s) (s_fl s) (s_clast s)
                        (s_seg s) (s_idx s)
                        (if ok then v + 1 else s_store s)
                        (upd (s_pcs s) t p')
                        (s_start s) (s_done s) (s_acked s)
                        (if ok then (v + 1) :: s_pubs s else s_pubs s))
      | _ => None
      end
  | ERespond t =>
      if negb (s_live s) then None else
      match s_pcs s t with
      | PRet b ok =>
          Some (mkState (s_cfg s) true (s_next s) (s_buf s) (s_owner s) (s_fl s) (s_clast s)
                        (s_seg s) (s_idx s) (s_store s)
                        (upd (s_pcs s) t PIdle)
                        (s_start s) (s_done s)
                        (if ok then s_acked s ++ [b] else s_acked s) (s_pubs s))
      | _ => None
      end
  | ECrash =>
      if negb (s_live s) then None else
      Some (mkState (s_cfg s) false 0 [] None [] None (s_seg s) (s_idx s) (s_store s)
                    (fun _ => PIdle) 0 [] (s_acked s) (s_pubs s))
  | ERestart sync_ok =>
      if s_live s then None else
      match restore (s_store s) (s_seg s) (s_idx s) with
      | RErr => Some s                              (* getPartitionLog fails, no log registered *)
      | RNone =>
          Some (mkState (s_cfg s) true (s_store s) [] None [] None (s_seg s) (s_idx s) (s_store s)
                        (fun _ => PIdle) (s_store s) [] (s_acked s) (s_pubs s))
      | RLast l =>
          let next' := if s_store s <=? l then l + 1 else s_store s in
          let sync := (s_store s <=? l) && sync_ok in
          Some (mkState (s_cfg s) true next' [] None [] (Some l) (s_seg s) (s_idx s)
                        (if sync then l + 1 else s_store s)
                        (fun _ => PIdle) next' [] (s_acked s)
                        (if sync then (l + 1) :: s_pubs s else s_pubs s))
      end
  | ERestartFault => if s_live s then None else Some s
  end.

Fixpoint run (s : state) (evs : list event) : option state :=
  match evs with
  | [] => Some s
  | e :: r => match step s e with Some s' => run s' r | None => None end
  end.

(* ------------------------------------------------------------------ property vocabulary *)
(* the log of this PartitionLog in append (lock) order *)
Definition log (s : state) : list batch := s_done s ++ s_fl s ++ s_buf s.

(* [chain lo bs hi]: the offset extents of bs tile [lo, hi) in order, none empty *)
Fixpoint chain (lo : Z) (bs : list batch) (hi : Z) : Prop :=
  match bs with
  | [] => lo = hi
  | b :: r => b_base b = lo /\ 0 <= b_lod b /\ chain (lo + b_lod b + 1) r hi
  end.

(* C01: b sits in an S3 segment object whose index object exists *)
Definition durable (s : state) (b : batch) : Prop :=
  exists k bs, lookup k (s_seg s) = Some bs /\ In b bs /\ has k (s_idx s) = true.

Definition durableb (s : state) (b : batch) : bool :=
  existsb (fun kv => has (fst kv) (s_idx s) && existsb (batch_eqb b) (snd kv)) (s_seg s).

(* one past the last offset held by complete (segment + index) S3 objects; 0 when none *)
Definition s3_end (s : state) : Z :=
  fold_right (fun kv a => if has (fst kv) (s_idx s) then Z.max (last_off (snd kv) + 1) a else a) 0 (s_seg s).

Fixpoint nondecreasing_newest_first (l : list Z) : Prop :=
  match l with
  | [] => True
  | x :: r => match r with [] => True | y :: _ => y <= x end /\ nondecreasing_newest_first r
  end.

Fixpoint nondecb (l : list Z) : bool :=
  match l with
  | [] => true
  | x :: r => match r with [] => true | y :: _ => y <=? x end && nondecb r
  end.

(* the batch an accepted EAppend creates, and all record sets accepted along a run *)
Definition new_batch (s : state) (e : event) : list batch :=
  match e with
  | EAppend t raw => match parse_hdr raw with
                     | Some (lod, cnt) => [mkBatch (s_next s) lod cnt raw]
                     | None => []
                     end
  | _ => []
  end.

Fixpoint appended (s : state) (evs : list event) : list batch :=
  match evs with
  | [] => []
  | e :: r => match step s e with
              | Some s' => new_batch s e ++ appended s' r
              | None => []
              end
  end.

(* history variable for the C05 characterisation: [ov t] is true when, since thread t's
   pending onFlush callback was created (by its commit, or by its empty Flush taking the
   committed offset), ANOTHER thread's callback has reached the store. *)
Definition ov_step (ov : nat -> bool) (e : event) : nat -> bool :=
  match e with
  | ECommit t => fun x => if Nat.eqb x t then false else ov x
  | EFlushBegin t => fun x => if Nat.eqb x t then false else ov x
  | ECallback t true => fun x => if Nat.eqb x t then ov x else true
  | _ => ov
  end.

Fixpoint runG (s : state) (ov : nat -> bool) (evs : list event) : option (state * (nat -> bool)) :=
  match evs with
  | [] => Some (s, ov)
  | e :: r => match step s e with Some s' => runG s' (ov_step ov e) r | None => None end
  end.

(* the record set as a consumer walks it: frames delimited by the batchLength field
   (offset 8, int32); a frame header needs 61 bytes. The first frame is the batch the
   broker patched; [trailing] are further frames inside the same stored record set,
   whose base offsets the broker never touches. *)
Fixpoint frames (fuel : nat) (d : bytes) : list (Z * Z) :=
  match fuel with
  | O => []
  | S f =>
      if zlen d <? hdr_min then []
      else
        let bl := be_i32 d 8 in
        let me := (be_i64 d 0, be_i32 d 23) in
        if (bl <=? 0) || (zlen d <? 12 + bl) then [me]
        else me :: frames f (skipn (Z.to_nat (12 + bl)) d)
  end.

Definition concatenated (d : bytes) : bool :=
  let bl := be_i32 d 8 in (0 <? bl) && (12 + bl + hdr_min <=? zlen d).

Definition trailing (d : bytes) : list (Z * Z) :=
  if concatenated d then frames (length d) (skipn (Z.to_nat (12 + be_i32 d 8)) d) else [].

(* offset extents (base, lastOffsetDelta) a consumer sees for a stored batch *)
Definition visible (b : batch) : list (Z * Z) := (b_base b, b_lod b) :: trailing (b_bytes b).

Fixpoint chain_ext (lo : Z) (xs : list (Z * Z)) (hi : Z) : Prop :=
  match xs with
  | [] => lo = hi
  | (b, d) :: r => b = lo /\ 0 <= d /\ chain_ext (lo + d + 1) r hi
  end.

Fixpoint chain_extb (lo : Z) (xs : list (Z * Z)) (hi : Z) : bool :=
  match xs with
  | [] => lo =? hi
  | (b, d) :: r => (b =? lo) && (0 <=? d) && chain_extb (lo + d + 1) r hi
  end.
