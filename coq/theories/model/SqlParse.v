(* Executable model of addons/processors/sql-processor/internal/sql/parser.go
   (after "fix: sql parser: fold ASCII case only so byte offsets stay aligned").

   Modelled by hand, byte-exact (strings are byte lists):
     Parse, parseShow, parseDescribe, parseExplain, parseSelect, parseJoin,
     parseFromClause, parseSelectColumns (the slice raw[selectIdx+6:fromIdx],
     splitColumns, the Raw text of every column), parseFilters, indexOf,
     parseInt32/parseInt64 (strconv.ParseInt base 10), hasToken, isKeyword,
     parseGroupBy, parseOrderBy, parseOrderDesc, clauseEnd, splitIdentifiers,
     parseJoinCondition (slices, the '=' split), keywordIndex (the regular
     expression (?i)\bKEYWORD\b for a literal keyword: leftmost match, ASCII
     word boundaries, Go's case folding incl. U+017F for s and U+212A for k),
     lowerASCII, and the Go library functions strings.TrimSpace, strings.Fields,
     strings.TrimSuffix(_, ";"), strings.HasPrefix, strings.Split(_, ","/"=").
   Every Go slice expression s[a:b] is [slice]/[slice_from] (None = the run-time
   panic "slice bounds out of range"), every fields[i] is [fld] (None = "index out
   of range"); both become the outcome [Panic].
   Oracles (parameters of the model, regular-expression internals):
     [lower_fn]  the lowering used for the text on which offsets are computed
                 (lowerASCII after the fix; the theorems instantiate it with
                 [ascii_lower], the refutation example with a length-changing one);
     [ulower]    strings.ToLower (Unicode) used on identifiers only;
     [ts_err]    parseTSFilters(raw) returns an error;
     [jexpr_ok]  parseJoinExpr accepts the expression.
   Not modelled: the contents of SelectColumn beyond Raw (parseSelectColumn,
   parseAggregate, parseJSONFunc, splitAlias), Limit/TimeWindow/Last/Tail
   (parseKeywordValue, parseLimitToken), TsMin/TsMax values, JoinExpr contents.
   No proofs in this file. *)
From KS Require Import lib.Base.
Open Scope Z_scope.

(* ------------------------------------------------------------------ bytes *)
Definition lower_byte (b : Z) : Z := if (65 <=? b) && (b <=? 90) then b + 32 else b.
Definition ascii_lower (s : bytes) : bytes := map lower_byte s.

Definition ascii_space (b : Z) : bool := ((9 <=? b) && (b <=? 13)) || (b =? 32).

(* Number of bytes of the white-space rune (unicode.IsSpace) the string starts
   with; 0 when it does not start with one. *)
Definition sp_len (l : bytes) : nat :=
  match l with
  | [] => 0%nat
  | b :: r =>
    if ascii_space b then 1%nat else
    match r with
    | [] => 0%nat
    | c :: r' =>
      if (b =? 194) && ((c =? 133) || (c =? 160)) then 2%nat else
      match r' with
      | [] => 0%nat
      | d :: _ =>
        if (b =? 225) && (c =? 154) && (d =? 128) then 3%nat
        else if (b =? 226) && (c =? 128) &&
                (((128 <=? d) && (d <=? 138)) || (d =? 168) || (d =? 169) || (d =? 175)) then 3%nat
        else if (b =? 226) && (c =? 129) && (d =? 159) then 3%nat
        else if (b =? 227) && (c =? 128) && (d =? 128) then 3%nat
        else 0%nat
      end
    end
  end.

(* the same on the reversed string (for trimming on the right) *)
Definition rsp_len (l : bytes) : nat :=
  match l with
  | [] => 0%nat
  | d :: r =>
    if ascii_space d then 1%nat else
    match r with
    | [] => 0%nat
    | c :: r' =>
      if (c =? 194) && ((d =? 133) || (d =? 160)) then 2%nat else
      match r' with
      | [] => 0%nat
      | b :: _ =>
        if (b =? 225) && (c =? 154) && (d =? 128) then 3%nat
        else if (b =? 226) && (c =? 128) &&
                (((128 <=? d) && (d <=? 138)) || (d =? 168) || (d =? 169) || (d =? 175)) then 3%nat
        else if (b =? 226) && (c =? 129) && (d =? 159) then 3%nat
        else if (b =? 227) && (c =? 128) && (d =? 128) then 3%nat
        else 0%nat
      end
    end
  end.

Fixpoint trim_go (len : bytes -> nat) (l : bytes) (skip : nat) : bytes :=
  match l with
  | [] => []
  | _ :: r =>
    match skip with
    | S k => trim_go len r k
    | O => match len l with
           | O => l
           | S k => trim_go len r k
           end
    end
  end.

Definition trim_left (l : bytes) : bytes := trim_go sp_len l 0.
Definition trim_right (l : bytes) : bytes := rev (trim_go rsp_len (rev l) 0).
(* strings.TrimSpace *)
Definition trim_space (l : bytes) : bytes := trim_right (trim_left l).

(* strings.Fields; [cur] is the current field, reversed *)
Definition flush (cur : bytes) : list bytes :=
  match cur with [] => [] | _ => [rev cur] end.

Fixpoint fields_go (l : bytes) (skip : nat) (cur : bytes) : list bytes :=
  match l with
  | [] => flush cur
  | b :: r =>
    match skip with
    | S k => fields_go r k cur
    | O => match sp_len l with
           | O => fields_go r 0 (b :: cur)
           | S k => flush cur ++ fields_go r k []
           end
    end
  end.
Definition fields (l : bytes) : list bytes := fields_go l 0 [].

(* strings.TrimSuffix(s, ";") *)
Definition trim_semi (l : bytes) : bytes :=
  match rev l with
  | 59 :: r => rev r
  | _ => l
  end.

Fixpoint has_prefix (l p : bytes) : bool :=
  match p, l with
  | [], _ => true
  | c :: p', b :: l' => (b =? c) && has_prefix l' p'
  | _ :: _, [] => false
  end.

(* Go slice expressions; None = run-time panic *)
Definition slice (s : bytes) (a b : Z) : option bytes :=
  if (0 <=? a) && (a <=? b) && (b <=? zlen s)
  then Some (firstn (Z.to_nat (b - a)) (skipn (Z.to_nat a) s)) else None.
Definition slice_from (s : bytes) (a : Z) : option bytes := slice s a (zlen s).
Definition slice_to (s : bytes) (b : Z) : option bytes := slice s 0 b.

(* fields[i]; None = run-time panic *)
Definition fld (fs : list bytes) (i : Z) : option bytes :=
  if (0 <=? i) && (i <? zlen fs) then Some (nth (Z.to_nat i) fs []) else None.

(* strings.Split(s, sep) for a one-byte separator *)
Fixpoint split_go (sep : Z) (l : bytes) (cur : bytes) : list bytes :=
  match l with
  | [] => [rev cur]
  | b :: r => if b =? sep then rev cur :: split_go sep r [] else split_go sep r (b :: cur)
  end.
Definition split_on (sep : Z) (l : bytes) : list bytes := split_go sep l [].

(* ------------------------------------------------------------------ keywords *)
Definition kw_show : bytes := [115;104;111;119].
Definition kw_topics : bytes := [116;111;112;105;99;115].
Definition kw_partitions : bytes := [112;97;114;116;105;116;105;111;110;115].
Definition kw_from : bytes := [102;114;111;109].
Definition kw_describe : bytes := [100;101;115;99;114;105;98;101].
Definition kw_select : bytes := [115;101;108;101;99;116].
Definition kw_explain : bytes := [101;120;112;108;97;105;110].
Definition kw_join : bytes := [106;111;105;110].
Definition kw_left : bytes := [108;101;102;116].
Definition kw_where : bytes := [119;104;101;114;101].
Definition kw_group : bytes := [103;114;111;117;112].
Definition kw_order : bytes := [111;114;100;101;114].
Definition kw_limit : bytes := [108;105;109;105;116].
Definition kw_last : bytes := [108;97;115;116].
Definition kw_tail : bytes := [116;97;105;108].
Definition kw_within : bytes := [119;105;116;104;105;110].
Definition kw_scan : bytes := [115;99;97;110].
Definition kw_full : bytes := [102;117;108;108].
Definition kw_and : bytes := [97;110;100].
Definition kw_on : bytes := [111;110].
Definition kw_desc : bytes := [100;101;115;99].
Definition kw_group_by : bytes := [103;114;111;117;112;32;98;121].
Definition kw_order_by : bytes := [111;114;100;101;114;32;98;121].
Definition kw_partition_col : bytes := [95;112;97;114;116;105;116;105;111;110].
Definition kw_offset_col : bytes := [95;111;102;102;115;101;116].
Definition kw_eq : bytes := [61].
Definition kw_ge : bytes := [62;61].
Definition kw_le : bytes := [60;61].
Definition kw_star : bytes := [42].

Definition is_keyword (v : bytes) : bool :=
  existsb (bytes_eqb v)
    [kw_join; kw_left; kw_where; kw_group; kw_order; kw_limit; kw_last; kw_tail; kw_within; kw_scan].

(* ------------------------------------------------------------------ keywordIndex *)
Definition word_byte (b : Z) : bool :=
  ((48 <=? b) && (b <=? 57)) || ((65 <=? b) && (b <=? 90)) || ((97 <=? b) && (b <=? 122)) || (b =? 95).
Definition word_opt (o : option Z) : bool := match o with Some b => word_byte b | None => false end.
(* \b between the byte before and the byte after a position *)
Definition boundary (prev next : option Z) : bool := xorb (word_opt prev) (word_opt next).

(* One pattern character [c] (a lower-case ASCII letter or a space) against the head
   of [l] under (?i): c itself, its upper-case form, and for s / k the letters
   U+017F (C5 BF) / U+212A (E2 84 AA) that Go folds to them. Result: (last byte
   consumed, rest). *)
Definition match_char (c : Z) (l : bytes) : option (Z * bytes) :=
  match l with
  | [] => None
  | b :: r =>
    if (b =? c) || ((97 <=? c) && (c <=? 122) && (b =? c - 32)) then Some (b, r)
    else if (c =? 115) && (b =? 197) then
      match r with
      | b2 :: r2 => if b2 =? 191 then Some (b2, r2) else None
      | [] => None
      end
    else if (c =? 107) && (b =? 226) then
      match r with
      | b2 :: b3 :: r3 => if (b2 =? 132) && (b3 =? 170) then Some (b3, r3) else None
      | _ => None
      end
    else None
  end.

Fixpoint match_kw (kw : bytes) (last : option Z) (l : bytes) : option (option Z * bytes) :=
  match kw with
  | [] => Some (last, l)
  | c :: kw' =>
    match match_char c l with
    | Some (b, r) => match_kw kw' (Some b) r
    | None => None
    end
  end.

(* does \bKW\b match at the head of [l], the byte before being [prev]? *)
Definition kw_here (kw : bytes) (prev : option Z) (l : bytes) : bool :=
  match match_kw kw None l with
  | Some (last, r) => boundary prev (hd_error l) && boundary last (hd_error r)
  | None => false
  end.

Fixpoint kw_find (kw : bytes) (prev : option Z) (l : bytes) (i : Z) : Z :=
  match l with
  | [] => -1
  | b :: r => if kw_here kw prev l then i else kw_find kw (Some b) r (i + 1)
  end.

(* keywordIndex(lower, keyword) for a non-empty literal keyword *)
Definition kw_index (lower kw : bytes) : Z := kw_find kw None lower 0.

(* clauseEnd *)
Fixpoint clause_end_go (lower : bytes) (stops : list bytes) (e : Z) : Z :=
  match stops with
  | [] => e
  | k :: ks =>
    let idx := kw_index lower k in
    clause_end_go lower ks (if negb (idx =? -1) && (idx <? e) then idx else e)
  end.
Definition clause_end (lower : bytes) (stops : list bytes) : Z := clause_end_go lower stops (zlen lower).

(* ------------------------------------------------------------------ numbers *)
Fixpoint digits_val (l : bytes) (acc : Z) : option Z :=
  match l with
  | [] => Some acc
  | b :: r => if (48 <=? b) && (b <=? 57) then digits_val r (acc * 10 + (b - 48)) else None
  end.

(* strconv.ParseInt(s, 10, bits): None = error (syntax or range) *)
Definition parse_int (bits : Z) (s : bytes) : option Z :=
  let '(neg, ds) := match s with
                    | 43 :: r => (false, r)
                    | 45 :: r => (true, r)
                    | _ => (false, s)
                    end in
  match ds with
  | [] => None
  | _ => match digits_val ds 0 with
         | None => None
         | Some v => let v' := if neg then - v else v in
                     if (- 2 ^ (bits - 1) <=? v') && (v' <=? 2 ^ (bits - 1) - 1) then Some v' else None
         end
  end.

(* ------------------------------------------------------------------ results *)
Inductive perr :=
  | EEmpty | EUnsupported | EShow | EDescribe | EExplainInvalid | EExplainEmpty
  | EExplainSelectOnly | ESelectFrom | EJoinTopic | EJoinEq | EJoinExpr
  | EPartFilter | EPartValue | EOffFilter | EOffValue | EOffOp | EWhere | ETs.

Inductive join_on := JNone | JDefault | JExpr (l r : bytes).

Record select_q := mkSel {
  s_topic : bytes; s_alias : bytes;
  s_jtype : Z;                 (* 0 none, 1 inner, 2 left *)
  s_jtopic : bytes; s_jalias : bytes;
  s_jon : join_on;
  s_cols : list bytes;         (* SelectColumn.Raw of every column *)
  s_group : list bytes; s_order : bytes; s_desc : bool;
  s_part : option Z; s_omin : option Z; s_omax : option Z;
  s_scan_full : bool
}.

Inductive query :=
  | QShowTopics | QShowPartitions (t : bytes) | QDescribe (t : bytes)
  | QSelect (s : select_q) | QExplain (s : select_q).

Inductive res (A : Type) := Ok (a : A) | Err (e : perr) | Panic | NoFuel.
Arguments Ok {A} a. Arguments Err {A} e. Arguments Panic {A}. Arguments NoFuel {A}.

Definition bind {A B} (r : res A) (f : A -> res B) : res B :=
  match r with Ok a => f a | Err e => Err e | Panic => Panic | NoFuel => NoFuel end.
(* a Go index / slice expression *)
Definition idx {A B} (o : option A) (f : A -> res B) : res B :=
  match o with Some a => f a | None => Panic end.

Definition is_nil {A} (l : list A) : bool := match l with [] => true | _ => false end.

(* ------------------------------------------------------------------ token clauses *)
Definition parse_show (fs : list bytes) : res query :=
  let n := zlen fs in
  idx (if 2 <=? n then fld fs 1 else Some []) (fun f1 =>
  if (2 <=? n) && bytes_eqb f1 kw_topics then Ok QShowTopics else
  if 4 <=? n then
    idx (fld fs 1) (fun f1 => idx (fld fs 2) (fun f2 =>
    if bytes_eqb f1 kw_partitions && bytes_eqb f2 kw_from
    then idx (fld fs 3) (fun f3 => Ok (QShowPartitions f3))
    else Err EShow))
  else Err EShow).

Definition parse_describe (fs : list bytes) : res query :=
  if zlen fs <? 2 then Err EDescribe else idx (fld fs 1) (fun f1 => Ok (QDescribe f1)).

(* alias at fields[j] unless it is a keyword or absent *)
Definition alias_at (fs : list bytes) (j : Z) : res bytes :=
  if j <? zlen fs then idx (fld fs j) (fun a => Ok (if is_keyword a then [] else a)) else Ok [].

(* parseFromClause: for i, field := range fields *)
Fixpoint from_loop (fs : list bytes) (n : nat) (i : Z) : res (bytes * bytes) :=
  match n with
  | O => Err ESelectFrom
  | S n' =>
    idx (fld fs i) (fun f =>
    if negb (bytes_eqb f kw_from) || (zlen fs <=? i + 1) then from_loop fs n' (i + 1)
    else idx (fld fs (i + 1)) (fun topic =>
         bind (alias_at fs (i + 2)) (fun a => Ok (topic, a))))
  end.
Definition parse_from (fs : list bytes) : res (bytes * bytes) := from_loop fs (length fs) 0.

(* parseJoin: (type, topic, alias) *)
Fixpoint join_loop (fs : list bytes) (n : nat) (i : Z) : res (Z * bytes * bytes) :=
  match n with
  | O => Ok (0, [], [])
  | S n' =>
    idx (fld fs i) (fun f =>
    if bytes_eqb f kw_join && (i + 1 <? zlen fs) then
      idx (fld fs (i + 1)) (fun jt => bind (alias_at fs (i + 2)) (fun a => Ok (1, jt, a)))
    else
      bind (if bytes_eqb f kw_left && (i + 2 <? zlen fs)
            then idx (fld fs (i + 1)) (fun f1 => Ok (bytes_eqb f1 kw_join)) else Ok false) (fun isleft =>
      if isleft then
        idx (fld fs (i + 2)) (fun jt => bind (alias_at fs (i + 3)) (fun a => Ok (2, jt, a)))
      else join_loop fs n' (i + 1)))
  end.
Definition parse_join (fs : list bytes) : res (Z * bytes * bytes) := join_loop fs (length fs) 0.

Fixpoint index_of_go (fs : list bytes) (tok : bytes) (i : Z) : Z :=
  match fs with
  | [] => -1
  | f :: r => if bytes_eqb f tok then i else index_of_go r tok (i + 1)
  end.
Definition index_of (fs : list bytes) (tok : bytes) : Z := index_of_go fs tok 0.
Definition has_token (fs : list bytes) (tok : bytes) : bool := existsb (fun f => bytes_eqb f tok) fs.

Definition filt := (option Z * option Z * option Z)%type.  (* partition, offsetMin, offsetMax *)

(* parseFilters' loop: for i := whereIdx+1; i < len(fields); i++ *)
Fixpoint filters_loop (fs : list bytes) (n : nat) (i : Z) (st : filt) : res filt :=
  match n with
  | O => Ok st
  | S n' =>
    if zlen fs <=? i then Ok st else
    idx (fld fs i) (fun f =>
    if existsb (bytes_eqb f) [kw_limit; kw_last; kw_tail; kw_within; kw_scan] then Ok st
    else if bytes_eqb f kw_and then filters_loop fs n' (i + 1) st
    else if bytes_eqb f kw_partition_col then
      bind (if zlen fs <=? i + 2 then Ok true
            else idx (fld fs (i + 1)) (fun op => Ok (negb (bytes_eqb op kw_eq)))) (fun bad =>
      if bad then Err EPartFilter else
      idx (fld fs (i + 2)) (fun v =>
      match parse_int 32 v with
      | None => Err EPartValue
      | Some p => let '(_, omin, omax) := st in filters_loop fs n' (i + 3) (Some p, omin, omax)
      end))
    else if bytes_eqb f kw_offset_col then
      if zlen fs <=? i + 2 then Err EOffFilter else
      idx (fld fs (i + 1)) (fun op => idx (fld fs (i + 2)) (fun v =>
      match parse_int 64 v with
      | None => Err EOffValue
      | Some o =>
        let '(p, omin, omax) := st in
        if bytes_eqb op kw_ge then filters_loop fs n' (i + 3) (p, Some o, omax)
        else if bytes_eqb op kw_le then filters_loop fs n' (i + 3) (p, omin, Some o)
        else Err EOffOp
      end))
    else Err EWhere)
  end.

Definition parse_filters (fs : list bytes) : res filt :=
  let w := index_of fs kw_where in
  if w =? -1 then Ok (None, None, None)
  else filters_loop fs (length fs) (w + 1) (None, None, None).

(* ------------------------------------------------------------------ text clauses *)
(* splitColumns: split at commas outside parentheses; a trailing empty part is dropped *)
Fixpoint split_cols_go (l : bytes) (depth : Z) (cur : bytes) : list bytes :=
  match l with
  | [] => match cur with [] => [] | _ => [rev cur] end
  | b :: r =>
    if b =? 40 then split_cols_go r (depth + 1) (b :: cur)
    else if b =? 41 then split_cols_go r (if 0 <? depth then depth - 1 else depth) (b :: cur)
    else if (b =? 44) && (depth =? 0) then rev cur :: split_cols_go r depth []
    else split_cols_go r depth (b :: cur)
  end.
Definition split_columns (l : bytes) : list bytes := split_cols_go l 0 [].

Definition nonempty_trimmed (parts : list bytes) : list bytes :=
  filter (fun p => negb (is_nil p)) (map trim_space parts).

(* parseSelectColumns: the Raw strings *)
Definition parse_select_columns (raw lower : bytes) : res (list bytes) :=
  let si := kw_index lower kw_select in
  let fi := kw_index lower kw_from in
  if (si =? -1) || (fi =? -1) || (fi <=? si) then Err ESelectFrom else
  idx (slice raw (si + 6) fi) (fun seg =>
  let raw_cols := trim_space seg in
  if is_nil raw_cols then Ok [kw_star] else
  let cols := nonempty_trimmed (split_columns raw_cols) in
  if is_nil cols then Ok [kw_star] else Ok cols).

Section Oracles.
Variable lower_fn : bytes -> bytes.
Variable ulower : bytes -> bytes.
Variable ts_err : bytes -> bool.
Variable jexpr_ok : bytes -> bool.

Definition stops_group : list bytes := [kw_order_by; kw_limit; kw_last; kw_tail; kw_within; kw_scan].
Definition stops_order : list bytes := [kw_limit; kw_last; kw_tail; kw_within; kw_scan; kw_group_by].
Definition stops_on : list bytes :=
  [kw_within; kw_last; kw_tail; kw_limit; kw_where; kw_group_by; kw_order_by; kw_scan].

(* splitIdentifiers *)
Definition split_identifiers (l : bytes) : list bytes :=
  filter (fun p => negb (is_nil p)) (map (fun p => trim_space (ulower p)) (split_on 44 l)).

Definition parse_group_by (raw lower : bytes) : res (list bytes) :=
  let g := kw_index lower kw_group_by in
  if g =? -1 then Ok [] else
  idx (slice_from raw (g + 8)) (fun rest =>
  idx (slice_from lower (g + 8)) (fun rest_lower =>
  idx (slice_to rest (clause_end rest_lower stops_group)) (fun seg =>
  Ok (split_identifiers (trim_space seg))))).

Definition parse_order_by (raw lower : bytes) : res bytes :=
  let o := kw_index lower kw_order_by in
  if o =? -1 then Ok [] else
  idx (slice_from raw (o + 8)) (fun rest =>
  idx (slice_from lower (o + 8)) (fun rest_lower =>
  idx (slice_to rest (clause_end rest_lower stops_order)) (fun seg =>
  Ok (hd [] (fields (ulower (trim_space seg))))))).

Definition parse_order_desc (raw lower : bytes) : res bool :=
  let o := kw_index lower kw_order_by in
  if o =? -1 then Ok false else
  idx (slice_from raw (o + 8)) (fun rest =>
  let rest_lower := ulower rest in
  idx (slice_to rest_lower (clause_end rest_lower stops_order)) (fun seg =>
  let fs := fields seg in
  if zlen fs <? 2 then Ok false else idx (fld fs 1) (fun f1 => Ok (bytes_eqb f1 kw_desc)))).

(* parseJoinCondition *)
Definition parse_join_condition (raw lower : bytes) : res join_on :=
  let j := kw_index lower kw_join in
  if j =? -1 then Ok JNone else
  idx (slice_from lower j) (fun lower_j =>
  let o := kw_index lower_j kw_on in
  if o =? -1 then Ok JDefault else
  let o' := o + j in
  idx (slice_from raw (o' + 2)) (fun rest =>
  idx (slice_from lower (o' + 2)) (fun rest_lower =>
  idx (slice_to rest (clause_end rest_lower stops_on)) (fun seg =>
  match split_on 61 (trim_space seg) with
  | [l; r] =>
    let l' := trim_space l in let r' := trim_space r in
    if negb (jexpr_ok l') then Err EJoinExpr
    else if negb (jexpr_ok r') then Err EJoinExpr
    else Ok (JExpr l' r')
  | _ => Err EJoinEq
  end)))).

Definition parse_select (raw lower : bytes) (fs : list bytes) : res query :=
  bind (parse_select_columns raw lower) (fun cols =>
  bind (parse_from fs) (fun '(topic, al) =>
  bind (parse_join fs) (fun '(jt, jtopic, jalias) =>
  if negb (jt =? 0) && is_nil jtopic then Err EJoinTopic else
  bind (if is_nil jtopic then Ok JNone else parse_join_condition raw lower) (fun jon =>
  bind (parse_filters fs) (fun '(p, omin, omax) =>
  if ts_err raw then Err ETs else
  bind (parse_group_by raw lower) (fun g =>
  bind (parse_order_by raw lower) (fun ob =>
  bind (parse_order_desc raw lower) (fun od =>
  Ok (QSelect (mkSel topic al jt jtopic jalias jon cols g ob od p omin omax
                     (has_token fs kw_scan && has_token fs kw_full))))))))))).

(* Parse; parseExplain recurses on a strictly shorter text *)
Fixpoint parse_f (fuel : nat) (q : bytes) : res query :=
  match fuel with
  | O => NoFuel
  | S fuel' =>
    let trimmed0 := trim_space q in
    if is_nil trimmed0 then Err EEmpty else
    let trimmed := trim_semi trimmed0 in
    let lower := lower_fn trimmed in
    let fs := fields lower in
    match fs with
    | [] => Err EEmpty
    | f0 :: _ =>
      if bytes_eqb f0 kw_show then parse_show fs
      else if bytes_eqb f0 kw_describe then parse_describe fs
      else if bytes_eqb f0 kw_select then parse_select trimmed lower fs
      else if bytes_eqb f0 kw_explain then
        let t2 := trim_space trimmed in
        let l2 := lower_fn t2 in
        if negb (has_prefix l2 kw_explain) then Err EExplainInvalid else
        idx (slice_from t2 7) (fun rest =>
        let inner := trim_space rest in
        if is_nil inner then Err EExplainEmpty else
        match parse_f fuel' inner with
        | Ok (QSelect s) => Ok (QExplain s)
        | Ok _ => Err EExplainSelectOnly
        | Err e => Err e
        | Panic => Panic
        | NoFuel => NoFuel
        end)
      else Err EUnsupported
    end
  end.

Definition parse_with (q : bytes) : res query := parse_f (S (length q)) q.
End Oracles.

(* The parser after the fix: offsets are computed on the ASCII-lowered text. *)
Definition parse (ulower : bytes -> bytes) (ts_err jexpr_ok : bytes -> bool) (q : bytes) : res query :=
  parse_with ascii_lower ulower ts_err jexpr_ok q.

(* queryTopics (proxy.go) lives here because C35's correspondence compares it too *)
Definition query_topics (q : query) : list bytes * bool :=
  match q with
  | QShowTopics => ([], true)
  | QShowPartitions t | QDescribe t => ([t], false)
  | QSelect s | QExplain s =>
    (s_topic s :: (if is_nil (s_jtopic s) then [] else [s_jtopic s]), false)
  end.

(* strings.ToLower given the lower-case form of every multi-byte rune that occurs
   (table of (UTF-8 encoding, lowered encoding)); ASCII is folded directly, any
   other byte that does not start a listed rune is invalid UTF-8 and becomes
   U+FFFD, as strings.Map does. *)
Fixpoint tab_find (tab : list (bytes * bytes)) (l : bytes) : option (nat * bytes) :=
  match tab with
  | [] => None
  | (k, v) :: tab' => if has_prefix l k && negb (is_nil k) then Some (length k, v) else tab_find tab' l
  end.

Fixpoint ulower_go (tab : list (bytes * bytes)) (l : bytes) (skip : nat) : bytes :=
  match l with
  | [] => []
  | b :: r =>
    match skip with
    | S k => ulower_go tab r k
    | O =>
      if b <? 128 then lower_byte b :: ulower_go tab r 0
      else match tab_find tab l with
           | Some (n, v) => v ++ ulower_go tab r (Nat.pred n)
           | None => 239 :: 191 :: 189 :: ulower_go tab r 0
           end
    end
  end.
Definition ulower_tab (tab : list (bytes * bytes)) (l : bytes) : bytes := ulower_go tab l 0.

(* What strings.ToLower does to U+023A (C8 BA -> E2 B1 A5, one byte longer); ASCII is
   folded. Used only to show that the length hypothesis of the crash-freedom theorem
   is necessary: with this lowering the model reproduces the panic of the unfixed code. *)
Fixpoint growing_lower (l : bytes) : bytes :=
  match l with
  | [] => []
  | b :: r =>
    match r with
    | c :: r' => if (b =? 200) && (c =? 186) then 226 :: 177 :: 165 :: growing_lower r'
                 else lower_byte b :: growing_lower r
    | [] => [lower_byte b]
    end
  end.

(* A parse result with the text-derived display strings (SelectColumn.Raw, the two
   sides of the join condition) ASCII-lower-cased: what "the parsed query, apart
   from raw display strings" means in the keyword-case theorem. *)
Definition norm_jon (j : join_on) : join_on :=
  match j with JExpr l r => JExpr (ascii_lower l) (ascii_lower r) | x => x end.
Definition norm_sel (s : select_q) : select_q :=
  mkSel (s_topic s) (s_alias s) (s_jtype s) (s_jtopic s) (s_jalias s) (norm_jon (s_jon s))
        (map ascii_lower (s_cols s)) (s_group s) (s_order s) (s_desc s)
        (s_part s) (s_omin s) (s_omax s) (s_scan_full s).
Definition norm_q (q : query) : query :=
  match q with QSelect s => QSelect (norm_sel s) | QExplain s => QExplain (norm_sel s) | x => x end.
Definition norm_res (r : res query) : res query :=
  match r with Ok q => Ok (norm_q q) | x => x end.

(* Keyword-case variants: b is a with the case of ASCII letters changed only outside
   single-quoted literals (quoted timestamp / JSON-path literals are data, not
   keywords); [inq] = currently inside a literal. *)
Fixpoint kwvar_go (inq : bool) (a b : bytes) : Prop :=
  match a, b with
  | [], [] => True
  | x :: a', y :: b' =>
    (if inq then x = y else lower_byte x = lower_byte y) /\
    kwvar_go (if x =? 39 then negb inq else inq) a' b'
  | _, _ => False
  end.
Definition kwvar (a b : bytes) : Prop := kwvar_go false a b.
