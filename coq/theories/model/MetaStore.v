(* Executable model of the metadata stores and of the code that derives storage
   keys from topic names.  No proofs in this file.

   Modelled Go functions (with the fixes fixes/C16-*.patch, C17-*.patch,
   C22-*.patch applied):
   pkg/metadata/store.go       InMemoryStore: Metadata/filterTopics, NextOffset, UpdateOffsets,
                               CreateTopic (+ ValidTopicName), DeleteTopic, CreatePartitions,
                               FetchTopicConfig, UpdateTopicConfig, CommitConsumerOffset,
                               FetchConsumerOffset, LookupConsumerOffset, ListConsumerOffsets,
                               PutConsumerGroup, FetchConsumerGroup, ListConsumerGroups,
                               DeleteConsumerGroup, cloneConsumerGroup, cloneTopicConfig,
                               defaultTopicConfigFromTopic, topicHasPartition
   pkg/metadata/etcd_store.go  EtcdStore: the same sixteen operations, offsetKey,
                               consumerOffsetKey, deleteTopicOffsets, deleteConsumerOffsets,
                               syncTopicConfigPartitions, partitionExists
   pkg/metadata/codec.go       TopicConfigKey, PartitionStateKey, ConsumerGroupKey,
                               ConsumerOffsetKey, ParseConsumerGroupID, ParseConsumerOffsetKey,
                               PartitionAssignmentKey
   pkg/broker/coordinator.go   GroupCoordinator.OffsetFetch / fetchCommittedOffset (mapping of
                               the store answer to the response partition)
   pkg/storage/log.go          segmentKey, indexKey, segmentPrefix, cacheTopicKey
                               (path.Join = lib/Paths.path_join), NewPartitionLog's
                               namespace default
   The pre-fix key builders (consumerKey "%s:%s:%d", topic acceptance "any non-empty
   name") are kept as [*_old] definitions for the refutation witnesses.

   etcd is modelled as key-string-indexed maps, one per key family (next offsets,
   topic configs, partition states, consumer groups, consumer offsets). That this is a
   faithful view of the single flat etcd key space is proved in proofs/MetaStoreFlat.v (for
   '/'-free names the families' keys never coincide; every Put / Get / prefix Delete on the
   flat map is the same operation on the key's own family map).
   Maps are association lists with replace-in-place put, so listing order is
   first-insertion order in both store models (the Go orders are map order / etcd key
   order; the correspondence check compares listings as multisets).
   Protobuf / JSON payloads are records; CreatedAt / CommittedAt are not modelled. *)
From Coq Require Import Ascii String.
From KS Require Import lib.Base lib.Strings lib.Paths.
Open Scope Z_scope.

(* ---------------------------------------------------------------- assoc maps *)
Section Assoc.
  Context {K V : Type} (eqb : K -> K -> bool).
  Fixpoint aget (k : K) (l : list (K * V)) : option V :=
    match l with
    | [] => None
    | (k', v) :: l' => if eqb k k' then Some v else aget k l'
    end.
  Fixpoint aput (k : K) (v : V) (l : list (K * V)) : list (K * V) :=
    match l with
    | [] => [(k, v)]
    | (k', v') :: l' => if eqb k k' then (k, v) :: l' else (k', v') :: aput k v l'
    end.
  Definition adel_if (drop : K -> bool) (l : list (K * V)) : list (K * V) :=
    filter (fun kv => negb (drop (fst kv))) l.
  Definition adel (k : K) (l : list (K * V)) : list (K * V) := adel_if (eqb k) l.
End Assoc.

(* ---------------------------------------------------------------- payloads *)
Record member := mkMember {
  m_client : bytes; m_host : bytes; m_heartbeat : bytes;
  m_assign : list (bytes * list Z); m_subs : list bytes; m_session : Z }.

Record group := mkGroup {
  g_id : bytes; g_state : bytes; g_ptype : bytes; g_proto : bytes; g_leader : bytes;
  g_gen : Z; g_rebalance : Z; g_members : list (bytes * member) }.

Record cfg := mkCfg {
  c_name : bytes; c_parts : Z; c_rf : Z; c_ret_ms : Z; c_ret_bytes : Z; c_seg_bytes : Z;
  c_config : list (bytes * bytes) }.

Definition cfg_set_parts (c : cfg) (n : Z) : cfg :=
  mkCfg (c_name c) n (c_rf c) (c_ret_ms c) (c_ret_bytes c) (c_seg_bytes c) (c_config c).

(* defaultTopicConfigFromTopic for a topic with [parts] >= 1 partitions *)
Definition default_cfg (name : bytes) (parts rf : Z) : cfg :=
  mkCfg name parts (if rf <=? 0 then 1 else rf) (-1) (-1) 0 [].

Inductive err := ENone | EInvalidTopic | ETopicExists | EUnknownTopic | EOther.

(* ---------------------------------------------------------------- topic names *)
Definition topic_char_ok (c : Z) : bool :=
  ((48 <=? c) && (c <=? 57)) || ((65 <=? c) && (c <=? 90)) || ((97 <=? c) && (c <=? 122))
  || (c =? 46) || (c =? 95) || (c =? 45).

(* ValidTopicName (fixes/C22): [A-Za-z0-9._-]{1,249}, not "." or ".." *)
Definition valid_topic_name (n : bytes) : bool :=
  match n with [] => false | _ => true end && (zlen n <=? 249) && forallb topic_char_ok n
  && negb (is_dot n) && negb (is_dotdot n).

(* what CreateTopic accepted before the fix: any non-empty name *)
Definition valid_topic_name_old (n : bytes) : bool :=
  match n with [] => false | _ => true end.

(* ---------------------------------------------------------------- key builders *)
Definition lit (s : string) : bytes := codes s.

Definition topics_pfx : bytes := lit "/kafscale/topics".
Definition consumers_pfx : bytes := lit "/kafscale/consumers".
Definition assignments_pfx : bytes := lit "/kafscale/assignments".

Definition offset_key (t : bytes) (p : Z) : bytes :=
  topics_pfx ++ slash :: t ++ lit "/partitions/" ++ dec p ++ lit "/next_offset".
Definition topic_config_key (t : bytes) : bytes := topics_pfx ++ slash :: t ++ lit "/config".
Definition partition_state_key (t : bytes) (p : Z) : bytes :=
  topics_pfx ++ slash :: t ++ lit "/partitions/" ++ dec p.
Definition topic_delete_prefix (t : bytes) : bytes := topics_pfx ++ slash :: t ++ [slash].
Definition group_key (g : bytes) : bytes := consumers_pfx ++ slash :: g ++ lit "/metadata".
Definition coff_key (g t : bytes) (p : Z) : bytes :=
  consumers_pfx ++ slash :: g ++ lit "/offsets/" ++ t ++ slash :: dec p.
Definition assignment_key (t : bytes) (p : Z) : bytes :=
  assignments_pfx ++ slash :: t ++ slash :: dec p.
(* in-memory string keys: partitionKey (still used by the routers) and the old consumerKey *)
Definition partition_key (t : bytes) (p : Z) : bytes := t ++ colon :: dec p.
Definition consumer_key_old (g t : bytes) (p : Z) : bytes := g ++ colon :: t ++ colon :: dec p.

Fixpoint strip_prefix (pfx s : bytes) : option bytes :=
  match pfx, s with
  | [], _ => Some s
  | a :: pfx', b :: s' => if a =? b then strip_prefix pfx' s' else None
  | _ :: _, [] => None
  end.
Definition has_prefix (pfx s : bytes) : bool :=
  match strip_prefix pfx s with Some _ => true | None => false end.
Definition strip_suffix (sfx s : bytes) : option bytes :=
  option_map (@rev Z) (strip_prefix (rev sfx) (rev s)).

(* strconv.ParseInt(s, 10, 32): optional sign, at least one decimal digit, int32 range *)
Fixpoint digits_val (acc : Z) (b : bytes) : option Z :=
  match b with
  | [] => Some acc
  | c :: b' => if (48 <=? c) && (c <=? 57) then digits_val (acc * 10 + (c - 48)) b' else None
  end.
Definition int32_ok (z : Z) : bool := (-2147483648 <=? z) && (z <=? 2147483647).
Definition parse_dec (b : bytes) : option Z :=
  match b with
  | [] => None
  | c :: b' =>
      let '(neg, ds) := if c =? 45 then (true, b') else if c =? 43 then (false, b') else (false, b) in
      match ds with
      | [] => None
      | _ => match digits_val 0 ds with
             | Some v => let z := if neg then - v else v in if int32_ok z then Some z else None
             | None => None
             end
      end
  end.

(* ParseConsumerGroupID *)
Definition parse_group_key (k : bytes) : option bytes :=
  match strip_prefix (consumers_pfx ++ [slash]) k with
  | Some rest =>
      match strip_suffix (lit "/metadata") rest with
      | Some g => match g with
                  | [] => None
                  | _ => if existsb (Z.eqb slash) g then None else Some g
                  end
      | None => None
      end
  | None => None
  end.

(* ParseConsumerOffsetKey *)
Definition parse_coff_key (k : bytes) : option (bytes * bytes * Z) :=
  match strip_prefix (consumers_pfx ++ [slash]) k with
  | Some rest =>
      match split_on slash rest with
      | [g; o; t; n] =>
          if bytes_eqb o (lit "offsets") then
            match g, t with
            | [], _ => None
            | _, [] => None
            | _, _ => match parse_dec n with Some p => Some (g, t, p) | None => None end
            end
          else None
      | _ => None
      end
  | None => None
  end.

(* ---------------------------------------------------------------- in-memory store *)
Definition ckey := (bytes * bytes * Z)%type.          (* consumerOffsetID *)
Definition ckey_eqb (a b : ckey) : bool :=
  let '(g, t, p) := a in let '(g', t', p') := b in
  bytes_eqb g g' && bytes_eqb t t' && (p =? p').
Definition pkey := (bytes * Z)%type.                  (* partitionID *)
Definition pkey_eqb (a b : pkey) : bool :=
  let '(t, p) := a in let '(t', p') := b in bytes_eqb t t' && (p =? p').

Record inmem := mkInmem {
  im_brokers : Z;                                 (* len(state.Brokers) *)
  im_topics : list (bytes * Z);                   (* name, number of partitions (ids 0..n-1) *)
  im_offsets : list (pkey * Z);
  im_coff : list (ckey * (Z * bytes));            (* consumerOffsets + consumerMeta *)
  im_groups : list (bytes * group);
  im_cfgs : list (bytes * cfg) }.

Definition im_new (brokers : Z) : inmem := mkInmem brokers [] [] [] [] [].

Definition set_topics (s : inmem) v := mkInmem (im_brokers s) v (im_offsets s) (im_coff s) (im_groups s) (im_cfgs s).
Definition set_offsets (s : inmem) v := mkInmem (im_brokers s) (im_topics s) v (im_coff s) (im_groups s) (im_cfgs s).
Definition set_coff (s : inmem) v := mkInmem (im_brokers s) (im_topics s) (im_offsets s) v (im_groups s) (im_cfgs s).
Definition set_groups (s : inmem) v := mkInmem (im_brokers s) (im_topics s) (im_offsets s) (im_coff s) v (im_cfgs s).
Definition set_cfgs (s : inmem) v := mkInmem (im_brokers s) (im_topics s) (im_offsets s) (im_coff s) (im_groups s) v.

Definition topic_parts (s : inmem) (t : bytes) : option Z := aget bytes_eqb t (im_topics s).
Definition has_partition (s : inmem) (t : bytes) (p : Z) : bool :=
  match topic_parts s t with Some n => (0 <=? p) && (p <? n) | None => false end.

(* results *)
Inductive res :=
| RErr (e : err)
| RTopic (e : err) (parts : Z)                       (* CreateTopic *)
| ROffset (e : err) (off : Z)                        (* NextOffset *)
| RFetched (off : Z) (meta : bytes)                  (* FetchConsumerOffset *)
| RLooked (off : Z) (meta : bytes) (found : bool)    (* LookupConsumerOffset *)
| RCoffs (l : list (ckey * Z))                       (* ListConsumerOffsets *)
| RGroup (g : option group)
| RGroups (l : list group)
| RCfg (e : err) (c : option cfg)
| RMeta (l : list (bytes * Z * Z)).                  (* name, error code, partitions *)

Inductive op :=
| OCreateTopic (n : bytes) (parts rf : Z)
| ODeleteTopic (n : bytes)
| OCreatePartitions (n : bytes) (cnt : Z)
| OUpdateOffsets (t : bytes) (p last : Z)
| ONextOffset (t : bytes) (p : Z)
| OCommit (g t : bytes) (p off : Z) (meta : bytes)
| OFetchOffset (g t : bytes) (p : Z)
| OLookupOffset (g t : bytes) (p : Z)
| OListOffsets
| OPutGroup (g : group)
| OFetchGroup (id : bytes)
| OListGroups
| ODeleteGroup (id : bytes)
| OFetchCfg (t : bytes)
| OUpdateCfg (c : cfg)
| OMetadata (names : list bytes)
(* not a Store method: InMemoryStore.Update / EtcdStore.refreshSnapshot replace the cluster
   snapshot (brokers, topics with their partition counts); config, offset and group tables stay *)
| OUpdate (brokers : Z) (topics : list (bytes * Z)).

Definition metadata_of (s : inmem) (names : list bytes) : list (bytes * Z * Z) :=
  match names with
  | [] => map (fun tp => (fst tp, 0, snd tp)) (im_topics s)
  | _ => map (fun n => match topic_parts s n with
                       | Some k => (n, 0, k)
                       | None => (n, 3, 0)
                       end) names
  end.

Definition im_create_topic (s : inmem) (n : bytes) (parts rf : Z) : inmem * res :=
  if negb (valid_topic_name n) || (parts <=? 0) then (s, RTopic EInvalidTopic 0) else
  let rf' := if rf <=? 0 then 1 else rf in
  match topic_parts s n with
  | Some _ => (s, RTopic ETopicExists 0)
  | None =>
      if im_brokers s <? rf' then (s, RTopic EInvalidTopic 0) else
      (set_cfgs (set_topics s (im_topics s ++ [(n, parts)]))
                (aput bytes_eqb n (default_cfg n parts rf') (im_cfgs s)),
       RTopic ENone parts)
  end.

Definition im_delete_topic (s : inmem) (n : bytes) : inmem * res :=
  match topic_parts s n with
  | None => (s, RErr EUnknownTopic)
  | Some _ =>
      let s1 := set_topics s (adel bytes_eqb n (im_topics s)) in
      let s2 := set_offsets s1 (adel_if (fun k : pkey => bytes_eqb (fst k) n) (im_offsets s1)) in
      let s3 := set_coff s2 (adel_if (fun k : ckey => bytes_eqb (snd (fst k)) n) (im_coff s2)) in
      (set_cfgs s3 (adel bytes_eqb n (im_cfgs s3)), RErr ENone)
  end.

Definition im_create_partitions (s : inmem) (n : bytes) (cnt : Z) : inmem * res :=
  match n with [] => (s, RErr EInvalidTopic) | _ =>
  if cnt <=? 0 then (s, RErr EInvalidTopic) else
  match topic_parts s n with
  | None => (s, RErr EUnknownTopic)
  | Some cur =>
      if cnt <=? cur then (s, RErr EInvalidTopic) else
      let c := match aget bytes_eqb n (im_cfgs s) with
               | Some c => c
               | None => default_cfg n cnt cnt
               end in
      (set_cfgs (set_topics s (aput bytes_eqb n cnt (im_topics s)))
                (aput bytes_eqb n (cfg_set_parts c cnt) (im_cfgs s)), RErr ENone)
  end end.

Definition im_fetch_cfg (s : inmem) (t : bytes) : res :=
  match topic_parts s t with
  | None => RCfg EUnknownTopic None
  | Some n => match aget bytes_eqb t (im_cfgs s) with
              | Some c => RCfg ENone (Some c)
              | None => RCfg ENone (Some (default_cfg t n n))
              end
  end.

(* the configuration UpdateTopicConfig stores: Partitions 0 means "as the topic has" *)
Definition cfg_norm (c : cfg) (cur : Z) : cfg := if c_parts c =? 0 then cfg_set_parts c cur else c.

Definition im_update_cfg (s : inmem) (c : cfg) : inmem * res :=
  match c_name c with [] => (s, RErr EInvalidTopic) | _ =>
  match topic_parts s (c_name c) with
  | None => (s, RErr EUnknownTopic)
  | Some cur => (set_cfgs s (aput bytes_eqb (c_name c) (cfg_norm c cur) (im_cfgs s)), RErr ENone)
  end end.

Definition im_lookup (s : inmem) (g t : bytes) (p : Z) : Z * bytes * bool :=
  match aget ckey_eqb (g, t, p) (im_coff s) with
  | Some (o, m) => (o, m, true)
  | None => (0, [], false)
  end.

Definition im_step (s : inmem) (o : op) : inmem * res :=
  match o with
  | OCreateTopic n parts rf => im_create_topic s n parts rf
  | ODeleteTopic n => im_delete_topic s n
  | OCreatePartitions n cnt => im_create_partitions s n cnt
  | OUpdateOffsets t p last => (set_offsets s (aput pkey_eqb (t, p) (last + 1) (im_offsets s)), RErr ENone)
  | ONextOffset t p =>
      if has_partition s t p
      then (s, ROffset ENone (match aget pkey_eqb (t, p) (im_offsets s) with Some v => v | None => 0 end))
      else (s, ROffset EUnknownTopic 0)
  | OCommit g t p off meta => (set_coff s (aput ckey_eqb (g, t, p) (off, meta) (im_coff s)), RErr ENone)
  | OFetchOffset g t p => let '(o', m, _) := im_lookup s g t p in (s, RFetched o' m)
  | OLookupOffset g t p => let '(o', m, f) := im_lookup s g t p in (s, RLooked o' m f)
  | OListOffsets => (s, RCoffs (map (fun e => (fst e, fst (snd e))) (im_coff s)))
  | OPutGroup g =>
      match g_id g with
      | [] => (s, RErr EOther)
      | _ => (set_groups s (aput bytes_eqb (g_id g) g (im_groups s)), RErr ENone)
      end
  | OFetchGroup id => (s, RGroup (aget bytes_eqb id (im_groups s)))
  | OListGroups => (s, RGroups (map snd (im_groups s)))
  | ODeleteGroup id => (set_groups s (adel bytes_eqb id (im_groups s)), RErr ENone)
  | OFetchCfg t => (s, im_fetch_cfg s t)
  | OUpdateCfg c => im_update_cfg s c
  | OMetadata names => (s, RMeta (metadata_of s names))
  | OUpdate b ts => (mkInmem b ts (im_offsets s) (im_coff s) (im_groups s) (im_cfgs s), RErr ENone)
  end.

(* ---------------------------------------------------------------- etcd store *)
Record etcd := mkEtcd {
  et_meta : inmem;                                (* EtcdStore.metadata, an InMemoryStore *)
  et_noff : list (bytes * Z);                     (* .../next_offset -> decimal *)
  et_cfg : list (bytes * cfg);                    (* .../config -> TopicConfig *)
  et_pstate : list (bytes * (bytes * Z));         (* .../partitions/N -> PartitionState (topic, partition) *)
  et_groups : list (bytes * group);               (* .../metadata -> ConsumerGroup *)
  et_coff : list (bytes * (Z * bytes)) }.         (* .../offsets/T/N -> {offset, metadata} *)

Definition et_new (brokers : Z) : etcd := mkEtcd (im_new brokers) [] [] [] [] [].

Definition eset_meta (s : etcd) v := mkEtcd v (et_noff s) (et_cfg s) (et_pstate s) (et_groups s) (et_coff s).
Definition eset_noff (s : etcd) v := mkEtcd (et_meta s) v (et_cfg s) (et_pstate s) (et_groups s) (et_coff s).
Definition eset_cfg (s : etcd) v := mkEtcd (et_meta s) (et_noff s) v (et_pstate s) (et_groups s) (et_coff s).
Definition eset_pstate (s : etcd) v := mkEtcd (et_meta s) (et_noff s) (et_cfg s) v (et_groups s) (et_coff s).
Definition eset_groups (s : etcd) v := mkEtcd (et_meta s) (et_noff s) (et_cfg s) (et_pstate s) v (et_coff s).
Definition eset_coff (s : etcd) v := mkEtcd (et_meta s) (et_noff s) (et_cfg s) (et_pstate s) (et_groups s) v.

Definition et_lookup (s : etcd) (g t : bytes) (p : Z) : Z * bytes * bool :=
  match aget bytes_eqb (coff_key g t p) (et_coff s) with
  | Some (o, m) => (o, m, true)
  | None => (0, [], false)
  end.

(* the partition-state entries CreatePartitions writes for partitions cur..cnt-1 *)
Fixpoint put_pstates (t : bytes) (from : Z) (n : nat) (m : list (bytes * (bytes * Z))) :=
  match n with
  | O => m
  | S n' => put_pstates t (from + 1) n' (aput bytes_eqb (partition_state_key t from) (t, from) m)
  end.

Definition coff_key_topic_is (t : bytes) (k : bytes) : bool :=
  match parse_coff_key k with Some (_, t', _) => bytes_eqb t' t | None => false end.

Definition et_delete_topic (s : etcd) (n : bytes) : etcd * res :=
  let '(m', r) := im_delete_topic (et_meta s) n in
  match r with
  | RErr ENone =>
      let pfx := topic_delete_prefix n in
      let s1 := eset_meta s m' in
      let s2 := eset_noff s1 (adel_if (has_prefix pfx) (et_noff s1)) in
      let s3 := eset_cfg s2 (adel_if (has_prefix pfx) (et_cfg s2)) in
      let s4 := eset_pstate s3 (adel_if (has_prefix pfx) (et_pstate s3)) in
      (eset_coff s4 (adel_if (coff_key_topic_is n) (et_coff s4)), RErr ENone)
  | _ => (s, r)
  end.

Definition et_create_partitions (s : etcd) (n : bytes) (cnt : Z) : etcd * res :=
  match n with [] => (s, RErr EInvalidTopic) | _ =>
  if cnt <=? 0 then (s, RErr EInvalidTopic) else
  match topic_parts (et_meta s) n with
  | None => (s, RErr EUnknownTopic)
  | Some cur =>
      if cnt <=? cur then (s, RErr EInvalidTopic) else
      let '(m', r) := im_create_partitions (et_meta s) n cnt in
      match r with
      | RErr ENone =>
          let s1 := eset_meta s m' in
          let s2 := eset_pstate s1 (put_pstates n cur (Z.to_nat (cnt - cur)) (et_pstate s1)) in
          (* syncTopicConfigPartitions *)
          let k := topic_config_key n in
          match aget bytes_eqb k (et_cfg s2) with
          | Some c => (eset_cfg s2 (aput bytes_eqb k (cfg_set_parts c cnt) (et_cfg s2)), RErr ENone)
          | None => (s2, RErr ENone)
          end
      | _ => (s, r)
      end
  end end.

Definition et_fetch_cfg (s : etcd) (t : bytes) : res :=
  match t with [] => RCfg EInvalidTopic None | _ =>
  match aget bytes_eqb (topic_config_key t) (et_cfg s) with
  | Some c => RCfg ENone (Some c)
  | None => im_fetch_cfg (et_meta s) t
  end end.

Definition et_update_cfg (s : etcd) (c : cfg) : etcd * res :=
  match c_name c with [] => (s, RErr EInvalidTopic) | _ =>
  match topic_parts (et_meta s) (c_name c) with
  | None => (s, RErr EUnknownTopic)
  | Some cur =>
      let c' := cfg_norm c cur in
      let '(m', r) := im_update_cfg (et_meta s) c' in
      match r with
      | RErr ENone =>
          (eset_cfg (eset_meta s m') (aput bytes_eqb (topic_config_key (c_name c)) c' (et_cfg s)), RErr ENone)
      | _ => (s, r)
      end
  end end.

Definition filter_map {A B} (f : A -> option B) (l : list A) : list B :=
  flat_map (fun a => match f a with Some b => [b] | None => [] end) l.

Definition et_step (s : etcd) (o : op) : etcd * res :=
  match o with
  | OCreateTopic n parts rf =>
      let '(m', r) := im_create_topic (et_meta s) n parts rf in (eset_meta s m', r)
  | ODeleteTopic n => et_delete_topic s n
  | OCreatePartitions n cnt => et_create_partitions s n cnt
  | OUpdateOffsets t p last => (eset_noff s (aput bytes_eqb (offset_key t p) (last + 1) (et_noff s)), RErr ENone)
  | ONextOffset t p =>
      if has_partition (et_meta s) t p
      then (s, ROffset ENone (match aget bytes_eqb (offset_key t p) (et_noff s) with Some v => v | None => 0 end))
      else (s, ROffset EUnknownTopic 0)
  | OCommit g t p off meta => (eset_coff s (aput bytes_eqb (coff_key g t p) (off, meta) (et_coff s)), RErr ENone)
  | OFetchOffset g t p => let '(o', m, _) := et_lookup s g t p in (s, RFetched o' m)
  | OLookupOffset g t p => let '(o', m, f) := et_lookup s g t p in (s, RLooked o' m f)
  | OListOffsets =>
      (s, RCoffs (filter_map (fun e => match parse_coff_key (fst e) with
                                       | Some k => Some (k, fst (snd e))
                                       | None => None
                                       end) (et_coff s)))
  | OPutGroup g =>
      match g_id g with
      | [] => (s, RErr EOther)
      | _ => (eset_groups s (aput bytes_eqb (group_key (g_id g)) g (et_groups s)), RErr ENone)
      end
  | OFetchGroup id => (s, RGroup (aget bytes_eqb (group_key id) (et_groups s)))
  | OListGroups =>
      (s, RGroups (filter_map (fun e => match parse_group_key (fst e) with
                                        | Some _ => Some (snd e)
                                        | None => None
                                        end) (et_groups s)))
  | ODeleteGroup id => (eset_groups s (adel bytes_eqb (group_key id) (et_groups s)), RErr ENone)
  | OFetchCfg t => (s, et_fetch_cfg s t)
  | OUpdateCfg c => et_update_cfg s c
  | OMetadata names => (s, RMeta (metadata_of (et_meta s) names))
  | OUpdate b ts =>
      (eset_meta s (mkInmem b ts (im_offsets (et_meta s)) (im_coff (et_meta s)) (im_groups (et_meta s)) (im_cfgs (et_meta s))), RErr ENone)
  end.

(* ---------------------------------------------------------------- runs *)
Fixpoint im_run (s : inmem) (ops : list op) : inmem * list res :=
  match ops with
  | [] => (s, [])
  | o :: ops' => let '(s', r) := im_step s o in let '(s'', rs) := im_run s' ops' in (s'', r :: rs)
  end.
Fixpoint et_run (s : etcd) (ops : list op) : etcd * list res :=
  match ops with
  | [] => (s, [])
  | o :: ops' => let '(s', r) := et_step s o in let '(s'', rs) := et_run s' ops' in (s'', r :: rs)
  end.

(* ---------------------------------------------------------------- C16: abstract spec *)
(* committed offsets as a function of the structured key; last commit wins *)
Definition spec := ckey -> option (Z * bytes).
Definition spec_empty : spec := fun _ => None.
Definition spec_commit (s : spec) (k : ckey) (v : Z * bytes) : spec :=
  fun k' => if ckey_eqb k' k then Some v else s k'.

Definition is_coff_op (o : op) : bool :=
  match o with OCommit _ _ _ _ _ | OFetchOffset _ _ _ | OLookupOffset _ _ _ => true | _ => false end.

Definition spec_step (s : spec) (o : op) : spec * res :=
  match o with
  | OCommit g t p off meta => (spec_commit s (g, t, p) (off, meta), RErr ENone)
  | OFetchOffset g t p => (s, match s (g, t, p) with Some (o', m) => RFetched o' m | None => RFetched 0 [] end)
  | OLookupOffset g t p => (s, match s (g, t, p) with Some (o', m) => RLooked o' m true | None => RLooked 0 [] false end)
  | _ => (s, RErr EOther)
  end.
Fixpoint spec_run (s : spec) (ops : list op) : spec * list res :=
  match ops with
  | [] => (s, [])
  | o :: ops' => let '(s', r) := spec_step s o in let '(s'', rs) := spec_run s' ops' in (s'', r :: rs)
  end.

(* GroupCoordinator.OffsetFetch: one response partition per requested (topic, partition):
   (partition, offset, metadata, error code); -1 / "" when nothing was committed *)
Definition offset_fetch_part (lk : Z * bytes * bool) (p : Z) : Z * Z * bytes * Z :=
  let '(o, m, f) := lk in if f then (p, o, m, 0) else (p, -1, [], 0).
Definition offset_fetch (lookup : bytes -> bytes -> Z -> Z * bytes * bool) (g : bytes)
    (req : list (bytes * list Z)) : list (bytes * list (Z * Z * bytes * Z)) :=
  map (fun tp => (fst tp, map (fun p => offset_fetch_part (lookup g (fst tp) p) p) (snd tp))) req.
(* GroupCoordinator.OffsetCommit (for a current member): the request names topics, each with
   partitions carrying an offset and nullable metadata; every partition is committed on its
   own, null metadata as "". *)
Definition commit_req := list (bytes * list (Z * Z * option bytes)).
Definition offset_commit_ops (g : bytes) (req : commit_req) : list op :=
  flat_map (fun tp => map (fun e => let '(p, off, m) := e in
                                     OCommit g (fst tp) p off (match m with Some x => x | None => [] end))
                          (snd tp)) req.

(* Environment limits of etcd (server defaults, also of the embedded server): a transaction
   with more operations, or a request larger than this, is rejected as a whole. The store
   code modelled here issues single-key Put/Get/Delete and one-operation prefix deletes
   only, so neither limit is reachable from it; a model of code that batches operations
   into one transaction must guard the batch with [etcd_txn_ok] / [etcd_request_ok]. *)
Definition etcd_max_txn_ops : Z := 128.
Definition etcd_max_request_bytes : Z := 1572864.
Definition etcd_txn_ok (nops : Z) : bool := nops <=? etcd_max_txn_ops.
Definition etcd_request_ok (nbytes : Z) : bool := nbytes <=? etcd_max_request_bytes.

(* before the fix OffsetFetch forwarded the store's FetchConsumerOffset answer *)
Definition offset_fetch_part_old (lk : Z * bytes * bool) (p : Z) : Z * Z * bytes * Z :=
  let '(o, m, _) := lk in (p, o, m, 0).

(* the old in-memory consumer offsets: a map keyed by the "%s:%s:%d" string *)
Definition old_commit (m : list (bytes * (Z * bytes))) g t p v := aput bytes_eqb (consumer_key_old g t p) v m.
Definition old_fetch (m : list (bytes * (Z * bytes))) g t p := aget bytes_eqb (consumer_key_old g t p) m.

(* ---------------------------------------------------------------- C22: storage keys *)
Definition pad_zeros (n : Z) : bytes := repeat 48 (Z.to_nat n).
(* fmt "%020d" *)
Definition pad20 (b : Z) : bytes :=
  let d := dec (Z.abs b) in
  if b <? 0 then 45 :: pad_zeros (19 - zlen d) ++ d else pad_zeros (20 - zlen d) ++ d.

Definition ns_eff (ns : bytes) : bytes := match ns with [] => lit "default" | _ => ns end.
Definition seg_file (b : Z) : bytes := lit "segment-" ++ pad20 b ++ lit ".kfs".
Definition idx_file (b : Z) : bytes := lit "segment-" ++ pad20 b ++ lit ".index".
Definition segment_key (ns t : bytes) (p b : Z) : bytes := path_join [ns_eff ns; t; dec p; seg_file b].
Definition index_key (ns t : bytes) (p b : Z) : bytes := path_join [ns_eff ns; t; dec p; idx_file b].
Definition segment_prefix (ns t : bytes) (p : Z) : bytes := path_join [ns_eff ns; t; dec p] ++ [slash].
Definition cache_topic_key (ns t : bytes) : bytes := path_join [ns_eff ns; t].
(* pkg/cache makeKey over the cache topic key *)
Definition cache_key (ns t : bytes) (p b : Z) : bytes := cache_topic_key ns t ++ colon :: dec p ++ colon :: dec b.

(* ---------------------------------------------------------------- C40: store interface *)
Inductive store_method :=
| M_Metadata | M_NextOffset | M_UpdateOffsets | M_CommitConsumerOffset | M_FetchConsumerOffset
| M_ListConsumerOffsets | M_PutConsumerGroup | M_FetchConsumerGroup | M_ListConsumerGroups
| M_DeleteConsumerGroup | M_FetchTopicConfig | M_UpdateTopicConfig | M_CreatePartitions
| M_CreateTopic | M_DeleteTopic | M_LookupConsumerOffset | M_Unknown.

Definition method_eqb (a b : store_method) : bool :=
  match a, b with
  | M_Metadata, M_Metadata | M_NextOffset, M_NextOffset | M_UpdateOffsets, M_UpdateOffsets
  | M_CommitConsumerOffset, M_CommitConsumerOffset | M_FetchConsumerOffset, M_FetchConsumerOffset
  | M_ListConsumerOffsets, M_ListConsumerOffsets | M_PutConsumerGroup, M_PutConsumerGroup
  | M_FetchConsumerGroup, M_FetchConsumerGroup | M_ListConsumerGroups, M_ListConsumerGroups
  | M_DeleteConsumerGroup, M_DeleteConsumerGroup | M_FetchTopicConfig, M_FetchTopicConfig
  | M_UpdateTopicConfig, M_UpdateTopicConfig | M_CreatePartitions, M_CreatePartitions
  | M_CreateTopic, M_CreateTopic | M_DeleteTopic, M_DeleteTopic
  | M_LookupConsumerOffset, M_LookupConsumerOffset | M_Unknown, M_Unknown => true
  | _, _ => false
  end.

Definition method_of (o : op) : store_method :=
  match o with
  | OCreateTopic _ _ _ => M_CreateTopic | ODeleteTopic _ => M_DeleteTopic
  | OCreatePartitions _ _ => M_CreatePartitions | OUpdateOffsets _ _ _ => M_UpdateOffsets
  | ONextOffset _ _ => M_NextOffset | OCommit _ _ _ _ _ => M_CommitConsumerOffset
  | OFetchOffset _ _ _ => M_FetchConsumerOffset | OLookupOffset _ _ _ => M_LookupConsumerOffset
  | OListOffsets => M_ListConsumerOffsets | OPutGroup _ => M_PutConsumerGroup
  | OFetchGroup _ => M_FetchConsumerGroup | OListGroups => M_ListConsumerGroups
  | ODeleteGroup _ => M_DeleteConsumerGroup | OFetchCfg _ => M_FetchTopicConfig
  | OUpdateCfg _ => M_UpdateTopicConfig | OMetadata _ => M_Metadata
  | OUpdate _ _ => M_Unknown
  end.

Definition readonly_method (m : store_method) : bool :=
  match m with
  | M_Metadata | M_NextOffset | M_FetchConsumerOffset | M_LookupConsumerOffset | M_ListConsumerOffsets
  | M_FetchConsumerGroup | M_ListConsumerGroups | M_FetchTopicConfig => true
  | _ => false
  end.

(* A tool handler as an adaptive program over the store: it may look at every
   result before choosing its next call. *)
Inductive prog :=
| Done
| Call (o : op) (k : res -> prog).

Fixpoint prog_methods_ok (allowed : store_method -> bool) (fuel : nat) (p : prog) (s : inmem) : Prop :=
  match fuel, p with
  | _, Done => True
  | O, _ => True
  | S f, Call o k => allowed (method_of o) = true /\
                     prog_methods_ok allowed f (k (snd (im_step s o))) (fst (im_step s o))
  end.

Fixpoint im_exec (fuel : nat) (p : prog) (s : inmem) : inmem :=
  match fuel, p with
  | _, Done => s
  | O, _ => s
  | S f, Call o k => let '(s', r) := im_step s o in im_exec f (k r) s'
  end.
Fixpoint et_exec (fuel : nat) (p : prog) (s : etcd) : etcd :=
  match fuel, p with
  | _, Done => s
  | O, _ => s
  | S f, Call o k => let '(s', r) := et_step s o in et_exec f (k r) s'
  end.
