(* Executable model of the proxy routing tables:
     pkg/metadata/partition_router.go : loadAll, watch (loop body), leaseKeyToRouteKey
     pkg/metadata/group_router.go     : loadAll, watch (loop body), groupLeaseKeyToGroupID
   against etcd modelled as the revisioned store of lib/RevKV.v.

   Keys are the part of the etcd key after the watched prefix
   ("/kafscale/partition-leases/" resp. "/kafscale/group-leases/"); every key the
   Get and the Watch return has that prefix, so the HasPrefix test always succeeds.

   The router is a sequential program (NewXRouter runs loadAll, then the watch
   goroutine loops  Watch; range over responses; on close: Sleep; loadAll ):
     PcInit --LoadOk--> PcLoaded --WatchStart--> PcWatching --Deliver*-->
     PcWatching --StreamClosed--> PcClosed --LoadOk|LoadFail--> PcLoaded ...
   The program counter makes [step] partial: an event that the program cannot take
   in its current position yields None.

   [fixed = true] is the code with fixes/C20-router-watch-revision.patch: the table
   remembers the revision it reflects ([r_rev]: header revision of the Get, then the
   ModRevision of every applied event) and the watch starts at r_rev+1.
   [fixed = false] is the code before the patch: Watch without a start revision,
   i.e. at the store's revision at the time of the call.
   A watch whose start revision is below the compaction revision is cancelled by
   etcd (error response, channel closed): PcClosed.
   Invalidate (proxy-initiated removal of an entry) is not an event of this model:
   it is outside the property's quantifier (lease changes and stream faults).
   No proofs in this file. *)
From KS Require Import lib.Base lib.Strings lib.RevKV.
Open Scope Z_scope.

(* ---------- key translation ---------- *)

(* split at the last occurrence of [sep]: (before, after) *)
Fixpoint split_last (sep : Z) (l : bytes) : option (bytes * bytes) :=
  match l with
  | [] => None
  | x :: l' =>
      match split_last sep l' with
      | Some (a, b) => Some (x :: a, b)
      | None => if x =? sep then Some ([], l') else None
      end
  end.

Definition is_digit (c : Z) : bool := (48 <=? c) && (c <=? 57).

Definition digits_val (ds : bytes) : Z := fold_left (fun acc c => acc * 10 + (c - 48)) ds 0.

(* strconv.ParseInt(s, 10, 32): optional sign, at least one digit, only digits, in
   int32 range; any error (syntax, range) = None *)
Definition parse_int32 (s : bytes) : option Z :=
  let '(neg, ds) := match s with
                    | 43 :: r => (false, r)
                    | 45 :: r => (true, r)
                    | _ => (false, s)
                    end in
  match ds with
  | [] => None
  | _ => if forallb is_digit ds
         then let v := digits_val ds in
              if neg then (if v <=? 2147483648 then Some (- v) else None)
              else (if v <? 2147483648 then Some v else None)
         else None
  end.

(* leaseKeyToRouteKey on the remainder "topic/partition" -> "topic:partition" *)
Definition rk_part (k : bytes) : option bytes :=
  match split_last slash k with
  | Some (topic, ps) =>
      match topic, ps with
      | [], _ => None                      (* lastSlash <= 0 *)
      | _, [] => None                      (* lastSlash == len-1 *)
      | _, _ => match parse_int32 ps with
                | Some p => Some (topic ++ colon :: dec p)
                | None => None
                end
      end
  | None => None
  end.

(* groupLeaseKeyToGroupID on the remainder *)
Definition rk_group (k : bytes) : option bytes :=
  match k with [] => None | _ => Some k end.

(* ---------- the router ---------- *)
Inductive pc := PcInit | PcLoaded | PcWatching | PcClosed.

Record router := mkRouter {
  r_routes : kvmap;     (* route key -> broker id *)
  r_rev : nat;          (* revision reflected in the table / last revision consumed *)
  r_seen : nat;         (* PcWatching: number of log entries the stream has passed *)
  r_pc : pc
}.

Record world := mkWorld { w_store : store; w_router : router }.

Definition init : world := mkWorld (mkStore [] O) (mkRouter [] O O PcInit).

Section WithKeyMap.
Variable rk : bytes -> option bytes.

(* loadAll: fresh map filled from the Kvs in key order *)
Definition project (kv : kvmap) : kvmap :=
  fold_left (fun acc e => match rk (fst e) with Some r => mset acc r (snd e) | None => acc end) kv [].

(* one watch event applied to the table *)
Definition apply_route (routes : kvmap) (e : kvev) : kvmap :=
  match e with
  | KPut k v => match rk k with Some r => mset routes r v | None => routes end
  | KDel k => match rk k with Some r => mdel routes r | None => routes end
  end.

Definition apply_routes (routes : kvmap) (revs : list (list kvev)) : kvmap :=
  fold_left (fun m evs => fold_left apply_route evs m) revs routes.

Inductive event :=
| EPut (k v : bytes)            (* a lease key is written *)
| EDel (k : bytes)              (* a lease key is deleted (no effect when absent) *)
| ETxn (ops : list kvev)        (* several operations in one revision (lease revoke) *)
| EOther                        (* a write outside the watched prefix *)
| ECompact                      (* a write outside the prefix, then compaction at that revision *)
| ECompactAt (r : nat)          (* compaction at revision r (rejected by etcd, i.e. no effect, unless compact < r <= current) *)
| ELoadOk                       (* loadAll succeeds *)
| ELoadFail                     (* loadAll fails (Get error) *)
| EWatchStart                   (* the Watch call reaches etcd *)
| EDeliver (n : nat)            (* the next response: the next n pending revisions, n >= 1 *)
| EStreamClosed.                (* the watch channel closes *)

Definition set_router (w : world) (r : router) : world := mkWorld (w_store w) r.
Definition set_store (w : world) (s : store) : world := mkWorld s (w_router w).

Definition step (fixed : bool) (w : world) (e : event) : option world :=
  let s := w_store w in
  let r := w_router w in
  match e with
  | EPut k v => Some (set_store w (commit s [KPut k v]))
  | EDel k => Some (set_store w (commit s [KDel k]))
  | ETxn ops => Some (set_store w (commit s ops))
  | EOther => Some (set_store w (commit_other s))
  | ECompact => let s' := commit_other s in Some (set_store w (mkStore (s_log s') (s_rev s')))
  | ECompactAt c =>
      if ((s_compact s <? c) && (c <=? s_rev s))%nat
      then Some (set_store w (mkStore (s_log s) c))
      else Some w
  | ELoadOk =>
      match r_pc r with
      | PcInit | PcClosed =>
          Some (set_router w (mkRouter (project (kv_now s)) (s_rev s) O PcLoaded))
      | _ => None
      end
  | ELoadFail =>
      match r_pc r with
      | PcInit => Some w                   (* the constructor returns the error; no router yet *)
      | PcClosed => Some (set_router w (mkRouter (r_routes r) (r_rev r) O PcLoaded))
      | _ => None
      end
  | EWatchStart =>
      match r_pc r with
      | PcLoaded =>
          if fixed then
            (* WithRev(r_rev+1): cancelled when that revision is compacted *)
            if (S (r_rev r) <? s_compact s)%nat
            then Some (set_router w (mkRouter (r_routes r) (r_rev r) O PcClosed))
            else Some (set_router w (mkRouter (r_routes r) (r_rev r) (r_rev r) PcWatching))
          else Some (set_router w (mkRouter (r_routes r) (r_rev r) (s_rev s) PcWatching))
      | _ => None
      end
  | EDeliver n =>
      match r_pc r, n with
      | PcWatching, S _ =>
          match take_revs (skipn (r_seen r) (s_log s)) n with
          | Some c =>
              let revs := firstn c (skipn (r_seen r) (s_log s)) in
              Some (set_router w (mkRouter (apply_routes (r_routes r) revs)
                                           (Nat.max (r_rev r) (r_seen r + c)) (r_seen r + c) PcWatching))
          | None => None
          end
      | _, _ => None
      end
  | EStreamClosed =>
      match r_pc r with
      | PcWatching => Some (set_router w (mkRouter (r_routes r) (r_rev r) O PcClosed))
      | _ => None
      end
  end.

Fixpoint run (fixed : bool) (w : world) (evs : list event) : option world :=
  match evs with
  | [] => Some w
  | e :: evs' => match step fixed w e with Some w' => run fixed w' evs' | None => None end
  end.

(* quiescent: the router is watching and the stream has nothing more to deliver *)
Definition quiescent (w : world) : Prop :=
  r_pc (w_router w) = PcWatching /\ pending (w_store w) (r_seen (w_router w)) = [].

Definition quiescentb (w : world) : bool :=
  match r_pc (w_router w), pending (w_store w) (r_seen (w_router w)) with
  | PcWatching, [] => true
  | _, _ => false
  end.

(* the table a fresh loadAll would produce now: "the owners recorded in etcd" *)
Definition etcd_routes (w : world) : kvmap := project (kv_now (w_store w)).

End WithKeyMap.
