(* Executable model of point-in-time restore (C08).  No proofs in this file.
   Modelled Go functions:
     pkg/storage/recovery.go        RecoverTopicToTimestamp (target check, source listing,
                                    inspectSourceSegment, partition filter, candidate
                                    selection by CreatedAt, copy loop, rollback defer),
                                    parseSegmentHeaderCreatedAt
     pkg/storage/recovery_exact.go  buildRestorePlan, collectRecoverableBatches,
                                    truncateRecordBatchToTimestamp, scanRecord, readVarint
     pkg/storage/segment.go         BuildSegment, buildHeader, buildFooter, parseSegmentFooter
     pkg/storage/index.go           IndexBuilder.MaybeAdd/BuildBytes, parseIndexMetadata
     pkg/storage/recordbatch.go     NewRecordBatchFromBytes (the three header fields)
     pkg/storage/s3_memory.go       the S3 object map (put/get/ranged get/delete/list)
   S3 is an association list key -> bytes with one fault bit consumed per call (true =
   the call returns an error and has no effect).  Object keys are structured
   (space 0 = source "<ns>/<topic>/", 1 = target prefix; partition; base offset; .kfs
   or .index): path.Join / Sprintf("%020d") / parseSegmentLocation are abstracted to
   this record, the harness checks the real key strings against it.
   The CRC-32C function is a parameter [crc] (Section variable). *)
From KS Require Import lib.Base lib.PitrWire.
Open Scope Z_scope.

(* ------------------------------------------------------------------ records *)
Record rec := mkRec { r_bytes : bytes; r_tsd : Z; r_od : Z }.

(* scanRecord: length varint, then [len] bytes holding attributes byte, timestamp
   delta varint, offset delta varint (int32 conversion).  None = any error. *)
Definition scan_record (l : bytes) : option (rec * bytes) :=
  match varint l with
  | None => None
  | Some (len, n) =>
      if len <? 0 then None
      else if zlen (skipn n l) <? len then None
      else
        let k := Z.to_nat len in
        match firstn k (skipn n l) with
        | [] => None                                   (* ReadByte: EOF *)
        | _ :: d1 =>
            match varint d1 with
            | None => None
            | Some (tsd, n1) =>
                match varint (skipn n1 d1) with
                | None => None
                | Some (od, _) =>
                    Some (mkRec (firstn (n + k) l) tsd (wrap_s 32 od), skipn (n + k) l)
                end
            end
        end
  end.

Definition rec_ts (first : Z) (r : rec) : Z := wrap_s 64 (first + r_tsd r).

(* the record loop of truncateRecordBatchToTimestamp: records kept before the first
   one later than the cutoff; fuel = S (length data) (every record consumes a byte) *)
Fixpoint scan_keep (fuel : nat) (cnt : Z) (data : bytes) (first T : Z) : option (list rec) :=
  match fuel with
  | O => None
  | S f =>
      if cnt <=? 0 then Some []
      else match scan_record data with
           | None => None
           | Some (r, rest) =>
               if T <? rec_ts first r then Some []
               else match scan_keep f (cnt - 1) rest first T with
                    | None => None
                    | Some rs => Some (r :: rs)
                    end
           end
  end.

(* ------------------------------------------------------------ batch header *)
(* the 61-byte record batch v2 header, as chunks *)
Record hdr := mkHdr {
  h_base : bytes;   (*  0.. 8 baseOffset *)
  h_len : bytes;    (*  8..12 batchLength *)
  h_ple : bytes;    (* 12..17 partitionLeaderEpoch, magic *)
  h_crc : bytes;    (* 17..21 crc *)
  h_attr : bytes;   (* 21..23 attributes *)
  h_lod : bytes;    (* 23..27 lastOffsetDelta *)
  h_first : bytes;  (* 27..35 firstTimestamp *)
  h_max : bytes;    (* 35..43 maxTimestamp *)
  h_mid : bytes;    (* 43..57 producerId, producerEpoch, baseSequence *)
  h_cnt : bytes     (* 57..61 numRecords *)
}.

Definition split_header (b : bytes) : hdr * bytes :=
  (mkHdr (slice 0 8 b) (slice 8 4 b) (slice 12 5 b) (slice 17 4 b) (slice 21 2 b) (slice 23 4 b)
         (slice 27 8 b) (slice 35 8 b) (slice 43 14 b) (slice 57 4 b), skipn 61 b).

(* everything after the crc field: what the checksum covers *)
Definition tail21 (h : hdr) (data : bytes) : bytes :=
  h_attr h ++ h_lod h ++ h_first h ++ h_max h ++ h_mid h ++ h_cnt h ++ data.

Definition render (h : hdr) (data : bytes) : bytes :=
  h_base h ++ h_len h ++ h_ple h ++ h_crc h ++ tail21 h data.

Fixpoint max_ts (first : Z) (m : Z) (rs : list rec) : Z :=
  match rs with
  | [] => m
  | r :: rs' => max_ts first (if m <? rec_ts first r then rec_ts first r else m) rs'
  end.

Inductive res (A : Type) := Ok (a : A) | Err.
Arguments Ok {A} a. Arguments Err {A}.

Section WithCrc.
Variable crc : bytes -> Z.

(* NewRecordBatchFromBytes: the three header fields; it rejects a negative
   lastOffsetDelta (and fewer than 61 bytes, which cannot happen at its call sites) *)
Definition b_base (b : bytes) := i64 (slice 0 8 b).
Definition b_lod (b : bytes) := i32 (slice 23 4 b).
Definition b_cnt (b : bytes) := i32 (slice 57 4 b).
Definition new_batch (b : bytes) (done : bool) : res (option bytes * bool) :=
  if b_lod b <? 0 then Err else Ok (Some b, done).

(* truncateRecordBatchToTimestamp: (Some batch bytes if kept, done) *)
Definition truncate_batch (b : bytes) (T : Z) : res (option bytes * bool) :=
  if zlen b <? 61 then Err
  else
    let '(h, data) := split_header b in
    let first := i64 (h_first h) in
    let mx := i64 (h_max h) in
    if mx <=? T then new_batch b false
    else if T <? first then Ok (None, true)
    else if negb (Z.land (i16 (h_attr h)) 7 =? 0) then Err
    else
      let cnt := i32 (h_cnt h) in
      match scan_keep (S (length data)) cnt data first T with
      | None => Err
      | Some kept =>
          if zlen kept =? 0 then Ok (None, true)
          else if zlen kept =? cnt then new_batch b true
          else
            let data' := concat (map r_bytes kept) in
            let h1 := mkHdr (h_base h) (be_enc 4 (61 + zlen data' - 12)) (h_ple h) (h_crc h) (h_attr h)
                            (be_enc 4 (r_od (last kept (mkRec [] 0 0)))) (h_first h)
                            (be_enc 8 (max_ts first first kept)) (h_mid h) (be_enc 4 (zlen kept)) in
            let h2 := mkHdr (h_base h1) (h_len h1) (h_ple h1) (be_enc 4 (crc (tail21 h1 data')))
                            (h_attr h1) (h_lod h1) (h_first h1) (h_max h1) (h_mid h1) (h_cnt h1) in
            new_batch (render h2 data') true
      end.

(* collectRecoverableBatches over the segment body *)
Fixpoint collect (fuel : nat) (body : bytes) (T : Z) : res (list bytes) :=
  match fuel with
  | O => Ok []
  | S f =>
      if zlen body <? 12 then Ok []
      else
        let blen := be_u (slice 8 4 body) in
        if blen <=? 0 then Ok []
        else
          let flen := 12 + blen in
          if zlen body <? flen then Err
          else
            match truncate_batch (firstn (Z.to_nat flen) body) T with
            | Err => Err
            | Ok (keep, done) =>
                let pre := match keep with Some b' => [b'] | None => [] end in
                if done then Ok pre
                else match collect f (skipn (Z.to_nat flen) body) T with
                     | Err => Err
                     | Ok bs => Ok (pre ++ bs)
                     end
            end
  end.

Definition magic_kafs : bytes := [75; 65; 70; 83].
Definition magic_end : bytes := [69; 78; 68; 33].
Definition magic_idx : bytes := [73; 68; 88; 0].

Definition collect_segment (seg : bytes) (T : Z) : res (list bytes) :=
  if zlen seg <? 48 then Err
  else if negb (bytes_eqb (firstn 4 seg) magic_kafs) then Err
  else let body := firstn (length seg - 48) (skipn 32 seg) in collect (S (length body)) body T.

(* parseIndexMetadata: the interval, or an error *)
Definition index_interval (ix : bytes) : res Z :=
  if zlen ix <? 16 then Err
  else if negb (bytes_eqb (firstn 4 ix) magic_idx) then Err
  else if negb (be_u (slice 4 2 ix) =? 1) then Err
  else
    let count := i32 (slice 6 4 ix) in
    if count <? 0 then Err
    else if zlen ix - 16 <? count * 12 then Err
    else Ok (i32 (slice 10 4 ix)).

(* IndexBuilder over the batches: entries (offset, position) *)
Fixpoint index_entries (interval : Z) (bs : list bytes) (pos since : Z) (first : bool) : list (Z * Z) :=
  match bs with
  | [] => []
  | b :: bs' =>
      let add := first || (interval <=? since) in
      let since' := wrap_s 32 ((if add then 0 else since) + b_cnt b) in
      (if add then [(b_base b, wrap_s 32 pos)] else []) ++
      index_entries interval bs' (pos + zlen b) since' false
  end.

Record artifact := mkArt { a_seg : bytes; a_idx : bytes; a_base : Z; a_last : Z }.

(* BuildSegment for a non-empty batch list *)
Definition build_segment (interval : Z) (bs : list bytes) (created : Z) : artifact :=
  let iv := if interval <=? 0 then 1 else interval in
  let body := concat bs in
  let lastb := last bs [] in
  let last_off := wrap_s 64 (b_base lastb + b_lod lastb) in
  let total := wrap_s 32 (fold_left (fun a b => a + b_cnt b) bs 0) in
  let base := b_base (hd [] bs) in
  let header := magic_kafs ++ be_enc 2 1 ++ be_enc 2 0 ++ be_enc 8 base ++ be_enc 4 total ++
                be_enc 8 created ++ be_enc 4 0 in
  let footer := be_enc 4 (crc body) ++ be_enc 8 last_off ++ magic_end in
  let es := index_entries iv bs 32 0 true in
  let idx := magic_idx ++ be_enc 2 1 ++ be_enc 4 (zlen es) ++ be_enc 4 iv ++ be_enc 2 0 ++
             concat (map (fun e => be_enc 8 (fst e) ++ be_enc 4 (snd e)) es) in
  mkArt (header ++ body ++ footer) idx base last_off.

(* buildRestorePlan: None = keep=false *)
Definition build_plan (seg ix : bytes) (T created : Z) : res (option artifact) :=
  match index_interval ix with
  | Err => Err
  | Ok iv =>
      match collect_segment seg T with
      | Err => Err
      | Ok [] => Ok None
      | Ok bs => Ok (Some (build_segment iv bs created))
      end
  end.

(* ------------------------------------------------------------------ S3 world *)
Record key := mkKey { k_space : Z; k_part : Z; k_base : Z; k_idx : bool }.
Definition key_eqb (a b : key) : bool :=
  (k_space a =? k_space b) && (k_part a =? k_part b) && (k_base a =? k_base b) && Bool.eqb (k_idx a) (k_idx b).

Definition store := list (key * bytes).

Fixpoint s_get (s : store) (k : key) : option bytes :=
  match s with
  | [] => None
  | (k', v) :: s' => if key_eqb k k' then Some v else s_get s' k
  end.
Fixpoint s_del (s : store) (k : key) : store :=
  match s with
  | [] => []
  | (k', v) :: s' => if key_eqb k k' then s_del s' k else (k', v) :: s_del s' k
  end.
Definition s_put (s : store) (k : key) (v : bytes) : store := s_del s k ++ [(k, v)].

Record world := mkW { w_objs : store; w_faults : list bool; w_delfail : bool }.

(* one S3 call: consumes a fault bit (none left = no fault) *)
Definition tick (w : world) : bool * world :=
  match w_faults w with
  | [] => (false, w)
  | f :: fs => (f, mkW (w_objs w) fs (w_delfail w))
  end.

(* ListSegments(prefix of [space]): the .kfs and .index objects under it, store order *)
Definition w_list (w : world) (space : Z) : res (list (key * Z)) * world :=
  let '(f, w1) := tick w in
  if f then (Err, w1)
  else (Ok (map (fun kv => (fst kv, zlen (snd kv))) (filter (fun kv => k_space (fst kv) =? space) (w_objs w1))), w1).

(* DownloadSegment / DownloadIndex with an optional inclusive byte range *)
Definition w_get (w : world) (k : key) (rng : option (Z * Z)) : res bytes * world :=
  let '(f, w1) := tick w in
  if f then (Err, w1)
  else match s_get (w_objs w1) k with
       | None => (Err, w1)
       | Some v =>
           match rng with
           | None => (Ok v, w1)
           | Some (st, en) =>
               let st' := if st <? 0 then 0 else st in
               let en' := if zlen v <=? en then zlen v - 1 else en in
               if (en' <? st') || (zlen v <=? st') then (Err, w1)
               else (Ok (firstn (Z.to_nat (en' - st' + 1)) (skipn (Z.to_nat st') v)), w1)
           end
       end.

Definition w_put (w : world) (k : key) (v : bytes) : bool * world :=
  let '(f, w1) := tick w in
  if f then (false, w1) else (true, mkW (s_put (w_objs w1) k v) (w_faults w1) (w_delfail w1)).

Definition w_del (w : world) (k : key) : world :=
  let '(f, w1) := tick w in
  if f then mkW (w_objs w1) (w_faults w1) true
  else mkW (s_del (w_objs w1) k) (w_faults w1) (w_delfail w1).

(* ------------------------------------------------------------ restore proper *)
Record srcseg := mkSeg { g_part : Z; g_base : Z; g_last : Z; g_created : Z }.

(* inspectSourceSegment *)
Definition inspect (w : world) (k : key) (size : Z) : res srcseg * world :=
  if size <? 16 then (Err, w)
  else
    let '(r1, w1) := w_get w k (Some (0, 31)) in
    match r1 with
    | Err => (Err, w1)
    | Ok hb =>
        if zlen hb <? 32 then (Err, w1)
        else if negb (bytes_eqb (firstn 4 hb) magic_kafs) then (Err, w1)
        else
          let created := i64 (slice 20 8 hb) in
          let '(r2, w2) := w_get w1 k (Some (size - 16, size - 1)) in
          match r2 with
          | Err => (Err, w2)
          | Ok fb =>
              if zlen fb <? 16 then (Err, w2)
              else if negb (bytes_eqb (slice 12 4 fb) magic_end) then (Err, w2)
              else (Ok (mkSeg (k_part k) (k_base k) (i64 (slice 4 8 fb)) created), w2)
          end
    end.

Fixpoint inspect_all (w : world) (objs : list (key * Z)) : res (list srcseg) * world :=
  match objs with
  | [] => (Ok [], w)
  | (k, size) :: objs' =>
      if k_idx k then inspect_all w objs'
      else
        let '(r, w1) := inspect w k size in
        match r with
        | Err => (Err, w1)
        | Ok g =>
            let '(r2, w2) := inspect_all w1 objs' in
            match r2 with
            | Err => (Err, w2)
            | Ok gs => (Ok (g :: gs), w2)
            end
        end
  end.

(* insertion sorts: segments by base offset, partitions ascending without duplicates *)
Fixpoint ins_seg (g : srcseg) (l : list srcseg) : list srcseg :=
  match l with
  | [] => [g]
  | x :: l' => if g_base g <? g_base x then g :: l else x :: ins_seg g l'
  end.
Definition sort_segs (l : list srcseg) : list srcseg := fold_right ins_seg [] l.
Fixpoint ins_part (p : Z) (l : list Z) : list Z :=
  match l with
  | [] => [p]
  | x :: l' => if p <? x then p :: l else if p =? x then l else x :: ins_part p l'
  end.
Definition sort_parts (l : list Z) : list Z := fold_right ins_part [] l.

(* index of the last candidate: first segment created after T, else the last one *)
Fixpoint last_candidate (segs : list srcseg) (T : Z) (i : nat) : nat :=
  match segs with
  | [] => (i - 1)%nat
  | g :: segs' => if T <? g_created g then i else last_candidate segs' T (S i)
  end.

Definition seg_key (space p base : Z) := mkKey space p base false.
Definition idx_key (space p base : Z) := mkKey space p base true.

(* one partition's copy loop; [i] counts up to the last candidate [lc].
   returns (error?, world, copied target bases (newest first), segments copied, last offset) *)
Fixpoint copy_loop (w : world) (p : Z) (segs : list srcseg) (i lc : nat) (T : Z)
         (copied : list (Z * Z)) (n last : Z) : bool * world * list (Z * Z) * Z * Z :=
  match segs with
  | [] => (true, w, copied, n, last)
  | g :: segs' =>
      if (lc <? i)%nat then (true, w, copied, n, last)
      else
        let '(r1, w1) := w_get w (seg_key 0 p (g_base g)) None in
        match r1 with
        | Err => (false, w1, copied, n, last)
        | Ok sb =>
            let '(r2, w2) := w_get w1 (idx_key 0 p (g_base g)) None in
            match r2 with
            | Err => (false, w2, copied, n, last)
            | Ok ib =>
                let plan := if (i =? lc)%nat then build_plan sb ib T (g_created g)
                            else Ok (Some (mkArt sb ib (g_base g) (g_last g))) in
                match plan with
                | Err => (false, w2, copied, n, last)
                | Ok None => (true, w2, copied, n, last)
                | Ok (Some a) =>
                    let '(ok3, w3) := w_put w2 (seg_key 1 p (a_base a)) (a_seg a) in
                    if negb ok3 then (false, w3, copied, n, last)
                    else
                      let copied' := (p, a_base a) :: copied in
                      let '(ok4, w4) := w_put w3 (idx_key 1 p (a_base a)) (a_idx a) in
                      if negb ok4 then (false, w4, copied', n, last)
                      else copy_loop w4 p segs' (S i) lc T copied' (n + 1) (a_last a)
                end
            end
        end
  end.

Fixpoint copy_parts (w : world) (parts : list Z) (all : list srcseg) (T : Z) (copied : list (Z * Z))
         (summ : list (Z * Z * Z)) : bool * world * list (Z * Z) * list (Z * Z * Z) :=
  match parts with
  | [] => (true, w, copied, summ)
  | p :: parts' =>
      let segs := sort_segs (filter (fun g => g_part g =? p) all) in
      let lc := last_candidate segs T 0 in
      let '(ok, w1, copied1, n, last) := copy_loop w p segs 0 lc T copied 0 (-1) in
      if ok then copy_parts w1 parts' all T copied1 (summ ++ [(p, n, last)])
      else (false, w1, copied1, summ)
  end.

(* the rollback defer: newest copy first; index then segment *)
Fixpoint rollback (w : world) (copied : list (Z * Z)) : world :=
  match copied with
  | [] => w
  | (p, b) :: copied' => rollback (w_del (w_del w (idx_key 1 p b)) (seg_key 1 p b)) copied'
  end.

(* RecoverTopicToTimestamp.  [parts] = cfg.Partitions ([] = all).
   Result: per-partition summary (partition, segments copied, last offset) or Err. *)
Definition restore (w : world) (T : Z) (parts : list Z) : res (list (Z * Z * Z)) * world :=
  let '(r0, w0) := w_list w 1 in
  match r0 with
  | Err => (Err, w0)
  | Ok existing =>
      if existsb (fun o => negb (k_idx (fst o))) existing then (Err, w0)
      else
        let '(r1, w1) := w_list w0 0 in
        match r1 with
        | Err => (Err, w1)
        | Ok objs =>
            let '(r2, w2) := inspect_all w1 objs in
            match r2 with
            | Err => (Err, w2)
            | Ok all =>
                let sel := filter (fun g => match parts with [] => true | _ => existsb (Z.eqb (g_part g)) parts end) all in
                let ps := sort_parts (map g_part sel) in
                let '(ok, w3, copied, summ) := copy_parts w2 ps sel T [] [] in
                if ok then (Ok summ, w3) else (Err, rollback w3 copied)
            end
        end
  end.

End WithCrc.

(* ------------------------------------------------- specification-side decoding *)
(* all records of a batch, as an independent reader would decode them: numRecords
   records from the bytes after the 61-byte header *)
Fixpoint parse_records (fuel : nat) (cnt : Z) (data : bytes) : option (list rec) :=
  match fuel with
  | O => None
  | S f =>
      if cnt <=? 0 then Some []
      else match scan_record data with
           | None => None
           | Some (r, rest) =>
               match parse_records f (cnt - 1) rest with
               | None => None
               | Some rs => Some (r :: rs)
               end
           end
  end.

(* (baseOffset, firstTimestamp, records) *)
Definition batch_view (b : bytes) : option (Z * Z * list rec) :=
  if zlen b <? 61 then None
  else
    let '(h, data) := split_header b in
    match parse_records (S (length data)) (i32 (h_cnt h)) data with
    | None => None
    | Some rs => Some (i64 (h_base h), i64 (h_first h), rs)
    end.

(* a record as the property sees it: (offset, timestamp, its bytes) *)
Definition rview (base first : Z) (r : rec) : Z * Z * bytes :=
  (wrap_s 64 (base + r_od r), rec_ts first r, r_bytes r).

Definition batch_records (b : bytes) : option (list (Z * Z * bytes)) :=
  match batch_view b with
  | Some (base, first, rs) => Some (map (rview base first) rs)
  | None => None
  end.

Fixpoint take_while {A} (p : A -> bool) (l : list A) : list A :=
  match l with
  | [] => []
  | x :: l' => if p x then x :: take_while p l' else []
  end.

(* the guard of the prefix clause: the batch decodes, is not empty, is uncompressed,
   its header's firstTimestamp is the first record's timestamp and its maxTimestamp
   the maximum -- what standard producers write *)
Definition hdr_consistent (b : bytes) : Prop :=
  61 <= zlen b /\
  match batch_view b with
  | Some (base, first, rs) =>
      rs <> [] /\ zlen rs < 2 ^ 31 /\
      rec_ts first (hd (mkRec [] 0 0) rs) = first /\
      i64 (slice 35 8 b) = max_ts first first rs /\
      Z.land (i16 (slice 21 2 b)) 7 = 0 /\
      0 <= b_lod b
  | None => False
  end.

Definition ts_ok (T : Z) (v : Z * Z * bytes) : bool := snd (fst v) <=? T.

(* ----------------------------------------------- fault-free restore specification *)
(* What a successful restore must leave in S3, written without worlds, faults or
   rollback: used to state completeness and order of the copy (C08_prefix). *)
Section Spec.
Variable crc : bytes -> Z.

(* ---------- the specification: what the copy of one partition must write ---------- *)
Fixpoint plan_list (s : store) (p : Z) (segs : list srcseg) (i lc : nat) (T : Z) : list artifact :=
  match segs with
  | [] => []
  | g :: segs' =>
      if (lc <? i)%nat then []
      else match s_get s (seg_key 0 p (g_base g)), s_get s (idx_key 0 p (g_base g)) with
           | Some sb, Some ib =>
               match (if (i =? lc)%nat then build_plan crc sb ib T (g_created g)
                      else Ok (Some (mkArt sb ib (g_base g) (g_last g)))) with
               | Ok (Some a) => a :: plan_list s p segs' (S i) lc T
               | _ => []
               end
           | _, _ => []
           end
  end.

Definition put_art (p : Z) (s : store) (a : artifact) : store :=
  s_put (s_put s (seg_key 1 p (a_base a)) (a_seg a)) (idx_key 1 p (a_base a)) (a_idx a).
Definition puts_of (p : Z) (arts : list artifact) (s : store) : store := fold_left (put_art p) arts s.

Definition part_spec (s0 : store) (all : list srcseg) (T : Z) (cur : store) (p : Z) : store :=
  let segs := sort_segs (filter (fun g => g_part g =? p) all) in
  puts_of p (plan_list s0 p segs 0 (last_candidate segs T 0) T) cur.

(* fault-free inspection of the listed source objects *)
Definition get_range (v : bytes) (st en : Z) : option bytes :=
  let st' := if st <? 0 then 0 else st in
  let en' := if zlen v <=? en then zlen v - 1 else en in
  if (en' <? st') || (zlen v <=? st') then None
  else Some (firstn (Z.to_nat (en' - st' + 1)) (skipn (Z.to_nat st') v)).

Definition inspect_pure (s : store) (k : key) (size : Z) : option srcseg :=
  if size <? 16 then None
  else match s_get s k with
       | None => None
       | Some v =>
           match get_range v 0 31, get_range v (size - 16) (size - 1) with
           | Some hb, Some fb =>
               if (zlen hb <? 32) || negb (bytes_eqb (firstn 4 hb) magic_kafs) ||
                  (zlen fb <? 16) || negb (bytes_eqb (slice 12 4 fb) magic_end) then None
               else Some (mkSeg (k_part k) (k_base k) (i64 (slice 4 8 fb)) (i64 (slice 20 8 hb)))
           | _, _ => None
           end
       end.

Fixpoint inspect_all_pure (s : store) (objs : list (key * Z)) : option (list srcseg) :=
  match objs with
  | [] => Some []
  | (k, size) :: objs' =>
      if k_idx k then inspect_all_pure s objs'
      else match inspect_pure s k size, inspect_all_pure s objs' with
           | Some g, Some gs => Some (g :: gs)
           | _, _ => None
           end
  end.

Definition list_pure (s : store) (space : Z) : list (key * Z) :=
  map (fun kv => (fst kv, zlen (snd kv))) (filter (fun kv => k_space (fst kv) =? space) s).

(* the whole restore without faults: the store it must leave *)
Definition restore_spec (s0 : store) (T : Z) (parts : list Z) : option store :=
  if existsb (fun o => negb (k_idx (fst o))) (list_pure s0 1) then None
  else match inspect_all_pure s0 (list_pure s0 0) with
       | None => None
       | Some all =>
           let sel := filter (fun g => match parts with [] => true | _ => existsb (Z.eqb (g_part g)) parts end) all in
           Some (fold_left (part_spec s0 sel T) (sort_parts (map g_part sel)) s0)
       end.

End Spec.
