(* Executable model of the Kafka proxy in cmd/proxy/main.go (package main).

   Part A (C28) models
     buildProxyMetadataResponse (with fixes/C28-rewrite-error-topic-partitions.patch:
       partitions of topics that carry a topic-level error are rewritten too),
     proxy.loadMetadata,  proxy.handleFindCoordinator,
     the Metadata and FindCoordinator cases of proxy.buildNotReadyResponse,
     and, below loadMetadata, pkg/metadata InMemoryStore.Metadata / filterTopics
     (the name filter the proxy's store applies; "cluster metadata" is what
     store.Metadata(ctx, nil) returns).
   Part B (C27) models
     groupPartitionsByBroker / groupFetchPartitionsByBroker, fetchTopicKey,
     forwardProduce / forwardFetch (retry loop, merge, tail), the result handling of
     fanOutProduce / fanOutFetch, connectForAddr / connectBackendExcluding (static
     backend list, round-robin counter), findOrAddTopicResponse /
     findOrAddFetchTopicResponse, addErrorForAllPartitions /
     addFetchErrorForAllPartitions, PartitionRouter.LookupOwner / Invalidate,
     brokerIDToAddr and resolveTopicID over static tables.
   No proofs here. *)
From KS Require Import lib.Base.
Open Scope Z_scope.

(* ------------------------------------------------------------------ *)
(* Part A: metadata / coordinator / not-ready replies (C28)            *)
(* ------------------------------------------------------------------ *)

Definition ERR_NONE : Z := 0.
Definition ERR_UNKNOWN_TOPIC_OR_PARTITION : Z := 3.
Definition ERR_NOT_LEADER : Z := 6.
Definition ERR_REQUEST_TIMED_OUT : Z := 7.
Definition ERR_UNKNOWN_TOPIC_ID : Z := 100.

(* A topic id is the 16 bytes of the UUID; the zero id is sixteen zeros. *)
Definition zero_id : bytes := [0;0;0;0;0;0;0;0;0;0;0;0;0;0;0;0].
Definition is_zero_id (id : bytes) : bool := forallb (Z.eqb 0) id.

Record mpart := mkMPart {
  mp_err : Z; mp_id : Z; mp_leader : Z; mp_epoch : Z;
  mp_replicas : list Z; mp_isr : list Z; mp_offline : list Z }.

Record mtopic := mkMTopic {
  mt_err : Z; mt_name : option bytes; mt_id : bytes; mt_internal : bool;
  mt_parts : list mpart }.

Record mbroker := mkMBroker { mb_node : Z; mb_host : bytes; mb_port : Z }.

Record cluster := mkCluster {
  cl_brokers : list mbroker; cl_controller : Z; cl_topics : list mtopic;
  cl_id : option bytes }.

(* kmsg.MetadataRequest: Topics == nil (all topics) or a list of (name pointer, id) *)
Record mreq := mkMReq { mr_all : bool; mr_topics : list (option bytes * bytes) }.

Definition name_eqb (a : option bytes) (n : bytes) : bool :=
  match a with Some x => bytes_eqb x n | None => false end.

(* Go map built by iterating and overwriting: the last entry with the key wins *)
Fixpoint find_last {A} (f : A -> bool) (l : list A) : option A :=
  match l with
  | [] => None
  | x :: l' => match find_last f l' with
               | Some y => Some y
               | None => if f x then Some x else None
               end
  end.

(* pkg/metadata filterTopics (requested non-empty) *)
Definition filter_topics (all : list mtopic) (names : list bytes) : list mtopic :=
  map (fun n => match find_last (fun t => name_eqb (mt_name t) n) all with
                | Some t => t
                | None => mkMTopic ERR_UNKNOWN_TOPIC_OR_PARTITION (Some n) zero_id false []
                end) names.

(* InMemoryStore.Metadata on the (already cloned) state *)
Definition store_metadata (c : cluster) (names : list bytes) : cluster :=
  match names with
  | [] => c
  | _ => mkCluster (cl_brokers c) (cl_controller c) (filter_topics (cl_topics c) names) (cl_id c)
  end.

(* the scan at the top of loadMetadata: stops at the first non-zero id *)
Fixpoint scan_names (ts : list (option bytes * bytes)) (acc : list bytes) : bool * list bytes :=
  match ts with
  | [] => (false, acc)
  | (n, id) :: ts' =>
      if negb (is_zero_id id) then (true, acc)
      else scan_names ts' (match n with Some x => acc ++ [x] | None => acc end)
  end.

Definition filter_ids (all : list mtopic) (ts : list (option bytes * bytes)) : list mtopic :=
  flat_map (fun t : option bytes * bytes =>
    let id := snd t in
    if is_zero_id id then []
    else match find_last (fun ct => bytes_eqb (mt_id ct) id) all with
         | Some ct => [ct]
         | None => [mkMTopic ERR_UNKNOWN_TOPIC_ID None id false []]
         end) ts.

Definition load_metadata (c : cluster) (r : mreq) : cluster :=
  let '(use_ids, names) := if mr_all r then (false, []) else scan_names (mr_topics r) [] in
  if use_ids
  then mkCluster (cl_brokers c) (cl_controller c) (filter_ids (cl_topics c) (mr_topics r)) (cl_id c)
  else store_metadata c names.

Definition rewrite_part (p : mpart) : mpart :=
  mkMPart (mp_err p) (mp_id p) 0 (mp_epoch p) [0] [0] [].

Definition rewrite_topic (t : mtopic) : mtopic :=
  mkMTopic (mt_err t) (mt_name t) (mt_id t) (mt_internal t) (map rewrite_part (mt_parts t)).

(* buildProxyMetadataResponse as shipped: a topic with a topic-level error code is
   copied verbatim (its partitions keep the real leader / replica ids) *)
Definition rewrite_topic_unfixed (t : mtopic) : mtopic :=
  if mt_err t =? ERR_NONE then rewrite_topic t else t.

Definition build_response_with (f : mtopic -> mtopic) (m : cluster) (host : bytes) (port : Z) : cluster :=
  mkCluster [mkMBroker 0 host port] 0 (map f (cl_topics m)) (cl_id m).

(* buildProxyMetadataResponse (fixed) *)
Definition build_response := build_response_with rewrite_topic.
Definition build_response_unfixed := build_response_with rewrite_topic_unfixed.

(* handleMetadata on a ready proxy *)
Definition handle_metadata (c : cluster) (r : mreq) (host : bytes) (port : Z) : cluster :=
  build_response (load_metadata c r) host port.
Definition handle_metadata_unfixed (c : cluster) (r : mreq) (host : bytes) (port : Z) : cluster :=
  build_response_unfixed (load_metadata c r) host port.

(* buildNotReadyResponse, Metadata case *)
Definition not_ready_metadata (r : mreq) : cluster :=
  mkCluster [] (-1)
    (map (fun t : option bytes * bytes => mkMTopic ERR_REQUEST_TIMED_OUT (fst t) (snd t) false [])
         (if mr_all r then [] else mr_topics r))
    None.

(* FindCoordinator replies: (error, node, host, port) *)
Record coord := mkCoord { co_err : Z; co_node : Z; co_host : bytes; co_port : Z }.
Definition handle_find_coordinator (host : bytes) (port : Z) : coord := mkCoord ERR_NONE 0 host port.
Definition not_ready_coordinator : coord := mkCoord ERR_REQUEST_TIMED_OUT (-1) [] 0.

(* What a client decodes at Metadata version v (0..12): fields that are not on the
   wire at v come back as kmsg's defaults. *)
Definition wire_part (v : Z) (p : mpart) : mpart :=
  mkMPart (mp_err p) (mp_id p) (mp_leader p) (if v <? 7 then -1 else mp_epoch p)
          (mp_replicas p) (mp_isr p) (if v <? 5 then [] else mp_offline p).
Definition wire_topic (v : Z) (t : mtopic) : mtopic :=
  mkMTopic (mt_err t)
           (if v <? 12 then Some (match mt_name t with Some n => n | None => [] end) else mt_name t)
           (if v <? 10 then zero_id else mt_id t)
           (if v <? 1 then false else mt_internal t)
           (map (wire_part v) (mt_parts t)).
Definition wire_cluster (v : Z) (c : cluster) : cluster :=
  mkCluster (cl_brokers c) (if v <? 1 then -1 else cl_controller c)
            (map (wire_topic v) (cl_topics c)) (if v <? 2 then None else cl_id c).
