(* Executable model of the Kafka proxy in cmd/proxy/main.go (package main).

   Part A (C28) models
     buildProxyMetadataResponse (with fixes/C28-rewrite-error-topic-partitions.patch:
       partitions of topics that carry a topic-level error are rewritten too),
     proxy.loadMetadata,  proxy.handleFindCoordinator,
     the Metadata and FindCoordinator cases of proxy.buildNotReadyResponse,
     and, below loadMetadata, pkg/metadata InMemoryStore.Metadata / filterTopics
     (the name filter the proxy's store applies; "cluster metadata" is what
     store.Metadata(ctx, nil) returns).
   Part B (C27) models
     groupPartitionsByBroker / groupFetchPartitionsByBroker, fetchTopicKey,
     forwardProduce / forwardFetch (retry loop, merge, tail), the result handling of
     fanOutProduce / fanOutFetch, connectForAddr / connectBackendExcluding (static
     backend list, round-robin counter), findOrAddTopicResponse /
     findOrAddFetchTopicResponse, addErrorForAllPartitions /
     addFetchErrorForAllPartitions, PartitionRouter.LookupOwner / Invalidate,
     brokerIDToAddr and resolveTopicID over static tables.
   No proofs here. *)
From KS Require Import lib.Base.
Open Scope Z_scope.

(* ------------------------------------------------------------------ *)
(* Part A: metadata / coordinator / not-ready replies (C28)            *)
(* ------------------------------------------------------------------ *)

Definition ERR_NONE : Z := 0.
Definition ERR_UNKNOWN_TOPIC_OR_PARTITION : Z := 3.
Definition ERR_NOT_LEADER : Z := 6.
Definition ERR_REQUEST_TIMED_OUT : Z := 7.
Definition ERR_UNKNOWN_TOPIC_ID : Z := 100.

(* A topic id is the 16 bytes of the UUID; the zero id is sixteen zeros. *)
Definition zero_id : bytes := [0;0;0;0;0;0;0;0;0;0;0;0;0;0;0;0].
Definition is_zero_id (id : bytes) : bool := forallb (Z.eqb 0) id.

Record mpart := mkMPart {
  mp_err : Z; mp_id : Z; mp_leader : Z; mp_epoch : Z;
  mp_replicas : list Z; mp_isr : list Z; mp_offline : list Z }.

Record mtopic := mkMTopic {
  mt_err : Z; mt_name : option bytes; mt_id : bytes; mt_internal : bool;
  mt_parts : list mpart }.

Record mbroker := mkMBroker { mb_node : Z; mb_host : bytes; mb_port : Z }.

Record cluster := mkCluster {
  cl_brokers : list mbroker; cl_controller : Z; cl_topics : list mtopic;
  cl_id : option bytes }.

(* kmsg.MetadataRequest: Topics == nil (all topics) or a list of (name pointer, id) *)
Record mreq := mkMReq { mr_all : bool; mr_topics : list (option bytes * bytes) }.

Definition name_eqb (a : option bytes) (n : bytes) : bool :=
  match a with Some x => bytes_eqb x n | None => false end.

(* Go map built by iterating and overwriting: the last entry with the key wins *)
Fixpoint find_last {A} (f : A -> bool) (l : list A) : option A :=
  match l with
  | [] => None
  | x :: l' => match find_last f l' with
               | Some y => Some y
               | None => if f x then Some x else None
               end
  end.

(* pkg/metadata filterTopics (requested non-empty) *)
Definition filter_topics (all : list mtopic) (names : list bytes) : list mtopic :=
  map (fun n => match find_last (fun t => name_eqb (mt_name t) n) all with
                | Some t => t
                | None => mkMTopic ERR_UNKNOWN_TOPIC_OR_PARTITION (Some n) zero_id false []
                end) names.

(* InMemoryStore.Metadata on the (already cloned) state *)
Definition store_metadata (c : cluster) (names : list bytes) : cluster :=
  match names with
  | [] => c
  | _ => mkCluster (cl_brokers c) (cl_controller c) (filter_topics (cl_topics c) names) (cl_id c)
  end.

(* the scan at the top of loadMetadata: stops at the first non-zero id *)
Fixpoint scan_names (ts : list (option bytes * bytes)) (acc : list bytes) : bool * list bytes :=
  match ts with
  | [] => (false, acc)
  | (n, id) :: ts' =>
      if negb (is_zero_id id) then (true, acc)
      else scan_names ts' (match n with Some x => acc ++ [x] | None => acc end)
  end.

Definition filter_ids (all : list mtopic) (ts : list (option bytes * bytes)) : list mtopic :=
  flat_map (fun t : option bytes * bytes =>
    let id := snd t in
    if is_zero_id id then []
    else match find_last (fun ct => bytes_eqb (mt_id ct) id) all with
         | Some ct => [ct]
         | None => [mkMTopic ERR_UNKNOWN_TOPIC_ID None id false []]
         end) ts.

Definition load_metadata (c : cluster) (r : mreq) : cluster :=
  let '(use_ids, names) := if mr_all r then (false, []) else scan_names (mr_topics r) [] in
  if use_ids
  then mkCluster (cl_brokers c) (cl_controller c) (filter_ids (cl_topics c) (mr_topics r)) (cl_id c)
  else store_metadata c names.

Definition rewrite_part (p : mpart) : mpart :=
  mkMPart (mp_err p) (mp_id p) 0 (mp_epoch p) [0] [0] [].

Definition rewrite_topic (t : mtopic) : mtopic :=
  mkMTopic (mt_err t) (mt_name t) (mt_id t) (mt_internal t) (map rewrite_part (mt_parts t)).

(* buildProxyMetadataResponse as shipped: a topic with a topic-level error code is
   copied verbatim (its partitions keep the real leader / replica ids) *)
Definition rewrite_topic_unfixed (t : mtopic) : mtopic :=
  if mt_err t =? ERR_NONE then rewrite_topic t else t.

Definition build_response_with (f : mtopic -> mtopic) (m : cluster) (host : bytes) (port : Z) : cluster :=
  mkCluster [mkMBroker 0 host port] 0 (map f (cl_topics m)) (cl_id m).

(* buildProxyMetadataResponse (fixed) *)
Definition build_response := build_response_with rewrite_topic.
Definition build_response_unfixed := build_response_with rewrite_topic_unfixed.

(* handleMetadata on a ready proxy *)
Definition handle_metadata (c : cluster) (r : mreq) (host : bytes) (port : Z) : cluster :=
  build_response (load_metadata c r) host port.
Definition handle_metadata_unfixed (c : cluster) (r : mreq) (host : bytes) (port : Z) : cluster :=
  build_response_unfixed (load_metadata c r) host port.

(* the Metadata case of handleConnection on a ready proxy: when the store fails
   (error / timeout) handleMetadata returns the error and the connection is dropped
   without a reply; the request is never handed to a backend *)
Definition conn_metadata (store_ok : bool) (c : cluster) (r : mreq) (host : bytes) (port : Z) : option cluster :=
  if store_ok then Some (handle_metadata c r host port) else None.

(* buildNotReadyResponse, Metadata case *)
Definition not_ready_metadata (r : mreq) : cluster :=
  mkCluster [] (-1)
    (map (fun t : option bytes * bytes => mkMTopic ERR_REQUEST_TIMED_OUT (fst t) (snd t) false [])
         (if mr_all r then [] else mr_topics r))
    None.

(* FindCoordinator replies: (error, node, host, port) *)
Record coord := mkCoord { co_err : Z; co_node : Z; co_host : bytes; co_port : Z }.
Definition handle_find_coordinator (host : bytes) (port : Z) : coord := mkCoord ERR_NONE 0 host port.
Definition not_ready_coordinator : coord := mkCoord ERR_REQUEST_TIMED_OUT (-1) [] 0.

(* What a client decodes at Metadata version v (0..12): fields that are not on the
   wire at v come back as kmsg's defaults. *)
Definition wire_part (v : Z) (p : mpart) : mpart :=
  mkMPart (mp_err p) (mp_id p) (mp_leader p) (if v <? 7 then -1 else mp_epoch p)
          (mp_replicas p) (mp_isr p) (if v <? 5 then [] else mp_offline p).
Definition wire_topic (v : Z) (t : mtopic) : mtopic :=
  mkMTopic (mt_err t)
           (if v <? 12 then Some (match mt_name t with Some n => n | None => [] end) else mt_name t)
           (if v <? 10 then zero_id else mt_id t)
           (if v <? 1 then false else mt_internal t)
           (map (wire_part v) (mt_parts t)).
Definition wire_cluster (v : Z) (c : cluster) : cluster :=
  mkCluster (cl_brokers c) (if v <? 1 then -1 else cl_controller c)
            (map (wire_topic v) (cl_topics c)) (if v <? 2 then None else cl_id c).

(* ------------------------------------------------------------------ *)
(* Part B: produce / fetch fan-out, retry and merge (C27)              *)
(* ------------------------------------------------------------------ *)

(* A topic as the proxy holds it in kmsg structs: name and 16-byte id (zero when the
   version carries names only; the name is "" in replies of id-carrying versions). *)
Record topic := mkTopic { t_name : bytes; t_id : bytes }.

Definition tpk : Type := bytes * Z.            (* (topic key, partition) *)
Definition tpk_eqb (a b : tpk) : bool := bytes_eqb (fst a) (fst b) && (snd a =? snd b).
Definition mem_tpk (x : tpk) (l : list tpk) : bool := existsb (tpk_eqb x) l.

Definition subreq : Type := list (topic * list Z).    (* topics with their partitions *)
Record group := mkGroup { g_addr : bytes; g_sub : subreq }.

Definition rpart : Type := topic * Z * Z.             (* reply: topic, partition, error code *)
Inductive outcome :=
| Reply (parts : list rpart)
| FailBefore        (* the connection breaks before the backend has the request *)
| FailAfter         (* the backend has the request; the connection breaks before a reply *)
| Unparseable.      (* the backend's reply does not decode *)

(* fmt.Sprintf("id:%x", id) *)
Definition hex_digit (n : Z) : Z := if n <? 10 then 48 + n else 87 + n.
Definition hex_bytes (b : bytes) : bytes := flat_map (fun x => [hex_digit (x / 16); hex_digit (x mod 16)]) b.
Definition is_empty (b : bytes) : bool := match b with [] => true | _ => false end.

(* fetchTopicKey *)
Definition fetch_key (name id : bytes) : bytes :=
  if is_empty name then [105;100;58] ++ hex_bytes id else name.

Fixpoint assoc (k : bytes) (l : list (bytes * bytes)) : bytes :=
  match l with
  | [] => []
  | (a, b) :: l' => if bytes_eqb a k then b else assoc k l'
  end.

(* Static tables of one request: the proxy's mode (produce / fetch), topicNames
   (id -> name; never holds the zero id), brokerAddrs (broker id -> addr), the static
   backend list and backendRetries. *)
Record env := mkEnv {
  e_fetch : bool;
  e_names : list (bytes * bytes);
  e_addrs : list (bytes * bytes);
  e_backends : list bytes;
  e_retries : nat }.

(* resolveTopicID over the static table *)
Definition resolve (E : env) (id : bytes) : bytes := if is_zero_id id then [] else assoc id (e_names E).

(* resolveFetchTopicNames (fetch only) *)
Definition resolve_req (E : env) (r : subreq) : subreq :=
  if e_fetch E
  then map (fun tp : topic * list Z =>
         let t := fst tp in
         if is_empty (t_name t) && negb (is_zero_id (t_id t))
         then (mkTopic (resolve E (t_id t)) (t_id t), snd tp) else tp) r
  else r.

(* key of a request / sub-request topic in failedPartitions, include and topicIndices *)
Definition key (E : env) (t : topic) : bytes :=
  if e_fetch E then fetch_key (t_name t) (t_id t) else t_name t.

(* name under which a reply topic is retried / invalidated: forwardFetch resolves an
   empty name through the id, forwardProduce uses the name *)
Definition reply_name (E : env) (t : topic) : bytes :=
  if e_fetch E then (if is_empty (t_name t) then resolve E (t_id t) else t_name t) else t_name t.

Definition rkey (E : env) (t : topic) : bytes :=
  if e_fetch E then fetch_key (reply_name E t) (t_id t) else t_name t.

(* findOrAddTopicResponse / findOrAddFetchTopicResponse: does entry e answer query q *)
Definition same (E : env) (e q : topic) : bool :=
  if e_fetch E
  then (if negb (is_zero_id (t_id q)) then bytes_eqb (t_id e) (t_id q) else bytes_eqb (t_name e) (t_name q))
  else bytes_eqb (t_name e) (t_name q).

(* routing table: (topic name, partition, broker id) *)
Definition route : Type := bytes * Z * bytes.
Fixpoint lookup_owner (rs : list route) (name : bytes) (p : Z) : bytes :=
  match rs with
  | [] => []
  | (n, q, b) :: rs' => if bytes_eqb n name && (q =? p) then b else lookup_owner rs' name p
  end.
Definition invalidate (rs : list route) (name : bytes) (p : Z) : list route :=
  filter (fun r : route => negb (bytes_eqb (fst (fst r)) name && (snd (fst r) =? p))) rs.

(* address of the owning broker, "" when unknown (round-robin fallback) *)
Definition owner_addr (E : env) (rs : list route) (t : topic) (p : Z) : bytes :=
  if e_fetch E && is_empty (t_name t) then []
  else let b := lookup_owner rs (t_name t) p in
       if is_empty b then [] else assoc b (e_addrs E).

(* ---- grouping ---- *)
Definition flatten (r : subreq) : list (topic * Z) :=
  flat_map (fun tp : topic * list Z => map (fun p => (fst tp, p)) (snd tp)) r.

Fixpoint sub_insert (E : env) (s : subreq) (t : topic) (p : Z) : subreq :=
  match s with
  | [] => [(t, [p])]
  | (t', ps) :: s' =>
      if bytes_eqb (key E t') (key E t) then (t', ps ++ [p]) :: s'
      else (t', ps) :: sub_insert E s' t p
  end.

Fixpoint grp_insert (E : env) (gs : list group) (addr : bytes) (t : topic) (p : Z) : list group :=
  match gs with
  | [] => [mkGroup addr [(t, [p])]]
  | g :: gs' =>
      if bytes_eqb (g_addr g) addr then mkGroup (g_addr g) (sub_insert E (g_sub g) t p) :: gs'
      else g :: grp_insert E gs' addr t p
  end.

(* groupPartitionsByBroker / groupFetchPartitionsByBroker; incl = None: all partitions *)
Definition included (E : env) (incl : option (list tpk)) (x : topic * Z) : bool :=
  match incl with None => true | Some f => mem_tpk (key E (fst x), snd x) f end.

Definition group_by (E : env) (rs : list route) (r : subreq) (incl : option (list tpk)) : list group :=
  fold_left (fun gs (x : topic * Z) => grp_insert E gs (owner_addr E rs (fst x) (snd x)) (fst x) (snd x))
            (filter (included E incl) (flatten r)) [].

(* ---- connecting ---- *)
Definition mem_bytes (x : bytes) (l : list bytes) : bool := existsb (bytes_eqb x) l.

(* one pass of connectBackendExcluding's inner loop starting at index start *)
Fixpoint scan_backends (dial : bytes -> bool) (tried : list bytes) (bs : list bytes) (n : nat) (start : Z) : option bytes :=
  match n with
  | O => None
  | S n' =>
      let a := nth (Z.to_nat (start mod zlen bs)) bs [] in
      if negb (mem_bytes a tried) && dial a then Some a
      else scan_backends dial tried bs n' (start + 1)
  end.

Fixpoint connect_excluding (E : env) (dial : bytes -> bool) (tried : list bytes) (retries : nat) (rr : Z) : option bytes * Z :=
  match retries with
  | O => (None, rr)
  | S r' =>
      let rr1 := rr + 1 in
      match scan_backends dial tried (e_backends E) (length (e_backends E)) rr1 with
      | Some a => (Some a, rr1)
      | None => connect_excluding E dial tried r' rr1
      end
  end.

(* connectForAddr *)
Definition connect_for_addr (E : env) (dial : bytes -> bool) (addr : bytes) (tried : list bytes) (rr : Z) : option bytes * Z :=
  if negb (is_empty addr) && negb (mem_bytes addr tried) && dial addr then (Some addr, rr)
  else connect_excluding E dial tried (e_retries E) rr.

(* the connect loop of fanOutProduce / fanOutFetch over the groups in iteration order *)
Fixpoint connect_all (E : env) (dial : bytes -> bool) (gs : list group) (tried : list bytes) (rr : Z)
  : list (group * option bytes) * Z :=
  match gs with
  | [] => ([], rr)
  | g :: gs' =>
      let '(r, rr1) := connect_for_addr E dial (g_addr g) tried rr in
      let tried1 := match r with Some a => a :: tried | None => tried end in
      let '(rest, rr2) := connect_all E dial gs' tried1 rr1 in
      ((g, r) :: rest, rr2)
  end.

(* ---- merging ---- *)
Definition merged : Type := list (topic * list (Z * Z)).   (* topic, [(partition, code)] *)

Fixpoint add_part (E : env) (m : merged) (q : topic) (pc : Z * Z) : merged :=
  match m with
  | [] => [(q, [pc])]
  | (e, es) :: m' => if same E e q then (e, es ++ [pc]) :: m' else (e, es) :: add_part E m' q pc
  end.

(* findOrAdd...TopicResponse with nothing appended *)
Fixpoint ensure_topic (E : env) (m : merged) (q : topic) : merged :=
  match m with
  | [] => [(q, [])]
  | (e, es) :: m' => if same E e q then m else (e, es) :: ensure_topic E m' q
  end.

(* addErrorForAllPartitions / addFetchErrorForAllPartitions *)
Definition add_error_all (E : env) (m : merged) (s : subreq) (code : Z) : merged :=
  fold_left (fun m (tp : topic * list Z) =>
               fold_left (fun m p => add_part E m (fst tp) (p, code)) (snd tp) (ensure_topic E m (fst tp)))
            s m.

Definition sub_tps (E : env) (s : subreq) : list tpk :=
  map (fun x : topic * Z => (key E (fst x), snd x)) (flatten s).

Record logent := mkLog { l_attempt : Z; l_target : bytes; l_sub : subreq; l_out : outcome }.

Record st := mkSt {
  s_routes : list route;
  s_rr : Z;
  s_seen : list (bytes * Z);        (* requests received so far, per backend *)
  s_merged : merged;
  s_failed : list tpk;
  s_log : list logent }.

Fixpoint seen_count (a : bytes) (l : list (bytes * Z)) : Z :=
  match l with
  | [] => 0
  | (b, n) :: l' => if bytes_eqb a b then n else seen_count a l'
  end.
Fixpoint seen_bump (a : bytes) (l : list (bytes * Z)) : list (bytes * Z) :=
  match l with
  | [] => [(a, 1)]
  | (b, n) :: l' => if bytes_eqb a b then (b, n + 1) :: l' else (b, n) :: seen_bump a l'
  end.

(* the reply loop of forwardProduce / forwardFetch for one sub-response *)
Definition process_part (E : env) (s : st) (x : rpart) : st :=
  let '(t, p, code) := x in
  if code =? ERR_NOT_LEADER
  then let name := reply_name E t in
       mkSt (if e_fetch E && is_empty name then s_routes s else invalidate (s_routes s) name p)
            (s_rr s) (s_seen s) (s_merged s) (s_failed s ++ [(rkey E t, p)]) (s_log s)
  else mkSt (s_routes s) (s_rr s) (s_seen s) (add_part E (s_merged s) t (p, code)) (s_failed s) (s_log s).

(* r.err != nil *)
Definition process_error (E : env) (last : bool) (s : st) (sub : subreq) : st :=
  if e_fetch E && negb last
  then mkSt (s_routes s) (s_rr s) (s_seen s) (s_merged s) (s_failed s ++ sub_tps E sub) (s_log s)
  else mkSt (s_routes s) (s_rr s) (s_seen s) (add_error_all E (s_merged s) sub ERR_REQUEST_TIMED_OUT)
            (s_failed s) (s_log s).

Definition backend_fn : Type := Z -> bytes -> Z -> subreq -> outcome.  (* attempt, addr, n-th request there, sub-request *)

(* send the sub-requests that got a connection (concurrently in Go; each backend gets at
   most one per attempt), then handle connect errors first, results in work order *)
Fixpoint send_all (backend : backend_fn) (k : Z) (work : list (group * option bytes)) (seen : list (bytes * Z))
  : list (group * option (bytes * outcome)) * list (bytes * Z) :=
  match work with
  | [] => ([], seen)
  | (g, None) :: w' => let '(rs, seen') := send_all backend k w' seen in ((g, None) :: rs, seen')
  | (g, Some a) :: w' =>
      let o := backend k a (seen_count a seen) (g_sub g) in
      let '(rs, seen') := send_all backend k w' (seen_bump a seen) in
      ((g, Some (a, o)) :: rs, seen')
  end.

Definition process_result (E : env) (last : bool) (k : Z) (s : st) (r : group * option (bytes * outcome)) : st :=
  match snd r with
  | None => process_error E last s (g_sub (fst r))
  | Some (a, o) =>
      let s1 := mkSt (s_routes s) (s_rr s) (s_seen s) (s_merged s) (s_failed s)
                     (s_log s ++ [mkLog k a (g_sub (fst r)) o]) in
      match o with
      | Reply parts => fold_left (process_part E) parts s1
      | _ => process_error E last s1 (g_sub (fst r))
      end
  end.

Definition is_none {A} (o : option A) : bool := match o with None => true | Some _ => false end.

(* one iteration of the attempt loop on the groups in map-iteration order *)
Definition attempt (E : env) (dial : Z -> bytes -> bool) (backend : backend_fn) (last : bool) (k : Z)
                   (s : st) (gs : list group) : st :=
  let '(work, rr1) := connect_all E (dial k) gs [] (s_rr s) in
  let '(results, seen1) := send_all backend k work (s_seen s) in
  let ordered := filter (fun r : group * option (bytes * outcome) => is_none (snd r)) results ++
                 filter (fun r : group * option (bytes * outcome) => negb (is_none (snd r))) results in
  fold_left (process_result E last k) ordered
            (mkSt (s_routes s) rr1 seen1 (s_merged s) [] (s_log s)).

Definition ord_fn : Type := Z -> list group -> list group.   (* Go map iteration order per attempt *)

Fixpoint loop (E : env) (dial : Z -> bytes -> bool) (backend : backend_fn) (ord : ord_fn) (req : subreq)
              (fuel : nat) (k : Z) (s : st) (gs : list group) : st :=
  match fuel with
  | O => s
  | S fuel' =>
      let s1 := attempt E dial backend (match fuel' with O => true | _ => false end) k s (ord k gs) in
      match s_failed s1 with
      | [] => s1
      | _ => match group_by E (s_routes s1) req (Some (s_failed s1)) with
             | [] => s1
             | gs' => loop E dial backend ord req fuel' (k + 1) s1 gs'
             end
      end
  end.

(* the loop after the attempts: failed partitions are answered NOT_LEADER_OR_FOLLOWER *)
Definition tail (E : env) (req : subreq) (s : st) : merged :=
  fold_left (fun m (tp : topic * list Z) =>
     let t := fst tp in
     if existsb (fun f : tpk => bytes_eqb (fst f) (key E t)) (s_failed s)
     then fold_left (fun m p => if mem_tpk (key E t, p) (s_failed s) then add_part E m t (p, ERR_NOT_LEADER) else m)
                    (snd tp) (ensure_topic E m t)
     else m) req (s_merged s).

Definition init_st (rs : list route) (rr : Z) : st := mkSt rs rr [] [] [] [].

(* forwardProduce / forwardFetch (with the grouping done by handle*Routing) for maxRetries
   = maxr; returns the merged response and the final state (log, routes) *)
Definition forward (E : env) (dial : Z -> bytes -> bool) (backend : backend_fn) (ord : ord_fn) (maxr : nat)
                   (rs : list route) (rr : Z) (req0 : subreq) : merged * st :=
  let req := resolve_req E req0 in
  let s := loop E dial backend ord req maxr 0 (init_st rs rr) (group_by E rs req None) in
  (tail E req s, s).

(* flat view of a merged response *)
Definition merged_ents (m : merged) : list rpart :=
  flat_map (fun e : topic * list (Z * Z) => map (fun pc : Z * Z => (fst e, fst pc, snd pc)) (snd e)) m.
