(* Executable model of LFS envelope detection / encoding in the three SDKs (C29).
   Modelled by hand (no proofs in this file):

     Go      pkg/lfs/envelope.go            IsLfsEnvelope, EncodeEnvelope, DecodeEnvelope
     Python  lfs-client-sdk/python/lfs_sdk/envelope.py   is_lfs_envelope, decode_envelope
             (raw byte search b'"kfs_lfs"' in value[:50] — the code after
              fixes/C29-py-raw-marker-search.patch; the earlier
              decode("utf-8", errors="ignore") variant is modelled as
              [py_is_envelope_lossy] for the record of the defect)
     JS      lfs-client-sdk/js/src/envelope.ts            isLfsEnvelope, decodeEnvelope
             (new TextDecoder().decode(...) = the WHATWG UTF-8 decoder with
              replacement-character error mode, then String.prototype.includes on
              UTF-16 code units)

   Byte strings are [list Z]; nothing in this file relies on elements being in
   0..255 (every comparison is total on Z).  The JSON library (encoding/json,
   json.loads, JSON.parse) is NOT modelled: it enters as explicit function
   parameters [tail]/[unmarshal] whose assumed laws are Section hypotheses in
   proofs/EnvelopeProofs.v. *)
From KS Require Import lib.Base lib.Strings.
Open Scope Z_scope.

(* ---------- substring search: bytes.Contains / bytes.__contains__ / String.includes ---------- *)
Fixpoint prefixb (m l : list Z) : bool :=
  match m, l with
  | [], _ => true
  | _ :: _, [] => false
  | c :: m', x :: l' => (c =? x) && prefixb m' l'
  end.

Fixpoint contains (m l : list Z) : bool :=
  match l with
  | [] => prefixb m []
  | _ :: l' => prefixb m l || contains m l'
  end.

(* the marker "kfs_lfs" including both quotes: 9 ASCII bytes *)
Definition marker : bytes := [34; 107; 102; 115; 95; 108; 102; 115; 34].

(* ---------- Go: IsLfsEnvelope ---------- *)
Definition go_is_envelope (v : bytes) : bool :=
  if zlen v <? 15 then false else
  match v with
  | [] => false
  | x :: _ => if x =? 123 then contains marker (firstn 50 v) (* value[:min(50,len)] *) else false
  end.

(* ---------- Python: is_lfs_envelope (after the fix: raw byte search) ---------- *)
Definition py_is_envelope (v : bytes) : bool :=
  if (zlen v =? 0) || (zlen v <? 15) then false              (* not value or len(value) < 15 *)
  else if negb (bytes_eqb (firstn 1 v) [123]) then false      (* value[:1] != b"{" *)
  else contains marker (firstn 50 v).                         (* marker in value[:50] *)

(* ---------- JS: WHATWG UTF-8 decoder (error mode "replacement") producing UTF-16 units ---------- *)
Record dstate := mkD { d_need : Z;   (* bytes needed - bytes seen *)
                       d_cp : Z;     (* code point accumulated so far *)
                       d_lo : Z; d_hi : Z  (* lower / upper boundary for the next byte *) }.
Definition d0 : dstate := mkD 0 0 128 191.

(* a code point as UTF-16 code units (JS strings) *)
Definition units (cp : Z) : list Z :=
  if cp <? 65536 then [cp] else [55296 + (cp - 65536) / 1024; 56320 + (cp - 65536) mod 1024].

(* decoder step when "bytes needed" is 0.  [rep] is what a decoding error emits:
   [65533] (U+FFFD) for the WHATWG decoder, [] for CPython's errors="ignore". *)
Definition start (rep : list Z) (b : Z) : list Z * dstate :=
  if b <? 128 then ([b], d0)
  else if (194 <=? b) && (b <=? 223) then ([], mkD 1 (b - 192) 128 191)                     (* b & 0x1F *)
  else if (224 <=? b) && (b <=? 239) then
    ([], mkD 2 (b - 224) (if b =? 224 then 160 else 128) (if b =? 237 then 159 else 191))   (* b & 0xF *)
  else if (240 <=? b) && (b <=? 244) then
    ([], mkD 3 (b - 240) (if b =? 240 then 144 else 128) (if b =? 244 then 143 else 191))   (* b & 0x7 *)
  else (rep, d0).

(* one decoder step; an out-of-range byte in the middle of a sequence is an error
   (for the bytes consumed so far) and is then processed again from the initial
   state ("restore byte to stream") *)
Definition step (rep : list Z) (st : dstate) (b : Z) : list Z * dstate :=
  if d_need st =? 0 then start rep b
  else if (d_lo st <=? b) && (b <=? d_hi st) then
    let cp := d_cp st * 64 + (b - 128) in                     (* (cp << 6) | (b & 0x3F) *)
    if d_need st =? 1 then (units cp, d0) else ([], mkD (d_need st - 1) cp 128 191)
  else let '(o, st') := start rep b in (rep ++ o, st').

Fixpoint decode_from (rep : list Z) (st : dstate) (l : bytes) : list Z :=
  match l with
  | [] => if d_need st =? 0 then [] else rep                  (* end of stream inside a sequence *)
  | b :: l' => let '(o, st') := step rep st b in o ++ decode_from rep st' l'
  end.

(* new TextDecoder().decode(bytes): replacement error mode, ignoreBOM = false, so a
   leading byte order mark (EF BB BF, the only way to decode to U+FEFF) is dropped *)
Definition strip_bom (us : list Z) : list Z :=
  match us with
  | u :: r => if u =? 65279 then r else us
  | [] => []
  end.
Definition js_decode (v : bytes) : list Z := strip_bom (decode_from [65533] d0 v).

(* isLfsEnvelope; [minlen] = 1 is the code as found (!value || value.length === 0),
   [minlen] = 15 is the code with the length check of the other SDKs *)
Definition js_is_envelope_min (minlen : Z) (v : bytes) : bool :=
  if zlen v <? minlen then false else
  match v with
  | [] => false
  | x :: _ => if x =? 123 then contains marker (js_decode (firstn 50 v)) (* slice(0, min(50,len)) *)
              else false
  end.

Definition js_is_envelope : bytes -> bool := js_is_envelope_min 1.

(* ---------- Python as found: value[:50].decode("utf-8", errors="ignore") ----------
   CPython's decoder reports as one error exactly the byte range the WHATWG decoder
   replaces by one U+FFFD (maximal-subpart rule, same second-byte boundaries); the
   "ignore" handler emits nothing for it.  Python strings are code points, not
   UTF-16 units, but the marker is ASCII so that does not matter for the search.
   Kept only to exhibit the defect (props/C29.v, C29_py_lossy_witness); not used by
   the theorems about the fixed code. *)
Definition py_is_envelope_lossy (v : bytes) : bool :=
  if (zlen v =? 0) || (zlen v <? 15) then false
  else if negb (bytes_eqb (firstn 1 v) [123]) then false
  else contains marker (decode_from [] d0 (firstn 50 v)).

(* ---------- the resolvers' first step (Go Resolver.Resolve / Consumer.Unwrap, Python
   LfsResolver.resolve, JS LfsResolver.resolve): a value the detector rejects is
   handed back unchanged (Some value); None = treated as an envelope ---------- *)
Definition pass_through (detector : bytes -> bool) (value : bytes) : option bytes :=
  if detector value then None else Some value.

(* ---------- envelopes: EncodeEnvelope / DecodeEnvelope ---------- *)
Record envelope := mkEnv {
  e_version : Z; e_bucket : bytes; e_key : bytes; e_size : Z; e_sha256 : bytes;
  e_checksum : bytes; e_alg : bytes; e_ctype : bytes;
  e_headers : list (bytes * bytes);      (* sorted by key, as encoding/json writes a map *)
  e_created : bytes; e_proxy : bytes }.

(* brace, "kfs_lfs", colon — the first struct field is written first by encoding/json *)
Definition enc_head : bytes := [123; 34; 107; 102; 115; 95; 108; 102; 115; 34; 58].
(* comma, the quoted name bucket, colon, opening quote — the second field follows *)
Definition enc_second : bytes := [44; 34; 98; 117; 99; 107; 101; 116; 34; 58; 34].

Definition required_missing (e : envelope) : bool :=
  (e_version e =? 0) || bytes_eqb (e_bucket e) [] || bytes_eqb (e_key e) [] || bytes_eqb (e_sha256 e) [].

Section Json.
  (* [tail e]: what json.Marshal writes after the kfs_lfs number; [unmarshal]: json.Unmarshal
     into an Envelope (None = error). *)
  Variable tail : envelope -> bytes.
  Variable unmarshal : bytes -> option envelope.

  Definition marshal (e : envelope) : bytes := enc_head ++ dec (e_version e) ++ tail e.

  (* EncodeEnvelope: None = errors.New("invalid envelope") *)
  Definition encode (e : envelope) : option bytes :=
    if required_missing e then None else Some (marshal e).

  (* DecodeEnvelope *)
  Definition decode (data : bytes) : option envelope :=
    match unmarshal data with
    | None => None
    | Some e => if required_missing e then None else Some e
    end.

  (* Python decode_envelope / JS decodeEnvelope: json.loads / JSON.parse, then the same
     four "falsy" guards (0 / "" / missing), then the fields as parsed *)
  Definition py_decode (data : bytes) : option envelope :=
    match unmarshal data with
    | None => None
    | Some e => if (e_version e =? 0) || bytes_eqb (e_bucket e) [] || bytes_eqb (e_key e) []
                   || bytes_eqb (e_sha256 e) [] then None else Some e
    end.
  Definition js_decode_env (data : bytes) : option envelope :=
    match unmarshal data with
    | None => None
    | Some e => if (e_version e =? 0) || bytes_eqb (e_bucket e) [] || bytes_eqb (e_key e) []
                   || bytes_eqb (e_sha256 e) [] then None else Some e
    end.
End Json.
