(* Executable model of pkg/broker/proxyproto.go (PROXY protocol v1/v2 parsing in front
   of the Kafka reader).  Modelled by hand, function for function:

     ReadProxyProtocol / parseProxyHeader   -> parse_proxy
     parseProxyV1                           -> parse_v1   (bytes.Fields -> fields,
                                               bytes.ToUpper(..)=="UNKNOWN" -> is_unknown,
                                               net.JoinHostPort -> join_host_port)
     readProxyV1Line(br, 256)               -> read_line
     atoiOrZero                             -> atoi_or_zero (Go int = int64 wrap explicit)
     parseProxyV2 / parseProxyV2Inet / Inet6 -> parse_v2 / parse_inet / parse_inet6
     connWithReader.Read (bufio.Reader)     -> the second component of the result:
                                               exactly the bytes not consumed by the parser

   A connection is modelled as the complete byte string the peer sends before it
   closes its side ([stream]); bufio.Reader.Peek(n) on a shorter stream returns
   io.EOF and consumes nothing; io.ReadFull on a shorter stream consumes what is there
   and fails.  Slice expressions of the Go code are [gslice] (Panic when out of
   range) so that "no input makes the parser crash" is a statement about the model.

   The v2 family is taken from the HIGH nibble of byte 13 (address family; the low
   nibble is the transport protocol), i.e. the code with fixes/C26-v2-family-nibble.patch
   applied; [parse_proxy_with false] is the unpatched behaviour (low nibble), kept
   for the refutation witness.

   Address strings: v1 reports the header's text fields verbatim; v2 reports
   net.IP(raw).String(), which is Go's standard library — the model returns the raw
   address bytes and the harness renders / parses them with the same stdlib calls. *)
From KS Require Import lib.Base lib.Wire.
Open Scope Z_scope.

Inductive pinfo :=
| PNone                                            (* (nil, nil): no PROXY header / unknown family *)
| PLocal                                           (* &ProxyInfo{Local: true} *)
| PV1 (src_ip dst_ip src_port_text dst_port_text src_addr dst_addr : bytes) (src_port dst_port : Z)
| PV2 (src dst : bytes) (src_port dst_port : Z).   (* raw 4- or 16-byte addresses *)

(* error classes *)
Definition E_EOF := 1.          (* io.EOF / io.ErrUnexpectedEOF while reading the header *)
Definition E_TOOLONG := 2.      (* proxy v1 header too long *)
Definition E_MALFORMED := 3.    (* proxy v1 header malformed *)
Definition E_SHORT := 4.        (* proxy v2 inet/inet6 payload too short *)
Definition E_SIG := 5.          (* proxy v2 signature mismatch (unreachable) *)

Definition gslice (l : bytes) (lo hi : Z) : outcome bytes :=
  if (0 <=? lo) && (lo <=? hi) && (hi <=? zlen l) then Ok (ztake (hi - lo) (zdrop lo l)) else Panic 1.

(* ---- bytes.Fields: split around runs of Unicode white space (UTF-8 aware) ---- *)
(* length in bytes of the white-space rune starting at the head of s, 0 if none.
   unicode.IsSpace: U+0009..U+000D, U+0020, U+0085, U+00A0, U+1680, U+2000..U+200A,
   U+2028, U+2029, U+202F, U+205F, U+3000.  A UTF-8 lead byte (>= 0xC2) is never a
   continuation byte, so matching these exact encodings at any position agrees with
   Go's rune-by-rune scan (invalid bytes are width-1 non-spaces there). *)
Definition space_len (s : bytes) : nat :=
  match s with
  | [] => O
  | b0 :: r0 =>
      if ((9 <=? b0) && (b0 <=? 13)) || (b0 =? 32) then 1%nat
      else match r0 with
      | [] => O
      | b1 :: r1 =>
          if (b0 =? 194) && ((b1 =? 133) || (b1 =? 160)) then 2%nat
          else match r1 with
          | [] => O
          | b2 :: _ =>
              if (b0 =? 225) && (b1 =? 154) && (b2 =? 128) then 3%nat
              else if (b0 =? 226) && (b1 =? 128) &&
                      (((128 <=? b2) && (b2 <=? 138)) || (b2 =? 168) || (b2 =? 169) || (b2 =? 175)) then 3%nat
              else if (b0 =? 226) && (b1 =? 129) && (b2 =? 159) then 3%nat
              else if (b0 =? 227) && (b1 =? 128) && (b2 =? 128) then 3%nat
              else O
          end
      end
  end.

Definition flush (cur : bytes) (acc : list bytes) : list bytes :=
  match cur with [] => acc | _ => rev cur :: acc end.

(* cur: current field, reversed; acc: finished fields, reversed; skip: bytes of a
   multi-byte space still to drop *)
Fixpoint fields_aux (s : bytes) (skip : nat) (cur : bytes) (acc : list bytes) : list bytes :=
  match s with
  | [] => rev (flush cur acc)
  | b :: rest =>
      match skip with
      | S k => fields_aux rest k cur acc
      | O =>
          match space_len s with
          | O => fields_aux rest O (b :: cur) acc
          | S k => fields_aux rest k [] (flush cur acc)
          end
      end
  end.
Definition fields (s : bytes) : list bytes := fields_aux s O [] [].

(* bytes.Equal(bytes.ToUpper(f), "UNKNOWN"): ASCII letters are upper-cased; every
   non-ASCII rune (and U+FFFD for invalid bytes) maps to a non-ASCII rune except
   U+0131 -> 'I' and U+017F -> 'S', neither of which occurs in "UNKNOWN". *)
Definition upper (b : Z) : Z := if (97 <=? b) && (b <=? 122) then b - 32 else b.
Definition UNKNOWN : bytes := [85; 78; 75; 78; 79; 87; 78].
Definition is_unknown (f : bytes) : bool := bytes_eqb (map upper f) UNKNOWN.

(* atoiOrZero: out = out*10 + digit in Go int (int64 two's complement, wraps) *)
Fixpoint atoi_go (s : bytes) (out : Z) : Z :=
  match s with
  | [] => out
  | ch :: rest => if (ch <? 48) || (57 <? ch) then 0 else atoi_go rest (wrap_s 64 (out * 10 + (ch - 48)))
  end.
Definition atoi_or_zero (s : bytes) : Z := atoi_go s 0.

(* net.JoinHostPort *)
Definition has_colon (h : bytes) : bool := existsb (fun b => b =? 58) h.
Definition join_host_port (h p : bytes) : bytes :=
  if has_colon h then [91] ++ h ++ [93; 58] ++ p else h ++ [58] ++ p.

(* readProxyV1Line(br, 256): (line incl. '\n' | error, unread rest) *)
Fixpoint read_line (s : bytes) (room : nat) (acc : bytes) : outcome bytes * bytes :=
  match room with
  | O => (Err E_TOOLONG, s)
  | S k =>
      match s with
      | [] => (Err E_EOF, [])
      | b :: rest => if b =? 10 then (Ok (rev (b :: acc)), rest) else read_line rest k (b :: acc)
      end
  end.

Definition parse_v1_line (line : bytes) : outcome pinfo :=
  let parts := fields line in
  match parts with
  | _ :: p1 :: _ => if is_unknown p1 then Ok PLocal else
      match parts with
      | _ :: _ :: sip :: dip :: sp :: dp :: _ =>
          Ok (PV1 sip dip sp dp (join_host_port sip sp) (join_host_port dip dp) (atoi_or_zero sp) (atoi_or_zero dp))
      | _ => Err E_MALFORMED
      end
  | _ => Err E_MALFORMED
  end.

Definition parse_v1 (s : bytes) : outcome pinfo * bytes :=
  match read_line s 256 [] with
  | (Ok line, rest) => (parse_v1_line line, rest)
  | (Err e, rest) => (Err e, rest)
  | (Panic w, rest) => (Panic w, rest)
  | (OutOfFuel, rest) => (OutOfFuel, rest)
  end.

Definition port_at (p : bytes) (i : Z) : outcome Z :=
  bind (gslice p i (i + 2)) (fun b => match b with [b0; b1] => Ok (be16 b0 b1) | _ => Panic 1 end).

Definition parse_inet (p : bytes) : outcome pinfo :=
  if zlen p <? 12 then Err E_SHORT else
  bind (gslice p 0 4) (fun src => bind (gslice p 4 8) (fun dst =>
  bind (port_at p 8) (fun sp => bind (port_at p 10) (fun dp => Ok (PV2 src dst sp dp))))).

Definition parse_inet6 (p : bytes) : outcome pinfo :=
  if zlen p <? 36 then Err E_SHORT else
  bind (gslice p 0 16) (fun src => bind (gslice p 16 32) (fun dst =>
  bind (port_at p 32) (fun sp => bind (port_at p 34) (fun dp => Ok (PV2 src dst sp dp))))).

Definition SIG5 : bytes := [13; 10; 13; 10; 0].
Definition SIG12 : bytes := [13; 10; 13; 10; 0; 13; 10; 81; 85; 73; 84; 10].
Definition PROXY5 : bytes := [80; 82; 79; 88; 89].

(* parseProxyV2 on a stream whose first 12 bytes are the signature.
   high_nibble = true: family := header[13] >> 4 (patched code);
   high_nibble = false: family := header[13] & 0x0f (code before the patch). *)
Definition parse_v2 (high_nibble : bool) (s : bytes) : outcome pinfo * bytes :=
  if zlen s <? 16 then (Err E_EOF, []) else       (* io.ReadFull(br, header) consumes what is there *)
  let header := ztake 16 s in
  let after := zdrop 16 s in
  match gslice header 0 12 with
  | Ok sig =>
      if negb (bytes_eqb sig SIG12) then (Err E_SIG, after) else
      let h12 := nth 12 header 0 in
      let h13 := nth 13 header 0 in
      let cmd := h12 mod 16 in
      let length := be16 (nth 14 header 0) (nth 15 header 0) in
      if length <? 0 then (Panic 2, after) else       (* make([]byte, length) *)
      if zlen after <? length then (Err E_EOF, []) else
      let payload := ztake length after in
      let rest := zdrop length after in
      if cmd =? 0 then (Ok PLocal, rest) else
      let family := if high_nibble then h13 / 16 else h13 mod 16 in
      if family =? 1 then (parse_inet payload, rest)
      else if family =? 2 then (parse_inet6 payload, rest)
      else (Ok PNone, rest)
  | Err e => (Err e, after)
  | Panic w => (Panic w, after)
  | OutOfFuel => (OutOfFuel, after)
  end.

(* parseProxyHeader + the wrapped connection: (result, bytes the Kafka reader will see) *)
Definition parse_proxy_with (high_nibble : bool) (s : bytes) : outcome pinfo * bytes :=
  if zlen s <? 5 then (Ok PNone, s) else              (* Peek(5) -> io.EOF -> nil, nil *)
  let peek := ztake 5 s in
  if bytes_eqb peek PROXY5 then parse_v1 s
  else if bytes_eqb peek SIG5 then
    if zlen s <? 12 then (Err E_EOF, s)                (* Peek(12) fails; nothing consumed *)
    else if bytes_eqb (ztake 12 s) SIG12 then parse_v2 high_nibble s
    else (Ok PNone, s)
  else (Ok PNone, s).

Definition parse_proxy (s : bytes) : outcome pinfo * bytes := parse_proxy_with true s.

(* ---------------------------------------------------------------- spec-side encoders *)
Definition SP : bytes := [32].
Definition CRLF : bytes := [13; 10].

(* "PROXY <proto> <src> <dst> <sport> <dport>\r\n" *)
Definition v1_line (proto sip dip sp dp : bytes) : bytes :=
  PROXY5 ++ SP ++ proto ++ SP ++ sip ++ SP ++ dip ++ SP ++ sp ++ SP ++ dp ++ CRLF.

(* "PROXY UNKNOWN<anything without LF>\r\n" *)
Definition v1_unknown (junk : bytes) : bytes := PROXY5 ++ SP ++ UNKNOWN ++ junk ++ CRLF.

(* v2: signature, version/command byte, family/protocol byte, length, address block, TLVs *)
Definition v2_header (vercmd fam : Z) (addr tlvs : bytes) : bytes :=
  SIG12 ++ [vercmd; fam] ++ put_u16 (zlen addr + zlen tlvs) ++ addr ++ tlvs.
Definition v2_addr (src dst : bytes) (sp dp : Z) : bytes := src ++ dst ++ put_u16 sp ++ put_u16 dp.

(* printable ASCII without space: what an address / port / protocol token is made of *)
Definition tokenb (f : bytes) : bool :=
  negb (match f with [] => true | _ => false end) && forallb (fun b => (33 <=? b) && (b <=? 126)) f.
