(* Correspondence checker for model/Decoders.v.  A case is what a Go harness fed to
   the real code and what it observed:

   CDecode kind input cutoff obs
       kind   which real function ran on [input]:
              KIceberg / KSql   decodeSegment of that add-on module
              KSkeleton         noopDecoder.Decode
              KPitr             collectRecoverableBatches(input, cutoff)
              KScan             scanRecord repeated over [input] (n = cutoff records)
              KIdxStorage / KIdxIceberg / KIdxSql   the three index parsers
       obs    ORecs (decoded records: offset, timestamp, key, value, headers; nil key/value
              = None), OBatches (PITR: bytes of the kept batches, CRC field zeroed),
              OIndex / OScan (pairs), OErr (error class), OPanic
   CBuild interval created batches ok segment index
       BuildSegment over NewRecordBatchFromBytes(batch) for each batch; the footer CRC
       field zeroed (the harness checks it against crc32c itself).

   CSpec batch raw
       [raw] = the bytes franz-go's kmsg encoder produced for the batch [batch] (an encoder
       independent of the repository); the spec encoder lib/Kafka.v [enc_batch], to which
       the C07 round-trip theorems are stated, must produce the same bytes (CRC field
       zeroed on both sides: CRC-32C is abstract in the proofs).

   [check_case] runs the model (fixed-code variant) on the same input and compares. *)
From KS Require Import lib.Base lib.Varint lib.Outcome lib.Kafka model.Decoders.
Open Scope Z_scope.

Inductive dkind := KIceberg | KSql | KSkeleton | KPitr | KScan | KIdxStorage | KIdxIceberg | KIdxSql.

Inductive dobs :=
| ORecs (l : list drec)
| OBatches (l : list bytes)
| OPairs (l : list (Z * Z))
| OErr (e : derr)
| OPanic.

Inductive case :=
| CDecode (k : dkind) (input : bytes) (cutoff : Z) (o : dobs)
| CBuild (interval created : Z) (batches : list bytes) (ok : bool) (seg idx : bytes)
| CSpec (b : kbatch) (raw : bytes).

Definition obytes_eqb := opt_eqb bytes_eqb.
Definition hdr_eqb (a b : bytes * option bytes) : bool := bytes_eqb (fst a) (fst b) && obytes_eqb (snd a) (snd b).
Definition drec_eqb (a b : drec) : bool :=
  (d_off a =? d_off b) && (d_ts a =? d_ts b) && obytes_eqb (d_key a) (d_key b) &&
  obytes_eqb (d_val a) (d_val b) && list_eqb hdr_eqb (d_hdrs a) (d_hdrs b).
Definition pair_eqb (a b : Z * Z) : bool := (fst a =? fst b) && (snd a =? snd b).

Definition dobs_eqb (a b : dobs) : bool :=
  match a, b with
  | ORecs x, ORecs y => list_eqb drec_eqb x y
  | OBatches x, OBatches y => list_eqb bytes_eqb x y
  | OPairs x, OPairs y => list_eqb pair_eqb x y
  | OErr x, OErr y => derr_eqb x y
  | OPanic, OPanic => true
  | _, _ => false
  end.

Definition obs_of {A} (f : A -> dobs) (r : M A) : dobs :=
  match out r with Ok a => f a | Err e => OErr e | Panic => OPanic end.

Definition zero_crc (b : bytes) : bytes := if 21 <=? zlen b then patch b 17 [0; 0; 0; 0] else b.
Definition crc0 (_ : bytes) : Z := 0.

Definition scan_all (n : Z) (bs : bytes) : M (list (Z * Z)) := pitr_scan_records (S (length bs)) n bs.

Definition model_obs (k : dkind) (input : bytes) (cutoff : Z) : dobs :=
  match k with
  | KIceberg => obs_of ORecs (decode_iceberg input)
  | KSql => obs_of ORecs (decode_sql input)
  | KSkeleton => obs_of ORecs (decode_skeleton input)
  | KPitr => obs_of (fun l => OBatches (map zero_crc l)) (pitr_collect crc0 input cutoff)
  | KScan => obs_of OPairs (scan_all cutoff input)
  | KIdxStorage => obs_of OPairs (parse_index_storage input)
  | KIdxIceberg => obs_of OPairs (parse_index_iceberg true input)
  | KIdxSql => obs_of OPairs (parse_index_sql true input)
  end.

Definition zero_footer_crc (seg : bytes) : bytes :=
  if 48 <=? zlen seg then patch seg (length seg - 16) [0; 0; 0; 0] else seg.

Definition check_case (c : case) : bool :=
  match c with
  | CDecode k input cutoff o => dobs_eqb (model_obs k input cutoff) o
  | CBuild interval created batches ok seg idx =>
      match build_segment crc0 interval (map rbatch_of_bytes batches) created with
      | None => negb ok
      | Some a => ok && bytes_eqb (zero_footer_crc (a_segment a)) seg && bytes_eqb (a_index a) idx
      end
  | CSpec b raw => bytes_eqb (zero_crc (enc_batch crc0 b)) (zero_crc raw)
  end.
