(* Correspondence checker for the console auth model.  A case is the auth
   configuration read from the real authManager (enabled, ttl, limiter limit and
   window, in nanoseconds) and the event list the Go harness drove through the real
   NewMux handler under testing/synctest virtual time, with the answer of every
   event (HTTP status, or the body of the session endpoint).  Login events carry the
   token the real server issued; cookies are the values net/http parsed. *)
From KS Require Import lib.Base model.Console.
Open Scope Z_scope.

Record case := mkCase { k_cfg : config; k_events : list event; k_answers : list answer }.

Definition answer_eqb (a b : answer) : bool :=
  match a, b with
  | A200, A200 | A400, A400 | A401, A401 | A405, A405 | A429, A429 | A503, A503 | ANone, ANone => true
  | ASession e1 a1, ASession e2 a2 => Bool.eqb e1 e2 && Bool.eqb a1 a2
  | _, _ => false
  end.

Fixpoint check_from (c : config) (s : state) (evs : list event) (ans : list answer) : bool :=
  match evs, ans with
  | [], [] => true
  | e :: evs', a :: ans' =>
      let '(s', a') := step c s e in answer_eqb a' a && check_from c s' evs' ans'
  | _, _ => false
  end.

Definition check_case (k : case) : bool := check_from (k_cfg k) state0 (k_events k) (k_answers k).
