(* Correspondence checkers for the S3 health model (C25).
   Monitor case: the raw S3HealthConfig given to NewS3HealthMonitor, the events
   (RecordOperation / State at virtual-clock times in ns) and, after every event, what
   the real monitor held: state, avgLatency, errorRate (exact binary64), len(samples).
   Gate case: what one partition of a real Produce/Fetch request saw (authorised,
   etcd, lease, S3 state at the gate and at backpressureErrorCode) and what the real
   handler answered for it (error code; whether the log was appended to / read). *)
From Coq Require Import Floats.
From KS Require Import lib.Base model.Health.
Open Scope Z_scope.

Record hobs := mkHobs { ho_state : Z; ho_avg : Z; ho_rate : float; ho_n : Z }.
Record hcase := mkHcase { hk_cfg : hcfg; hk_evs : list hevent; hk_obs : list hobs }.

Definition hobs_ok (m : monitor) (o : hobs) : bool :=
  (rank (m_state m) =? ho_state o) &&
  (zlen (m_samples m) =? ho_n o) &&
  match m_samples m with
  | [] => (ho_avg o =? 0) && PrimFloat.eqb (ho_rate o) 0%float
  | l => (avg_latency l =? ho_avg o) && PrimFloat.eqb (error_rate l) (ho_rate o)
  end.

Fixpoint check_hrun (c : hcfg) (m : monitor) (evs : list hevent) (os : list hobs) : bool :=
  match evs, os with
  | [], [] => true
  | e :: evs', o :: os' => let m' := hstep c m e in hobs_ok m' o && check_hrun c m' evs' os'
  | _, _ => false
  end.

Definition check_hcase (k : hcase) : bool :=
  let c := with_defaults (hk_cfg k) in
  check_hrun c new_monitor (hk_evs k) (hk_obs k) &&
  (* the statement's characterisation, evaluated on the same history *)
  hstate_eqb (m_state (hrun c (hk_evs k))) (classify c (in_window c (last_time (hk_evs k)) (recorded (hk_evs k)))).

(* g_env: what THIS partition saw (the gate re-reads State() for every partition, so the
   state may differ between partitions of one request); g_s3fail: the partition passed the
   gate and its own S3 call then failed (scripted fake S3); g_after: the rating after that
   failure was recorded (what backpressureErrorCode reads for the reply). *)
Record gcase := mkG { g_produce : bool; g_env : penv; g_code : Z; g_touched : bool; g_s3fail : bool; g_after : hstate }.

Definition check_gcase (k : gcase) : bool :=
  match (if g_produce k then produce_partition (g_env k) else fetch_partition (g_env k)) with
  | PReject c => (c =? g_code k) && negb (g_touched k) && negb (g_s3fail k)
  | PProceed =>
      if g_s3fail k
      then (if g_produce k then g_code k =? bp_code (g_after k) else negb (g_code k =? 0)) && negb (g_touched k)
      else (g_code k =? 0) && g_touched k
  end.
