(* Correspondence checker for the cache model: a case is what the Go harness ran on
   the real SegmentCache (capacity, operations) and what it observed after every
   operation (Get result, the Go [size] field, entry count and key order oldest
   first).  [check_case] replays the operations on the model and compares. *)
From KS Require Import lib.Base lib.Strings model.Cache.
Open Scope Z_scope.

Record obs := mkObs {
  o_hit : bool;            (* Get: found; Set: false *)
  o_data : bytes;          (* Get hit: returned bytes *)
  o_size : Z;              (* c.size after the op *)
  o_keys : list bytes      (* key strings, oldest first, after the op *)
}.

Record case := mkCase { k_cap : Z; k_ops : list op; k_obs : list obs }.

Definition obs_of (c : cache) (r : option nat) : obs :=
  mkObs (match r with Some _ => true | None => false end)
        (match r with Some id => buf (c_heap c) id | None => [] end)
        (c_size c) (map fst (c_lru c)).

Definition obs_eqb (a b : obs) : bool :=
  Bool.eqb (o_hit a) (o_hit b) && bytes_eqb (o_data a) (o_data b) &&
  (o_size a =? o_size b) && list_eqb bytes_eqb (o_keys a) (o_keys b).

Fixpoint check_from (c : cache) (ops : list op) (os : list obs) : bool :=
  match ops, os with
  | [], [] => true
  | o :: ops', ob :: os' =>
      let '(c', r) := step c o in
      obs_eqb (obs_of c' r) ob && (held c' =? c_size c') && check_from c' ops' os'
  | _, _ => false
  end.

Definition check_case (k : case) : bool := check_from (new_cache (k_cap k)) (k_ops k) (k_obs k).
