(* Correspondence checker for the point-in-time-restore model.  A case is one source
   history the Go harness built (initial S3 objects in listing order, cutoff,
   cfg.Partitions) with several runs of the real RecoverTopicToTimestamp on it, one
   per fault set (S3 call indices that fail), and what each run observed: success?,
   the per-partition summary, every object outside the source prefix left in S3, the
   number of S3 calls, whether a delete failed.  [check_case] runs the model with the
   executable CRC-32C and compares; the source objects must be untouched.
   Initial objects arrive packed 7 bytes per primitive integer ([pk]); objects left
   after a run are compared by length and two polynomial hashes ([fp]). *)
From Coq Require Import Uint63.
From KS Require Import lib.Base lib.PitrWire model.Pitr.
Open Scope Z_scope.

(* initial objects arrive packed: 7 bytes per primitive integer, big-endian *)
Definition unpack7 (i : int) : bytes :=
  let z := Uint63.to_Z i in
  [z / 281474976710656 mod 256; z / 1099511627776 mod 256; z / 4294967296 mod 256;
   z / 16777216 mod 256; z / 65536 mod 256; z / 256 mod 256; z mod 256].
Definition pk (len : Z) (l : list int) : bytes := firstn (Z.to_nat len) (flat_map unpack7 l).
Arguments pk len%Z l%uint63.

(* CRC-32C on primitive integers (same bitwise algorithm as PitrWire.crc32c, ~50x
   faster under vm_compute); agreement is checked on test vectors below *)
Definition crc_step (c : int) : int :=
  if Uint63.eqb (Uint63.land c 1) 0 then Uint63.lsr c 1 else Uint63.lxor (Uint63.lsr c 1) 2197175160.
Definition crc_byte (c : int) (b : Z) : int :=
  crc_step (crc_step (crc_step (crc_step (crc_step (crc_step (crc_step (crc_step (Uint63.lxor c (Uint63.of_Z b))))))))).
Definition crc_fast (l : bytes) : Z :=
  Uint63.to_Z (Uint63.lxor (fold_left crc_byte l 4294967295%uint63) 4294967295).

Example crc_fast_check_value : crc_fast [49;50;51;52;53;54;55;56;57] = 3808858755 /\
  crc32c [49;50;51;52;53;54;55;56;57] = 3808858755 /\
  crc_fast (List.repeat 200 40 ++ [0;255;17]) = crc32c (List.repeat 200 40 ++ [0;255;17]).
Proof. vm_compute. repeat split. Qed.

(* final objects arrive as (length, hash1, hash2) *)
Definition fp (b : bytes) : Z * Z * Z :=
  (zlen b,
   Uint63.to_Z (fold_left (fun h x => Uint63.mod (Uint63.add (Uint63.add (Uint63.mul h 65599) (Uint63.of_Z x)) 1) 4294967291) b 7%uint63),
   Uint63.to_Z (fold_left (fun h x => Uint63.mod (Uint63.add (Uint63.add (Uint63.mul h 31337) (Uint63.of_Z x)) 3) 4294967291) b 11%uint63)).
Definition fp_eqb (a b : Z * Z * Z) : bool :=
  let '(l, h1, h2) := a in let '(l', h1', h2') := b in (l =? l') && (h1 =? h1') && (h2 =? h2').

Record run := mkRun {
  r_faults : list Z; r_ok : bool; r_summary : list (Z * Z * Z); r_final : list (key * (Z * Z * Z)); r_calls : Z; r_delfail : bool }.
Record case := mkCase { c_T : Z; c_parts : list Z; c_init : store; c_runs : list run }.

Definition summ_eqb (a b : Z * Z * Z) : bool :=
  let '(p, n, l) := a in let '(p', n', l') := b in (p =? p') && (n =? n') && (l =? l').

Definition store_sub (a b : store) : bool :=
  forallb (fun kv => opt_eqb bytes_eqb (s_get b (fst kv)) (Some (snd kv))) a.
Definition store_eqv (a b : store) : bool :=
  store_sub a b && store_sub b a && (zlen a =? zlen b).
(* model objects vs observed fingerprints: same keys, same fingerprints *)
Definition fp_match (a : store) (b : list (key * (Z * Z * Z))) : bool :=
  forallb (fun kf => match s_get a (fst kf) with Some v => fp_eqb (fp v) (snd kf) | None => false end) b &&
  (zlen a =? zlen b).

Fixpoint fault_bits (n : nat) (i : Z) (idx : list Z) : list bool :=
  match n with
  | O => []
  | S n' => existsb (Z.eqb i) idx :: fault_bits n' (i + 1) idx
  end.

Definition is_src (kv : key * bytes) : bool := k_space (fst kv) =? 0.

Definition check_run (c : case) (r : run) : bool :=
  let n := Z.to_nat (r_calls r + 12) in
  let '(res, w) := restore crc_fast (mkW (c_init c) (fault_bits n 0 (r_faults r)) false) (c_T c) (c_parts c) in
  (match res with
   | Ok s => r_ok r && list_eqb summ_eqb s (r_summary r)
   | Err => negb (r_ok r)
   end) &&
  fp_match (filter (fun kv => negb (is_src kv)) (w_objs w)) (r_final r) &&
  store_eqv (filter is_src (w_objs w)) (filter is_src (c_init c)) &&
  (Z.of_nat n - zlen (w_faults w) =? r_calls r) &&
  Bool.eqb (w_delfail w) (r_delfail r).

Definition check_case (c : case) : bool := forallb (check_run c) (c_runs c).
