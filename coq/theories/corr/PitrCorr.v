(* Correspondence checker for the point-in-time-restore model.  A case is one source
   history the Go harness built (initial S3 objects in listing order, cutoff,
   cfg.Partitions) with several runs of the real RecoverTopicToTimestamp on it, one
   per fault set (S3 call indices that fail), and what each run observed: success?,
   the per-partition summary, every object outside the source prefix left in S3, the
   number of S3 calls, whether a delete failed.  [check_case] runs the model with the
   executable CRC-32C and compares; the source objects must be untouched.
   Byte strings arrive as hex literals ([hx]). *)
From Coq Require Import String Ascii.
From KS Require Import lib.Base lib.PitrWire model.Pitr.
Open Scope Z_scope.

Definition hexv (a : ascii) : Z :=
  let n := Z.of_N (N_of_ascii a) in
  if n <? 58 then n - 48 else n - 87.
Fixpoint hx (s : string) : bytes :=
  match s with
  | String a (String b s') => (hexv a * 16 + hexv b) :: hx s'
  | _ => []
  end.
Arguments hx s%string.

Record run := mkRun {
  r_faults : list Z; r_ok : bool; r_summary : list (Z * Z * Z); r_final : store; r_calls : Z; r_delfail : bool }.
Record case := mkCase { c_T : Z; c_parts : list Z; c_init : store; c_runs : list run }.

Definition summ_eqb (a b : Z * Z * Z) : bool :=
  let '(p, n, l) := a in let '(p', n', l') := b in (p =? p') && (n =? n') && (l =? l').

Definition store_sub (a b : store) : bool :=
  forallb (fun kv => opt_eqb bytes_eqb (s_get b (fst kv)) (Some (snd kv))) a.
Definition store_eqv (a b : store) : bool :=
  store_sub a b && store_sub b a && (zlen a =? zlen b).

Fixpoint fault_bits (n : nat) (i : Z) (idx : list Z) : list bool :=
  match n with
  | O => []
  | S n' => existsb (Z.eqb i) idx :: fault_bits n' (i + 1) idx
  end.

Definition is_src (kv : key * bytes) : bool := k_space (fst kv) =? 0.

Definition check_run (c : case) (r : run) : bool :=
  let n := Z.to_nat (r_calls r + 12) in
  let '(res, w) := restore crc32c (mkW (c_init c) (fault_bits n 0 (r_faults r)) false) (c_T c) (c_parts c) in
  (match res with
   | Ok s => r_ok r && list_eqb summ_eqb s (r_summary r)
   | Err => negb (r_ok r)
   end) &&
  store_eqv (filter (fun kv => negb (is_src kv)) (w_objs w)) (r_final r) &&
  store_eqv (filter is_src (w_objs w)) (filter is_src (c_init c)) &&
  (Z.of_nat n - zlen (w_faults w) =? r_calls r) &&
  Bool.eqb (w_delfail w) (r_delfail r).

Definition check_case (c : case) : bool := forallb (check_run c) (c_runs c).
