(* Correspondence checker for model/Rewrite.v.  A case is one produce request that
   the Go harness pushed through the real rewriteProduceRecords: the partitions'
   Records bytes in iteration order, the configuration, and the oracles' answers
   as observed on that run (kmsg Record.ReadFrom results for every framed input
   record, kgo decompress/compress results, digests, EncodeEnvelope outputs keyed by
   the decoded envelope, the object keys handed to S3 in order).  CRC-32C is
   computed here.  [check_case] replays the request on the model and compares the
   outcome class, the rewritten Records bytes of every partition, the S3 store,
   uploadBytes and the orphan list. *)
From KS Require Import lib.Base lib.RecVarint model.Rewrite.
Open Scope Z_scope.

(* CRC-32C (Castagnoli, reflected polynomial 0x82F63B78), bitwise *)
Definition crc_bit (c : Z) : Z := if Z.odd c then Z.lxor (c / 2) 2197175160 else c / 2.
Definition crc_byte (crc b : Z) : Z :=
  let c := Z.lxor crc b in
  crc_bit (crc_bit (crc_bit (crc_bit (crc_bit (crc_bit (crc_bit (crc_bit c))))))).
Definition crc32c_impl (bs : bytes) : Z := Z.lxor (fold_left crc_byte bs 4294967295) 4294967295.

Record case := mkCase {
  k_cfg : config;
  k_parts : list bytes;
  k_supply : list (bytes * bytes);
  k_faults : list bool;
  k_dectab : list (bytes * rec);
  k_decomp : list (Z * bytes * option bytes);
  k_comp : list (Z * bytes * (bytes * Z));
  k_hash : list (Z * bytes * bytes);
  k_env : list (envelope * bytes);
  (* observed *)
  k_code : Z;                       (* 0 = nil error, -1 = panic, else the error class *)
  k_out : list bytes;
  k_store : list (bytes * bytes);   (* most recent put first *)
  k_bytes : Z;
  k_orphans : list bytes;
  k_modified : bool }.

Fixpoint lookup_dec (t : list (bytes * rec)) (bs : bytes) : option rec :=
  match t with
  | [] => None
  | (k, r) :: t' => if bytes_eqb k bs then Some r else lookup_dec t' bs
  end.
Fixpoint lookup_decomp (t : list (Z * bytes * option bytes)) (c : Z) (bs : bytes) : option bytes :=
  match t with
  | [] => None
  | (c', k, v) :: t' => if (c' =? c) && bytes_eqb k bs then v else lookup_decomp t' c bs
  end.
Fixpoint lookup_comp (t : list (Z * bytes * (bytes * Z))) (c : Z) (bs : bytes) : bytes * Z :=
  match t with
  | [] => ([255; 255; 255], 0)
  | (c', k, v) :: t' => if (c' =? c) && bytes_eqb k bs then v else lookup_comp t' c bs
  end.
Fixpoint lookup_hash (t : list (Z * bytes * bytes)) (a : Z) (bs : bytes) : bytes :=
  match t with
  | [] => []
  | (a', k, v) :: t' => if (a' =? a) && bytes_eqb k bs then v else lookup_hash t' a bs
  end.

(* last insertion for a key wins (Go map assignment) *)
Fixpoint map_get (k : bytes) (l : list (bytes * bytes)) (acc : option bytes) : option bytes :=
  match l with
  | [] => acc
  | (k', v) :: l' => map_get k l' (if bytes_eqb k' k then Some v else acc)
  end.
Definition map_sub (a b : list (bytes * bytes)) : bool :=
  forallb (fun kv => opt_eqb bytes_eqb (map_get (fst kv) a None) (map_get (fst kv) b None)) a.
Definition env_eqb (a b : envelope) : bool :=
  bytes_eqb (e_bucket a) (e_bucket b) && bytes_eqb (e_key a) (e_key b) && (e_size a =? e_size b) &&
  bytes_eqb (e_sha a) (e_sha b) && bytes_eqb (e_checksum a) (e_checksum b) &&
  bytes_eqb (e_alg a) (e_alg b) && bytes_eqb (e_ctype a) (e_ctype b) &&
  map_sub (e_orig a) (e_orig b) && map_sub (e_orig b) (e_orig a) &&
  bytes_eqb (e_created a) (e_created b) && bytes_eqb (e_proxy a) (e_proxy b).
Fixpoint lookup_env (t : list (envelope * bytes)) (e : envelope) : bytes :=
  match t with
  | [] => [255]
  | (e', v) :: t' => if env_eqb e e' then v else lookup_env t' e
  end.

Definition kv_eqb (a b : bytes * bytes) : bool := bytes_eqb (fst a) (fst b) && bytes_eqb (snd a) (snd b).

Definition run_case (k : case) :=
  rewrite_request (lookup_dec (k_dectab k)) (lookup_decomp (k_decomp k)) (lookup_comp (k_comp k))
    crc32c_impl (lookup_hash (k_hash k)) (lookup_env (k_env k)) (k_cfg k)
    (mkUst [] (k_supply k) (k_faults k) 0 []) (k_parts k).

Definition check_case (k : case) : bool :=
  match run_case k with
  | Ok (out, st, ch) =>
      (k_code k =? 0) && list_eqb bytes_eqb out (k_out k) && list_eqb kv_eqb (u_store st) (k_store k) &&
      (u_bytes st =? k_bytes k) && list_eqb bytes_eqb (u_orphans st) (k_orphans k) &&
      Bool.eqb ch (k_modified k)
  | Err c st => (k_code k =? c) && list_eqb kv_eqb (u_store st) (k_store k)
  | Panic => k_code k =? -1
  end.
