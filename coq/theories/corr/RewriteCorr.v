(* Correspondence checker for model/Rewrite.v.  A case is one produce request that
   the Go harness pushed through the real rewriteProduceRecords: the partitions'
   Records bytes in iteration order, the configuration, and the oracles' answers
   as observed on that run (kmsg Record.ReadFrom results for every framed input
   record, kgo decompress/compress results, digests, EncodeEnvelope outputs keyed by
   the decoded envelope, the object keys handed to S3 in order).  CRC-32C is
   computed here.  [check_case] replays the request on the model and compares the
   outcome class, the rewritten Records bytes of every partition, the S3 store,
   uploadBytes and the orphan list. *)
From KS Require Import lib.Base lib.RecVarint model.Rewrite.
Open Scope Z_scope.

(* byte constants used by the emitted cases files (faster to elaborate than number literals) *)
Definition b00 : Z := 0.
Definition b01 : Z := 1.
Definition b02 : Z := 2.
Definition b03 : Z := 3.
Definition b04 : Z := 4.
Definition b05 : Z := 5.
Definition b06 : Z := 6.
Definition b07 : Z := 7.
Definition b08 : Z := 8.
Definition b09 : Z := 9.
Definition b0a : Z := 10.
Definition b0b : Z := 11.
Definition b0c : Z := 12.
Definition b0d : Z := 13.
Definition b0e : Z := 14.
Definition b0f : Z := 15.
Definition b10 : Z := 16.
Definition b11 : Z := 17.
Definition b12 : Z := 18.
Definition b13 : Z := 19.
Definition b14 : Z := 20.
Definition b15 : Z := 21.
Definition b16 : Z := 22.
Definition b17 : Z := 23.
Definition b18 : Z := 24.
Definition b19 : Z := 25.
Definition b1a : Z := 26.
Definition b1b : Z := 27.
Definition b1c : Z := 28.
Definition b1d : Z := 29.
Definition b1e : Z := 30.
Definition b1f : Z := 31.
Definition b20 : Z := 32.
Definition b21 : Z := 33.
Definition b22 : Z := 34.
Definition b23 : Z := 35.
Definition b24 : Z := 36.
Definition b25 : Z := 37.
Definition b26 : Z := 38.
Definition b27 : Z := 39.
Definition b28 : Z := 40.
Definition b29 : Z := 41.
Definition b2a : Z := 42.
Definition b2b : Z := 43.
Definition b2c : Z := 44.
Definition b2d : Z := 45.
Definition b2e : Z := 46.
Definition b2f : Z := 47.
Definition b30 : Z := 48.
Definition b31 : Z := 49.
Definition b32 : Z := 50.
Definition b33 : Z := 51.
Definition b34 : Z := 52.
Definition b35 : Z := 53.
Definition b36 : Z := 54.
Definition b37 : Z := 55.
Definition b38 : Z := 56.
Definition b39 : Z := 57.
Definition b3a : Z := 58.
Definition b3b : Z := 59.
Definition b3c : Z := 60.
Definition b3d : Z := 61.
Definition b3e : Z := 62.
Definition b3f : Z := 63.
Definition b40 : Z := 64.
Definition b41 : Z := 65.
Definition b42 : Z := 66.
Definition b43 : Z := 67.
Definition b44 : Z := 68.
Definition b45 : Z := 69.
Definition b46 : Z := 70.
Definition b47 : Z := 71.
Definition b48 : Z := 72.
Definition b49 : Z := 73.
Definition b4a : Z := 74.
Definition b4b : Z := 75.
Definition b4c : Z := 76.
Definition b4d : Z := 77.
Definition b4e : Z := 78.
Definition b4f : Z := 79.
Definition b50 : Z := 80.
Definition b51 : Z := 81.
Definition b52 : Z := 82.
Definition b53 : Z := 83.
Definition b54 : Z := 84.
Definition b55 : Z := 85.
Definition b56 : Z := 86.
Definition b57 : Z := 87.
Definition b58 : Z := 88.
Definition b59 : Z := 89.
Definition b5a : Z := 90.
Definition b5b : Z := 91.
Definition b5c : Z := 92.
Definition b5d : Z := 93.
Definition b5e : Z := 94.
Definition b5f : Z := 95.
Definition b60 : Z := 96.
Definition b61 : Z := 97.
Definition b62 : Z := 98.
Definition b63 : Z := 99.
Definition b64 : Z := 100.
Definition b65 : Z := 101.
Definition b66 : Z := 102.
Definition b67 : Z := 103.
Definition b68 : Z := 104.
Definition b69 : Z := 105.
Definition b6a : Z := 106.
Definition b6b : Z := 107.
Definition b6c : Z := 108.
Definition b6d : Z := 109.
Definition b6e : Z := 110.
Definition b6f : Z := 111.
Definition b70 : Z := 112.
Definition b71 : Z := 113.
Definition b72 : Z := 114.
Definition b73 : Z := 115.
Definition b74 : Z := 116.
Definition b75 : Z := 117.
Definition b76 : Z := 118.
Definition b77 : Z := 119.
Definition b78 : Z := 120.
Definition b79 : Z := 121.
Definition b7a : Z := 122.
Definition b7b : Z := 123.
Definition b7c : Z := 124.
Definition b7d : Z := 125.
Definition b7e : Z := 126.
Definition b7f : Z := 127.
Definition b80 : Z := 128.
Definition b81 : Z := 129.
Definition b82 : Z := 130.
Definition b83 : Z := 131.
Definition b84 : Z := 132.
Definition b85 : Z := 133.
Definition b86 : Z := 134.
Definition b87 : Z := 135.
Definition b88 : Z := 136.
Definition b89 : Z := 137.
Definition b8a : Z := 138.
Definition b8b : Z := 139.
Definition b8c : Z := 140.
Definition b8d : Z := 141.
Definition b8e : Z := 142.
Definition b8f : Z := 143.
Definition b90 : Z := 144.
Definition b91 : Z := 145.
Definition b92 : Z := 146.
Definition b93 : Z := 147.
Definition b94 : Z := 148.
Definition b95 : Z := 149.
Definition b96 : Z := 150.
Definition b97 : Z := 151.
Definition b98 : Z := 152.
Definition b99 : Z := 153.
Definition b9a : Z := 154.
Definition b9b : Z := 155.
Definition b9c : Z := 156.
Definition b9d : Z := 157.
Definition b9e : Z := 158.
Definition b9f : Z := 159.
Definition ba0 : Z := 160.
Definition ba1 : Z := 161.
Definition ba2 : Z := 162.
Definition ba3 : Z := 163.
Definition ba4 : Z := 164.
Definition ba5 : Z := 165.
Definition ba6 : Z := 166.
Definition ba7 : Z := 167.
Definition ba8 : Z := 168.
Definition ba9 : Z := 169.
Definition baa : Z := 170.
Definition bab : Z := 171.
Definition bac : Z := 172.
Definition bad : Z := 173.
Definition bae : Z := 174.
Definition baf : Z := 175.
Definition bb0 : Z := 176.
Definition bb1 : Z := 177.
Definition bb2 : Z := 178.
Definition bb3 : Z := 179.
Definition bb4 : Z := 180.
Definition bb5 : Z := 181.
Definition bb6 : Z := 182.
Definition bb7 : Z := 183.
Definition bb8 : Z := 184.
Definition bb9 : Z := 185.
Definition bba : Z := 186.
Definition bbb : Z := 187.
Definition bbc : Z := 188.
Definition bbd : Z := 189.
Definition bbe : Z := 190.
Definition bbf : Z := 191.
Definition bc0 : Z := 192.
Definition bc1 : Z := 193.
Definition bc2 : Z := 194.
Definition bc3 : Z := 195.
Definition bc4 : Z := 196.
Definition bc5 : Z := 197.
Definition bc6 : Z := 198.
Definition bc7 : Z := 199.
Definition bc8 : Z := 200.
Definition bc9 : Z := 201.
Definition bca : Z := 202.
Definition bcb : Z := 203.
Definition bcc : Z := 204.
Definition bcd : Z := 205.
Definition bce : Z := 206.
Definition bcf : Z := 207.
Definition bd0 : Z := 208.
Definition bd1 : Z := 209.
Definition bd2 : Z := 210.
Definition bd3 : Z := 211.
Definition bd4 : Z := 212.
Definition bd5 : Z := 213.
Definition bd6 : Z := 214.
Definition bd7 : Z := 215.
Definition bd8 : Z := 216.
Definition bd9 : Z := 217.
Definition bda : Z := 218.
Definition bdb : Z := 219.
Definition bdc : Z := 220.
Definition bdd : Z := 221.
Definition bde : Z := 222.
Definition bdf : Z := 223.
Definition be0 : Z := 224.
Definition be1 : Z := 225.
Definition be2 : Z := 226.
Definition be3 : Z := 227.
Definition be4 : Z := 228.
Definition be5 : Z := 229.
Definition be6 : Z := 230.
Definition be7 : Z := 231.
Definition be8 : Z := 232.
Definition be9 : Z := 233.
Definition bea : Z := 234.
Definition beb : Z := 235.
Definition bec : Z := 236.
Definition bed : Z := 237.
Definition bee : Z := 238.
Definition bef : Z := 239.
Definition bf0 : Z := 240.
Definition bf1 : Z := 241.
Definition bf2 : Z := 242.
Definition bf3 : Z := 243.
Definition bf4 : Z := 244.
Definition bf5 : Z := 245.
Definition bf6 : Z := 246.
Definition bf7 : Z := 247.
Definition bf8 : Z := 248.
Definition bf9 : Z := 249.
Definition bfa : Z := 250.
Definition bfb : Z := 251.
Definition bfc : Z := 252.
Definition bfd : Z := 253.
Definition bfe : Z := 254.
Definition bff : Z := 255.

(* CRC-32C (Castagnoli, reflected polynomial 0x82F63B78), bitwise *)
Definition crc_bit (c : Z) : Z := if Z.odd c then Z.lxor (c / 2) 2197175160 else c / 2.
Definition crc_byte (crc b : Z) : Z :=
  let c := Z.lxor crc b in
  crc_bit (crc_bit (crc_bit (crc_bit (crc_bit (crc_bit (crc_bit (crc_bit c))))))).
Definition crc32c_impl (bs : bytes) : Z := Z.lxor (fold_left crc_byte bs 4294967295) 4294967295.

Record case := mkCase {
  k_cfg : config;
  k_parts : list bytes;
  k_supply : list (bytes * bytes);
  k_faults : list bool;
  k_dectab : list (bytes * rec);
  k_decomp : list (Z * bytes * option bytes);
  k_comp : list (Z * bytes * (bytes * Z));
  k_hash : list (Z * bytes * bytes);
  k_env : list (envelope * bytes);
  (* observed *)
  k_code : Z;                       (* 0 = nil error, -1 = panic, else the error class *)
  k_out : list bytes;
  k_store : list (bytes * bytes);   (* most recent put first *)
  k_bytes : Z;
  k_orphans : list bytes;
  k_modified : bool }.

Fixpoint lookup_dec (t : list (bytes * rec)) (bs : bytes) : option rec :=
  match t with
  | [] => None
  | (k, r) :: t' => if bytes_eqb k bs then Some r else lookup_dec t' bs
  end.
Fixpoint lookup_decomp (t : list (Z * bytes * option bytes)) (c : Z) (bs : bytes) : option bytes :=
  match t with
  | [] => None
  | (c', k, v) :: t' => if (c' =? c) && bytes_eqb k bs then v else lookup_decomp t' c bs
  end.
Fixpoint lookup_comp (t : list (Z * bytes * (bytes * Z))) (c : Z) (bs : bytes) : bytes * Z :=
  match t with
  | [] => ([255; 255; 255], 0)
  | (c', k, v) :: t' => if (c' =? c) && bytes_eqb k bs then v else lookup_comp t' c bs
  end.
Fixpoint lookup_hash (t : list (Z * bytes * bytes)) (a : Z) (bs : bytes) : bytes :=
  match t with
  | [] => []
  | (a', k, v) :: t' => if (a' =? a) && bytes_eqb k bs then v else lookup_hash t' a bs
  end.

(* last insertion for a key wins (Go map assignment) *)
Fixpoint map_get (k : bytes) (l : list (bytes * bytes)) (acc : option bytes) : option bytes :=
  match l with
  | [] => acc
  | (k', v) :: l' => map_get k l' (if bytes_eqb k' k then Some v else acc)
  end.
Definition map_sub (a b : list (bytes * bytes)) : bool :=
  forallb (fun kv => opt_eqb bytes_eqb (map_get (fst kv) a None) (map_get (fst kv) b None)) a.
Definition env_eqb (a b : envelope) : bool :=
  bytes_eqb (e_bucket a) (e_bucket b) && bytes_eqb (e_key a) (e_key b) && (e_size a =? e_size b) &&
  bytes_eqb (e_sha a) (e_sha b) && bytes_eqb (e_checksum a) (e_checksum b) &&
  bytes_eqb (e_alg a) (e_alg b) && bytes_eqb (e_ctype a) (e_ctype b) &&
  map_sub (e_orig a) (e_orig b) && map_sub (e_orig b) (e_orig a) &&
  bytes_eqb (e_created a) (e_created b) && bytes_eqb (e_proxy a) (e_proxy b).
Fixpoint lookup_env (t : list (envelope * bytes)) (e : envelope) : bytes :=
  match t with
  | [] => [255]
  | (e', v) :: t' => if env_eqb e e' then v else lookup_env t' e
  end.

Definition kv_eqb (a b : bytes * bytes) : bool := bytes_eqb (fst a) (fst b) && bytes_eqb (snd a) (snd b).

Definition run_case (k : case) :=
  rewrite_request (lookup_dec (k_dectab k)) (lookup_decomp (k_decomp k)) (lookup_comp (k_comp k))
    crc32c_impl (lookup_hash (k_hash k)) (lookup_env (k_env k)) (k_cfg k)
    (mkUst [] (k_supply k) (k_faults k) 0 []) (k_parts k).

Definition check_case (k : case) : bool :=
  match run_case k with
  | Ok (out, st, ch) =>
      (k_code k =? 0) && list_eqb bytes_eqb out (k_out k) && list_eqb kv_eqb (u_store st) (k_store k) &&
      (u_bytes st =? k_bytes k) && list_eqb bytes_eqb (u_orphans st) (k_orphans k) &&
      Bool.eqb ch (k_modified k)
  | Err c st => (k_code k =? c) && list_eqb kv_eqb (u_store st) (k_store k)
  | Panic => k_code k =? -1
  end.
