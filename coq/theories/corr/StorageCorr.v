(* Correspondence checker for the storage write-path model (C01, C02, C05, C06).
   A case is what harness/storage/storage_test.go executed on the real PartitionLog:
   the buffer/index configuration, and per scheduled action the model events that
   were observed to happen plus a snapshot of the real state afterwards (in-memory
   log fields, S3 listing with footer/header fields, metadata-store offset, every
   producer's control state, the acknowledged base offsets); at the end the full
   segment bodies and index entries in S3. [check_case] replays the events on the
   model and compares every snapshot. It also evaluates, on the model state, the
   conclusions of the main theorems (acked => durable, store <= end of S3) so that a
   model run contradicting them is reported as a mismatch as well. *)
From KS Require Import lib.Base model.Storage.
Open Scope Z_scope.

(* byte strings are emitted packed as one hexadecimal literal 0x1<bytes> (parsing
   thousands of small Z literals dominated the run time); [unhex] unpacks them. *)
Fixpoint unhex_fuel (fuel : nat) (z : Z) (acc : bytes) : bytes :=
  match fuel with
  | O => acc
  | S f => if z <=? 1 then acc else unhex_fuel f (Z.shiftr z 8) (Z.land z 255 :: acc)
  end.
Definition unhex (z : Z) : bytes := unhex_fuel (Z.to_nat (Z.log2 z / 8 + 1)) z [].

Record obs := mkObs {
  o_live : bool; o_next : Z; o_buf : list Z; o_flushing : bool; o_fl : list Z;
  o_clast : option Z; o_store : Z;
  o_segs : list (Z * Z * Z * Z);      (* key base, footer last offset, header message count, body length *)
  o_idxs : list (Z * Z);              (* key base, number of entries *)
  o_pcs : list (Z * list Z);          (* producers 0..2: (kind, details) *)
  o_acked : list Z                    (* base offsets of success responses, sorted *)
}.

Record case := mkCase {
  k_cfg : cfg;
  k_steps : list (list event * obs);
  k_fsegs : list (Z * bytes);          (* final S3: key base, segment body *)
  k_fidx : list (Z * list (Z * Z))     (* final S3: key base, index entries (offset, position) *)
}.

Definition up_code (u : upst) : Z := match u with UPend => 0 | UOk => 1 | UFail => 2 end.
Definition or_code (o : origin) : Z := match o with FromAppend => 0 | FromFlush => 1 end.

Definition pc_obs (p : pc) : Z * list Z :=
  match p with
  | PIdle => (0, [])
  | PAppended b => (1, [b_base b])
  | PUp o b sg ix => (2, [b_base b; or_code o; up_code sg; up_code ix])
  | PCb o b v => (3, [b_base b; or_code o; v])
  | PRet b ok => (4, [b_base b; if ok then 1 else 0])
  end.

Fixpoint insert_z (x : Z) (l : list Z) : list Z :=
  match l with
  | [] => [x]
  | y :: r => if x <=? y then x :: l else y :: insert_z x r
  end.
Definition sort_z (l : list Z) : list Z := fold_right insert_z [] l.

Definition zz_eqb (a b : Z * Z) : bool := (fst a =? fst b) && (snd a =? snd b).
Definition z4_eqb (a b : Z * Z * Z * Z) : bool :=
  let '(a1, a2, a3, a4) := a in let '(b1, b2, b3, b4) := b in
  (a1 =? b1) && (a2 =? b2) && (a3 =? b3) && (a4 =? b4).
Definition pcobs_eqb (a b : Z * list Z) : bool := (fst a =? fst b) && list_eqb Z.eqb (snd a) (snd b).

Definition obs_of (s : state) : obs :=
  mkObs (s_live s) (s_next s) (map b_base (s_buf s))
        (match s_owner s with Some _ => true | None => false end)
        (map b_base (s_fl s)) (s_clast s) (s_store s)
        (map (fun kv => (fst kv, last_off (snd kv), seg_msgs (snd kv), zlen (seg_body (snd kv)))) (s_seg s))
        (map (fun kv => (fst kv, zlen (index_entries (s_cfg s) (snd kv)))) (s_idx s))
        (map (fun t => pc_obs (s_pcs s t)) [0%nat; 1%nat; 2%nat])
        (sort_z (map b_base (s_acked s))).

Definition obs_eqb (a b : obs) : bool :=
  Bool.eqb (o_live a) (o_live b) && (o_next a =? o_next b) &&
  list_eqb Z.eqb (o_buf a) (o_buf b) && Bool.eqb (o_flushing a) (o_flushing b) &&
  list_eqb Z.eqb (o_fl a) (o_fl b) && opt_eqb Z.eqb (o_clast a) (o_clast b) &&
  (o_store a =? o_store b) && list_eqb z4_eqb (o_segs a) (o_segs b) &&
  list_eqb zz_eqb (o_idxs a) (o_idxs b) && list_eqb pcobs_eqb (o_pcs a) (o_pcs b) &&
  list_eqb Z.eqb (o_acked a) (o_acked b).

(* theorem conclusions evaluated on the model state *)
Definition self_check (s : state) : bool :=
  forallb (durableb s) (s_acked s) && (s_store s <=? s3_end s).

Definition final_ok (k : case) (s : state) : bool :=
  list_eqb (fun a b => (fst a =? fst b) && bytes_eqb (snd a) (snd b))
           (map (fun kv => (fst kv, seg_body (snd kv))) (s_seg s)) (k_fsegs k) &&
  list_eqb (fun a b => (fst a =? fst b) && list_eqb zz_eqb (snd a) (snd b))
           (map (fun kv => (fst kv, index_entries (s_cfg s) (snd kv))) (s_idx s)) (k_fidx k).

Fixpoint check_steps (k : case) (s : state) (steps : list (list event * obs)) : bool :=
  match steps with
  | [] => final_ok k s
  | (evs, ob) :: r =>
      match run s evs with
      | None => false
      | Some s' => obs_eqb (obs_of s') ob && self_check s' && check_steps k s' r
      end
  end.

Definition check_case (k : case) : bool := check_steps k (init (k_cfg k)) (k_steps k).
