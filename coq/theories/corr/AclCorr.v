(* Correspondence checkers for the ACL models (C23).
   Broker case: one configuration as the Go harness built it (acl.Config) and every
   request it asked the real Authorizer, with the observed answer. The model side is
   evaluated twice: the operational model (new_authorizer + allows) and the
   statement's decision procedure (spec_allows); both must equal the observation.
   SQL-proxy case: one proxy.ACL, the topics asked, the observed Allows /
   AllowShowTopics answers and the table of real path.Match results for exactly the
   (trimmed pattern, topic) pairs involved (path.Match is external code). *)
From KS Require Import lib.Base model.Acl.
Open Scope Z_scope.

(* requests = the product principals x actions x resources x names, row-major;
   b_obs holds the observed Allows() answers in that order *)
Record bcase := mkB {
  b_cfg : config;
  b_principals : list bytes; b_actions : list bytes; b_resources : list bytes; b_names : list bytes;
  b_obs : list bool
}.

Definition product4 (ps acts ress names : list bytes) : list (bytes * bytes * bytes * bytes) :=
  flat_map (fun p => flat_map (fun a => flat_map (fun r => map (fun n => (p, a, r, n)) names) ress) acts) ps.

Definition check_breq (cfg : config) (a : auth) (q : bytes * bytes * bytes * bytes) (obs : bool) : bool :=
  let '(p, act, res, n) := q in
  Bool.eqb (allows ascii_trim ascii_eqfold a p act res n) obs &&
  Bool.eqb (spec_allows ascii_trim ascii_eqfold cfg p act res n) obs.

Fixpoint check_breqs (cfg : config) (a : auth) (qs : list (bytes * bytes * bytes * bytes)) (os : list bool) : bool :=
  match qs, os with
  | [], [] => true
  | q :: qs', o :: os' => check_breq cfg a q o && check_breqs cfg a qs' os'
  | _, _ => false
  end.

Definition check_bcase (k : bcase) : bool :=
  let a := new_authorizer ascii_trim ascii_eqfold (b_cfg k) in
  check_breqs (b_cfg k) a (product4 (b_principals k) (b_actions k) (b_resources k) (b_names k)) (b_obs k).

Record scase := mkS {
  s_allow : list bytes; s_deny : list bytes;
  s_tbl : list (bytes * bytes * bool);
  s_show : bool;
  s_reqs : list (bytes * bool)
}.

Definition check_scase (k : scase) : bool :=
  let pm := table_pmatch (s_tbl k) in
  Bool.eqb (sql_show_topics ascii_trim pm (s_allow k) (s_deny k)) (s_show k) &&
  forallb (fun q => Bool.eqb (sql_allows ascii_trim pm (s_allow k) (s_deny k) (fst q)) (snd q)) (s_reqs k).
