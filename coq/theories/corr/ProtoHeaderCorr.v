(* Correspondence checker for the request-decoding model (C10).  A case is what the Go
   harness fed to the real code and what it observed:
     CHeader : bytes through protocol.ParseRequestHeader and protocol.ParseRequest
               (under recover); [flex]/[known] come from the regenerated kmsg table,
               the kmsg body decoder's verdict is the observed one;
     CFrame  : a byte stream through protocol.ReadFrame;
     CConn   : a byte stream through the real Server.handleConnection over net.Pipe with
               a recording handler: the (key, version, correlation id) of every request
               that reached the handler, how many bytes of the stream the server read
               before it returned (the error path closes the connection and leaves the
               rest unread), and whether the goroutine panicked. [bad] lists the
               (key, version, body) triples the kmsg decoder rejected (observed by parsing
               each frame of the stream separately). *)
From KS Require Import lib.Base lib.Wire model.ProtoHeader gen.ApiTables.
Open Scope Z_scope.

Definition flex_tab (k v : Z) : bool :=
  existsb (fun e => let '(key, _, fr, _) := e in (key =? k) && (0 <=? fr) && (fr <=? v)) kmsg_requests.
Definition known_tab (k : Z) : bool :=
  existsb (fun e => let '(key, _, _, _) := e in key =? k) kmsg_requests.

Inductive hobs :=
| HOk (key ver corr : Z) (client : option bytes) (body_len : Z)
| HErr (cls : Z)
| HPanic.

Inductive robs := ROk | RErr (cls : Z) | RPanic.   (* ParseRequest: class of the result *)

Inductive fobs := FOk (payload_len rest_len : Z) | FErr (cls : Z) | FPanic.

Inductive case :=
| CHeader (b : bytes) (h : hobs) (body_ok : bool) (r : robs)
| CFrame (s : bytes) (f : fobs)
| CConn (s : bytes) (bad : list (Z * Z * bytes)) (handled : list (Z * Z * Z)) (consumed : Z) (panicked : bool).

Definition hobs_of (o : outcome (header * bytes)) : hobs :=
  match o with
  | Ok (h, body) => HOk (h_key h) (h_version h) (h_corr h) (h_client h) (zlen body)
  | Err e => HErr e
  | _ => HPanic
  end.

Definition hobs_eqb (a b : hobs) : bool :=
  match a, b with
  | HOk k v c cl n, HOk k' v' c' cl' n' =>
      (k =? k') && (v =? v') && (c =? c') && opt_eqb bytes_eqb cl cl' && (n =? n')
  | HErr x, HErr y => x =? y
  | HPanic, HPanic => true
  | _, _ => false
  end.

Definition robs_of {B} (o : outcome (header * B)) : robs :=
  match o with Ok _ => ROk | Err e => RErr e | _ => RPanic end.
Definition robs_eqb (a b : robs) : bool :=
  match a, b with ROk, ROk => true | RErr x, RErr y => x =? y | RPanic, RPanic => true | _, _ => false end.

Definition fobs_of (o : outcome (bytes * bytes)) : fobs :=
  match o with Ok (p, r) => FOk (zlen p) (zlen r) | Err e => FErr e | _ => FPanic end.
Definition fobs_eqb (a b : fobs) : bool :=
  match a, b with
  | FOk p r, FOk p' r' => (p =? p') && (r =? r')
  | FErr x, FErr y => x =? y
  | FPanic, FPanic => true
  | _, _ => false
  end.

Definition triple_eqb (a b : Z * Z * Z) : bool :=
  let '(x, y, z) := a in let '(x', y', z') := b in (x =? x') && (y =? y') && (z =? z').

(* the handler is reached for every successfully parsed request; in the harness every
   kmsg body decodes or not as kmsg says, which the model cannot know: the harness only
   sends connection streams whose bodies are accepted (or whose headers are rejected),
   and reports the decoder's verdict per frame in [ok_bodies] = true *)
Definition handled_of (l : list (outcome (header * unit))) : list (Z * Z * Z) :=
  flat_map (fun o => match o with Ok (h, _) => [(h_key h, h_version h, h_corr h)] | _ => [] end) l.

Definition check_case (c : case) : bool :=
  match c with
  | CHeader b h body_ok r =>
      hobs_eqb (hobs_of (parse_header flex_tab true b)) h &&
      robs_eqb (robs_of (parse_request unit known_tab (fun _ _ _ => if body_ok then Some tt else None) flex_tab true b)) r
  | CFrame s f => fobs_eqb (fobs_of (read_frame s)) f
  | CConn s bad handled consumed panicked =>
      let body_read := fun k v b =>
        if existsb (fun t => let '(k', v', b') := t in (k =? k') && (v =? v') && bytes_eqb b b') bad
        then None else Some tt in
      let '(l, t, unread) := serve unit known_tab body_read flex_tab true (S (length s)) s in
      list_eqb triple_eqb (handled_of l) handled &&
      (zlen s - zlen unread =? consumed) &&
      Bool.eqb (existsb is_panic l || is_panic t) panicked
  end.
