(* Correspondence checkers for the proxy model.
   Part A (C28): a case is what the Go harness sent through the real handleMetadata /
   handleFindCoordinator / buildNotReadyResponse (cluster metadata = the real store's
   Metadata(ctx,nil); request; advertised host/port; protocol version) and the reply it
   decoded with kmsg.  [check_mcase] recomputes the reply with the model and compares. *)
From KS Require Import lib.Base model.Proxy.
Open Scope Z_scope.

Definition zs_eqb := list_eqb Z.eqb.
Definition obytes_eqb := opt_eqb bytes_eqb.

Definition mpart_eqb (a b : mpart) : bool :=
  (mp_err a =? mp_err b) && (mp_id a =? mp_id b) && (mp_leader a =? mp_leader b) &&
  (mp_epoch a =? mp_epoch b) && zs_eqb (mp_replicas a) (mp_replicas b) &&
  zs_eqb (mp_isr a) (mp_isr b) && zs_eqb (mp_offline a) (mp_offline b).

Definition mtopic_eqb (a b : mtopic) : bool :=
  (mt_err a =? mt_err b) && obytes_eqb (mt_name a) (mt_name b) && bytes_eqb (mt_id a) (mt_id b) &&
  Bool.eqb (mt_internal a) (mt_internal b) && list_eqb mpart_eqb (mt_parts a) (mt_parts b).

Definition mbroker_eqb (a b : mbroker) : bool :=
  (mb_node a =? mb_node b) && bytes_eqb (mb_host a) (mb_host b) && (mb_port a =? mb_port b).

Definition cluster_eqb (a b : cluster) : bool :=
  list_eqb mbroker_eqb (cl_brokers a) (cl_brokers b) && (cl_controller a =? cl_controller b) &&
  list_eqb mtopic_eqb (cl_topics a) (cl_topics b) && obytes_eqb (cl_id a) (cl_id b).

Definition coord_eqb (a b : coord) : bool :=
  (co_err a =? co_err b) && (co_node a =? co_node b) && bytes_eqb (co_host a) (co_host b) &&
  (co_port a =? co_port b).

Inductive mcase :=
| MetaCase (ready : bool) (version : Z) (c : cluster) (r : mreq) (host : bytes) (port : Z) (obs : cluster)
| CoordCase (ready : bool) (host : bytes) (port : Z) (obs : coord)
(* through the real handleConnection (net.Pipe): store_ok = the store answered;
   obs = None: the client got no reply, the connection was closed *)
| ConnCase (store_ok : bool) (version : Z) (c : cluster) (r : mreq) (host : bytes) (port : Z) (obs : option cluster).

Definition check_mcase (k : mcase) : bool :=
  match k with
  | MetaCase true v c r host port obs => cluster_eqb (wire_cluster v (handle_metadata c r host port)) obs
  | MetaCase false v c r host port obs => cluster_eqb (wire_cluster v (not_ready_metadata r)) obs
  | CoordCase true host port obs => coord_eqb (handle_find_coordinator host port) obs
  | CoordCase false host port obs => coord_eqb not_ready_coordinator obs
  | ConnCase ok v c r host port obs =>
      opt_eqb cluster_eqb (option_map (wire_cluster v) (conn_metadata ok c r host port)) obs
  end.

(* ------------------------------------------------------------------ *)
(* Part B (C27): a case is one produce / fetch request driven through the real
   handleProduceRouting / handleFetchRouting: static tables, routing table, round-robin
   counter, backends that refuse the dial, the request as parsed, and per backend the
   sub-requests it received in order with what it answered.  Observed: the decoded merged
   response, the final routing table.  Go's map iteration order over the groups is not
   observable: [search] explores every order per attempt (pruning orders whose sends
   disagree with what the backends saw) and the case passes when some order reproduces
   all observations. *)

Record pcase := mkPCase {
  pc_env : env; pc_byid : bool;
  pc_routes : list route; pc_rr : Z; pc_down : list bytes;
  pc_req : subreq;
  pc_script : list (bytes * list (subreq * outcome));
  pc_merged : list rpart;
  pc_final_routes : list route }.

Definition topic_eqb (a b : topic) : bool := bytes_eqb (t_name a) (t_name b) && bytes_eqb (t_id a) (t_id b).

(* what is on the wire: the id in id-carrying versions, the name otherwise *)
Definition wire_t (byid : bool) (t : topic) : topic :=
  if byid then mkTopic [] (t_id t) else mkTopic (t_name t) zero_id.

Definition sub_eqb (byid : bool) (a b : subreq) : bool :=
  list_eqb (fun x y : topic * list Z => topic_eqb (wire_t byid (fst x)) (wire_t byid (fst y)) && zs_eqb (snd x) (snd y)) a b.

Definition rpart_eqb (byid : bool) (a b : rpart) : bool :=
  topic_eqb (wire_t byid (fst (fst a))) (wire_t byid (fst (fst b))) && (snd (fst a) =? snd (fst b)) && (snd a =? snd b).

Definition route_eqb (a b : route) : bool :=
  bytes_eqb (fst (fst a)) (fst (fst b)) && (snd (fst a) =? snd (fst b)) && bytes_eqb (snd a) (snd b).

(* multiset equality by counting *)
Definition count_by {A} (eqb : A -> A -> bool) (x : A) (l : list A) : nat := length (filter (eqb x) l).
Definition multiset_eqb {A} (eqb : A -> A -> bool) (a b : list A) : bool :=
  Nat.eqb (length a) (length b) && forallb (fun x => Nat.eqb (count_by eqb x a) (count_by eqb x b)) a.

Fixpoint script_of (a : bytes) (scr : list (bytes * list (subreq * outcome))) : list (subreq * outcome) :=
  match scr with
  | [] => []
  | (b, l) :: scr' => if bytes_eqb a b then l else script_of a scr'
  end.

Definition script_backend (scr : list (bytes * list (subreq * outcome))) : backend_fn :=
  fun _ a n _ => match nth_error (script_of a scr) (Z.to_nat n) with Some (_, o) => o | None => Unparseable end.

Definition sends_to (a : bytes) (log : list logent) : list subreq :=
  map l_sub (filter (fun e => bytes_eqb (l_target e) a) log).

Fixpoint prefix_eqb (byid : bool) (a b : list subreq) : bool :=
  match a, b with
  | [], _ => true
  | x :: a', y :: b' => sub_eqb byid x y && prefix_eqb byid a' b'
  | _, [] => false
  end.

(* the model's sends to every backend are a prefix of what that backend received *)
Definition log_prefix_ok (k : pcase) (log : list logent) : bool :=
  forallb (fun e => mem_bytes (l_target e) (map fst (pc_script k))) log &&
  forallb (fun bl : bytes * list (subreq * outcome) =>
             prefix_eqb (pc_byid k) (sends_to (fst bl) log) (map fst (snd bl))) (pc_script k).

Definition log_exact_ok (k : pcase) (log : list logent) : bool :=
  log_prefix_ok k log &&
  forallb (fun bl : bytes * list (subreq * outcome) =>
             Nat.eqb (length (sends_to (fst bl) log)) (length (snd bl))) (pc_script k).

Fixpoint insert_all {A} (x : A) (l : list A) : list (list A) :=
  match l with
  | [] => [[x]]
  | y :: l' => (x :: l) :: map (cons y) (insert_all x l')
  end.
Fixpoint perms {A} (l : list A) : list (list A) :=
  match l with
  | [] => [[]]
  | x :: l' => flat_map (insert_all x) (perms l')
  end.

(* [loop] of the model with the iteration order of every attempt left open *)
Fixpoint search (k : pcase) (dial : Z -> bytes -> bool) (backend : backend_fn) (req : subreq)
                (fuel : nat) (a : Z) (s : st) (gs : list group) : list st :=
  match fuel with
  | O => [s]
  | S fuel' =>
      flat_map (fun o =>
        let s1 := attempt (pc_env k) dial backend (match fuel' with O => true | _ => false end) a s o in
        if negb (log_prefix_ok k (s_log s1)) then []
        else match s_failed s1 with
             | [] => [s1]
             | _ => match group_by (pc_env k) (s_routes s1) req (Some (s_failed s1)) with
                    | [] => [s1]
                    | gs' => search k dial backend req fuel' (a + 1) s1 gs'
                    end
             end) (perms gs)
  end.

Definition check_pcase (k : pcase) : bool :=
  let E := pc_env k in
  let dial := fun (_ : Z) (a : bytes) => negb (mem_bytes a (pc_down k)) in
  let backend := script_backend (pc_script k) in
  let req := resolve_req E (pc_req k) in
  existsb (fun s =>
     log_exact_ok k (s_log s) &&
     multiset_eqb (rpart_eqb (pc_byid k)) (merged_ents (tail E req s)) (pc_merged k) &&
     multiset_eqb route_eqb (s_routes s) (pc_final_routes k))
   (search k dial backend req 3 0 (init_st (pc_routes k) (pc_rr k)) (group_by E (pc_routes k) req None)).
