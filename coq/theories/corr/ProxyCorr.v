(* Correspondence checkers for the proxy model.
   Part A (C28): a case is what the Go harness sent through the real handleMetadata /
   handleFindCoordinator / buildNotReadyResponse (cluster metadata = the real store's
   Metadata(ctx,nil); request; advertised host/port; protocol version) and the reply it
   decoded with kmsg.  [check_mcase] recomputes the reply with the model and compares. *)
From KS Require Import lib.Base model.Proxy.
Open Scope Z_scope.

Definition zs_eqb := list_eqb Z.eqb.
Definition obytes_eqb := opt_eqb bytes_eqb.

Definition mpart_eqb (a b : mpart) : bool :=
  (mp_err a =? mp_err b) && (mp_id a =? mp_id b) && (mp_leader a =? mp_leader b) &&
  (mp_epoch a =? mp_epoch b) && zs_eqb (mp_replicas a) (mp_replicas b) &&
  zs_eqb (mp_isr a) (mp_isr b) && zs_eqb (mp_offline a) (mp_offline b).

Definition mtopic_eqb (a b : mtopic) : bool :=
  (mt_err a =? mt_err b) && obytes_eqb (mt_name a) (mt_name b) && bytes_eqb (mt_id a) (mt_id b) &&
  Bool.eqb (mt_internal a) (mt_internal b) && list_eqb mpart_eqb (mt_parts a) (mt_parts b).

Definition mbroker_eqb (a b : mbroker) : bool :=
  (mb_node a =? mb_node b) && bytes_eqb (mb_host a) (mb_host b) && (mb_port a =? mb_port b).

Definition cluster_eqb (a b : cluster) : bool :=
  list_eqb mbroker_eqb (cl_brokers a) (cl_brokers b) && (cl_controller a =? cl_controller b) &&
  list_eqb mtopic_eqb (cl_topics a) (cl_topics b) && obytes_eqb (cl_id a) (cl_id b).

Definition coord_eqb (a b : coord) : bool :=
  (co_err a =? co_err b) && (co_node a =? co_node b) && bytes_eqb (co_host a) (co_host b) &&
  (co_port a =? co_port b).

Inductive mcase :=
| MetaCase (ready : bool) (version : Z) (c : cluster) (r : mreq) (host : bytes) (port : Z) (obs : cluster)
| CoordCase (ready : bool) (host : bytes) (port : Z) (obs : coord).

Definition check_mcase (k : mcase) : bool :=
  match k with
  | MetaCase true v c r host port obs => cluster_eqb (wire_cluster v (handle_metadata c r host port)) obs
  | MetaCase false v c r host port obs => cluster_eqb (wire_cluster v (not_ready_metadata r)) obs
  | CoordCase true host port obs => coord_eqb (handle_find_coordinator host port) obs
  | CoordCase false host port obs => coord_eqb not_ready_coordinator obs
  end.
