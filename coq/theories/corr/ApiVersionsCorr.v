(* Correspondence checker for C11: ties the regenerated tables and the decision rules of
   model/ApiVersions.v to what the running code does.
     CBrokerTable / CProxyTable : the ApiVersions entries the running code advertises
       (handler.apiVersions / generateProxyApiVersions()) must equal the go/ast-extracted
       tables in gen/ApiTables.v;
     CReply : one request (key, version) sent through the real broker (handler.Handle, and
       broker.Server's error path): was the answer ErrUnsupportedAPI / a version-guard
       error, was there a reply, at which version and with which header shape did kmsg
       decode it (shape 1 = flexible header, 0 = non-flexible, 2 = undecidable);
     CProxyReply : the same for the proxy's locally built replies. *)
From KS Require Import lib.Base gen.ApiTables model.ApiVersions.
Open Scope Z_scope.

Inductive case :=
| CBrokerTable (t : list (Z * Z * Z))
| CProxyTable (t : list (Z * Z * Z))
| CReply (k v : Z) (unsupported guard replied : bool) (shape rv : Z)
| CProxyReply (k v : Z) (shape : Z)
| CRespStrings (k v : Z) (maxlen : Z).   (* longest string in any decoded response of (k, v) *)

Definition entry_eqb (a b : Z * Z * Z) : bool :=
  let '(x, y, z) := a in let '(x', y', z') := b in (x =? x') && (y =? y') && (z =? z').

Definition shape_of (fl : bool) : Z := if fl then 1 else 0.

Definition check_case (c : case) : bool :=
  match c with
  | CBrokerTable t => list_eqb entry_eqb t broker_advertised
  | CProxyTable t => list_eqb entry_eqb t proxy_advertised
  | CReply k v unsupported guard replied shape rv =>
      Bool.eqb unsupported (negb (dispatched k)) &&
      (if dispatched k && (0 <=? v) && (v <=? guard_window) then Bool.eqb guard (rejected k v) else true) &&
      match broker_reply k v with
      | Some (rv', fl) => if replied then (rv =? rv') && (shape =? shape_of fl) else true
      | None => negb replied
      end
  | CProxyReply k v shape => shape =? shape_of (encode_header_flexible k v)
  | CRespStrings k v maxlen => resp_strings_fit (resp_flexible k v) maxlen
  end.
