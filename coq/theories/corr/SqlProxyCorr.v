(* Correspondence checker for the SQL proxy model: a case is one client connection
   the Go harness ran through the real handleConn (ACL, cache configuration, the
   query messages in order) with, per message, what the fake upstream saw
   (forwarded or not) and what the real sql.Parse + queryTopics say about the
   full text; the answers of a reference glob matcher (path.Match called by the
   harness) for every topic involved, and the proxy's own ACL.Allows verdicts.
   [check_case] replays the connection on the model and compares the forwarding
   decisions, compares the real cacheKey of every text with the model's cache_key
   (so any change of the key function is a mismatch at once), compares the token-level topic extraction with the real parser on
   every text, and evaluates the string laws assumed by the proofs on every text. *)
From KS Require Import lib.Base model.SqlParse model.SqlProxy.
Open Scope Z_scope.

Record msg := mkMsg {
  m_text : bytes;
  m_parse_ok : bool;           (* sql.Parse(text) returned no error *)
  m_topics : list bytes;       (* queryTopics(Parse(text)) when it did *)
  m_show : bool;
  m_forwarded : bool;          (* the upstream received exactly this text *)
  m_key : bytes                (* the real cacheKey(text) *)
}.

Record case := mkCase {
  k_allow : list bytes;
  k_deny : list bytes;
  k_ttl : Z;
  k_max : Z;
  k_match : list (bytes * (bool * bool));   (* topic -> reference glob match against (Deny, Allow): path.Match in the harness *)
  k_real : list (bytes * bool);             (* topic -> the proxy's own ACL.Allows(topic) *)
  k_real_show : bool;                       (* the proxy's own ACL.AllowShowTopics() *)
  k_msgs : list msg
}.

Fixpoint lookup {A} (k : bytes) (l : list (bytes * A)) : option A :=
  match l with
  | [] => None
  | (k', v) :: l' => if bytes_eqb k k' then Some v else lookup k l'
  end.

Definition lb_eqb := list_eqb bytes_eqb.

(* matchPatterns per the reference semantics; an unknown topic is flagged by [known] below *)
Definition mp_of (k : case) (pats : list bytes) (t : bytes) : bool :=
  if is_nil pats then false else
  match lookup t (k_match k) with
  | Some (d, a) => if lb_eqb pats (k_deny k) then d else a
  | None => false
  end.

Definition parse_ok_of (k : case) (text : bytes) : bool :=
  match lookup text (map (fun m => (m_text m, m_parse_ok m)) (k_msgs k)) with
  | Some b => b
  | None => false
  end.

Definition is_forwarded (o : outcome) : bool := match o with Forwarded _ => true | Refused _ => false end.

Definition known (k : case) (t : bytes) : bool :=
  match lookup t (k_match k) with Some _ => true | None => false end.

Definition kw_set : bytes := [115;101;116].
Definition kw_reset : bytes := [114;101;115;101;116].

(* the string laws assumed in proofs/SqlProxyProofs.v, evaluated on one text *)
Definition laws_hold (s : bytes) : bool :=
  lb_eqb (fields (trim_semi (trim_space s))) (drop_semi (fields s)) &&
  lb_eqb (fields (ascii_lower s)) (map ascii_lower (fields s)) &&
  lb_eqb (fields (join32 (fields s))) (fields s) &&
  (negb (session s) ||
   match tokens s with [] => true | f :: _ => bytes_eqb f kw_set || bytes_eqb f kw_reset end).

Definition msg_ok (k : case) (m : msg) : bool :=
  let '(ts, show) := token_topics (tokens (m_text m)) in
  (negb (m_parse_ok m) ||
   (lb_eqb ts (m_topics m) && Bool.eqb show (m_show m) && forallb (known k) ts)) &&
  bytes_eqb (cache_key (m_text m)) (m_key m) &&
  laws_hold (m_text m).

Definition check_case (k : case) : bool :=
  let a := mkAcl (k_allow k) (k_deny k) in
  let outs := run (mp_of k) (parse_ok_of k) a (new_cache (k_ttl k) (k_max k))
                  (map (fun m => (m_text m, false)) (k_msgs k)) in
  list_eqb Bool.eqb (map is_forwarded outs) (map m_forwarded (k_msgs k)) &&
  forallb (msg_ok k) (k_msgs k) && known k [42] &&
  (* the proxy's ACL answers as the reference semantics (the tie for the premise [allows]) *)
  forallb (fun '(t, v) => Bool.eqb (allows (mp_of k) a t) v) (k_real k) &&
  Bool.eqb (allow_show (mp_of k) a) (k_real_show k).
