(* Correspondence checker for the IDoc explode model.  A case is the routing
   configuration and the document tree the Go harness serialised to XML text and
   passed to the real ExplodeXML, plus what came back (error flag, header, the five
   segment lists with maps rendered as key-sorted lists).  [check_case] runs the
   model on the tree's token list (TrimSpace instantiated for ASCII text) and also
   re-checks the tree-level specification on the observed output. *)
From KS Require Import lib.Base model.Idoc.
Open Scope Z_scope.

Record obs := mkObs {
  o_err : bool;
  o_header : option (bytes * amap);
  o_segs : list segment; o_items : list segment; o_partners : list segment;
  o_statuses : list segment; o_dates : list segment }.

Record case := mkCase {
  k_cfg : config; k_pre : list node; k_doc : node; k_post : list node; k_obs : obs }.

(* Go maps: compare extensionally (both sides have unique keys) *)
Definition amap_eqb (m o : amap) : bool :=
  Nat.eqb (length m) (length o) &&
  forallb (fun kv => opt_eqb bytes_eqb (alookup (fst kv) m) (Some (snd kv))) o.

Definition seg_eqb (a b : segment) : bool :=
  bytes_eqb (s_name a) (s_name b) && bytes_eqb (s_path a) (s_path b) &&
  amap_eqb (s_attrs a) (s_attrs b) && bytes_eqb (s_value a) (s_value b) &&
  opt_eqb amap_eqb (s_fields a) (s_fields b).

Definition hdr_eqb (a b : bytes * amap) : bool := bytes_eqb (fst a) (fst b) && amap_eqb (snd a) (snd b).

Definition check_case (k : case) : bool :=
  let o := k_obs k in
  match explode_doc trim_ascii (k_cfg k) (k_pre k) (k_doc k) (k_post k) with
  | Err => o_err o
  | Ok st =>
      let z := build_sets trim_ascii (k_cfg k) in
      negb (o_err o) &&
      opt_eqb hdr_eqb (st_header st) (o_header o) &&
      list_eqb seg_eqb (st_segs st) (o_segs o) &&
      list_eqb seg_eqb (st_items st) (o_items o) &&
      list_eqb seg_eqb (st_partners st) (o_partners o) &&
      list_eqb seg_eqb (st_statuses st) (o_statuses o) &&
      list_eqb seg_eqb (st_dates st) (o_dates o) &&
      (* the specification, evaluated directly on the observed output *)
      list_eqb seg_eqb (spec_segs trim_ascii z [] (k_doc k)) (o_segs o) &&
      list_eqb seg_eqb (routed_spec z RItems (o_segs o)) (o_items o) &&
      list_eqb seg_eqb (routed_spec z RPartners (o_segs o)) (o_partners o) &&
      list_eqb seg_eqb (routed_spec z RStatuses (o_segs o)) (o_statuses o) &&
      list_eqb seg_eqb (routed_spec z RDates (o_segs o)) (o_dates o)
  end.
