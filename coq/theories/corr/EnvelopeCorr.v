(* Correspondence checker for model/Envelope.v (C29).  A case is what the three
   real implementations did on one generated input:
     CDetect v go py js units : IsLfsEnvelope / is_lfs_envelope / isLfsEnvelope on the
        byte string v, and the UTF-16 code units of
        new TextDecoder().decode(v.slice(0, min(50, len))) observed in node
        (checks the WHATWG decoder model itself, not only the final boolean);
     CEncode ver enc : the first 64 bytes Go's EncodeEnvelope produced for an envelope with
        Version = ver (checks the one guarantee assumed about encoding/json:
        the output starts with the kfs_lfs member followed by the bucket member). *)
From KS Require Import lib.Base lib.Strings model.Envelope.
Open Scope Z_scope.

Inductive case :=
| CDetect (v : bytes) (go py js : bool) (units : list Z)
| CEncode (ver : Z) (enc : bytes).

Definition check_case (k : case) : bool :=
  match k with
  | CDetect v go py js us =>
      Bool.eqb (go_is_envelope v) go && Bool.eqb (py_is_envelope v) py &&
      Bool.eqb (js_is_envelope v) js && bytes_eqb (js_decode (firstn 50 v)) us
  | CEncode ver enc => prefixb (enc_head ++ dec ver ++ enc_second) enc
  end.
