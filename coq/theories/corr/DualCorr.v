(* Correspondence checker for the dual S3 client model.  A case is the call list
   the Go harness ran on the real dualS3Client (over two MemoryS3Clients behind
   recording fault wrappers) with, per call, the projected result, the calls the
   replica wrapper received and whether the primary wrapper was called; plus the
   final contents of both buckets.  [check_case] replays the calls on the model. *)
From KS Require Import lib.Base model.Dual.
Open Scope Z_scope.

Record obs := mkObs { o_out : out; o_rcalls : list op; o_pcalled : bool }.

Record case := mkCase {
  k_calls : list call;
  k_obs : list obs;
  k_prim_seg : store; k_prim_idx : store; k_repl_seg : store; k_repl_idx : store;
  k_prim_ready : bool; k_repl_ready : bool }.

Definition res_eqb (a b : res) : bool :=
  match a, b with
  | ROk x, ROk y => bytes_eqb x y
  | RNotFound, RNotFound | RBadRange, RBadRange | RFault, RFault | RCtx, RCtx => true
  | _, _ => false
  end.

Definition ent_eqb (a b : bytes * Z) : bool := bytes_eqb (fst a) (fst b) && (snd a =? snd b).

(* listings come out of a Go map in random order: compare as sets (keys are unique) *)
Definition set_eqb {A} (eqb : A -> A -> bool) (a b : list A) : bool :=
  (Nat.eqb (length a) (length b)) && forallb (fun x => existsb (eqb x) b) a.

Definition out_eqb (a b : out) : bool :=
  match a, b with
  | VErr x, VErr y => Bool.eqb x y
  | VRes x, VRes y => res_eqb x y
  | VList x, VList y => set_eqb ent_eqb x y
  | VEnv, VEnv => true
  | _, _ => false
  end.

Definition rng_eqb (a b : rng) : bool :=
  match a, b with
  | None, None => true
  | Some (s, e), Some (s', e') => (s =? s') && (e =? e')
  | _, _ => false
  end.

Definition op_eqb (a b : op) : bool :=
  match a, b with
  | OGetSeg k r, OGetSeg k' r' => bytes_eqb k k' && rng_eqb r r'
  | OGetIdx k, OGetIdx k' => bytes_eqb k k'
  | _, _ => false            (* nothing else may ever reach the replica *)
  end.

Definition store_eqb (m o : store) : bool :=
  Nat.eqb (length m) (length o) &&
  forallb (fun kv => opt_eqb bytes_eqb (sfind (fst kv) m) (Some (snd kv))) o.

Fixpoint check_from (d : dual) (cs : list call) (os : list obs) : option dual :=
  match cs, os with
  | [], [] => Some d
  | c :: cs', ob :: os' =>
      let '(d', v) := dual_step d (c_op c) (c_rf c) (c_pf c) in
      if out_eqb v (o_out ob) &&
         list_eqb op_eqb (replica_calls (c_op c)) (o_rcalls ob) &&
         Bool.eqb (primary_called d (c_op c) (c_rf c)) (o_pcalled ob)
      then check_from d' cs' os' else None
  | _, _ => None
  end.

Definition check_case (k : case) : bool :=
  match check_from dual0 (k_calls k) (k_obs k) with
  | None => false
  | Some d =>
      store_eqb (m_seg (d_prim d)) (k_prim_seg k) && store_eqb (m_idx (d_prim d)) (k_prim_idx k) &&
      store_eqb (m_seg (d_repl d)) (k_repl_seg k) && store_eqb (m_idx (d_repl d)) (k_repl_idx k) &&
      Bool.eqb (m_ready (d_prim d)) (k_prim_ready k) && Bool.eqb (m_ready (d_repl d)) (k_repl_ready k)
  end.

(* ---------- timed reads (testing/synctest virtual time, ms) ---------- *)
(* The harness puts both buckets behind context-honouring fakes with a planned
   latency and outcome, calls the real dual client with a caller context that has a
   deadline and/or is cancelled mid-call, and records the result, the elapsed
   virtual time, whether the primary fake was called and which deadline the context
   it received carried (relative to the start of the call). *)
Record tcase := mkTCase {
  t_prim_seg : store; t_prim_idx : store; t_repl_seg : store; t_repl_idx : store;
  t_index : bool;                       (* DownloadIndex instead of DownloadSegment *)
  t_key : bytes; t_rng : rng;
  t_deadline : option Z; t_cancel : option Z;   (* caller context *)
  t_rp : plan; t_pp : plan;
  to_res : res; to_elapsed : Z; to_pcalled : bool; to_pdeadline : option Z }.

Definition omin (a b : option Z) : option Z :=
  match a, b with
  | Some x, Some y => Some (Z.min x y)
  | Some x, None | None, Some x => Some x
  | None, None => None
  end.

Definition check_tcase (k : tcase) : bool :=
  let d := mkDual (mkMem (t_prim_seg k) (t_prim_idx k) false) (mkMem (t_repl_seg k) (t_repl_idx k) false) in
  let budget := omin (t_deadline k) (t_cancel k) in
  let repl_content := if t_index k then mem_get_idx (d_repl d) (t_key k) else mem_get_seg (d_repl d) (t_key k) (t_rng k) in
  let model := if t_index k then dual_get_idx_timed d (t_key k) budget (t_rp k) (t_pp k)
               else dual_get_seg_timed d (t_key k) (t_rng k) budget (t_rp k) (t_pp k) in
  match model, timed_call budget (t_rp k) repl_content with
  | Some (x, t), Some (a, _) =>
      res_eqb x (to_res k) && (t =? to_elapsed k) &&
      Bool.eqb (negb (is_ok a)) (to_pcalled k) &&
      (* the context the primary receives is the caller's: same deadline *)
      (if to_pcalled k then opt_eqb Z.eqb (to_pdeadline k) (t_deadline k) else true)
  | _, _ => false
  end.
