(* Correspondence checker for the read-path model (C03, C04).

   A case is one history the Go harness drove on the real PartitionLog (index
   interval, start offset, what a failed flush does with the in-flight batches) as
   a list of steps, with what it observed:
     SOp   - one model event executed on the real log (AppendBatch's locked part,
             prepareFlush, uploadFlush success / failure), and afterwards
             l.nextOffset, len(l.segments), len(l.flushingBatches),
             len(l.buffer.batches);
     SSeg  - after a commit: the .kfs object as stored in S3 (all bytes), the
             parsed .index object (ParseIndex), the in-memory index entries and the
             registered segmentRange of segment #k;
     SRestart - see the constructor;
     SRead - a PartitionLog.Read(offset, maxBytes) with: did the cache serve it,
             which S3 call was made (0 none, 1 range read, 2 full download), and the
             result.  A result is given by reference - "equals bytes [a,b) of S3
             object #k" (the Go side checked bytes.Equal on the real data, and the
             object itself is compared in full by SSeg) or "equals accepted batches
             #i..#i+n-1 as stored" - or raw.
   [check_case] replays the steps on the model and compares everything. *)
From KS Require Import lib.Base model.ReadPath model.ReadRestore.
Open Scope Z_scope.

(* payload generator shared with the harness (c03c04_test.go: srPayload): a
   well-framed Kafka v2 batch header and position-dependent filler *)
Fixpoint filler (n : nat) (i marker : Z) : bytes :=
  match n with O => [] | S n' => ((marker + i) mod 256) :: filler n' (i + 1) marker end.
Definition mk_payload (len lod count marker blen : Z) : bytes :=
  ztake len (filler 8 0 marker ++ u32 blen ++ u32 0 ++ [2] ++ filler 4 17 marker ++ u16 0
  ++ u32 lod ++ filler 30 27 marker ++ u32 count ++ filler (Z.to_nat (len - 61)) 61 marker).

Inductive obs_res :=
| XSeg (k a b : Z)
| XBatches (i n : Z)
| XRaw (d : bytes)
| XOutOfRange | XErr | XPanic.

Inductive cstep :=
| SOp (o : op) (next nsegs nflush nbuf : Z)
| SSeg (k : Z) (data : bytes) (parsed mem : list (Z * Z)) (base last size : Z)
| SRead (o max : Z) (hit : bool) (path : Z) (r : obs_res)
(* a fresh PartitionLog(startOffset = sn) over the same S3 + RestoreFromS3 (succeeded):
   afterwards nextOffset and, per registered segment, base / last / size / index entries *)
| SRestart (sn next : Z) (segs : list (Z * Z * Z * list (Z * Z)))
    (* the log's namespace / topic / partition, the prefix the real code passed to
       ListSegments, the keys it got back (sorted) and all segment keys of the bucket
       (sorted; other partitions, topics and namespaces included) *)
    (ns topic : bytes) (part : Z) (prefix : bytes) (returned all_keys : list bytes).

(* [k_ext]: the tree under test has fixes/C04-never-cut-inside-index-block.patch (probed by the harness) *)
Record case := mkCase { k_interval : Z; k_requeue : bool; k_ext : bool; k_start : Z; k_steps : list cstep }.
Definition variant_of (ext : bool) : variant := if ext then VFull else VFloor.

Definition entries_eqb (es : list ientry) (obs : list (Z * Z)) : bool :=
  list_eqb (fun e p => (fst e =? fst p) && (snd e =? snd p))
           (map (fun e => (ie_off e, ie_pos e)) es) obs.

Definition dummy_seg : segment := mkSeg 0 0 0 [] [] [].

Definition res_eqb (l : plog) (hist : list batch) (m : rres) (x : obs_res) : bool :=
  match m, x with
  | ROk d, XSeg k a b => bytes_eqb d (slice (s_data (nth (Z.to_nat k) (l_segs l) dummy_seg)) a b)
  | ROk d, XBatches i n => bytes_eqb d (body_of (ztake n (zdrop i hist)))
  | ROk d, XRaw d' => bytes_eqb d d'
  | ROutOfRange, XOutOfRange => true
  | RS3Err, XErr => true
  | RPanic, XPanic => true
  | _, _ => false
  end.

Definition path_ok (l : plog) (o max : Z) (hit : bool) (path : Z) : bool :=
  match find_segment (l_segs l) o with
  | Some (s, o') => if hit then path =? 0 else path =? uncached_path s o' max
  | None => (path =? 0) && negb hit
  end.

Fixpoint check_steps (v : variant) (l : plog) (hist : list batch) (steps : list cstep) : bool :=
  match steps with
  | [] => true
  | SOp o next nsegs nflush nbuf :: r =>
      let l' := step l o in
      let hist' := match o with
                   | OAppend p => if zlen p <? batch_header_min then hist
                                  else hist ++ [last (l_buffer l') (mkBatch 0 0 0 [])]
                   | _ => hist
                   end in
      (l_next l' =? next) && (zlen (l_segs l') =? nsegs)
      && (zlen (flushing_batches l') =? nflush) && (zlen (l_buffer l') =? nbuf)
      && check_steps v l' hist' r
  | SSeg k data parsed mem base last size :: r =>
      let s := nth (Z.to_nat k) (l_segs l) dummy_seg in
      bytes_eqb (s_data s) data && entries_eqb (s_entries s) parsed && entries_eqb (s_entries s) mem
      && (s_base s =? base) && (s_last s =? last) && (s_size s =? size)
      && check_steps v l hist r
  | SRead o max hit path x :: r =>
      res_eqb l hist (read_gen v true l hit o max) x && path_ok l o max hit path && check_steps v l hist r
  | SRestart sn next segs ns topic part prefix returned all_keys :: r =>
      let l' := restore l sn in
      (l_next l' =? next)
      && bytes_eqb prefix (part_prefix ns topic part)
      && list_eqb bytes_eqb returned (list_segments all_keys (part_prefix ns topic part))
      && forallb (fun s => existsb (bytes_eqb (seg_key ns topic part (s_base s))) returned) (l_segs l')
      && list_eqb (fun a b => match a, b with (b1, l1, z1, e1), (b2, l2, z2, e2) =>
                     (b1 =? b2) && (l1 =? l2) && (z1 =? z2)
                     && list_eqb (fun x y => (fst x =? fst y) && (snd x =? snd y)) e1 e2 end)
           (map (fun s => (s_base s, s_last s, s_size s, map (fun e => (ie_off e, ie_pos e)) (s_entries s))) (l_segs l'))
           segs
      && check_steps v l' hist r
  end.

Definition check_case (k : case) : bool :=
  check_steps (variant_of (k_ext k)) (init_log (k_interval k) (k_requeue k) (k_start k)) [] (k_steps k).
