(* Correspondence checkers for the lease model.

   C18: a case is a schedule the Go harness executed on real LeaseManagers sharing one
   embedded etcd, with what it observed after every event: the result of an Acquire
   call that completed in that step, Owns() of every manager for every resource, the
   lease keys in etcd (which broker id is stored, and which manager's current session
   holds the key's lease), the store revision relative to the start of the case, and
   which managers have a session.  [check_case] replays the events on the model (with
   the guarded Release, i.e. the patched code) and compares after every event.

   C19: a case is a produce request the harness sent through the real handler of a
   broker whose PartitionLeaseManager shares an etcd with a second broker; see
   [check_pcase]. *)
From Coq Require Import String.
From KS Require Import lib.Base lib.Strings lib.EtcdKV model.Lease.
Open Scope Z_scope.

Record obs := mkObs {
  o_res : option ares;
  o_owns : list (list bool);           (* [broker][resource] *)
  o_keys : list (option (Z * Z));      (* per resource: (owner index or -2, session holder index or -1) *)
  o_rev : Z;
  o_sess : list bool;
  o_skip : bool                        (* observation taken inside the window in which the holder
                                          has not yet had a chance to observe its session loss:
                                          not compared (the next one is) *)
}.

Record case := mkCase {
  k_prefix : bytes;
  k_brokers : list bytes;
  k_res : list bytes;
  k_evs : list event;
  k_obs : list obs
}.

Definition ares_eqb (a b : ares) : bool :=
  match a, b with
  | AOk, AOk | ANotOwner, ANotOwner | AShutdown, AShutdown | AErr, AErr => true
  | _, _ => false
  end.

(* index of the first broker satisfying p, or dflt *)
Fixpoint index_of (p : bytes -> bool) (l : list bytes) (i dflt : Z) : Z :=
  match l with
  | [] => dflt
  | b :: l' => if p b then i else index_of p l' (i + 1) dflt
  end.

(* last broker satisfying p (the harness keeps the last match) *)
Fixpoint last_index_of (p : bytes -> bool) (l : list bytes) (i acc : Z) : Z :=
  match l with
  | [] => acc
  | b :: l' => last_index_of p l' (i + 1) (if p b then i else acc)
  end.

Definition obs_of (cfg : config) (k : case) (s : state) (r : option ares) : obs :=
  mkObs r
    (map (fun b => map (owns s b) (k_res k)) (k_brokers k))
    (map (fun rid =>
            match get (s_etcd s) (lease_key cfg rid) with
            | None => None
            | Some x =>
                Some (last_index_of (fun b => bytes_eqb (kv_val x) b) (k_brokers k) 0 (-2),
                      last_index_of (fun b => session_is (get_mgr s b) (kv_lease x)) (k_brokers k) 0 (-1))
            end) (k_res k))
    (e_rev (s_etcd s) - 1)
    (map (fun b => match m_session (get_mgr s b) with Some _ => true | None => false end) (k_brokers k))
    false.

Definition zpair_eqb (a b : Z * Z) : bool := (fst a =? fst b) && (snd a =? snd b).

Definition obs_eqb (a b : obs) : bool :=
  opt_eqb ares_eqb (o_res a) (o_res b) &&
  list_eqb (list_eqb Bool.eqb) (o_owns a) (o_owns b) &&
  list_eqb (opt_eqb zpair_eqb) (o_keys a) (o_keys b) &&
  (o_rev a =? o_rev b) &&
  list_eqb Bool.eqb (o_sess a) (o_sess b).

Fixpoint check_from (cfg : config) (k : case) (s : state) (evs : list event) (os : list obs) : bool :=
  match evs, os with
  | [], [] => true
  | ev :: evs', o :: os' =>
      let '(s', r) := step cfg s ev in
      (o_skip o || obs_eqb (obs_of cfg k s' r) o) && check_from cfg k s' evs' os'
  | _, _ => false
  end.

Definition check_case (k : case) : bool :=
  check_from (mkConfig (k_prefix k) true) k init (k_evs k) (k_obs k).

(* ------------------------------------------------------------------ C19 *)

Record pcase := mkPCase {
  pk_setup : list event;          (* lease pre-state, as model events *)
  pk_env : penv;
  pk_req : list titem;
  pk_pool : list bytes;           (* resource ids observed afterwards *)
  pk_have_codes : bool;           (* false for acks = 0 (no response) *)
  pk_codes : list (list Z);
  pk_entered : list (list bool);  (* storage path entered, per partition entry *)
  pk_owns : list bool;            (* handler's manager, per pool resource, after the request *)
  pk_owns_other : list bool;
  pk_keys : list Z;               (* per pool resource: -1 absent, 0 / 1 = broker "1" / "2", -2 other *)
  pk_holders : list Z             (* per pool resource: whose current session holds the key's lease: 0 / 1, -1 nobody's *)
}.

Definition broker1 : bytes := [49].
Definition broker2 : bytes := [50].
Definition partition_prefix : bytes := codes "/kafscale/partition-leases"%string.

Definition pool_ok (cfg : config) (s' : state) (pool : list bytes)
    (owns1 owns2 : list bool) (keys holders : list Z) : bool :=
  list_eqb Bool.eqb (map (owns s' broker1) pool) owns1 &&
  list_eqb Bool.eqb (map (owns s' broker2) pool) owns2 &&
  list_eqb Z.eqb
    (map (fun r => match key_owner cfg s' r with
                   | None => -1
                   | Some v => if bytes_eqb v broker1 then 0 else if bytes_eqb v broker2 then 1 else -2
                   end) pool) keys &&
  list_eqb Z.eqb
    (map (fun r => match get (s_etcd s') (lease_key cfg r) with
                   | None => -1
                   | Some x => if session_is (get_mgr s' broker1) (kv_lease x) then 0
                               else if session_is (get_mgr s' broker2) (kv_lease x) then 1 else -1
                   end) pool) holders.

Definition check_pcase (k : pcase) : bool :=
  let cfg := mkConfig partition_prefix true in
  let s0 := run cfg (pk_setup k) in
  let '(s', outs) := produce cfg (pk_env k) s0 broker1 (pk_req k) in
  (if pk_have_codes k then list_eqb (list_eqb Z.eqb) (map (map fst) outs) (pk_codes k) else true) &&
  list_eqb (list_eqb Bool.eqb) (map (map snd) outs) (pk_entered k) &&
  pool_ok cfg s' (pk_pool k) (pk_owns k) (pk_owns_other k) (pk_keys k) (pk_holders k).

(* C19, a produce in flight while the lease state changes: the request names one partition
   that needs an Acquire; the harness holds the answer of the (successful) acquire or
   reacquire transaction, runs [mc_mid] (session expiry / ReleaseAll of the handler's manager,
   another broker's Acquire), lets the handler finish, and optionally sends the same request
   again. *)
Record mcase := mkMCase {
  mc_setup : list event;
  mc_env : penv;
  mc_topic : bytes;
  mc_part : Z;
  mc_mid : list event;
  mc_again : bool;
  mc_pool : list bytes;
  mc_code1 : Z;
  mc_code2 : Z;                 (* meaningful when mc_again *)
  mc_entered : bool;            (* storage path entered for the partition by either request *)
  mc_owns : list bool;
  mc_owns_other : list bool;
  mc_keys : list Z;
  mc_holders : list Z
}.

Definition check_mcase (k : mcase) : bool :=
  let cfg := mkConfig partition_prefix true in
  let rid := partition_rid (mc_topic k) (mc_part k) in
  let s1 := run cfg (mc_setup k ++ [AcqBegin broker1 rid; AcqTxn broker1 rid; ReacqTxn broker1 rid]) in
  let window := match alookup rid (m_flights (get_mgr s1 broker1)) with Some (FCommit _ _) => true | _ => false end in
  let s2 := run_from cfg s1 (mc_mid k) in
  let '(s3, r) := step cfg s2 (AcqCommitLocal broker1 rid) in
  let a := match r with Some a => a | None => AErr end in
  let errs := match a with AOk => [] | _ => [(rid, a)] end in
  let o1 := part_outcome (mc_env k) errs (mc_topic k) (mkPItem (mc_part k) 0) in
  let '(s4, o2) :=
    if mc_again k then
      let '(s4, outs) := produce cfg (mc_env k) s3 broker1 [mkTItem (mc_topic k) true [mkPItem (mc_part k) 0]] in
      (s4, hd (0, false) (hd [] outs))
    else (s3, (mc_code2 k, false)) in
  window && (fst o1 =? mc_code1 k) && (fst o2 =? mc_code2 k) &&
  Bool.eqb (snd o1 || snd o2) (mc_entered k) &&
  pool_ok cfg s4 (mc_pool k) (mc_owns k) (mc_owns_other k) (mc_keys k) (mc_holders k).
