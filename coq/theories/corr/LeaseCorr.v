(* Correspondence checkers for the lease model.

   C18: a case is a schedule the Go harness executed on real LeaseManagers sharing one
   embedded etcd, with what it observed after every event: the result of an Acquire
   call that completed in that step, Owns() of every manager for every resource, the
   lease keys in etcd (which broker id is stored, and which manager's current session
   holds the key's lease), the store revision relative to the start of the case, and
   which managers have a session.  [check_case] replays the events on the model (with
   the guarded Release, i.e. the patched code) and compares after every event.

   C19: a case is a produce request the harness sent through the real handler of a
   broker whose PartitionLeaseManager shares an etcd with a second broker; see
   [check_pcase]. *)
From Coq Require Import String.
From KS Require Import lib.Base lib.Strings lib.EtcdKV model.Lease.
Open Scope Z_scope.

Record obs := mkObs {
  o_res : option ares;
  o_owns : list (list bool);           (* [broker][resource] *)
  o_keys : list (option (Z * Z));      (* per resource: (owner index or -2, session holder index or -1) *)
  o_rev : Z;
  o_sess : list bool;
  o_skip : bool                        (* observation taken inside the window in which the holder
                                          has not yet had a chance to observe its session loss:
                                          not compared (the next one is) *)
}.

Record case := mkCase {
  k_prefix : bytes;
  k_brokers : list bytes;
  k_res : list bytes;
  k_evs : list event;
  k_obs : list obs
}.

Definition ares_eqb (a b : ares) : bool :=
  match a, b with
  | AOk, AOk | ANotOwner, ANotOwner | AShutdown, AShutdown | AErr, AErr => true
  | _, _ => false
  end.

(* index of the first broker satisfying p, or dflt *)
Fixpoint index_of (p : bytes -> bool) (l : list bytes) (i dflt : Z) : Z :=
  match l with
  | [] => dflt
  | b :: l' => if p b then i else index_of p l' (i + 1) dflt
  end.

(* last broker satisfying p (the harness keeps the last match) *)
Fixpoint last_index_of (p : bytes -> bool) (l : list bytes) (i acc : Z) : Z :=
  match l with
  | [] => acc
  | b :: l' => last_index_of p l' (i + 1) (if p b then i else acc)
  end.

Definition obs_of (cfg : config) (k : case) (s : state) (r : option ares) : obs :=
  mkObs r
    (map (fun b => map (owns s b) (k_res k)) (k_brokers k))
    (map (fun rid =>
            match get (s_etcd s) (lease_key cfg rid) with
            | None => None
            | Some x =>
                Some (last_index_of (fun b => bytes_eqb (kv_val x) b) (k_brokers k) 0 (-2),
                      last_index_of (fun b => session_is (get_mgr s b) (kv_lease x)) (k_brokers k) 0 (-1))
            end) (k_res k))
    (e_rev (s_etcd s) - 1)
    (map (fun b => match m_session (get_mgr s b) with Some _ => true | None => false end) (k_brokers k))
    false.

Definition zpair_eqb (a b : Z * Z) : bool := (fst a =? fst b) && (snd a =? snd b).

Definition obs_eqb (a b : obs) : bool :=
  opt_eqb ares_eqb (o_res a) (o_res b) &&
  list_eqb (list_eqb Bool.eqb) (o_owns a) (o_owns b) &&
  list_eqb (opt_eqb zpair_eqb) (o_keys a) (o_keys b) &&
  (o_rev a =? o_rev b) &&
  list_eqb Bool.eqb (o_sess a) (o_sess b).

Fixpoint check_from (cfg : config) (k : case) (s : state) (evs : list event) (os : list obs) : bool :=
  match evs, os with
  | [], [] => true
  | ev :: evs', o :: os' =>
      let '(s', r) := step cfg s ev in
      (o_skip o || obs_eqb (obs_of cfg k s' r) o) && check_from cfg k s' evs' os'
  | _, _ => false
  end.

Definition check_case (k : case) : bool :=
  check_from (mkConfig (k_prefix k) true) k init (k_evs k) (k_obs k).

(* ------------------------------------------------------------------ C19 *)

Record pcase := mkPCase {
  pk_setup : list event;          (* lease pre-state, as model events *)
  pk_env : penv;
  pk_req : list titem;
  pk_pool : list bytes;           (* resource ids observed afterwards *)
  pk_have_codes : bool;           (* false for acks = 0 (no response) *)
  pk_codes : list (list Z);
  pk_entered : list (list bool);  (* storage path entered, per partition entry *)
  pk_owns : list bool;            (* handler's manager, per pool resource, after the request *)
  pk_owns_other : list bool;
  pk_keys : list Z;               (* per pool resource: -1 absent, 0 / 1 = broker "1" / "2", -2 other *)
  pk_holders : list Z             (* per pool resource: whose current session holds the key's lease: 0 / 1, -1 nobody's *)
}.

Definition broker1 : bytes := [49].
Definition broker2 : bytes := [50].
Definition partition_prefix : bytes := codes "/kafscale/partition-leases"%string.

Definition check_pcase (k : pcase) : bool :=
  let cfg := mkConfig partition_prefix true in
  let s0 := run cfg (pk_setup k) in
  let '(s', outs) := produce cfg (pk_env k) s0 broker1 (pk_req k) in
  (if pk_have_codes k then list_eqb (list_eqb Z.eqb) (map (map fst) outs) (pk_codes k) else true) &&
  list_eqb (list_eqb Bool.eqb) (map (map snd) outs) (pk_entered k) &&
  list_eqb Bool.eqb (map (owns s' broker1) (pk_pool k)) (pk_owns k) &&
  list_eqb Bool.eqb (map (owns s' broker2) (pk_pool k)) (pk_owns_other k) &&
  list_eqb Z.eqb
    (map (fun r => match key_owner cfg s' r with
                   | None => -1
                   | Some v => if bytes_eqb v broker1 then 0 else if bytes_eqb v broker2 then 1 else -2
                   end) (pk_pool k))
    (pk_keys k) &&
  list_eqb Z.eqb
    (map (fun r => match get (s_etcd s') (lease_key cfg r) with
                   | None => -1
                   | Some x => if session_is (get_mgr s' broker1) (kv_lease x) then 0
                               else if session_is (get_mgr s' broker2) (kv_lease x) then 1 else -1
                   end) (pk_pool k))
    (pk_holders k).
