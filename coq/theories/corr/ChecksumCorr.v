(* Correspondence checker for model/Checksum.v (C30).
   CResolve: one envelope value run through the real Resolver.Resolve and
     Consumer.Unwrap against a storage behaviour; the harness passes what
     DecodeEnvelope returned (JSON is not modelled), the blob the fake storage
     holds, and the real digests of that blob (the model's [digest] is the table
     of those observed values), and the projected results.
   CDownload: one POST /lfs/download through the real handleHTTPDownload; [attempts]
     are the outcomes the fake storage was programmed to give to successive
     GetObject calls, [body] the bytes the HTTP client received, [calls] the number
     of GetObject calls actually made. *)
From Coq Require Import String.
From KS Require Import lib.Base lib.Strings model.Envelope model.Checksum.
Open Scope Z_scope.

(* projected result: 0 pass-through, 1 ok, 10+ errors *)
Definition rcode (r : rres) : Z :=
  match r with
  | RPass _ => 0 | ROk _ _ _ => 1
  | RErr EDecode => 10 | RErr ENoS3 => 11 | RErr EFetch => 12 | RErr ETooLarge => 13 | RErr EAlg => 14 | RErr EMismatch => 15
  end.
Definition rpayload (r : rres) : bytes := match r with RPass p | ROk p _ _ => p | RErr _ => [] end.
Definition alg_name (a : option alg) : bytes :=
  match a with Some ASha256 => s_sha256 | Some AMd5 => s_md5 | Some ACrc32 => s_crc32 | Some ANone => s_none | None => [] end.
Definition ralg (r : rres) : bytes := match r with ROk _ a _ => alg_name a | _ => [] end.
Definition rexp (r : rres) : bytes := match r with ROk _ _ e => e | _ => [] end.

Record robs := mkRObs { o_code : Z; o_payload : bytes; o_alg : bytes; o_expected : bytes }.

Definition robs_eqb (r : rres) (o : robs) : bool :=
  (rcode r =? o_code o) && bytes_eqb (rpayload r) (o_payload o) && bytes_eqb (ralg r) (o_alg o) && bytes_eqb (rexp r) (o_expected o).

Inductive case :=
| CResolve (value : bytes) (decoded : option envelope) (stored : fetched)
           (d_sha256 d_md5 d_crc32 : bytes)         (* real digests of the stored blob, hex *)
           (max_size : Z) (validate has_s3 : bool)
           (res_resolve res_unwrap : robs)
| CDownload (cfg : dlcfg) (q : dlreq) (attempts : list s3obj) (sha_buffered : bytes) (presign_ok : bool)
            (status : Z) (code : bytes) (body : bytes) (echo_sha : bytes) (echo_size : Z)
            (calls : Z).   (* GetObject calls the fake storage saw *)

Definition dl_eqb (r : dlresp) (status : Z) (code body echo_sha : bytes) (echo_size : Z) : bool :=
  match r with
  | DError s c => (s =? status) && bytes_eqb c code
  | DPresign sha size => (status =? 200) && bytes_eqb code (codes "presign"%string) && bytes_eqb sha echo_sha && (size =? echo_size)
  | DStream b sha => (status =? 200) && bytes_eqb code (codes "stream"%string) && bytes_eqb b body && bytes_eqb sha echo_sha
  end.

Definition check_case (k : case) : bool :=
  match k with
  | CResolve value decoded stored ds dm dc max_size validate has_s3 rr ru =>
      let digest := fun (a : alg) (_ : bytes) => match a with ASha256 => ds | AMd5 => dm | ACrc32 => dc | ANone => [] end in
      (* [decode] re-applies DecodeEnvelope's guard to the oracle; the harness passes the
         json.Unmarshal view = the DecodeEnvelope view when it succeeded, None otherwise *)
      let um := fun _ : bytes => decoded in
      let fetch := fun _ : bytes => stored in
      robs_eqb (resolve digest um fetch max_size validate has_s3 value) rr &&
      robs_eqb (unwrap digest um fetch validate value) ru
  | CDownload cfg q attempts shab presign_ok status code body es ez calls =>
      dl_eqb (download (fun _ => shab) presign_ok (fun _ => attempts) cfg q) status code body es ez &&
      (get_calls (fun _ => shab) presign_ok (fun _ => attempts) cfg q =? calls)
  end.
