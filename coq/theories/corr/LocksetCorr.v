(* Correspondence for the lock-discipline model (C41): the Go harness executes a
   generated sequential schedule of model steps on the real PartitionLog /
   SegmentCache / single-flight lifecycle and reports, per step, the cache hit/miss it
   observed.  [check_case] replays the schedule on the model: every step must be
   enabled (e.g. a handed-out buffer is only used by the thread that got it from a hit,
   a log is only appended to after publication) and every GetSegment must hit exactly
   when the real cache did. *)
From Coq Require Import String.
From KS Require Import lib.Base lib.Strings model.Cache model.Lockset.
Open Scope Z_scope.

Record case := mkCase { k_cap : Z; k_evs : list (Z * act * option bool) }.

Definition model_hit (s : state) (a : act) : option bool :=
  match a with
  | ACacheGet tp p b => Some (match snd (Cache.step (st_cache s) (OGet tp p b)) with Some _ => true | None => false end)
  | _ => None
  end.

Fixpoint check_from (s : state) (evs : list (Z * act * option bool)) : bool :=
  match evs with
  | [] => true
  | (t, a, ob) :: evs' =>
      opt_eqb Bool.eqb (model_hit s a) ob &&
      match step s t a with
      | Some s' => check_from s' evs'
      | None => false
      end
  end.

Definition check_case (k : case) : bool := check_from (init (k_cap k)) (k_evs k).

(* field lists obtained by reflection from the real structs vs the model's field table:
   same names, nothing missing on either side, and no field annotated GUnguarded *)
Record fcase := mkF { f_struct : string; f_fields : list string }.

Definition smem (x : string) (l : list string) : bool := existsb (String.eqb x) l.

Definition check_fields (c : fcase) : bool :=
  let ann := fields_of (f_struct c) in
  forallb (fun f => smem f ann) (f_fields c) && forallb (fun f => smem f (f_fields c)) ann &&
  negb (match ann with [] => true | _ => false end).
