(* Correspondence checker for model/Upload.v.  A case is an event list that the Go harness
   sent to the real LFS HTTP handlers (with its S3 and broker fakes), the observed response
   of every request (status; for a 200 completion the envelope: object key id, size, and
   which chunk list the SHA-256 / checksum are the digest of) and the objects in S3 at the
   end (key id -> chunk list).  Digests are instantiated by an injective encoding of
   (algorithm, chunk list).  [check_case] replays the events on the model and compares. *)
From KS Require Import lib.Base model.Upload.
Open Scope Z_scope.

Definition henc (alg : Z) (b : blob) : bytes := alg :: flat_map (fun c => [fst c; snd c]) b.

Record case := mkCase {
  k_events : list cevent;             (* the linearized history: requests, arrivals, lock grants, expiry *)
  k_resps : list (option response);   (* the response observed at each step, if any *)
  k_objects : list (Z * blob) }.      (* ascending key id *)

Definition cfg0 : config := mkCfg 6291456 5242880 67108864.

Definition chunk_eqb (a b : chunk) : bool := (fst a =? fst b) && (snd a =? snd b).
Definition env_eqb (a b : envelope) : bool :=
  (e_key a =? e_key b) && (e_size a =? e_size b) && bytes_eqb (e_sha a) (e_sha b) &&
  bytes_eqb (e_checksum a) (e_checksum b).
Definition resp_eqb (a b : response) : bool :=
  (p_status a =? p_status b) && opt_eqb env_eqb (p_env a) (p_env b) && (p_s3 a =? p_s3 b).
Definition obj_eqb (a b : Z * blob) : bool := (fst a =? fst b) && list_eqb chunk_eqb (snd a) (snd b).

(* insertion sort of the model's objects by key id *)
Fixpoint ins (o : Z * blob) (l : list (Z * blob)) : list (Z * blob) :=
  match l with
  | [] => [o]
  | x :: l' => if fst o <=? fst x then o :: l else x :: ins o l'
  end.
Definition sort_objs (l : list (Z * blob)) : list (Z * blob) := fold_right ins [] l.

Definition check_case (k : case) : bool :=
  let '(y, rs) := crun henc cfg0 init_sys (k_events k) in
  list_eqb (opt_eqb resp_eqb) rs (k_resps k) &&
  list_eqb obj_eqb (sort_objs (w_objects (y_w y))) (k_objects k).
