(* Correspondence checker for the PROXY-protocol model: a case is the byte stream the
   harness wrote to one end of a net.Pipe (then closed) and what the real
   ReadProxyProtocol returned at the other end plus every byte subsequently read from
   the wrapped connection.  v2 addresses are compared as 16-byte values (the harness
   parses the reported string back with net.ParseIP(..).To16(); the model maps a
   4-byte address to its IPv4-in-IPv6 form), everything else byte for byte. *)
From KS Require Import lib.Base lib.Wire model.ProxyProto.
Open Scope Z_scope.

Inductive obs :=
| ONone                       (* info == nil, err == nil *)
| OLocal                      (* info.Local, all other fields zero *)
| OErr (cls : Z)              (* err != nil: 1 EOF/unexpected EOF, 2 too long, 3 malformed, 4 short payload, 5 sig *)
| OPanic
| OV1 (src_ip dst_ip src_addr dst_addr : bytes) (src_port dst_port : Z)
| OV2 (src16 dst16 : bytes) (src_port dst_port : Z).

Record case := mkCase { k_stream : bytes; k_obs : obs; k_rest : bytes }.

Definition V4IN6 : bytes := [0;0;0;0;0;0;0;0;0;0;255;255].
Definition to16 (a : bytes) : bytes := if zlen a =? 4 then V4IN6 ++ a else a.

Definition obs_of (o : outcome pinfo) : obs :=
  match o with
  | Ok PNone => ONone
  | Ok PLocal => OLocal
  | Ok (PV1 sip dip _ _ sa da sp dp) => OV1 sip dip sa da sp dp
  | Ok (PV2 s d sp dp) => OV2 (to16 s) (to16 d) sp dp
  | Err e => OErr e
  | Panic _ => OPanic
  | OutOfFuel => OPanic
  end.

Definition obs_eqb (a b : obs) : bool :=
  match a, b with
  | ONone, ONone => true
  | OLocal, OLocal => true
  | OErr x, OErr y => x =? y
  | OPanic, OPanic => true
  | OV1 a1 a2 a3 a4 p1 p2, OV1 b1 b2 b3 b4 q1 q2 =>
      bytes_eqb a1 b1 && bytes_eqb a2 b2 && bytes_eqb a3 b3 && bytes_eqb a4 b4 && (p1 =? q1) && (p2 =? q2)
  | OV2 a1 a2 p1 p2, OV2 b1 b2 q1 q2 => bytes_eqb a1 b1 && bytes_eqb a2 b2 && (p1 =? q1) && (p2 =? q2)
  | _, _ => false
  end.

Definition check_case (k : case) : bool :=
  let '(o, rest) := parse_proxy (k_stream k) in
  obs_eqb (obs_of o) (k_obs k) && bytes_eqb rest (k_rest k).
