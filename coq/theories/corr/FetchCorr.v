(* Correspondence checker for the fetch slice of cmd/broker handleFetch (C03, C04).

   A case is a history driven through the real handler.Handle on a broker handler
   over the in-memory metadata store and MemoryS3Client: Produce requests (acks 0 or
   -1; with KAFSCALE_PRODUCE_SYNC_FLUSH semantics on or off), explicit Flush of a
   partition log, handler restarts (new handler, same store and S3, logs rebuilt by
   getPartitionLog + RestoreFromS3) and Fetch requests (by topic name, v11, or by
   topic id, v13; several partitions per request).  Every partition of every Fetch
   response is one FFetch step: error code, high watermark, record set.  The record
   set is given as "the first len bytes of the concatenation of the accepted batches
   #i, #i+1, ... of that partition as stored" (the Go side checked bytes.Equal) or raw.
   [check_fcase] replays the steps on one model log per partition and compares with
   [fetch] (model/ReadPath.v), the produce base offsets and the watermark. *)
From KS Require Import lib.Base model.ReadPath model.ReadRestore.
Open Scope Z_scope.

Inductive fobs := YRun (i len : Z) | YRaw (d : bytes) | YNone.

Inductive fstep :=
| FProduce (lg : Z) (payload : bytes) (flush acked : bool) (code base : Z)
| FFlush (lg : Z)
| FRestart (stores : list Z)
    (* per partition log: topic, partition, the prefix its RestoreFromS3 passed to
       ListSegments and the keys returned (sorted); then all segment keys of the bucket *)
    (lists : list (bytes * Z * bytes * list bytes)) (all_keys : list bytes)
| FFetch (lg : Z) (o max : Z) (code hw : Z) (r : fobs).

Record fcase := mkFCase { fk_interval : Z; fk_sync : bool; fk_ext : bool; fk_nlogs : Z; fk_steps : list fstep }.
Definition default_ns : bytes := [100; 101; 102; 97; 117; 108; 116].   (* "default": KAFSCALE_S3_NAMESPACE *)

Definition lstate := (plog * list batch)%type.
Definition dummy_l : lstate := (init_log 1 true 0, []).
Definition get (ls : list lstate) (i : Z) : lstate := nth (Z.to_nat i) ls dummy_l.
Fixpoint set_nth (ls : list lstate) (i : nat) (v : lstate) : list lstate :=
  match ls, i with
  | [], _ => []
  | _ :: r, O => v :: r
  | x :: r, S i' => x :: set_nth r i' v
  end.

Definition flush_log (l : plog) : plog := step (step l (OPrepare 0 0)) OCommit.

(* the watermark handleFetch bounds the read with *)
Definition model_hw (sync : bool) (l : plog) : Z :=
  let store := last_seg_next (l_segs l) in
  if sync then store else Z.max store (l_next l).

Definition fobs_eqb (hist : list batch) (d : bytes) (x : fobs) : bool :=
  match x with
  | YRun i len => bytes_eqb d (ztake len (body_of (zdrop i hist)))
  | YRaw d' => bytes_eqb d d'
  | YNone => false
  end.

Fixpoint restore_all (ls : list lstate) (stores : list Z) : list lstate :=
  match ls, stores with
  | (l, h) :: r, s :: ss => (restore l s, h) :: restore_all r ss
  | _, _ => ls
  end.

Fixpoint check_fsteps (v : variant) (sync : bool) (ls : list lstate) (steps : list fstep) : bool :=
  match steps with
  | [] => true
  | FProduce lg p flush acked code base :: r =>
      let '(l, hist) := get ls lg in
      let l1 := step l (OAppend p) in
      let hist' := if zlen p <? batch_header_min then hist
                   else hist ++ [last (l_buffer l1) (mkBatch 0 0 0 [])] in
      let l2 := if flush then flush_log l1 else l1 in
      (if acked then (code =? 0) && (base =? l_next l) else true)
      && check_fsteps v sync (set_nth ls (Z.to_nat lg) (l2, hist')) r
  | FFlush lg :: r =>
      let '(l, hist) := get ls lg in
      check_fsteps v sync (set_nth ls (Z.to_nat lg) (flush_log l, hist)) r
  | FRestart stores lists all_keys :: r =>
      let ls' := restore_all ls stores in
      forallb (fun x => match x with (topic, part, prefix, returned) =>
                 bytes_eqb prefix (part_prefix default_ns topic part)
                 && list_eqb bytes_eqb returned (list_segments all_keys (part_prefix default_ns topic part)) end) lists
      && (zlen lists =? zlen ls')
      && forallb (fun (xs : (bytes * Z * bytes * list bytes) * lstate) =>
                    match xs with ((topic, part, _, returned), st) =>
                      forallb (fun s => existsb (bytes_eqb (seg_key default_ns topic part (s_base s))) returned) (l_segs (fst st)) end)
                 (combine lists ls')
      && check_fsteps v sync ls' r
  | FFetch lg o max code hw x :: r =>
      let '(l, hist) := get ls lg in
      let hwm := model_hw sync l in
      (hw =? hwm)
      && (match fetch_gen v l true hwm o max with
          | FOffsetOutOfRange => (code =? 1) && match x with YNone => true | _ => false end
          | FEmpty => (code =? 0) && match x with YNone => true | _ => false end
          | FRecords d => (code =? 0) && fobs_eqb hist d x
          | FBackpressure => false
          end)
      && check_fsteps v sync ls r
  end.

Definition check_fcase (k : fcase) : bool :=
  let l0 := (init_log (fk_interval k) true 0, @nil batch) in
  check_fsteps (if fk_ext k then VFull else VFloor) (fk_sync k) (repeat l0 (Z.to_nat (fk_nlogs k))) (fk_steps k).
