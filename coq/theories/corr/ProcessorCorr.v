(* Correspondence checker for the processor model: a case is what the Go harness
   scripted for the real Processor.Run (store kind, decoder table, universe, one
   step per polling cycle / delivered lease-lost notification) together with what it
   observed after each step: the (partition, offset) pairs handed to successful
   sink.Write calls during the step, the checkpoint store contents (sorted by
   partition key) and the number of ClaimLease calls. [check_case] replays the
   events on the model and compares. *)
From KS Require Import lib.Base model.Processor.
Open Scope Z_scope.

Record cstep := mkStep {
  c_ev : event;
  c_writes : list (Z * Z);
  c_commits : list (Z * Z);
  c_claims : Z
}.

Record case := mkCase {
  k_kind : store_kind;
  k_table : list (list rec);     (* segment id -> decoded records *)
  k_segs : list seg;
  k_steps : list cstep
}.

Definition pair_eqb (a b : Z * Z) : bool := (fst a =? fst b) && (snd a =? snd b).

Fixpoint insert_sorted (x : Z * Z) (l : list (Z * Z)) : list (Z * Z) :=
  match l with
  | [] => [x]
  | y :: l' => if fst x <=? fst y then x :: l else y :: insert_sorted x l'
  end.
Definition sort_pairs (l : list (Z * Z)) : list (Z * Z) := fold_right insert_sorted [] l.

Definition table_decode (t : list (list rec)) (id : Z) : list rec :=
  if id <? 0 then [] else nth (Z.to_nat id) t [].

Fixpoint check_from (k : store_kind) (dec : Z -> list rec) (st : state) (steps : list cstep) : bool :=
  match steps with
  | [] => true
  | s :: steps' =>
    let st' := step k dec (fun _ => true) st (c_ev s) in
    list_eqb pair_eqb (skipn (length (st_written st)) (st_written st')) (c_writes s) &&
    list_eqb pair_eqb (sort_pairs (st_commit st')) (c_commits s) &&
    (attempts st (c_ev s) =? c_claims s) &&
    check_from k dec st' steps'
  end.

Definition check_case (c : case) : bool :=
  check_from (k_kind c) (table_decode (k_table c)) init (k_steps c).
