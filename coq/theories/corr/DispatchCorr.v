(* Correspondence checker for the dispatch model (C24). A case is one request sent
   through the real handler.Handle: the ACL configuration the broker was started with,
   the requesting principal, the handler switches (auto-create, admin APIs), the topics
   that existed before the request, the request (kind + item names) and what was
   observed: per item the error code of the reply, and whether the deep snapshot
   (store topics/offsets/groups/configs/committed offsets, S3 listing, partition-log
   high watermarks, coordinator group listing) changed across the request.
   The permission oracle of the model is the C23 model of the authorizer. *)
From Coq Require Import String.
From KS Require Import lib.Base lib.Strings model.Acl model.Dispatch.
Open Scope Z_scope.

Definition action_str (a : action) : bytes :=
  match a with
  | AProduce => codes "produce" | AFetch => codes "fetch" | AGroupRead => codes "group_read"
  | AGroupWrite => codes "group_write" | AGroupAdmin => codes "group_admin" | AAdmin => codes "admin"
  end.
Definition resource_str (r : resource) : bytes :=
  match r with RTopic => codes "topic" | RGroup => codes "group" | RCluster => codes "cluster" end.

Record dcase := mkD {
  d_acl : config; d_principal : bytes;
  d_auto : bool; d_admin : bool;
  d_exists : list bytes;
  d_req : req;
  d_obs : list (item * Z);
  d_changed : bool;
  d_created : list bytes        (* topics that exist after the request and did not before *)
}.

Definition item_eqb (a b : item) : bool := (fst a =? fst b) && bytes_eqb (snd a) (snd b).

Fixpoint check_items (out : list (item * item_out)) (obs : list (item * Z)) : bool :=
  match out, obs with
  | [], [] => true
  | (it, o) :: out', (it', c) :: obs' =>
      item_eqb it it' &&
      match o with
      | Denied c' => c =? c'
      | Proceeds | Harmless => negb (authz_code c)
      end && check_items out' obs'
  | _, _ => false
  end.

Definition check_dcase (k : dcase) : bool :=
  let a := new_authorizer ascii_trim ascii_eqfold (d_acl k) in
  let p : perm_t := fun act res n => allows ascii_trim ascii_eqfold a (d_principal k) (action_str act) (resource_str res) n in
  let e := mkEnv (d_auto k) (d_admin k) (fun t => existsb (bytes_eqb t) (d_exists k)) (fun t => is_nil (ascii_trim t)) in
  let out := handle e p (d_req k) in
  check_items out (d_obs k) &&
  (* nothing proceeds => nothing may have changed *)
  (negb (is_nil (effects out)) || negb (d_changed k)) &&
  (* every topic the real handler created is one the model lets this principal create *)
  forallb (fun n => existsb (bytes_eqb n) (creates e p (d_req k))) (d_created k).
