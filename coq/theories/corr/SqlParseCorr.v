(* Correspondence checker for the SQL parser model: a case is a query text the Go
   harness gave to the real sql.Parse (under recover), the answers of the oracles
   the model does not compute (lower-case forms of the multi-byte runes of the text
   for strings.ToLower; whether the observed error was a timestamp / join-expression
   error, i.e. came from the regular-expression parts) and the projection of what
   Parse returned. [check_case] runs the model on the text and compares. *)
From KS Require Import lib.Base model.SqlParse.
Open Scope Z_scope.

Record view := mkView {
  v_kind : Z;                  (* 0 show topics, 1 show partitions, 2 describe, 3 select, 4 explain *)
  v_topic : bytes; v_alias : bytes;
  v_jtype : Z; v_jtopic : bytes; v_jalias : bytes;
  v_jon : bool;                (* JoinOn != nil *)
  v_cols : list bytes;         (* Select[i].Raw *)
  v_group : list bytes; v_order : bytes; v_desc : bool;
  v_part : option Z; v_omin : option Z; v_omax : option Z;
  v_scan_full : bool;
  v_topics : list bytes        (* proxy-side queryTopics projection (C37 uses the same) *)
}.

Inductive obs := OPanic | OErr (code : Z) | OQuery (v : view).

Record case := mkCase {
  k_q : bytes;
  k_tab : list (bytes * bytes);
  k_ts_err : bool;
  k_jexpr_bad : bool;
  k_obs : obs
}.

Definition err_code (e : perr) : Z :=
  match e with
  | EEmpty => 0 | EUnsupported => 1 | EShow => 2 | EDescribe => 3 | EExplainInvalid => 4
  | EExplainEmpty => 5 | EExplainSelectOnly => 6 | ESelectFrom => 7 | EJoinTopic => 8
  | EJoinEq => 9 | EJoinExpr => 10 | EPartFilter => 11 | EPartValue => 12 | EOffFilter => 13
  | EOffValue => 14 | EOffOp => 15 | EWhere => 16 | ETs => 17
  end.

Definition sel_view (kind : Z) (s : select_q) (topics : list bytes) : view :=
  mkView kind (s_topic s) (s_alias s) (s_jtype s) (s_jtopic s) (s_jalias s)
         (match s_jon s with JNone => false | _ => true end)
         (s_cols s) (s_group s) (s_order s) (s_desc s) (s_part s) (s_omin s) (s_omax s)
         (s_scan_full s) topics.

Definition view_of (q : query) : view :=
  let topics := fst (query_topics q) in
  match q with
  | QShowTopics => mkView 0 [] [] 0 [] [] false [] [] [] false None None None false topics
  | QShowPartitions t => mkView 1 t [] 0 [] [] false [] [] [] false None None None false topics
  | QDescribe t => mkView 2 t [] 0 [] [] false [] [] [] false None None None false topics
  | QSelect s => sel_view 3 s topics
  | QExplain s => sel_view 4 s topics
  end.

Definition optz_eqb := opt_eqb Z.eqb.
Definition lb_eqb := list_eqb bytes_eqb.

Definition view_eqb (a b : view) : bool :=
  (v_kind a =? v_kind b) && bytes_eqb (v_topic a) (v_topic b) && bytes_eqb (v_alias a) (v_alias b) &&
  (v_jtype a =? v_jtype b) && bytes_eqb (v_jtopic a) (v_jtopic b) && bytes_eqb (v_jalias a) (v_jalias b) &&
  Bool.eqb (v_jon a) (v_jon b) && lb_eqb (v_cols a) (v_cols b) && lb_eqb (v_group a) (v_group b) &&
  bytes_eqb (v_order a) (v_order b) && Bool.eqb (v_desc a) (v_desc b) &&
  optz_eqb (v_part a) (v_part b) && optz_eqb (v_omin a) (v_omin b) && optz_eqb (v_omax a) (v_omax b) &&
  Bool.eqb (v_scan_full a) (v_scan_full b) && lb_eqb (v_topics a) (v_topics b).

Definition model_obs (k : case) : obs :=
  match parse (ulower_tab (k_tab k)) (fun _ => k_ts_err k) (fun _ => negb (k_jexpr_bad k)) (k_q k) with
  | Ok q => OQuery (view_of q)
  | Err e => OErr (err_code e)
  | Panic => OPanic
  | NoFuel => OErr (-1)
  end.

Definition obs_eqb (a b : obs) : bool :=
  match a, b with
  | OPanic, OPanic => true
  | OErr x, OErr y => x =? y
  | OQuery v, OQuery w => view_eqb v w
  | _, _ => false
  end.

Definition check_case (k : case) : bool := obs_eqb (model_obs k) (k_obs k).
