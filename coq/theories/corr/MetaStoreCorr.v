(* Correspondence checkers for model/MetaStore.v.  A case is what a Go harness ran on
   the real code and what it observed; [check_*] replays it on the model and compares
   the projected observables (listings as multisets, errors as the [err] enum). *)
From KS Require Import lib.Base lib.Strings lib.Paths model.MetaStore gen.McpCalls.
Open Scope Z_scope.

(* ---------- boolean equalities ---------- *)
Definition pair_eqb {A B} (fa : A -> A -> bool) (fb : B -> B -> bool) (x y : A * B) : bool :=
  fa (fst x) (fst y) && fb (snd x) (snd y).

Definition member_eqb (a b : member) : bool :=
  bytes_eqb (m_client a) (m_client b) && bytes_eqb (m_host a) (m_host b) &&
  bytes_eqb (m_heartbeat a) (m_heartbeat b) &&
  list_eqb (pair_eqb bytes_eqb (list_eqb Z.eqb)) (m_assign a) (m_assign b) &&
  list_eqb bytes_eqb (m_subs a) (m_subs b) && (m_session a =? m_session b).

Definition group_eqb (a b : group) : bool :=
  bytes_eqb (g_id a) (g_id b) && bytes_eqb (g_state a) (g_state b) &&
  bytes_eqb (g_ptype a) (g_ptype b) && bytes_eqb (g_proto a) (g_proto b) &&
  bytes_eqb (g_leader a) (g_leader b) && (g_gen a =? g_gen b) &&
  (g_rebalance a =? g_rebalance b) &&
  list_eqb (pair_eqb bytes_eqb member_eqb) (g_members a) (g_members b).

Definition cfg_eqb (a b : cfg) : bool :=
  bytes_eqb (c_name a) (c_name b) && (c_parts a =? c_parts b) && (c_rf a =? c_rf b) &&
  (c_ret_ms a =? c_ret_ms b) && (c_ret_bytes a =? c_ret_bytes b) &&
  (c_seg_bytes a =? c_seg_bytes b) &&
  list_eqb (pair_eqb bytes_eqb bytes_eqb) (c_config a) (c_config b).

Definition err_eqb (a b : err) : bool :=
  match a, b with
  | ENone, ENone | EInvalidTopic, EInvalidTopic | ETopicExists, ETopicExists
  | EUnknownTopic, EUnknownTopic | EOther, EOther => true
  | _, _ => false
  end.

Fixpoint remove_first {A} (eqb : A -> A -> bool) (x : A) (l : list A) : option (list A) :=
  match l with
  | [] => None
  | y :: l' => if eqb x y then Some l'
               else match remove_first eqb x l' with Some r => Some (y :: r) | None => None end
  end.
Fixpoint perm_eqb {A} (eqb : A -> A -> bool) (a b : list A) : bool :=
  match a with
  | [] => match b with [] => true | _ => false end
  | x :: a' => match remove_first eqb x b with Some b' => perm_eqb eqb a' b' | None => false end
  end.

Definition res_eqb (a b : res) : bool :=
  match a, b with
  | RErr e, RErr e' => err_eqb e e'
  | RTopic e n, RTopic e' n' => err_eqb e e' && (n =? n')
  | ROffset e o, ROffset e' o' => err_eqb e e' && (o =? o')
  | RFetched o m, RFetched o' m' => (o =? o') && bytes_eqb m m'
  | RLooked o m f, RLooked o' m' f' => (o =? o') && bytes_eqb m m' && Bool.eqb f f'
  | RCoffs l, RCoffs l' => perm_eqb (pair_eqb ckey_eqb Z.eqb) l l'
  | RGroup g, RGroup g' => opt_eqb group_eqb g g'
  | RGroups l, RGroups l' => perm_eqb group_eqb l l'
  | RCfg e c, RCfg e' c' => err_eqb e e' && opt_eqb cfg_eqb c c'
  | RMeta l, RMeta l' => list_eqb (pair_eqb (pair_eqb bytes_eqb Z.eqb) Z.eqb) l l'
  | _, _ => false
  end.

(* ---------- C17: the same op list on both stores ---------- *)
(* [k_keys]: after every operation, the keys actually present in the real etcd under
   /kafscale/ (read through the etcd client; the metadata snapshot key left out). The
   model must hold exactly the same key set, so what the real DeleteTopic /
   CreatePartitions / commits put into or remove from etcd (delete prefixes included)
   is compared, not only what the key-builder functions return. *)
Record case17 := mkCase17 {
  k_brokers : Z; k_ops : list op; k_im : list res; k_et : list res;
  k_keys : list (option (list bytes)) }.   (* None: same key set as after the previous operation *)

Definition et_keys (s : etcd) : list bytes :=
  map fst (et_noff s) ++ map fst (et_cfg s) ++ map fst (et_pstate s) ++ map fst (et_groups s) ++ map fst (et_coff s).

Fixpoint et_run_keys (s : etcd) (ops : list op) : list (list bytes) :=
  match ops with
  | [] => []
  | o :: ops' => let s' := fst (et_step s o) in et_keys s' :: et_run_keys s' ops'
  end.

Fixpoint expand_keys (prev : list bytes) (l : list (option (list bytes))) : list (list bytes) :=
  match l with
  | [] => []
  | Some ks :: l' => ks :: expand_keys ks l'
  | None :: l' => prev :: expand_keys prev l'
  end.

Definition check_case17 (k : case17) : bool :=
  list_eqb res_eqb (snd (im_run (im_new (k_brokers k)) (k_ops k))) (k_im k) &&
  list_eqb res_eqb (snd (et_run (et_new (k_brokers k)) (k_ops k))) (k_et k) &&
  match k_keys k with
  | [] => true   (* key sets not observed (scale cases with hundreds of keys): answers only *)
  | ks => list_eqb (perm_eqb bytes_eqb) (et_run_keys (et_new (k_brokers k)) (k_ops k)) (expand_keys [] ks)
  end.

(* ---------- C16: commits and OffsetFetch through the coordinator ---------- *)
Inductive kstep :=
(* [keys]: on the etcd store, the keys really present under /kafscale/consumers/ after the
   commit (read through the etcd client): the model must hold exactly these keys, so any
   change of the key function is a mismatch at once *)
| KCommit (g : bytes) (req : commit_req) (keys : option (list bytes))   (* one OffsetCommit request *)
| KFetch (g : bytes) (req : list (bytes * list Z)) (observed : list (bytes * list (Z * Z * bytes * Z)))
(* any other store operation between the commits and fetches (DeleteTopic, CreateTopic,
   CreatePartitions, DeleteConsumerGroup, UpdateTopicConfig ... on related names), with its answer *)
| KStore (o : op) (r : res).

Record case16 := mkCase16 { k16_etcd : bool; k16_steps : list kstep }.

Definition part_eqb (a b : Z * Z * bytes * Z) : bool :=
  let '(p, o, m, e) := a in let '(p', o', m', e') := b in
  (p =? p') && (o =? o') && bytes_eqb m m' && (e =? e').
Definition fetch_eqb := list_eqb (pair_eqb bytes_eqb (list_eqb part_eqb)).

Fixpoint check16_im (s : inmem) (l : list kstep) : bool :=
  match l with
  | [] => true
  | KCommit g req _ :: l' => check16_im (fst (im_run s (offset_commit_ops g req))) l'
  | KFetch g req obs :: l' => fetch_eqb (offset_fetch (im_lookup s) g req) obs && check16_im s l'
  | KStore o r :: l' => res_eqb (snd (im_step s o)) r && check16_im (fst (im_step s o)) l'
  end.
Fixpoint check16_et (s : etcd) (l : list kstep) : bool :=
  match l with
  | [] => true
  | KCommit g req keys :: l' =>
      let s' := fst (et_run s (offset_commit_ops g req)) in
      match keys with
      | Some ks => perm_eqb bytes_eqb (map fst (et_coff s') ++ map fst (et_groups s')) ks
      | None => true
      end && check16_et s' l'
  | KFetch g req obs :: l' => fetch_eqb (offset_fetch (et_lookup s) g req) obs && check16_et s l'
  | KStore o r :: l' => res_eqb (snd (et_step s o)) r && check16_et (fst (et_step s o)) l'
  end.
Definition check_case16 (k : case16) : bool :=
  if k16_etcd k then check16_et (et_new 1) (k16_steps k) else check16_im (im_new 1) (k16_steps k).

(* ---------- C22: keys derived from (namespace, topic, partition, base offset) ---------- *)
Inductive case22 :=
| KKeys (ns t : bytes) (p b : Z)
        (accepted : bool)                       (* CreateTopic accepted the name *)
        (s3 : list bytes)                       (* segmentKey, indexKey, segmentPrefix, cacheTopicKey *)
        (etcdk : list bytes)                    (* offsetKey, TopicConfigKey, PartitionStateKey, delete prefix,
                                                   ConsumerOffsetKey(g,t,p), PartitionAssignmentKey, partitionKey *)
        (g : bytes)
| KJoin (elems : list bytes) (joined : bytes)   (* path.Join *)
| KParse (key : bytes) (coff : option (bytes * bytes * Z)) (grp : option bytes). (* the two key parsers *)

Definition check_case22 (k : case22) : bool :=
  match k with
  | KKeys ns t p b acc s3 ek g =>
      Bool.eqb (valid_topic_name t) acc &&
      list_eqb bytes_eqb [segment_key ns t p b; index_key ns t p b; segment_prefix ns t p; cache_topic_key ns t] s3 &&
      list_eqb bytes_eqb [offset_key t p; topic_config_key t; partition_state_key t p; topic_delete_prefix t;
                          coff_key g t p; assignment_key t p; partition_key t p] ek
  | KJoin elems j => bytes_eqb (path_join elems) j
  | KParse key c g =>
      opt_eqb ckey_eqb (parse_coff_key key) c && opt_eqb bytes_eqb (parse_group_key key) g
  end.

(* ---------- C40: one tool call = a trace of store calls on a populated store ---------- *)
Record case40 := mkCase40 {
  k40_brokers : Z;
  k40_populate : list op;
  k40_tool : bytes;
  k40_trace : list (op * res);
  k40_after : inmem }.   (* every internal table of the real store after the call (tables unordered) *)

Definition inmem_eqb (a b : inmem) : bool :=
  (im_brokers a =? im_brokers b) &&
  list_eqb (pair_eqb bytes_eqb Z.eqb) (im_topics a) (im_topics b) &&
  list_eqb (pair_eqb pkey_eqb Z.eqb) (im_offsets a) (im_offsets b) &&
  list_eqb (pair_eqb ckey_eqb (pair_eqb Z.eqb bytes_eqb)) (im_coff a) (im_coff b) &&
  list_eqb (pair_eqb bytes_eqb group_eqb) (im_groups a) (im_groups b) &&
  list_eqb (pair_eqb bytes_eqb cfg_eqb) (im_cfgs a) (im_cfgs b).

Fixpoint replay40 (s : inmem) (tr : list (op * res)) : inmem * bool :=
  match tr with
  | [] => (s, true)
  | (o, r) :: tr' =>
      let '(s', r') := im_step s o in
      let '(s'', ok) := replay40 s' tr' in (s'', res_eqb r' r && ok)
  end.

Definition tool_methods (tool : bytes) : list store_method :=
  match aget bytes_eqb tool mcp_calls with Some l => l | None => [] end.

(* the real store's tables are Go maps: compare them as multisets; the topic slice in order *)
Definition inmem_same (a b : inmem) : bool :=
  (im_brokers a =? im_brokers b) &&
  list_eqb (pair_eqb bytes_eqb Z.eqb) (im_topics a) (im_topics b) &&
  perm_eqb (pair_eqb pkey_eqb Z.eqb) (im_offsets a) (im_offsets b) &&
  perm_eqb (pair_eqb ckey_eqb (pair_eqb Z.eqb bytes_eqb)) (im_coff a) (im_coff b) &&
  perm_eqb (pair_eqb bytes_eqb group_eqb) (im_groups a) (im_groups b) &&
  perm_eqb (pair_eqb bytes_eqb cfg_eqb) (im_cfgs a) (im_cfgs b).

Definition check_case40 (k : case40) : bool :=
  let s0 := fst (im_run (im_new (k40_brokers k)) (k40_populate k)) in
  let '(s1, ok) := replay40 s0 (k40_trace k) in
  ok && inmem_eqb s0 s1 &&
  (* a read method that writes in the real store shows here: the model state (unchanged by
     reads) must be what the real store holds internally after the call *)
  inmem_same s1 (k40_after k) &&
  forallb (fun e => existsb (method_eqb (method_of (fst e))) (tool_methods (k40_tool k))) (k40_trace k).

(* ---------- C40 on the etcd store: a broker-side history, then a published snapshot, then a
   freshly opened EtcdStore (as cmd/mcp opens it) serves one tool call ---------- *)
Record case40e := mkCase40e {
  k40e_brokers : Z;
  k40e_history : list op;              (* what the broker-side store did (first op: its initial snapshot) *)
  k40e_pub : list (bytes * Z);         (* the snapshot published afterwards; the new store opens with it *)
  k40e_tool : bytes;
  k40e_trace : list (op * res);
  k40e_keys : list bytes }.            (* real etcd keys (without the snapshot key) after the call *)

(* a new EtcdStore over the same etcd: empty in-process tables, topics from the snapshot *)
Definition reopen (s : etcd) (b : Z) (ts : list (bytes * Z)) : etcd :=
  mkEtcd (mkInmem b ts [] [] [] []) (et_noff s) (et_cfg s) (et_pstate s) (et_groups s) (et_coff s).

Fixpoint replay40e (s : etcd) (tr : list (op * res)) : etcd * bool :=
  match tr with
  | [] => (s, true)
  | (o, r) :: tr' =>
      let '(s', r') := et_step s o in
      let '(s'', ok) := replay40e s' tr' in (s'', res_eqb r' r && ok)
  end.

Definition check_case40e (k : case40e) : bool :=
  let s0 := reopen (fst (et_run (et_new (k40e_brokers k)) (k40e_history k))) (k40e_brokers k) (k40e_pub k) in
  let '(s1, ok) := replay40e s0 (k40e_trace k) in
  ok && perm_eqb bytes_eqb (et_keys s0) (k40e_keys k) && perm_eqb bytes_eqb (et_keys s1) (k40e_keys k) &&
  forallb (fun e => existsb (method_eqb (method_of (fst e))) (tool_methods (k40e_tool k))) (k40e_trace k).
