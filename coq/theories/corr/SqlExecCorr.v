(* Correspondence checker for the SQL execution model. Two kinds of cases:
   - select cases: the listing handed to the real handleSelect by a fake lister
     (statistics as generated, records as returned by the fake decoder), the query,
     and the DataRows observed (as (partition, offset, timestamp) triples) or the
     fact that the query was rejected. Without ORDER BY the rows must equal the
     model's; with ORDER BY (sort.Slice is unstable) the observed timestamps must
     equal the model's row by row and the observed rows must be a sub-multiset of the
     rows the model collected.
   - discovery cases: raw segments served to the real s3Lister.ListCompleted by a
     fake S3 endpoint, and the statistics of the SegmentRefs it returned. *)
From KS Require Import lib.Base model.SqlExec.
Open Scope Z_scope.

Definition row_eqb (a b : row) : bool :=
  (fst (fst a) =? fst (fst b)) && (snd (fst a) =? snd (fst b)) && (snd a =? snd b).

Fixpoint remove_row (r : row) (l : list row) : option (list row) :=
  match l with
  | [] => None
  | x :: l' => if row_eqb r x then Some l'
               else match remove_row r l' with Some t => Some (x :: t) | None => None end
  end.

Fixpoint sub_multiset (a b : list row) : bool :=
  match a with
  | [] => true
  | r :: a' => match remove_row r b with Some b' => sub_multiset a' b' | None => false end
  end.

Record case := mkCase {
  k_segs : list segment;
  k_query : query;
  k_obs : option (list row)      (* None: the query was rejected with an error *)
}.

Definition check_case (c : case) : bool :=
  match select (k_query c) (k_segs c), k_obs c with
  | Rejected, None => true
  | Rows rs, Some o =>
    match q_order (k_query c) with
    | None => list_eqb row_eqb rs o
    | Some _ => list_eqb Z.eqb (map row_ts rs) (map row_ts o) &&
                sub_multiset o (collected (k_query c) (k_segs c))
    end
  | _, _ => false
  end.

(* discovery *)
Record dobs := mkDObs { d_topic : Z; d_part : Z; d_stats : list (option Z) (* min off, max off, min ts, max ts *) }.
Record dcase := mkDCase {
  dk_raw : list raw_segment;          (* completed segments in listing order; footer = None when the time index is off *)
  dk_cache : bool; dk_max_entries : Z;
  dk_calls : list (bool * list dobs)  (* per ListCompleted call: TTL expired before the call?, what it returned *)
}.

Definition dobs_of (sg : segment) : dobs :=
  mkDObs (g_topic sg) (g_part sg) [g_min_off sg; g_max_off sg; g_min_ts sg; g_max_ts sg].

Definition dobs_eqb (a b : dobs) : bool :=
  (d_topic a =? d_topic b) && (d_part a =? d_part b) && list_eqb (opt_eqb Z.eqb) (d_stats a) (d_stats b).

Definition check_dcase (c : dcase) : bool :=
  list_eqb (list_eqb dobs_eqb)
    (map (map dobs_of) (cache_calls (dk_cache c) (dk_max_entries c) None (discover (dk_raw c)) (map fst (dk_calls c))))
    (map snd (dk_calls c)).
