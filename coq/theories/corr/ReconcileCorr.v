(* Correspondence for C42: the Go harness reconciles a generated cluster three times
   through the real reconcile functions and reports which objects exist afterwards
   (kind + name suffix after the cluster name), whether reconciling succeeded and
   whether the second pass changed anything.  The IR side predicts: every object that
   exists was rendered by one of the translated closures (so no CreateOrUpdate site
   was missed by the translator), and since every such closure satisfies
   [target_reads_dominated] the second pass changes nothing. *)
From KS Require Import lib.Base lib.Strings model.Reconcile gen.ReconcileIR.
Open Scope Z_scope.

Record case := mkCase { k_objects : list bytes; k_ok : bool; k_changed : bool }.

Fixpoint str_bytes (s : string) : bytes :=
  match s with
  | EmptyString => []
  | String a s' => Z.of_N (Ascii.N_of_ascii a) :: str_bytes s'
  end.

Fixpoint is_prefix (a b : bytes) : bool :=
  match a, b with
  | [], _ => true
  | x :: a', y :: b' => (x =? y) && is_prefix a' b'
  | _, _ => false
  end.

(* closure renders object "Kind-suffix"; an unresolved suffix ("") matches any name *)
Definition renders (c : closure) (o : bytes) : bool :=
  if String.eqb (c_suffix c) "" then is_prefix (str_bytes (c_kind c)) o
  else bytes_eqb (str_bytes (c_kind c) ++ str_bytes (c_suffix c))%list o.

Definition check_case (k : case) : bool :=
  negb (k_ok k) ||
  (forallb (fun o => existsb (fun c => renders c o && target_reads_dominated c) closures) (k_objects k) &&
   negb (k_changed k)).
