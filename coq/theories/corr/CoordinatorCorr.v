(* Correspondence checker for the group-coordinator model. A case is what the Go
   harness ran on the real GroupCoordinator (over the repo's InMemoryStore, virtual
   time): the environment (topic table, whether the store's clone keeps timeouts), the
   probe keys for committed offsets, the operations with the virtual time of each, and
   what was observed after every operation: the reply, the complete in-memory
   groupState (c.groups[g], members and assignment map sorted by id), the stored
   ConsumerGroup (sorted) and the committed offsets of the probe keys.
   [check_case] replays the operations on the model and compares everything. *)
From KS Require Import lib.Base model.Coordinator model.CoordinatorFaults.
Open Scope Z_scope.

Record obs := mkObs {
  o_reply : option reply;           (* None: the method returned a Go error, no response *)
  o_mem : option group;
  o_store : option pgroup;
  o_offs : list Z
}.

Record case := mkCase {
  k_env : env;
  k_keys : list (Z * Z);
  k_ops : list (op * fault);        (* each operation with the store faults injected into it *)
  k_obs : list obs
}.

Definition tassign_eqb (a b : tassign) : bool :=
  list_eqb (fun x y => (fst x =? fst y) && list_eqb Z.eqb (snd x) (snd y)) a b.

Definition member_eqb (a b : member) : bool :=
  list_eqb Z.eqb (m_topics a) (m_topics b) && (m_session a =? m_session b) &&
  (m_hb a =? m_hb b) && (m_joingen a =? m_joingen b).

Definition canon {V} (l : list (Z * V)) : list (Z * option V) :=
  map (fun k => (k, alookup k l)) (zsort (akeys l)).

Definition canon_eqb {V} (eqb : V -> V -> bool) (a b : list (Z * V)) : bool :=
  list_eqb (fun x y => (fst x =? fst y) && opt_eqb eqb (snd x) (snd y)) (canon a) (canon b) &&
  (Z.of_nat (length a) =? Z.of_nat (length b)).

Definition group_eqb (a b : group) : bool :=
  (g_gen a =? g_gen b) && opt_z_eqb (g_leader a) (g_leader b) &&
  phase_eqb (g_phase a) (g_phase b) &&
  canon_eqb member_eqb (g_members a) (g_members b) &&
  canon_eqb tassign_eqb (g_assign a) (g_assign b) &&
  (g_rebto a =? g_rebto b) && opt_z_eqb (g_deadline a) (g_deadline b).

Definition pmember_eqb (a b : pmember) : bool :=
  list_eqb Z.eqb (pm_topics a) (pm_topics b) && (pm_session a =? pm_session b) &&
  (pm_hb a =? pm_hb b) && tassign_eqb (pm_assign a) (pm_assign b).

Definition pgroup_eqb (a b : pgroup) : bool :=
  phase_eqb (pg_phase a) (pg_phase b) && opt_z_eqb (pg_leader a) (pg_leader b) &&
  (pg_gen a =? pg_gen b) && (pg_rebto a =? pg_rebto b) &&
  canon_eqb pmember_eqb (pg_members a) (pg_members b).

Definition reply_eqb (a b : reply) : bool :=
  match a, b with
  | RJoin e g l m ms, RJoin e' g' l' m' ms' =>
      (e =? e') && (g =? g') && opt_z_eqb l l' && (m =? m') &&
      list_eqb (fun x y => (fst x =? fst y) && list_eqb Z.eqb (snd x) (snd y)) ms ms'
  | RSync e a, RSync e' a' => (e =? e') && tassign_eqb a a'
  | RErr e, RErr e' => e =? e'
  | RNone, RNone => true
  | _, _ => false
  end.

Definition obs_of (ks : list (Z * Z)) (s : st) (r : option reply) : obs :=
  mkObs r (s_mem s) (s_store s) (map (fun k => off_get k (s_off s)) ks).

Definition obs_eqb (a b : obs) : bool :=
  opt_eqb reply_eqb (o_reply a) (o_reply b) &&
  opt_eqb group_eqb (o_mem a) (o_mem b) &&
  opt_eqb pgroup_eqb (o_store a) (o_store b) &&
  list_eqb Z.eqb (o_offs a) (o_offs b).

Fixpoint check_from (E : env) (ks : list (Z * Z)) (s : st) (ops : list (op * fault)) (os : list obs) : bool :=
  match ops, os with
  | [], [] => true
  | o :: ops', ob :: os' =>
      let '(s', r) := stepf E s (fst o) (snd o) in
      obs_eqb (obs_of ks s' r) ob && check_from E ks s' ops' os'
  | _, _ => false
  end.

Definition check_case (k : case) : bool :=
  check_from (k_env k) (k_keys k) init (k_ops k) (k_obs k).

(* index of the first disagreeing operation (debugging aid for replays) *)
Fixpoint first_diff (E : env) (ks : list (Z * Z)) (s : st) (ops : list (op * fault)) (os : list obs) (i : Z) : option (Z * obs) :=
  match ops, os with
  | o :: ops', ob :: os' =>
      let '(s', r) := stepf E s (fst o) (snd o) in
      if obs_eqb (obs_of ks s' r) ob then first_diff E ks s' ops' os' (i + 1)
      else Some (i, obs_of ks s' r)
  | _, _ => None
  end.
Definition diff_case (k : case) := first_diff (k_env k) (k_keys k) init (k_ops k) (k_obs k) 0.
