(* Correspondence checker for the snapshot model (C21).  A case is what the Go harness
   did with 1-3 real EtcdStores and the real operator publish path on embedded etcd:
   per harness step the model events it amounts to, the result code of the call, and
   after it the topic list (name, partition count) of the etcd snapshot and of every
   broker's local copy, the verdict of the implementation-side oracle (all
   acknowledged topics present) and the harness's classification of the step
   (derived broker put or not).  [check_case] replays the events on the model (with
   the patched merge) and compares all of it; it also re-evaluates the partial
   theorem's statement on the run. *)
From KS Require Import lib.Base model.Snapshot.
Open Scope Z_scope.

Record sobs := mkSObs {
  so_events : list event;
  so_code : Z;                 (* 0 ok, 1 invalid, 2 exists, 3 unknown *)
  so_etcd : option snap;
  so_locals : list snap;
  so_acks_ok : bool;
  so_derived : bool
}.

Record case := mkCase { k_brokers : nat; k_steps : list sobs }.

(* run the events of one harness step: result code = first non-OK code; derived = all derived *)
Fixpoint run_group (w : world) (evs : list event) (code : Z) (der : bool) : option (world * Z * bool) :=
  match evs with
  | [] => Some (w, code, der)
  | e :: evs' =>
      match step true w e with
      | Some (w', r) =>
          (* broker calls: the first error is the call's result; operator groups: the
             outcome of the last event (a lost Txn followed by the next read is not an
             error of the publish; giving up after the fifth conflict is) *)
          let code' := match e with
                       | OStart _ | OGet | OTxn => err_code r
                       | _ => if code =? 0 then err_code r else code
                       end in
          run_group w' evs' code' (der && derivedb w e)
      | None => None
      end
  end.

Definition osnap_eqb (a b : option snap) : bool :=
  match a, b with
  | Some x, Some y => snap_eqb x y
  | None, None => true
  | _, _ => false
  end.

Fixpoint check_from (w : world) (steps : list sobs) (allder : bool) : bool :=
  match steps with
  | [] => negb allder || acks_holdb w          (* the partial theorem on this run *)
  | o :: steps' =>
      match run_group w (so_events o) 0 true with
      | Some (w', code, der) =>
          (code =? so_code o) &&
          osnap_eqb (w_etcd w') (so_etcd o) &&
          list_eqb snap_eqb (w_local w') (so_locals o) &&
          Bool.eqb (acks_holdb w') (so_acks_ok o) &&
          Bool.eqb der (so_derived o) &&
          (negb (allder && der) || acks_holdb w') &&
          check_from w' steps' (allder && der)
      | None => false
      end
  end.

Definition check_case (c : case) : bool := check_from (init (k_brokers c) []) (k_steps c) true.

(* ---------- second stream: brokers WITH their real snapshot watchers ----------
   Refreshes happen asynchronously there.  The harness linearises what it saw: a
   broker operation whose outcome shows that the broker had (not) loaded a given
   earlier write gets a BRefresh placed right after that write; at every quiescence
   point (all brokers polled equal to etcd) the missing refreshes are placed after the
   last write — the WatchDeliver obligation — and all local copies are compared.
   Between quiescence points only result codes and the etcd snapshot are compared. *)
Record wobs := mkWObs {
  wo_events : list event;
  wo_code : Z;
  wo_check_etcd : bool;
  wo_etcd : option snap;
  wo_check_locals : bool;
  wo_locals : list snap
}.

Record wcase := mkWCase { wk_brokers : nat; wk_steps : list wobs }.

Fixpoint check_wfrom (w : world) (steps : list wobs) (allder : bool) : bool :=
  match steps with
  | [] => negb allder || acks_holdb w
  | o :: steps' =>
      match run_group w (wo_events o) 0 true with
      | Some (w', code, der) =>
          (code =? wo_code o) &&
          (negb (wo_check_etcd o) || osnap_eqb (w_etcd w') (wo_etcd o)) &&
          (negb (wo_check_locals o) || list_eqb snap_eqb (w_local w') (wo_locals o)) &&
          (negb (allder && der) || acks_holdb w') &&
          check_wfrom w' steps' (allder && der)
      | None => false
      end
  end.

Definition check_wcase (c : wcase) : bool := check_wfrom (init (wk_brokers c) []) (wk_steps c) true.
