(* Correspondence checker for the operator model.  Cases: (KMeta) a cluster spec and
   topic list run through the real BuildClusterMetadata and reconcileBrokerDeployment
   (fake client), with the rendered metadata / StatefulSet fields; (KBucket) a
   name/namespace pair through the real defaultEtcdSnapshotBucket; (KSanitize) a raw
   string through the real sanitizeBucketName; (KSeq) a sequence of operator publishes
   (real BuildClusterMetadata + mergeSnapshots, part of the time the real
   PublishMetadataSnapshot against embedded etcd) interleaved with broker-side changes of
   the stored snapshot (real InMemoryStore CreatePartitions / CreateTopic / DeleteTopic).  strings.TrimSpace and
   ToLower(TrimSpace(.)) are oracle tables recorded by the harness for exactly the
   strings the code applies them to. *)
From KS Require Import lib.Base lib.Strings model.Operator.
Open Scope Z_scope.

Inductive case :=
| KMeta (sp : spec) (topics : list topic) (trims : list (bytes * bytes))
        (o_panic : bool) (o_meta : meta) (o_sts : sts)
| KBucket (name ns : bytes) (trims : list (bytes * bytes)) (lowers : list (bytes * list Z)) (o_bucket : bytes)
| KSanitize (raw : bytes) (lowers : list (bytes * list Z)) (o_bucket : bytes)
| KSeq (evs : list pevent) (o_stored : list meta).   (* the stored snapshot after every event *)

Definition zs_eqb (a b : list Z) : bool := list_eqb Z.eqb a b.
Definition broker_eqb (a b : broker) : bool :=
  (b_id a =? b_id b) && bytes_eqb (b_host a) (b_host b) && (b_port a =? b_port b).
Definition part_eqb (a b : part) : bool :=
  (p_id a =? p_id b) && (p_leader a =? p_leader b) && zs_eqb (p_replicas a) (p_replicas b) && zs_eqb (p_isr a) (p_isr b).
Definition mtopic_eqb (a b : mtopic) : bool :=
  bytes_eqb (mt_name a) (mt_name b) && (mt_err a =? mt_err b) && list_eqb part_eqb (mt_parts a) (mt_parts b).
Definition meta_eqb (a b : meta) : bool :=
  list_eqb broker_eqb (m_brokers a) (m_brokers b) && (m_controller a =? m_controller b) &&
  list_eqb mtopic_eqb (m_topics a) (m_topics b) &&
  opt_eqb bytes_eqb (m_cname a) (m_cname b) && opt_eqb bytes_eqb (m_cid a) (m_cid b).
Definition sts_eqb (a b : sts) : bool :=
  bytes_eqb (sts_name a) (sts_name b) && bytes_eqb (sts_ns a) (sts_ns b) &&
  bytes_eqb (sts_service a) (sts_service b) && (sts_replicas a =? sts_replicas b) &&
  opt_eqb bytes_eqb (sts_env_host a) (sts_env_host b).

(* publish sequences: advertised hosts carry no white space, so TrimSpace = identity *)
Fixpoint check_seq (m : meta) (evs : list pevent) (os : list meta) : bool :=
  match evs, os with
  | [], [] => true
  | e :: evs', o :: os' => let m' := pstep (fun b => b) true m e in meta_eqb m' o && check_seq m' evs' os'
  | _, _ => false
  end.

Definition check_case (k : case) : bool :=
  match k with
  | KMeta sp topics trims o_panic o_meta o_sts =>
      let trim := table_bytes trims in
      (match build_meta trim sp topics with
       | Panic => o_panic
       | Done m => negb o_panic && meta_eqb m o_meta
       end) && sts_eqb (sts_of trim sp) o_sts
  | KBucket name ns trims lowers o =>
      let b := default_bucket (table_bytes trims) (table_runes lowers) name ns in
      bytes_eqb b o && s3_validb b
  | KSanitize raw lowers o => bytes_eqb (sanitize (table_runes lowers) raw) o
  | KSeq evs os => check_seq meta0 evs os
  end.
