(* Correspondence checker for the router model (C20).  A case is what the Go harness
   did to a real PartitionRouter / GroupRouter on embedded etcd: the sequence of
   model events (lease writes, loadAll outcomes, the Watch call, each forwarded
   watch response with the number of revisions it carried, stream closes,
   compactions) and, after every event, the router's table (sorted by route key),
   its [rev] field relative to the revision at the start of the case (-1 when the
   field does not exist, i.e. unpatched code) and its program position; finally the
   lease keys found in etcd by a Get.  [check_case] replays the events on the model
   of the patched code and compares everything. *)
From KS Require Import lib.Base lib.Strings lib.RevKV model.Router proofs.RouterProofs.
Open Scope Z_scope.

Record obs := mkObs {
  o_routes : kvmap;      (* r.routes sorted by key *)
  o_rev : Z;             (* r.rev - base revision, or -1 *)
  o_pc : Z               (* 0 init, 1 loaded (at the Watch call), 2 watching, 3 closed (before loadAll) *)
}.

Record case := mkCase {
  k_kind : Z;            (* 0 partition router, 1 group router *)
  k_canon : bool;        (* the harness built every key with partitionLeaseKey / a non-empty group id *)
  k_evs : list event;
  k_obs : list obs;
  k_etcd : kvmap         (* final Get under the prefix: (key remainder, value) in key order *)
}.

Definition rk_of (kind : Z) : bytes -> option bytes := if kind =? 0 then rk_part else rk_group.

Definition pc_code (p : pc) : Z :=
  match p with PcInit => 0 | PcLoaded => 1 | PcWatching => 2 | PcClosed => 3 end.

Definition pair_eqb (a b : bytes * bytes) : bool := bytes_eqb (fst a) (fst b) && bytes_eqb (snd a) (snd b).

Definition obs_ok (w : world) (o : obs) : bool :=
  let r := w_router w in
  list_eqb pair_eqb (r_routes r) (o_routes o) &&
  ((o_rev o =? -1) || (pc_code (r_pc r) =? 0) || (o_rev o =? Z.of_nat (r_rev r))) &&
  (o_pc o =? pc_code (r_pc r)).

Fixpoint check_from (rk : bytes -> option bytes) (w : world) (evs : list event) (os : list obs) : option world :=
  match evs, os with
  | [], [] => Some w
  | e :: evs', o :: os' =>
      match step rk true w e with
      | Some w' => if obs_ok w' o then check_from rk w' evs' os' else None
      | None => None
      end
  | _, _ => None
  end.

Definition ev_keys (e : event) : list bytes :=
  match e with
  | EPut k _ => [k]
  | EDel k => [k]
  | ETxn ops => map ev_key ops
  | _ => []
  end.

Definition key_ok (kind : Z) (k : bytes) : bool :=
  if kind =? 0 then canonicalb k else match k with [] => false | _ => true end.

Definition check_case (c : case) : bool :=
  let rk := rk_of (k_kind c) in
  match check_from rk init (k_evs c) (k_obs c) with
  | Some w =>
      list_eqb pair_eqb (kv_now (w_store w)) (k_etcd c) &&
      (* canonical keys: Go's %d text is the model's [dec] and parses back *)
      (negb (k_canon c) || forallb (key_ok (k_kind c)) (flat_map ev_keys (k_evs c))) &&
      (* the theorem's conclusion, recomputed on this run *)
      (negb (quiescentb w) || negb (k_canon c) ||
       list_eqb pair_eqb (r_routes (w_router w)) (etcd_routes rk w))
  | None => false
  end.
