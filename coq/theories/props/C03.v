(* C03 - Fetch returns exactly the acknowledged bytes, in order.
   Only statements closed by [exact]; proofs live in proofs/ReadPathProofs.v.
   model/ReadPath.v has three versions of the segment read (VHead: before the C04
   fixes, VFloor: with fixes/C04-find-index-entry-floor.patch, VFull: also with
   fixes/C04-never-cut-inside-index-block.patch); the C03 theorems hold for all three,
   given the fallback order of fixes/C03-flush-window-read-order.patch ([read_gen v true]). *)
From KS Require Import lib.Base model.ReadPath model.ReadRestore proofs.ReadPathProofs proofs.ReadRestoreProofs.
Open Scope Z_scope.

(* (1) For every history of appends / prepareFlush / upload success / upload failure
   (either failed-flush policy), every index interval, start offset, fetch offset,
   byte limit and cache state: a successful Read returns a non-empty prefix of the
   bytes of a suffix [rest] of this partition's live batches (segments, then in-flight,
   then buffered), and every live batch before that suffix ends below the requested
   offset - i.e. the run starts at a batch boundary at or before the batch holding o
   (at the first batch after o when o falls in a gap). *)
Theorem C03_read_sound : forall v iv rq start ops cached o max d,
  Forall valid_op ops ->
  let l := run (init_log iv rq start) ops in
  read_gen v true l cached o max = ROk d -> is_run (live l) o d.
Proof. exact read_sound. Qed.
Print Assumptions C03_read_sound.

(* (2) ... and every live batch is an appended payload, byte for byte, apart from the
   base offset patched into its first 8 bytes; nothing else is ever live. *)
Theorem C03_live_are_appended : forall iv rq start ops,
  Forall (appended_by ops) (live (run (init_log iv rq start) ops)).
Proof. exact live_appended. Qed.
Print Assumptions C03_live_are_appended.

(* (3) The three ways Read obtains the bytes of a flushed segment - cache hit +
   sliceCachedSegment, S3 range read, full download + sliceCachedSegment - return the
   same result for ANY index entries, offset and limit, provided the registered size
   is the object's size ... *)
Theorem C03_paths_agree_segment : forall v s o max,
  s_size s = zlen (s_data s) -> read_uncached_gen v s o max = read_cached_gen v s o max.
Proof. exact paths_agree_seg. Qed.
Print Assumptions C03_paths_agree_segment.

(* ... hence on every reachable log a cached and an uncached Read agree. *)
Theorem C03_paths_agree : forall v iv rq start ops o max,
  Forall valid_op ops ->
  let l := run (init_log iv rq start) ops in
  read_gen v true l true o max = read_gen v true l false o max.
Proof. exact read_paths_agree. Qed.
Print Assumptions C03_paths_agree.

(* (4) The same across restarts: histories may contain, anywhere, a restart whose
   RestoreFromS3 succeeded (fresh PartitionLog from any metadata-store offset, the
   committed segments re-registered from S3, buffer and in-flight batches lost). *)
Theorem C03_read_sound_restart : forall v iv rq start xs cached o max d,
  Forall valid_xop xs ->
  let l := xrun (init_log iv rq start) xs in
  read_gen v true l cached o max = ROk d -> is_run (live l) o d.
Proof. exact read_sound_restart. Qed.
Print Assumptions C03_read_sound_restart.

Theorem C03_paths_agree_restart : forall v iv rq start xs o max,
  Forall valid_xop xs ->
  let l := xrun (init_log iv rq start) xs in
  read_gen v true l true o max = read_gen v true l false o max.
Proof. exact read_paths_agree_restart. Qed.
Print Assumptions C03_paths_agree_restart.

(* (5) RestoreFromS3 lists with the prefix "<namespace>/<topic>/<partition>/": the segment
   key of ANOTHER partition of the same topic never matches it (1 vs 10..19, ...), so a
   rebuilt log registers only its own partition's objects.  (Topic and namespace
   separation needs names without "/", C22; the harness keeps order/orders/orders2 and
   n/ns/ns2 live and compares the real listing with [list_segments].) *)
Theorem C03_listing_isolated : forall ns topic p p' base,
  has_prefix (part_prefix ns topic p) (seg_key ns topic p' base) = true -> p = p'.
Proof. exact listing_isolated. Qed.
Print Assumptions C03_listing_isolated.

(* header / footer lengths the slicing relies on *)
Theorem C03_segment_layout : forall b c t crc last,
  zlen (build_header b c t) = segment_header_len /\ zlen (build_footer crc last) = segment_footer_len.
Proof. intros; split; [apply header_len|apply footer_len]. Qed.
Print Assumptions C03_segment_layout.

Definition p61 (marker : Z) (lod : Z) : bytes :=
  repeat marker 23 ++ u32 lod ++ repeat marker 30 ++ u32 (lod + 1).

(* The defect fixed by fixes/C03-flush-window-read-order.patch, on the HEAD model
   ([read_head]): batch [0,4] is in flight, batch [5,9] is buffered, Read(2) answers
   with the buffered batch (base offset 5) - records 2..4 are skipped; the fixed
   order returns the in-flight batch. *)
Example C03_head_flush_window_witness :
  let l := run (init_log 1 false 0) [OAppend (p61 7 4); OPrepare 0 0; OAppend (p61 9 4)] in
  read_head l false 2 1000 = ROk (b_bytes (nth 1 (live l) dflt)) /\
  b_base (nth 1 (live l) dflt) = 5 /\
  read l false 2 1000 = ROk (b_bytes (nth 0 (live l) dflt)).
Proof. vm_compute. repeat split. Qed.

(* non-vacuity: a sparse index, a read that starts before the batch holding o, a
   snapped read after a dropped flush, a read served from the flush window *)
Example C03_nonvacuous :
  let ops := [OAppend (p61 1 0); OAppend (p61 2 1); OAppend (p61 3 0); OAppend (p61 4 2);
              OPrepare 5 6; OCommit; OAppend (p61 5 0); OPrepare 7 8; OFail;
              OAppend (p61 6 1); OPrepare 9 10; OAppend (p61 7 0)] in
  let l := run (init_log 3 false 0) ops in
  Forall valid_op ops /\
  map ie_off (s_entries (nth 0 (l_segs l) (mkSeg 0 0 0 [] [] []))) = [0; 3] /\
  map b_base (live l) = [0; 1; 3; 4; 8; 10] /\
  read_floor l false 2 61 = ROk (b_bytes (nth 0 (live l) dflt)) /\ (* offset 2 is in batch [1,2]; the run starts at the entry for 0 *)
  read l false 2 61 = ROk (b_bytes (nth 0 (live l) dflt) ++ b_bytes (nth 1 (live l) dflt)) /\ (* ... and with the cap extension reaches the entry for 3 *)
  read l true 7 200 = ROk (b_bytes (nth 4 (live l) dflt)) /\       (* offset 7 was dropped: first batch after *)
  read l true 9 0 = ROk (b_bytes (nth 4 (live l) dflt)) /\         (* flush window *)
  read l true 11 1 = ROutOfRange.
Proof.
  cbv zeta. split.
  - repeat constructor; intros _; vm_compute; discriminate.
  - vm_compute. repeat split.
Qed.
