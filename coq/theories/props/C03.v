From KS Require Import lib.Base model.ReadPath.
Open Scope Z_scope.
Example C03_nonvacuous : True. Proof. exact I. Qed.
