(* C07 — Segment files written by the broker decode identically everywhere.
   Statements only; proofs in proofs/DecodersRoundtrip.v (varint lemmas in lib/Varint.v).
   Spec side: lib/Kafka.v ([enc_batch]: what a conforming producer sends, checked against
   franz-go's kmsg encoder by the correspondence run).  [batch_wf]: uncompressed, >= 1
   record, ANY int64 timestamp delta (negative too), null/empty/any key and value, any
   headers (null/empty values), fields within their wire ranges.
   [crc] is universally quantified: nothing depends on what CRC-32C computes.
   The SQL decoder is the one WITH fixes/C07-sql-timestamp-varlong.patch; the unpatched
   one ([decode_sql_orig]) is refuted below. *)
From Coq Require Import Sorted.
From KS Require Import lib.Base lib.Varint lib.Outcome lib.Kafka model.Decoders proofs.DecodersProofs proofs.DecodersRoundtrip proofs.DecodersIndex proofs.DecodersPitr.
Open Scope Z_scope.

(* The real writer (BuildSegment over NewRecordBatchFromBytes of each batch) succeeds and
   both processors' decoders return exactly the records that were sent: offset = base +
   offsetDelta, timestamp = firstTimestamp + timestampDelta, key, value, headers. *)
Theorem C07_decoders_roundtrip : forall crc interval created bs, bs <> [] -> Forall batch_wf bs ->
  exists a, build_segment crc interval (map rbatch_of_bytes (map (enc_batch crc) bs)) created = Some a /\
    out (decode_iceberg (a_segment a)) = Ok (concat (map records_of bs)) /\
    out (decode_sql (a_segment a)) = Ok (concat (map records_of bs)).
Proof. exact c07_built. Qed.
Print Assumptions C07_decoders_roundtrip.

(* the same for any header/footer field values (segment layout only) *)
Theorem C07_iceberg_roundtrip : forall crc bs base count created crcv last, Forall batch_wf bs ->
  out (decode_iceberg (seg_header base count created ++ enc_batches crc bs ++ seg_footer crcv last))
  = Ok (concat (map records_of bs)).
Proof. exact c07_iceberg. Qed.
Print Assumptions C07_iceberg_roundtrip.

Theorem C07_sql_roundtrip : forall crc bs base count created crcv last, Forall batch_wf bs ->
  out (decode_sql (seg_header base count created ++ enc_batches crc bs ++ seg_footer crcv last))
  = Ok (concat (map records_of bs)).
Proof. exact c07_sql. Qed.
Print Assumptions C07_sql_roundtrip.

(* segment layout: header (magic, version 1, base offset of the first batch), the batches
   back to back, footer with crc(body), last offset and the end magic *)
Theorem C07_segment_layout : forall crc interval raws created, raws <> [] -> Forall (fun r => r <> []) raws ->
  exists a, build_segment crc interval (map rbatch_of_bytes raws) created = Some a /\
    a_segment a = seg_header (a_base a) (a_count a) created ++ concat raws ++ seg_footer (crc (concat raws)) (a_last a) /\
    a_base a = to_signed 64 (be_u (slice (hd [] raws) 0 8)).
Proof. exact build_segment_shape. Qed.
Print Assumptions C07_segment_layout.

(* index clause, for ALL batch lists and index intervals: whenever BuildSegment succeeds on
   batches with strictly increasing base offsets, non-empty payloads and a segment below
   2 GiB ([batches_ok]), the index entries (IndexBuilder.MaybeAdd) are strictly increasing
   in offset AND position, every entry is (base offset, start position) of one of the
   batches, the first batch always has an entry, and the index file is the encoding of
   exactly these entries *)
Theorem C07_index_entries : forall crc interval bs created a,
  build_segment crc interval bs created = Some a -> batches_ok bs 32 ->
  StronglySorted lt2 (a_entries a) /\
  Forall (fun e => In e (batch_starts bs 32)) (a_entries a) /\
  (exists b0 rest, bs = b0 :: rest /\ hd_error (a_entries a) = Some (rb_base b0, 32)) /\
  a_index a = index_bytes (if interval <=? 0 then 1 else interval) (a_entries a).
Proof. exact c07_index_entries. Qed.
Print Assumptions C07_index_entries.

(* the restore scanner sees every record's (timestampDelta, offsetDelta) *)
Theorem C07_pitr_scan_roundtrip : forall rs rest, Forall record_wf rs ->
  out (pitr_scan_records (S (length (enc_records rs ++ rest))) (zlen rs) (enc_records rs ++ rest))
  = Ok (map (fun r => (kr_ts_delta r, kr_off_delta r)) rs).
Proof. exact c07_scan. Qed.
Print Assumptions C07_pitr_scan_roundtrip.

(* The restore scanner's contract (model of collectRecoverableBatches), for EVERY segment of
   well-formed header-consistent batches ([pitr_wf]: batch_wf, record 0 at firstTimestamp,
   maxTimestamp = the true maximum, non-negative offset deltas / lastOffsetDelta), every
   cut-off and every CRC function:
   (a) the scanner returns exactly the encodings of [collect_spec bs cutoff];
   (b) the (offset, timestamp) pairs of the returned batches are the records of the segment in
       scan order up to, not including, the first record whose timestamp is > cutoff;
   (c) every returned batch is an input batch unchanged (so byte-identical: it is
       [enc_batch crc b] again) or an input batch cut to its kept prefix - and since the
       output is [enc_batch crc (cut_batch b p)], its batchLength, lastOffsetDelta (offset delta
       of the last kept record), maxTimestamp (maximum over the kept records), numRecords and
       CRC (crc of the rewritten bytes 21..) are consistent with the records it keeps and all
       other header bytes and the kept record bytes are unchanged. *)
Theorem C07_pitr_scan_contract : forall crc bs base count created crcv last cutoff, Forall pitr_wf bs ->
  out (pitr_collect crc (seg_header base count created ++ enc_batches crc bs ++ seg_footer crcv last) cutoff)
    = Ok (map (enc_batch crc) (collect_spec bs cutoff)) /\
  concat (map recs_of (collect_spec bs cutoff)) = take_le cutoff (concat (map recs_of bs)) /\
  Forall (fun k => exists b, In b bs /\
            (k = b \/ k = cut_batch b (kept_prefix (kb_first_ts b) cutoff (kb_records b))))
         (collect_spec bs cutoff).
Proof. exact c07_pitr_contract. Qed.
Print Assumptions C07_pitr_scan_contract.

(* the skeleton processor's decoder is a documented placeholder: it returns no batches and
   never fails (the decode-equality clause is not claimed for it, DESIGN 9.2) *)
Theorem C07_skeleton_returns_nothing : forall seg, decode_skeleton seg = ret [].
Proof. reflexivity. Qed.
Print Assumptions C07_skeleton_returns_nothing.

(* ---------- the unpatched SQL decoder violates the property ---------- *)
Definition rec0 (ts od : Z) : krecord := mkKRec 0 ts od (Some [107]) (Some [118]) [].
Definition batch30d : kbatch :=  (* two records 30 days apart *)
  mkKBatch 0 0 0 1 1700000000000 1702592000000 (-1) (-1) (-1) [rec0 0 0; rec0 2592000000 1].
Definition batch12d : kbatch :=  (* second record 2^30 ms (12.4 days) later *)
  mkKBatch 0 0 0 1 1700000000000 1701073741824 (-1) (-1) (-1) [rec0 0 0; rec0 (2 ^ 30) 1].
Definition crcz (_ : bytes) : Z := 0.
Definition seg_of (b : kbatch) : bytes := seg_header 0 2 0 ++ enc_batches crcz [b] ++ seg_footer 0 1.

Definition batch198d : kbatch :=  (* second record 2^34 ms later: six varint bytes *)
  mkKBatch 0 0 0 1 1700000000000 1717179869184 (-1) (-1) (-1) [rec0 0 0; rec0 (2 ^ 34) 1].

Theorem C07_sql_unpatched_refuted :
  (exists rs, out (decode_sql_orig (seg_of batch30d)) = Ok rs /\ rs <> records_of batch30d /\
              map d_ts rs = [1700000000000; 1700444516352]) /\
  out (decode_sql_orig (seg_of batch198d)) = Err EVarint /\
  (exists rs, out (decode_sql_orig (seg_of batch12d)) = Ok rs /\ rs <> records_of batch12d /\
              map d_ts rs = [1700000000000; 1700000000000 - 2 ^ 30]).
Proof.
  split; [|split; [vm_compute; reflexivity|]].
  - eexists. split; [vm_compute; reflexivity|]. split; [vm_compute; discriminate|vm_compute; reflexivity].
  - eexists. split; [vm_compute; reflexivity|]. split; [vm_compute; discriminate|vm_compute; reflexivity].
Qed.
Print Assumptions C07_sql_unpatched_refuted.

Ltac wf_by_computation :=
  unfold batch_wf, record_wf, header_wf, in_signed, is_byte, bytes_ok, obytes_ok, olen;
  repeat (first [split | apply Forall_cons | apply Forall_nil]);
  vm_compute; try reflexivity; try (let Hc := fresh "Hc" in intro Hc; discriminate Hc); try exact I.

(* non-vacuity of the scanner contract: batch A kept whole, batch B cut after its first
   record, batch C (entirely before the cut-off) dropped because the scan stopped in B *)
Definition pbA : kbatch := mkKBatch 0 0 0 1 100 150 (-1) (-1) (-1) [rec0 0 0; rec0 50 1].
Definition pbB : kbatch := mkKBatch 2 0 0 1 120 160 (-1) (-1) (-1) [rec0 0 0; rec0 40 1].
Definition pbC : kbatch := mkKBatch 4 0 0 0 90 90 (-1) (-1) (-1) [rec0 0 0].
Example C07_pitr_contract_nonvacuous :
  Forall pitr_wf [pbA; pbB; pbC] /\
  collect_spec [pbA; pbB; pbC] 150 = [pbA; cut_batch pbB [rec0 0 0]] /\
  concat (map recs_of (collect_spec [pbA; pbB; pbC] 150)) = [(0, 100); (1, 150); (2, 120)] /\
  out (pitr_collect crcz (seg_header 0 5 0 ++ enc_batches crcz [pbA; pbB; pbC] ++ seg_footer 0 4) 150)
    = Ok [enc_batch crcz pbA; enc_batch crcz (cut_batch pbB [rec0 0 0])] /\
  collect_spec [pbA; pbB; pbC] 160 = [pbA; pbB; pbC].
Proof.
  split; [|vm_compute; repeat split].
  repeat apply Forall_cons; try apply Forall_nil;
    (split; [wf_by_computation|split; [vm_compute; split; [intro Hc; discriminate Hc|reflexivity]|
      split; [eexists; eexists; split; reflexivity|split; [vm_compute; reflexivity|
        repeat (first [apply Forall_cons | apply Forall_nil]); vm_compute; intro Hc; discriminate Hc]]]]).
Qed.

Example C07_nonvacuous :
  batch_wf batch30d /\
  out (decode_sql (seg_of batch30d)) = Ok (records_of batch30d) /\
  map d_ts (records_of batch30d) = [1700000000000; 1702592000000] /\
  (let b := mkKBatch 5 0 0 0 1700000000000 1700000000000 (-1) (-1) (-1)
              [mkKRec 0 (-7) 0 None (Some []) [([104], None); ([], Some [1; 2])]] in
   batch_wf b /\ out (decode_iceberg (seg_of b)) =
     Ok [mkDRec 5 1699999999993 None (Some []) [([104], None); ([], Some [1; 2])]]).
Proof.
  split; [|split; [vm_compute; reflexivity|split; [vm_compute; reflexivity|]]].
  - wf_by_computation.
  - cbv zeta. split; [wf_by_computation|vm_compute; reflexivity].
Qed.
