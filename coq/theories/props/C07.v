(* C07 — placeholder while the round-trip proofs are being written *)
From KS Require Import lib.Base lib.Varint lib.Outcome lib.Kafka model.Decoders proofs.DecodersProofs.
Open Scope Z_scope.

Theorem C07_skeleton_returns_nothing : forall seg, decode_skeleton seg = ret [].
Proof. reflexivity. Qed.
Print Assumptions C07_skeleton_returns_nothing.
