(* C44 — Reads through an S3 read replica match the primary; writes and listings
   go to the primary.  Only statements closed by [exact]; proofs in proofs/DualProofs.v. *)
From KS Require Import lib.Base model.Dual proofs.DualProofs.
Open Scope Z_scope.

(* (1) Under the hypothesis "a replica object, when present, equals the primary's
       object under the same key" (CRR lag = object not copied yet; a stale version
       under a reused key is outside it), a segment read - whole object or any byte
       range - and an index read through the dual client return exactly what the
       primary bucket returns for that call, whether the replica copy is missing,
       present, or the replica call fails ([rf] arbitrary), for every key and range. *)
Theorem C44_reads_match : forall d, replica_consistent d ->
  (forall k r rf, dual_get_seg d k r rf false = mem_get_seg (d_prim d) k r) /\
  (forall k rf, dual_get_idx d k rf false = mem_get_idx (d_prim d) k).
Proof. exact reads_match_state. Qed.
Print Assumptions C44_reads_match.

(* (1') the same along every history from two empty buckets in which replication
        only copies the primary's current object or drops the replica's copy, an
        upload never changes bytes under a key the replica holds, and a delete never
        removes an object the replica still holds; faults of either client anywhere. *)
Theorem C44_reads_match_history : forall cs, disciplined dual0 cs ->
  let d := run dual0 cs in
  (forall k r rf, dual_get_seg d k r rf false = mem_get_seg (d_prim d) k r) /\
  (forall k rf, dual_get_idx d k rf false = mem_get_idx (d_prim d) k).
Proof. exact reads_match_history. Qed.
Print Assumptions C44_reads_match_history.

(* (1'') when the primary call itself fails the dual client returns the primary's
         bytes (from the replica) or an error - never different bytes. *)
Theorem C44_reads_primary_fault : forall d, replica_consistent d ->
  (forall k r rf, dual_get_seg d k r rf true = mem_get_seg (d_prim d) k r \/ dual_get_seg d k r rf true = RFault) /\
  (forall k rf, dual_get_idx d k rf true = mem_get_idx (d_prim d) k \/ dual_get_idx d k rf true = RFault).
Proof. exact reads_pfault. Qed.
Print Assumptions C44_reads_primary_fault.

(* (1t) with time: both bucket calls take time and honour their context; the fallback
        to the primary runs under the CALLER's context (named assumption, checked by
        the harness on the deadline the fake primary receives).  Whenever the caller's
        context is still live when the call returns and the primary itself answers,
        the dual read is the primary's answer - however long the replica stalled,
        whether it then succeeded, failed or returned partial bytes; and a cancelled /
        expired caller context may yield an error but never different bytes. *)
Theorem C44_reads_match_timed : forall d, replica_consistent d ->
  (forall k r budget rp pp x t, dual_get_seg_timed d k r budget rp pp = Some (x, t) ->
     (caller_live budget t -> pl_out pp = POk -> x = mem_get_seg (d_prim d) k r) /\
     (is_ok x = true -> x = mem_get_seg (d_prim d) k r)) /\
  (forall k budget rp pp x t, dual_get_idx_timed d k budget rp pp = Some (x, t) ->
     (caller_live budget t -> pl_out pp = POk -> x = mem_get_idx (d_prim d) k) /\
     (is_ok x = true -> x = mem_get_idx (d_prim d) k)).
Proof. exact reads_match_timed. Qed.
Print Assumptions C44_reads_match_timed.

(* (2) every client call leaves the replica bucket unchanged; reads change neither
       bucket; uploads, deletes, listings and EnsureBucket make no replica call and
       are exactly the primary client's call (same new primary state, same result). *)
Theorem C44_writes_lists_primary : forall d o rf pf, is_env o = false ->
  d_repl (fst (dual_step d o rf pf)) = d_repl d /\
  (is_read o = true -> fst (dual_step d o rf pf) = d) /\
  (is_read o = false ->
     replica_calls o = [] /\
     d_prim (fst (dual_step d o rf pf)) = fst (mem_step (d_prim d) o pf) /\
     snd (dual_step d o rf pf) = snd (mem_step (d_prim d) o pf)).
Proof. exact writes_lists_primary. Qed.
Print Assumptions C44_writes_lists_primary.

(* non-vacuity: a disciplined history with a lagging object (read falls back), a
   replicated object (read served by the replica, range included), a failing
   replica; and the hypothesis matters: a stale replica version is returned. *)
Example C44_nonvacuous :
  let k1 := [107;49] in let k2 := [107;50] in
  let cs := [mkCall (OUpSeg k1 [1;2;3;4;5]) false false; mkCall (OUpSeg k2 [9;8;7]) false false;
             mkCall (ERSeg k1 (Some [1;2;3;4;5])) false false; mkCall (OUpIdx k1 [6;6]) false false] in
  let d := run dual0 cs in
  replica_consistentb d = true /\
  dual_get_seg d k1 (Some (1, 3)) false false = ROk [2;3;4] /\
  primary_called d (OGetSeg k1 (Some (1, 3))) false = false /\
  dual_get_seg d k2 None false false = ROk [9;8;7] /\
  primary_called d (OGetSeg k2 None) false = true /\
  dual_get_seg d k1 None true false = ROk [1;2;3;4;5] /\
  dual_get_seg d k1 (Some (7, 9)) false false = RBadRange /\
  dual_get_idx d k1 false false = ROk [6;6] /\
  (let d' := run d [mkCall (OUpSeg k1 [0;0]) false false] in
   replica_consistentb d' = false /\ dual_get_seg d' k1 None false false = ROk [1;2;3;4;5] /\
   mem_get_seg (d_prim d') k1 None = ROk [0;0]).
Proof. vm_compute. repeat split. Qed.

(* time: a replica that stalls 10 s then fails, caller deadline 60 s, primary 100 ms:
   the primary's bytes after 10.1 s; a replica stalling for ever with a 5 s deadline: an
   error at 5 s, never other bytes. *)
Example C44_nonvacuous_timed :
  let k1 := [107;49] in
  let d := run dual0 [mkCall (OUpSeg k1 [1;2;3]) false false] in
  dual_get_seg_timed d k1 None (Some 60000) (mkPlan (Some 10000) PFail) (mkPlan (Some 100) POk) = Some (ROk [1;2;3], 10100) /\
  dual_get_seg_timed d k1 None (Some 5000) (mkPlan None POk) (mkPlan (Some 100) POk) = Some (RCtx, 5000) /\
  dual_get_seg_timed d k1 None None (mkPlan (Some 2000) PPartial) (mkPlan (Some 0) POk) = Some (ROk [1;2;3], 2000).
Proof. vm_compute. repeat split. Qed.

