(* C22 — Different topics never share storage or metadata keys.
   Only statements closed by [exact]; proofs live in proofs/MetaStoreKeys.v.
   [accepted] is the model of what CreateTopic (and therefore auto-creation, which
   goes through it) admits with fixes/C22-topic-name-validation.patch applied. *)
From Coq Require Import String.
From KS Require Import lib.Base lib.Strings lib.Paths model.MetaStore proofs.MetaStoreProofs proofs.MetaStoreKeys proofs.MetaStoreParse proofs.MetaStoreFlat.
Open Scope Z_scope.

(* acceptance in the model is exactly the validation CreateTopic performs *)
Theorem C22_created_implies_accepted : forall s n parts rf,
  (exists k, snd (im_create_topic s n parts rf) = RTopic ENone k) -> accepted n.
Proof.
  intros s n parts rf [k H]. unfold im_create_topic in H. unfold accepted.
  destruct (valid_topic_name n); [reflexivity|]. cbn in H. discriminate.
Qed.
Print Assumptions C22_created_implies_accepted.

(* S3 objects, listing prefixes and segment-cache keys, for every namespace, every
   pair of accepted names, all partitions and base offsets *)
Theorem C22_accepted_names_isolated : forall ns t t' p p' b b',
  accepted t -> accepted t' -> (t, p) <> (t', p') ->
  (segment_key ns t p b <> segment_key ns t' p' b' /\
   index_key ns t p b <> index_key ns t' p' b' /\
   segment_key ns t p b <> index_key ns t' p' b' /\
   index_key ns t p b <> segment_key ns t' p' b') /\
  (has_prefix (segment_prefix ns t p) (segment_key ns t' p' b') = false /\
   has_prefix (segment_prefix ns t p) (index_key ns t' p' b') = false) /\
  cache_key ns t p b <> cache_key ns t' p' b'.
Proof.
  intros ns t t' p p' b b' At At' Hne. split; [|split].
  - exact (s3_objects_disjoint ns t t' p p' b b' At At' Hne).
  - exact (s3_prefix_free ns t t' p p' b' At At' Hne).
  - exact (cache_keys_disjoint ns t t' p p' b b' At At' Hne).
Qed.
Print Assumptions C22_accepted_names_isolated.

(* etcd key families and the in-memory partition key: injective per family, and no
   key of another topic under the prefix that DeleteTopic removes *)
Theorem C22_metadata_keys_isolated : forall t t' p p',
  accepted t -> accepted t' -> (t, p) <> (t', p') ->
  offset_key t p <> offset_key t' p' /\
  partition_state_key t p <> partition_state_key t' p' /\
  assignment_key t p <> assignment_key t' p' /\
  partition_key t p <> partition_key t' p' /\
  (forall g g', coff_key g t p <> coff_key g' t' p') /\
  (t <> t' ->
     topic_config_key t <> topic_config_key t' /\
     has_prefix (topic_delete_prefix t) (offset_key t' p') = false /\
     has_prefix (topic_delete_prefix t) (partition_state_key t' p') = false /\
     has_prefix (topic_delete_prefix t) (topic_config_key t') = false).
Proof.
  intros t t' p p' At At' Hne.
  destruct (accepted_facts t At) as (_ & St & _). destruct (accepted_facts t' At') as (_ & St' & _).
  repeat split.
  - intros E. apply (offset_key_inj t t' p p' St St') in E as [-> ->]. now apply Hne.
  - intros E. apply (partition_state_key_inj t t' p p' St St') in E as [-> ->]. now apply Hne.
  - intros E. apply (assignment_key_inj t t' p p' St St') in E as [-> ->]. now apply Hne.
  - intros E. apply partition_key_inj in E as [-> ->]. now apply Hne.
  - intros g g' E. apply coff_key_inj in E as (_ & -> & ->); auto.
  - intros E. apply (topic_config_key_inj t t' St St') in E. contradiction.
  - now apply delete_prefix_free.
  - now apply delete_prefix_free.
  - now apply delete_prefix_free.
Qed.
Print Assumptions C22_metadata_keys_isolated.

(* the etcd key space is one flat map shared by all key families (next offsets, topic configs,
   partition states, assignments, consumer groups, consumer offsets, the snapshot key): for
   '/'-free names keys of different families never coincide, the prefix DeleteTopic removes
   reaches no key outside the topics subtree, and the two parsers that scan the shared
   /kafscale/consumers subtree never take a key of the other family for one of theirs *)
Theorem C22_key_families_disjoint :
  (forall f f' g t p g' t' p', f <> f' -> names_noslash g t -> names_noslash g' t' ->
     key_of f g t p <> key_of f' g' t' p') /\
  (forall n f g t p, top_of f <> 0 -> has_prefix (topic_delete_prefix n) (key_of f g t p) = false) /\
  (forall g t p, name_ok g -> name_ok t -> int32_ok p = true -> parse_group_key (coff_key g t p) = None) /\
  (forall g, name_ok g -> parse_coff_key (group_key g) = None).
Proof.
  split; [exact families_disjoint|]. split; [exact delete_prefix_stays_in_topics|].
  split; [exact parse_group_of_coff|exact parse_coff_of_group].
Qed.
Print Assumptions C22_key_families_disjoint.

(* the defect that the patch removes: with the old acceptance (any non-empty name)
   the statement is false *)
Theorem C22_old_acceptance_refuted :
  exists ns t t' p p' b,
    valid_topic_name_old t = true /\ valid_topic_name_old t' = true /\ (t, p) <> (t', p') /\
    (segment_key ns t p b = segment_key ns t' p' b \/
     has_prefix (segment_prefix ns t' p') (segment_key ns t p b) = true).
Proof.
  exists (lit "default"), (lit "a/../b"), (lit "b"), 0, 0, 0.
  vm_compute. repeat split; try discriminate. now left.
Qed.
Print Assumptions C22_old_acceptance_refuted.

Example C22_nonvacuous :
  accepted (lit "orders") /\ accepted (lit "a.b") /\ accepted (lit "..a") /\
  ~ accepted (lit "a/../b") /\ ~ accepted (lit "a/0") /\ ~ accepted (lit ".") /\ ~ accepted (lit "..") /\
  ~ accepted [] /\ ~ accepted (lit "a:b") /\ ~ accepted (repeat 97 250) /\ accepted (repeat 97 249) /\
  segment_key (lit "ns/x") (lit "orders") 3 42 = lit "ns/x/orders/3/segment-00000000000000000042.kfs" /\
  segment_prefix [] (lit "orders") 3 = lit "default/orders/3/" /\
  has_prefix (segment_prefix (lit "default") (lit "a") 0) (segment_key (lit "default") (lit "a/0") 1 0) = true.
Proof. unfold accepted. vm_compute. repeat split; try reflexivity; intros H; discriminate. Qed.
