From KS Require Import lib.Base lib.Strings model.MetaStore.
Open Scope Z_scope.
Example C22_nonvacuous : True.
Proof. exact I. Qed.
