(* C36 — SQL results equal direct filtering of the topic's records.
   Statements only; proofs live in proofs/SqlExecProofs.v. [select] is the model of
   handleSelect over a listing (model/SqlExec.v); [matching q segs] is the direct
   filter over ALL records of the topic's (and partition's) listed segments, in
   listing order; [collected q segs] is what handleSelect scans after pruning. *)
From Coq Require Import Permutation.
From KS Require Import lib.Base model.SqlExec proofs.SqlExecProofs.
Open Scope Z_scope.

(* (1) Skipping segments by offset and time statistics never drops a matching row:
       with statistics that bound each segment's records, the rows scanned after
       pruning are exactly the rows of direct filtering (same order). Holds for every
       listing (statistics present or absent per segment) and every filter combination. *)
Theorem C36_pruning_sound : forall q segs,
  Forall stats_sound segs -> collected q segs = matching q segs.
Proof. exact pruning_sound. Qed.
Print Assumptions C36_pruning_sound.

(* (2) The statistics discovery attaches are sound: offset bounds follow from the
       broker's segment layout (a segment's records lie between its base offset and the
       next segment's base offset), the .kfst footer numbers are a named hypothesis. *)
Theorem C36_discovery_stats_sound : forall ws,
  contiguous ws -> Forall footer_sound ws -> Forall stats_sound (discover ws).
Proof. exact discovery_stats_sound. Qed.
Print Assumptions C36_discovery_stats_sound.

(* (3) No ORDER BY, no TAIL: the DataRows are the first LIMIT rows of direct filtering. *)
Theorem C36_select_plain : forall q segs,
  Forall stats_sound segs -> 1 <= q_default_limit q ->
  window_invalid q = false -> q_order q = None -> tail_count q <= 0 ->
  select q segs = Rows (firstn (Z.to_nat (eff_limit q)) (matching q segs)).
Proof. exact select_plain. Qed.
Print Assumptions C36_select_plain.

(* (4) TAIL n: the DataRows are the last n rows of direct filtering. *)
Theorem C36_select_tail : forall q segs,
  Forall stats_sound segs -> window_invalid q = false -> q_order q = None -> 0 < tail_count q ->
  select q segs = Rows (lastn (Z.to_nat (tail_count q)) (matching q segs)).
Proof. exact select_tail. Qed.
Print Assumptions C36_select_tail.

(* (5) ORDER BY _ts [DESC] [LIMIT n]: the result is one of the results an arbitrary
       (unstable) sort by timestamp of the directly filtered rows followed by the LIMIT
       cut can produce ... *)
Theorem C36_select_order : forall q segs desc,
  Forall stats_sound segs -> window_invalid q = false -> q_order q = Some desc -> tail_count q <= 0 ->
  exists out, select q segs = Rows out /\ order_result desc (eff_limit q) (matching q segs) out.
Proof. exact select_order. Qed.
Print Assumptions C36_select_order.

(* ... and every such result is sorted by timestamp, is a sub-multiset of the directly
       filtered rows of the stated size, and the rows left out do not sort before any
       returned row (equality up to ties). *)
Theorem C36_order_result_minimal : forall desc limit rows out,
  order_result desc limit rows out ->
  exists rest, Permutation (out ++ rest) rows /\ ts_sorted desc out /\
               (forall o r, In o out -> In r rest -> ts_le desc o r) /\
               (zlen out = if (0 <? limit) && (limit <? zlen rows) then limit else zlen rows).
Proof. exact order_result_minimal. Qed.
Print Assumptions C36_order_result_minimal.

(* (2a) for .kfst footers written by TimeIndexBuilder.scanSegment (or absent) the footer
        hypothesis is discharged: the builder's numbers are the min/max over the segment's
        records, whatever the order of the record timestamps *)
Theorem C36_scan_segment_sound : forall w,
  w_footer w = scan_segment (w_recs w) -> footer_sound w.
Proof. exact scan_segment_sound. Qed.
Print Assumptions C36_scan_segment_sound.

Theorem C36_discovery_stats_sound_built : forall ws,
  contiguous ws ->
  Forall (fun w => w_footer w = None \/ w_footer w = scan_segment (w_recs w)) ws ->
  Forall stats_sound (discover ws).
Proof. exact discovery_stats_sound_built. Qed.
Print Assumptions C36_discovery_stats_sound_built.

(* (2b) the discovery cache and the manifest cache are transparent over an unchanged
        bucket: every ListCompleted call (miss, hit, after expiry; MaxEntries or not)
        returns the wrapped lister's listing, so cached listings carry sound statistics *)
Theorem C36_cache_transparent : forall enabled max_entries ws calls,
  Forall (fun l => l = discover ws) (cache_calls enabled max_entries None (discover ws) calls).
Proof. intros. apply cache_transparent. now left. Qed.
Print Assumptions C36_cache_transparent.

Theorem C36_cached_listing_sound : forall enabled max_entries ws calls l,
  contiguous ws -> Forall footer_sound ws ->
  In l (cache_calls enabled max_entries None (discover ws) calls) -> Forall stats_sound l.
Proof.
  intros enabled max_entries ws calls l Hc Hf Hin.
  pose proof (C36_cache_transparent enabled max_entries ws calls) as H.
  rewrite Forall_forall in H. rewrite (H l Hin). now apply discovery_stats_sound.
Qed.
Print Assumptions C36_cached_listing_sound.

(* end to end: listing produced by discovery, then pruning *)
Theorem C36_discovered_listing : forall q ws,
  contiguous ws -> Forall footer_sound ws ->
  collected q (discover ws) = matching q (discover ws).
Proof. intros q ws Hc Hf. exact (pruning_sound q (discover ws) (discovery_stats_sound ws Hc Hf)). Qed.
Print Assumptions C36_discovered_listing.

(* non-vacuity: two partitions; partition 0 has three segments (the last one without a
   footer); an offset range that starts exactly at a segment boundary and a time bound
   prune two segments, and the surviving rows are those of direct filtering; TAIL and
   ORDER BY DESC LIMIT on the same listing. *)
Definition ex_raw : list raw_segment :=
  [mkRaw 0 0 0 (Some (10, 30, 0, 2)) [mkRec 0 10; mkRec 1 30; mkRec 2 20];
   mkRaw 0 0 3 (Some (25, 40, 3, 5)) [mkRec 3 25; mkRec 5 40];
   mkRaw 0 0 6 None [mkRec 6 35; mkRec 7 50];
   mkRaw 0 1 0 (Some (5, 60, 0, 1)) [mkRec 0 5; mkRec 1 60]].
Definition ex_q (omin tmax : option Z) (lim tail : option Z) (ord : option bool) : query :=
  mkQuery 0 (Some 0) omin None None tmax lim tail ord 1000.

Example C36_nonvacuous :
  map (fun sg => (g_min_off sg, g_max_off sg, g_min_ts sg, g_max_ts sg)) (discover ex_raw) =
    [(Some 0, Some 2, Some 10, Some 30); (Some 3, Some 5, Some 25, Some 40);
     (Some 6, None, None, None); (Some 0, Some 1, Some 5, Some 60)] /\
  length (filter_segments (ex_q (Some 3) (Some 39) None None None) (discover ex_raw)) = 2%nat /\
  select (ex_q (Some 3) (Some 39) None None None) (discover ex_raw) = Rows [(0, 3, 25); (0, 6, 35)] /\
  matching (ex_q (Some 3) (Some 39) None None None) (discover ex_raw) = [(0, 3, 25); (0, 6, 35)] /\
  select (ex_q None None None (Some 2) None) (discover ex_raw) = Rows [(0, 6, 35); (0, 7, 50)] /\
  select (ex_q None None (Some 3) None (Some true)) (discover ex_raw) = Rows [(0, 7, 50); (0, 5, 40); (0, 6, 35)] /\
  select (ex_q None None None (Some 2) (Some true)) (discover ex_raw) = Rejected.
Proof. vm_compute. repeat split. Qed.

Example C36_nonvacuous_hyps : contiguous ex_raw /\ Forall footer_sound ex_raw.
Proof.
  split.
  - unfold ex_raw. cbn [contiguous].
    repeat (split; [intros x Hx; cbn in Hx;
                    repeat (destruct Hx as [<-|Hx]; [cbn; lia|]); contradiction|]).
    exact I.
  - unfold ex_raw.
    repeat (apply Forall_cons;
            [first [exact I | unfold footer_sound; cbn [w_footer w_recs]; intros x Hx; cbn in Hx;
                    repeat (destruct Hx as [<-|Hx]; [cbn; lia|]); contradiction]|]).
    apply Forall_nil.
Qed.
