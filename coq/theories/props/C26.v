(* C26 — PROXY protocol parsing preserves the stream exactly.
   Only statements closed by [exact]; proofs live in proofs/ProxyProtoProofs.v.
   [parse_proxy stream] = (what ReadProxyProtocol reports, the bytes the Kafka reader
   then sees); model/ProxyProto.v models the code with fixes/C26-v2-family-nibble.patch. *)
From KS Require Import lib.Base lib.Wire model.ProxyProto proofs.ProxyProtoProofs.
Open Scope Z_scope.

(* (1) v1 "PROXY <proto> <src> <dst> <sport> <dport>\r\n" (proto TCP4, TCP6 or any token
       other than UNKNOWN; tokens are non-empty printable ASCII; line within the 256-byte
       limit): the reported addresses are exactly the header's fields, the ports their
       atoiOrZero value, and the rest of the stream is untouched — for every rest. *)
Theorem C26_v1 : forall proto sip dip sp dp rest,
  tokenb proto = true -> tokenb sip = true -> tokenb dip = true -> tokenb sp = true -> tokenb dp = true ->
  is_unknown proto = false ->
  zlen (v1_line proto sip dip sp dp) <= 256 ->
  parse_proxy (v1_line proto sip dip sp dp ++ rest) =
    (Ok (PV1 sip dip sp dp (join_host_port sip sp) (join_host_port dip dp) (atoi_or_zero sp) (atoi_or_zero dp)), rest).
Proof. exact v1_exact. Qed.
Print Assumptions C26_v1.

(* ... and a decimal port numeral is reported as its value (any length below 2^63) *)
Theorem C26_v1_port : forall ds, digits_ok ds -> digits_value ds 0 < 2 ^ 63 ->
  atoi_or_zero (digits_text ds) = digits_value ds 0.
Proof. exact atoi_decimal. Qed.
Print Assumptions C26_v1_port.

(* v1 "PROXY UNKNOWN\r\n" and "PROXY UNKNOWN <anything without LF>\r\n": local, rest untouched *)
Theorem C26_v1_unknown : forall junk rest,
  (junk = [] \/ exists j, junk = 32 :: j) -> ~ In 10 junk ->
  zlen (v1_unknown junk) <= 256 ->
  parse_proxy (v1_unknown junk ++ rest) = (Ok PLocal, rest).
Proof. exact v1_unknown_exact. Qed.
Print Assumptions C26_v1_unknown.

(* (2) every v2 header — any version nibble, command LOCAL or PROXY, family INET, INET6 or
       other (UNSPEC/UNIX), any transport nibble, any TLV bytes after the address block:
       the report is exactly [v2_expected] and the rest of the stream is untouched. *)
Theorem C26_v2 : forall vercmd fam addr tlvs info rest,
  zlen addr + zlen tlvs < 65536 ->
  v2_expected vercmd fam addr info ->
  parse_proxy (v2_header vercmd fam addr tlvs ++ rest) = (Ok info, rest).
Proof. exact v2_exact. Qed.
Print Assumptions C26_v2.

(* (3) a stream that starts with neither "PROXY" nor the v2 signature passes through
       unchanged with no info.  (A stream shorter than 12 bytes that begins with the first
       5 signature bytes is rejected with the bytes left unread — not pass-through, and
       excluded here by the third hypothesis.) *)
Theorem C26_passthrough : forall s,
  ztake 5 s <> PROXY5 -> (12 <= zlen s -> ztake 12 s <> SIG12) -> (zlen s < 12 -> ztake 5 s <> SIG5) ->
  parse_proxy s = (Ok PNone, s).
Proof. exact passthrough. Qed.
Print Assumptions C26_passthrough.

(* (4) no byte string makes the parser crash (slice expressions and make() are checked
       operations of the model), and the model's fuel artefact is never reached *)
Theorem C26_no_panic : forall s, bytes_ok s ->
  match fst (parse_proxy s) with Panic _ => False | OutOfFuel => False | _ => True end.
Proof. exact no_panic. Qed.
Print Assumptions C26_no_panic.

(* The code before the patch took the family from the LOW nibble of byte 13 (the
   transport protocol): a standard TCP-over-IPv6 header (0x21 0x21) was parsed as IPv4. *)
Theorem C26_low_nibble_refuted :
  exists src dst sp dp rest,
    zlen src = 16 /\ zlen dst = 16 /\
    fst (parse_proxy_with false (v2_header 33 33 (v2_addr src dst sp dp) [] ++ rest)) <> Ok (PV2 src dst sp dp).
Proof. exact v2_low_nibble_refuted. Qed.
Print Assumptions C26_low_nibble_refuted.

(* non-vacuity: concrete headers satisfy the hypotheses and give non-trivial reports *)
Example C26_nonvacuous :
  let line := v1_line [84;67;80;52] [49;46;50;46;51;46;52] [53;46;54;46;55;46;56] [53;54;51;50;52] [52;52;51] in
  parse_proxy (line ++ [0;0;0;9]) =
    (Ok (PV1 [49;46;50;46;51;46;52] [53;46;54;46;55;46;56] [53;54;51;50;52] [52;52;51]
             [49;46;50;46;51;46;52;58;53;54;51;50;52] [53;46;54;46;55;46;56;58;52;52;51] 56324 443), [0;0;0;9]) /\
  v2_expected 33 17 (v2_addr [10;0;0;1] [10;0;0;2] 1234 5678) (PV2 [10;0;0;1] [10;0;0;2] 1234 5678) /\
  parse_proxy (v2_header 33 17 (v2_addr [10;0;0;1] [10;0;0;2] 1234 5678) [3;0;1;7] ++ [9;9]) =
    (Ok (PV2 [10;0;0;1] [10;0;0;2] 1234 5678), [9;9]) /\
  parse_proxy [0;0;0;20;0;18;0;3] = (Ok PNone, [0;0;0;20;0;18;0;3]).
Proof.
  cbv zeta. split; [vm_compute; reflexivity|]. split.
  - right. right. split; [vm_compute; discriminate|].
    exists [10;0;0;1], [10;0;0;2], 1234, 5678. repeat split; try lia. left. repeat split.
  - split; vm_compute; reflexivity.
Qed.
