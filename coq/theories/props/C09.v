(* C09 — The segment cache stays within capacity and returns current bytes.
   Only statements closed by [exact]; proofs live in proofs/CacheProofs.v. *)
From KS Require Import lib.Base lib.Strings model.Cache proofs.CacheProofs.
Open Scope Z_scope.

(* (1) after any operation sequence the bytes held are within capacity (and the
       incrementally maintained size field is exact), including entries larger
       than the capacity and capacity arguments <= 0. *)
Theorem C09_capacity : forall cap ops,
  let c := run (new_cache cap) ops in held c <= c_cap c /\ c_size c = held c.
Proof. exact capacity_respected. Qed.
Print Assumptions C09_capacity.

(* (2) a lookup returns the bytes most recently stored under that API key
       (topic, partition, base offset) or a miss — never bytes stored under a
       different key (make_key is injective for every topic byte string). *)
Theorem C09_lookup : forall cap ops t p b d,
  lookup (run (new_cache cap) ops) t p b = Some d -> last_set ops t p b = Some d.
Proof. exact lookup_latest. Qed.
Print Assumptions C09_lookup.

Theorem C09_key_injective : forall t p b t' p' b',
  make_key t p b = make_key t' p' b' -> t = t' /\ p = p' /\ b = b'.
Proof. exact make_key_inj. Qed.
Print Assumptions C09_key_injective.

(* (3) bytes handed to a reader never change: the buffer behind a hand-out has the
       same contents after any further operations. *)
Theorem C09_handout_stable : forall cap ops1 t p b id ops2,
  let c0 := run (new_cache cap) ops1 in
  let c1 := fst (step c0 (OGet t p b)) in
  snd (step c0 (OGet t p b)) = Some id ->
  (id < length (c_heap c1))%nat /\
  buf (c_heap (run c1 ops2)) id = buf (c_heap c1) id.
Proof. exact handout_stable. Qed.
Print Assumptions C09_handout_stable.

(* non-vacuity: a hit exists, an eviction happens, an oversized entry is dropped *)
Example C09_nonvacuous :
  let ops := [OSet [97] 0 0 [1;2;3]; OSet [98] 0 0 [4;5]; OGet [97] 0 0;
              OSet [99] 1 7 [6;7]; OSet [100] 0 0 [1;2;3;4;5;6;7;8]] in
  lookup (run (new_cache 6) (firstn 3 ops)) [97] 0 0 = Some [1;2;3] /\
  map fst (c_lru (run (new_cache 6) (firstn 4 ops))) = [make_key [97] 0 0; make_key [99] 1 7] /\
  c_lru (run (new_cache 6) ops) = [].
Proof. vm_compute. repeat split. Qed.
