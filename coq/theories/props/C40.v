(* C40 — The ops MCP tools never change cluster state.
   Only statements closed by [exact]; proofs live in proofs/MetaStoreProofs.v.
   gen/McpCalls.v is regenerated from internal/mcpserver on every run. *)
From Coq Require Import String.
From KS Require Import lib.Base lib.Strings model.MetaStore gen.McpCalls proofs.MetaStoreProofs proofs.MetaStoreMcp.
Open Scope Z_scope.

(* (1) finite, over the regenerated tables: every store method reachable from any registered
       tool handler is one of the read-only methods, AND no state-writing action (etcd client
       Put / Delete / Txn, the store's write lock, a write to a store field) is reachable from
       the bodies of EtcdStore.<M> / InMemoryStore.<M> for any such method M *)
Theorem C40_calls_readonly :
  forallb (fun e => forallb readonly_method (snd e)) mcp_calls = true /\
  forallb (fun e => forallb writes_known_empty (snd e)) mcp_calls = true.
Proof. exact (conj mcp_calls_readonly mcp_reachable_no_writes). Qed.
Print Assumptions C40_calls_readonly.

(* (2) a read-only method leaves the store state as it is, in both store models,
       for every state and every argument *)
Theorem C40_reads_preserve_state : forall o,
  readonly_method (method_of o) = true ->
  (forall s, fst (im_step s o) = s) /\ (forall s, fst (et_step s o) = s).
Proof. intros o H. split; intros s; [now apply im_readonly_preserves|now apply et_readonly_preserves]. Qed.
Print Assumptions C40_reads_preserve_state.

(* (3) a tool, as ANY adaptive program over the store (each call may depend on all
       earlier answers, any number of calls) that only uses the methods listed for it,
       ends in the state it started from — in-memory and etcd store models *)
Theorem C40_tools_preserve_state : forall tool fuel p,
  (forall s, prog_methods_ok (tool_allowed tool) fuel p s -> im_exec fuel p s = s) /\
  (forall s, et_prog_methods_ok (tool_allowed tool) fuel p s -> et_exec fuel p s = s).
Proof.
  intros tool fuel p. split; intros s H.
  - exact (im_prog_preserves _ fuel (tool_allowed_readonly tool) p s H).
  - exact (et_prog_preserves _ fuel (tool_allowed_readonly tool) p s H).
Qed.
Print Assumptions C40_tools_preserve_state.

(* non-vacuity: the table is not empty, fetch_offsets is a two-call adaptive program
   that is allowed, and a mutating method is not allowed for any tool *)
Example C40_nonvacuous :
  negb (Nat.eqb (length mcp_calls) 0) = true /\
  writes_known_empty M_FetchTopicConfig = true /\ writes_known_empty M_UpdateTopicConfig = false /\
  tool_allowed (lit "fetch_offsets") M_Metadata = true /\
  tool_allowed (lit "fetch_offsets") M_FetchConsumerOffset = true /\
  forallb (fun e => negb (tool_allowed (fst e) M_DeleteTopic) && negb (tool_allowed (fst e) M_CommitConsumerOffset)) mcp_calls = true /\
  let s := fst (im_run (im_new 1) [OCreateTopic (lit "orders") 2 1; OCommit (lit "g") (lit "orders") 1 5 []]) in
  let p := Call (OMetadata []) (fun r => match r with
             | RMeta ((t, _, _) :: _) => Call (OFetchOffset (lit "g") t 1) (fun _ => Done)
             | _ => Done end) in
  prog_methods_ok (tool_allowed (lit "fetch_offsets")) 5 p s /\ im_exec 5 p s = s /\
  fst (im_step s (ODeleteTopic (lit "orders"))) <> s.
Proof. vm_compute. repeat split; try reflexivity. intros H. discriminate. Qed.
