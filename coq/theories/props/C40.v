From KS Require Import lib.Base lib.Strings model.MetaStore.
Open Scope Z_scope.
Example C40_nonvacuous : True.
Proof. exact I. Qed.
