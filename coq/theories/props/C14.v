(* C14 — Rebalances complete only when every member has rejoined.
   Only statements closed by [exact]; proofs live in proofs/CoordinatorProofs.v. *)
From KS Require Import lib.Base model.Coordinator model.CoordinatorFaults proofs.CoordinatorBase proofs.CoordinatorProofs proofs.CoordinatorTrace proofs.CoordinatorFaults.
Open Scope Z_scope.

(* (1) a join reply reports success only when every current member has joined the
       current generation (joinGeneration = generationID for all of them) *)
Theorem C14_join_success_all_joined : forall E h mid fresh sess reb topics now s' gen ld id ms,
  step E (run E h) (Join mid fresh sess reb topics now) = (s', RJoin NONE gen ld id ms) ->
  exists g', s_mem s' = Some g' /\ gen = g_gen g' /\ all_joined g' = true /\
             forall k m, In (k, m) (g_members g') -> m_joingen m = gen.
Proof. intros E h. intros. eapply c14_join_success; [apply run_inv|eassumption]. Qed.
Print Assumptions C14_join_success_all_joined.

(* (2) the leader named in any join reply is a current member (and so is the joiner) *)
Theorem C14_leader_is_member : forall E h mid fresh sess reb topics now s' e gen ld id ms,
  step E (run E h) (Join mid fresh sess reb topics now) = (s', RJoin e gen ld id ms) ->
  exists g' l, s_mem s' = Some g' /\ ld = Some l /\ In l (keys g') /\ In id (keys g').
Proof. intros E h. intros. eapply c14_leader_is_member; [apply run_inv|eassumption]. Qed.
Print Assumptions C14_leader_is_member.

(* (3) only the leader's successful join reply carries the member list *)
Theorem C14_members_only_to_leader : forall E h mid fresh sess reb topics now s' e gen ld id ms,
  step E (run E h) (Join mid fresh sess reb topics now) = (s', RJoin e gen ld id ms) ->
  ms <> [] -> e = NONE /\ ld = Some id.
Proof. intros E h. intros. eapply c14_members_only_to_leader; [apply run_inv|eassumption|assumption]. Qed.
Print Assumptions C14_members_only_to_leader.

(* (4) once all members have rejoined (CompletingRebalance) the leader's sync succeeds and
       makes the group Stable; once the leader has synced (Stable) every member's sync in
       that generation succeeds; and by C12_one_map_per_generation the group stays Stable
       as long as it exists with that generation *)
Theorem C14_sync_after_leader_sync : forall E h mid now g,
  cur (run E h) now = Some g -> In mid (keys g) ->
  g_phase g = PStable \/ (g_phase g = PCompleting /\ g_leader g = Some mid) ->
  exists s' a g', step E (run E h) (Sync mid (g_gen g) now) = (s', RSync NONE a) /\
                  s_mem s' = Some g' /\ g_phase g' = PStable /\ g_gen g' = g_gen g.
Proof. intros E h. intros. eapply c14_sync_after_leader_sync; [apply run_inv|eassumption..]. Qed.
Print Assumptions C14_sync_after_leader_sync.

(* (4') multi-step: once the leader has synced (Stable), after ANY continuation during
       which the group keeps existing and at whose end the generation is still the same,
       every member's sync of that generation succeeds and returns the assignment it had *)
Theorem C14_sync_whole_generation : forall E h h2 n0 now g g' mid,
  alive_all E (run E h) h2 ->
  cur (run E h) n0 = Some g -> g_phase g = PStable -> In mid (keys g) ->
  cur (run_from E (run E h) h2) now = Some g' -> g_gen g' = g_gen g ->
  exists s' a g2, step E (run_from E (run E h) h2) (Sync mid (g_gen g) now) = (s', RSync NONE a) /\
                  s_mem s' = Some g2 /\ g_phase g2 = PStable /\ g_gen g2 = g_gen g /\
                  a = assignment_of g mid.
Proof. intros E h h2 n0 now g g' mid. apply c14_sync_whole_generation. apply run_inv. Qed.
Print Assumptions C14_sync_whole_generation.

(* ---- the same clauses for ALL histories with ARBITRARY transient store failures ----
   [runf E h]: every operation of h carries a [fault] saying which of its store calls
   (load of the group, whole-group write, offset write) fail; model/CoordinatorFaults.v
   says what the code then keeps in memory, leaves in the store and replies (with
   fixes/C14-join-error-reply-no-members.patch). No hypothesis on the faults. *)

(* (1f)-(3f) every join reply -- also one that reports a store failure -- names a leader
   that is a current member, the joiner is a member, success implies that the write
   succeeded and that every current member has joined the generation, and a member list
   is only in a successful reply to the leader *)
Theorem C14_join_reply_under_store_faults : forall E h mid fresh sess reb topics now f s' e gen ld id ms,
  stepf E (runf E h) (Join mid fresh sess reb topics now) f = (s', Some (RJoin e gen ld id ms)) ->
  exists g', s_mem s' = Some g' /\ wf E g' /\ gen = g_gen g' /\ ld = g_leader g' /\
    (exists l, ld = Some l /\ In l (keys g')) /\ In id (keys g') /\
    (e = NONE -> f_persist f = false /\ all_joined g' = true) /\
    (ms <> [] -> e = NONE /\ ld = Some id).
Proof. intros E h. intros. eapply c14f_join; [apply runf_inv2|eassumption]. Qed.
Print Assumptions C14_join_reply_under_store_faults.

(* (4f) after any history with any failures: if the group the request sees is Stable (or
   CompletingRebalance and the request is the leader's) the sync of a current member in
   the current generation succeeds -- the only hypothesis is that THIS sync's own write
   succeeds; earlier failures do not matter *)
Theorem C14_sync_under_store_faults : forall E h mid now f g,
  loadf (runf E h) now f = LGroup g -> In mid (keys g) ->
  g_phase g = PStable \/ (g_phase g = PCompleting /\ g_leader g = Some mid) ->
  f_persist f = false ->
  exists s' a g', stepf E (runf E h) (Sync mid (g_gen g) now) f = (s', Some (RSync NONE a)) /\
                  s_mem s' = Some g' /\ g_phase g' = PStable /\ g_gen g' = g_gen g.
Proof. intros E h. intros. eapply c14f_sync; [apply runf_inv2|eassumption..]. Qed.
Print Assumptions C14_sync_under_store_faults.

(* the invariant behind them: whatever fails, the group in memory is well formed (leader
   is a member, CompletingRebalance/Stable only when all have joined, ...) *)
Theorem C14_memory_wellformed_under_store_faults : forall E h g,
  s_mem (runf E h) = Some g -> wf E g.
Proof. intros E h g. apply (proj1 (runf_inv2 E h)). Qed.
Print Assumptions C14_memory_wellformed_under_store_faults.

(* non-vacuity: two members; the second join is answered REBALANCE_IN_PROGRESS until the
   first has rejoined; the leader (smallest id) gets the member list *)
Example C14_nonvacuous :
  let E := mkEnv [(0, [0; 1])] true in
  let h := [Join (-1) 5 0 0 [0] 0; Sync 5 1 0] in
  snd (step E (run E h) (Join (-1) 3 0 0 [0] 1)) = RJoin REBALANCE_IN_PROGRESS 2 (Some 5) 3 [] /\
  snd (step E (run E (h ++ [Join (-1) 3 0 0 [0] 1])) (Join 5 (-100) 0 0 [0] 2)) =
    RJoin NONE 2 (Some 5) 5 [(3, [0]); (5, [0])] /\
  snd (step E (run E (h ++ [Join (-1) 3 0 0 [0] 1; Join 5 (-100) 0 0 [0] 2])) (Join 3 (-100) 0 0 [0] 3)) =
    RJoin NONE 2 (Some 5) 3 [] /\
  snd (step E (run E (h ++ [Join (-1) 3 0 0 [0] 1; Join 5 (-100) 0 0 [0] 2])) (Sync 3 2 3)) =
    RSync REBALANCE_IN_PROGRESS [] /\
  snd (step E (run E (h ++ [Join (-1) 3 0 0 [0] 1; Join 5 (-100) 0 0 [0] 2; Sync 5 2 3])) (Sync 3 2 3)) =
    RSync NONE [(0, [0])].
Proof. vm_compute. repeat split. Qed.
