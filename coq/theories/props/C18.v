(* C18 -- A partition or group lease has at most one live owner.
   Only statements closed by [exact]; proofs live in proofs/LeaseProofs.v.

   The model (model/Lease.v, part 1) is the lease manager WITH
   fixes/C18-release-guarded-delete.patch applied ([c_guard = true]): any number of
   brokers and resources, events at etcd-operation granularity (AcqBegin, AcqTxn,
   ReacqTxn, AcqCommitLocal, RelLocal, RelDelete, SessionExpire, ReleaseAll, Restart,
   OrphanExpire).  Event granularity = named assumption: a session expiry is ONE event
   (etcd drops the keys of the lease and the holder clears its ownership map). *)
From KS Require Import lib.Base lib.Strings lib.EtcdKV model.Lease proofs.LeaseProofs.
Open Scope Z_scope.

(* (1) at no time do two brokers both believe they own the same lease: for EVERY event
       list (any interleaving of acquire steps, release halves, expiries, restarts, of
       any number of brokers on any number of resources), in the state reached. *)
Theorem C18_single_owner : forall cfg evs b b' r,
  c_guard cfg = true ->
  owns (run cfg evs) b r = true -> owns (run cfg evs) b' r = true -> b = b'.
Proof. exact single_owner. Qed.
Print Assumptions C18_single_owner.

(* (2) what a broker believes is backed by etcd: the lease key exists, stores its id and
       hangs on its current, live session lease. *)
Theorem C18_owner_holds_key : forall cfg evs b r,
  c_guard cfg = true -> owns (run cfg evs) b r = true ->
  exists S x, m_session (get_mgr (run cfg evs) b) = Some S /\
              lease_live (s_etcd (run cfg evs)) S = true /\
              get (s_etcd (run cfg evs)) (lease_key cfg r) = Some x /\ kv_val x = b /\ kv_lease x = S.
Proof. exact owner_holds_key. Qed.
Print Assumptions C18_owner_holds_key.

(* (3) a broker releasing a lease never removes a lease that another broker has since
       acquired: in every reachable state, the etcd request of a Release leaves every key
       that stores another broker's id untouched, and leaves the key of every lease that
       is currently owned by anyone untouched (including the releasing broker's own
       re-acquired lease); all owners stay owners. *)
Theorem C18_release_safe : forall cfg evs b r,
  c_guard cfg = true ->
  let s := run cfg evs in
  let s' := fst (step cfg s (RelDelete b r)) in
  (forall k x, get (s_etcd s) k = Some x -> kv_val x <> b -> get (s_etcd s') k = Some x) /\
  (forall b' r', owns s b' r' = true ->
                 get (s_etcd s') (lease_key cfg r') = get (s_etcd s) (lease_key cfg r') /\
                 owns s' b' r' = true).
Proof. exact release_safe. Qed.
Print Assumptions C18_release_safe.

(* the invariant behind (1)-(3), for reference: holds in every reachable state *)
Theorem C18_invariant : forall cfg evs, c_guard cfg = true -> inv cfg (run cfg evs).
Proof. exact inv_run. Qed.
Print Assumptions C18_invariant.

Definition A : bytes := [49].
Definition B : bytes := [50].
Definition C : bytes := [51].
Definition r0 : bytes := [111; 47; 48].
Definition acq (b r : bytes) : list event := [AcqBegin b r; AcqTxn b r; ReacqTxn b r; AcqCommitLocal b r].
(* the design-round finding: A acquires; local half of Release; A's session expires;
   B acquires; A's late delete; C acquires *)
Definition stale_release : list event :=
  acq A r0 ++ [RelLocal A r0; SessionExpire A] ++ acq B r0 ++ [RelDelete A r0] ++ acq C r0.
(* A re-acquires between the two halves of its own Release, then B tries *)
Definition own_reacquire : list event :=
  acq A r0 ++ [RelLocal A r0] ++ acq A r0 ++ [RelDelete A r0] ++ acq B r0.

(* (4) the guard is what makes it true: with the ORIGINAL unconditional Delete
       ([c_guard = false]) both schedules end with two owners. *)
Theorem C18_unguarded_release_unsafe :
  let cfg := mkConfig [47; 112] false in
  (owns (run cfg stale_release) B r0 = true /\ owns (run cfg stale_release) C r0 = true) /\
  (owns (run cfg own_reacquire) A r0 = true /\ owns (run cfg own_reacquire) B r0 = true).
Proof. vm_compute. repeat split. Qed.
Print Assumptions C18_unguarded_release_unsafe.

(* non-vacuity: with the guard the same schedules reach states with an owner (so the
   hypotheses of (1)-(3) are met), the late delete is a no-op, the third broker is refused;
   a restarted broker takes its key over; a released lease can be taken by another broker *)
Example C18_nonvacuous :
  let cfg := mkConfig [47; 112] true in
  (owns (run cfg stale_release) B r0 = true /\ owns (run cfg stale_release) C r0 = false /\
   key_owner cfg (run cfg stale_release) r0 = Some B) /\
  (owns (run cfg own_reacquire) A r0 = true /\ owns (run cfg own_reacquire) B r0 = false /\
   key_owner cfg (run cfg own_reacquire) r0 = Some A) /\
  (let evs := acq A r0 ++ [Restart A] ++ acq B r0 ++ acq A r0 ++ [OrphanExpire 1] in
   owns (run cfg evs) A r0 = true /\ owns (run cfg evs) B r0 = false /\
   key_owner cfg (run cfg evs) r0 = Some A) /\
  (let evs := acq A r0 ++ [RelLocal A r0; RelDelete A r0] ++ acq B r0 in
   owns (run cfg evs) A r0 = false /\ owns (run cfg evs) B r0 = true).
Proof. vm_compute. repeat split. Qed.
