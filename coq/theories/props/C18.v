(* C18 -- placeholder while the harness is brought up *)
From KS Require Import lib.Base lib.Strings lib.EtcdKV model.Lease proofs.LeaseProofs.
Open Scope Z_scope.
Example C18_nonvacuous : owns (run (mkConfig [47] true) [AcqBegin [49] [120]; AcqTxn [49] [120]; AcqCommitLocal [49] [120]]) [49] [120] = true.
Proof. vm_compute. reflexivity. Qed.
