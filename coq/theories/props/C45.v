(* C45 — IDoc explode emits each element once, in closing order, with consistent
   routing.  Only statements closed by [exact]; proofs in proofs/IdocProofs.v.
   [trim] is strings.TrimSpace (any function); encoding/xml tokenisation is the
   oracle [tokens] mapping a document tree to its token list. *)
From KS Require Import lib.Base model.Idoc proofs.IdocProofs.
Open Scope Z_scope.

(* The statement as given, for every well-formed document (one root element;
   only comments, processing instructions and character data around it). *)
Definition C45_statement (trim : bytes -> bytes) : Prop :=
  forall c pre doc post, wf_doc pre doc post ->
  exists st, explode_doc trim c pre doc post = Ok st /\
    st_segs st = spec_segs trim (build_sets trim c) [] doc.

(* OPEN FINDING (key html-void-element-name-with-content): ExplodeXML configures the
   decoder with AutoClose = xml.HTMLAutoClose, so a well-formed document containing
   an element whose name case-folds to an HTML void tag (PARAM, LINK, BASE, AREA,
   COL, ...) and that has content is rejected with "unexpected end element". *)
Theorem C45_postorder_refuted : forall trim, ~ C45_statement trim.
Proof.
  intros trim H.
  destruct (H (mkCfg [] [] [] []) [] (NElem [73] [] [NElem [80;65;82;65;77] [] [NText [120]]]) []) as (st & E & _).
  - repeat split; constructor.
  - vm_compute in E. discriminate.
Qed.
Print Assumptions C45_postorder_refuted.

(* (1) On the complement of that class: ExplodeXML succeeds ... *)
Theorem C45_total_partial : forall trim c pre doc post,
  autoclose_hit doc = false -> exists st, explode_doc trim c pre doc post = Ok st.
Proof. exact explode_doc_total. Qed.
Print Assumptions C45_total_partial.

(* ... and yields exactly one segment per element, in the order the elements close
   (post-order), each with path = ancestor names joined by '/', its attributes, its
   trimmed own text and - when its name is routed - its Fields; and every routed
   list is exactly the sub-list of those segments whose names are configured for
   that route (names listed under several routes included). *)
Theorem C45_postorder_partial : forall trim c pre doc post st,
  wf_doc pre doc post -> explode_doc trim c pre doc post = Ok st ->
  let z := build_sets trim c in
  st_segs st = spec_segs trim z [] doc /\
  map s_name (st_segs st) = postorder_names doc /\
  length (st_segs st) = elem_count doc /\
  (forall r, st_route st r = routed_spec z r (st_segs st)).
Proof. exact explode_doc_ok. Qed.
Print Assumptions C45_postorder_partial.

(* (2) a routed segment's Fields map holds, for every name k, the trimmed text of
       the last direct child element named k whose trimmed own text is non-empty
       (and nothing for other names).  [spec_segs] gives a routed element the map
       [fields_of kids]. *)
Theorem C45_fields : forall trim kids k,
  alookup k (fields_of trim kids) = field_spec trim kids k.
Proof. exact fields_spec. Qed.
Print Assumptions C45_fields.

(* (3) routing is exact for every token sequence whatsoever (well-formed or not):
       after any run, each routed list = filter (name configured for the route)
       of the segment list.  Holds for the routing of fixes/C45-route-every-list.patch. *)
Theorem C45_routes_exact : forall trim z ts r,
  st_route (run trim z state0 ts) r = routed_spec z r (st_segs (run trim z state0 ts)).
Proof. exact routes_exact. Qed.
Print Assumptions C45_routes_exact.

(* non-vacuity: nested repeated names, white-space text, a name routed twice. The
   original first-match switch would have routed E1 to Items only. *)
Example C45_nonvacuous :
  let E1 := [69;49] in let F := [70] in let G := [71] in
  let doc := NElem [73] [] [NText [10;32]; NElem E1 [([97],[49])] [NElem F [] [NText [32;120;32]]; NElem F [] [NText [121]]; NElem G [] [NText [32]]];
                            NElem E1 [] []] in
  let c := mkCfg [E1] [[32;69;49;32]; G] [] [] in
  match explode_doc trim_ascii c [NOther] doc [NText [10]] with
  | Ok st =>
      map s_name (st_segs st) = [F; F; G; E1; E1; [73]] /\
      map s_path (st_items st) = [[73;47;69;49]; [73;47;69;49]] /\
      map s_name (st_partners st) = [G; E1; E1] /\
      map s_fields (st_items st) = [Some [(F, [121])]; Some []] /\
      route_first (build_sets trim_ascii c) (mkSeg E1 [] [] [] None) = Some RItems
  | Err => False
  end.
Proof. vm_compute. repeat split. Qed.
