(* C43 — Group members expire exactly when their session lapses.
   Only statements closed by [exact]; proofs live in proofs/CoordinatorProofs.v.
   The model is of Heartbeat WITH fixes/C43-heartbeat-during-rebalance.patch.
   Liveness is relative to cleanup ticks ([Cleanup now] = one run of cleanupGroups at
   virtual time [now]); the ticker period is a parameter of the deployment. *)
From KS Require Import lib.Base model.Coordinator proofs.CoordinatorBase proofs.CoordinatorProofs proofs.CoordinatorTrace.
Open Scope Z_scope.

(* (1) a member whose last refresh is more than its session timeout ago is removed by the
       next cleanup tick, and the group rebalances (generation + 1, PreparingRebalance)
       or is deleted when it was the last member *)
Theorem C43_expired_removed : forall E h now g k m,
  s_mem (run E h) = Some g -> In (k, m) (g_members g) ->
  now - m_hb m > m_session m ->
  let s' := fst (step E (run E h) (Cleanup now)) in
  (s_mem s' = None /\ s_store s' = None) \/
  (exists g', s_mem s' = Some g' /\ ~ In k (keys g') /\ g_gen g' = g_gen g + 1 /\ g_phase g' = PPreparing).
Proof.
  intros E h now g k m Hm Hin Hexp. cbn zeta.
  destruct (C15_store_is_persisted_memory_aux E h g Hm) as [_ Hwf].
  apply (c43_cleanup E (run E h) now g k m (run_inv E h) Hm Hin).
  apply survives_expired. unfold expired. pose proof (wf_session E g Hwf k m Hin).
  destruct (m_session m =? 0) eqn:E0; [lia|]. lia.
Qed.
Print Assumptions C43_expired_removed.

(* (2) during a rebalance a member that has not rejoined the new generation is removed
       by the first cleanup tick at or after the rebalance deadline *)
Theorem C43_laggers_removed : forall E h now g k m d,
  s_mem (run E h) = Some g -> In (k, m) (g_members g) ->
  g_deadline g = Some d -> d <= now -> m_joingen m <> g_gen g ->
  let s' := fst (step E (run E h) (Cleanup now)) in
  (s_mem s' = None /\ s_store s' = None) \/
  (exists g', s_mem s' = Some g' /\ ~ In k (keys g') /\ g_gen g' = g_gen g + 1 /\ g_phase g' = PPreparing).
Proof.
  intros E h now g k m d Hm Hin Hd Hle Hj. cbn zeta.
  apply (c43_cleanup E (run E h) now g k m (run_inv E h) Hm Hin).
  eapply survives_lagger; eauto.
Qed.
Print Assumptions C43_laggers_removed.

(* (3) a member refreshed within its session timeout that is not a lagger past the
       rebalance deadline is never removed by a cleanup tick *)
Theorem C43_live_kept : forall E h now g k m,
  s_mem (run E h) = Some g -> In (k, m) (g_members g) ->
  now - m_hb m <= m_session m ->
  (g_deadline g = None \/ (exists d, g_deadline g = Some d /\ now < d) \/ m_joingen m = g_gen g) ->
  exists g', s_mem (fst (step E (run E h) (Cleanup now))) = Some g' /\ In k (keys g').
Proof.
  intros E h now g k m Hm Hin Hle Hd.
  destruct (C15_store_is_persisted_memory_aux E h g Hm) as [_ Hwf].
  apply (c43_cleanup E (run E h) now g k m (run_inv E h) Hm Hin).
  apply survives_live; auto. apply (wf_session E g Hwf k m Hin).
Qed.
Print Assumptions C43_live_kept.

(* (4) a heartbeat of a current member in the current generation refreshes its session
       (lastHeartbeat := now) in every phase, also while the group is rebalancing (the
       reply is then REBALANCE_IN_PROGRESS); session timeout and joinGeneration unchanged *)
Theorem C43_heartbeat_refreshes : forall E h now g mid,
  cur (run E h) now = Some g -> In mid (keys g) ->
  exists s' e g' m m', step E (run E h) (Heartbeat mid (g_gen g) now) = (s', RErr e) /\
    (e = NONE \/ e = REBALANCE_IN_PROGRESS) /\ (e = NONE <-> g_phase g = PStable) /\
    s_mem s' = Some g' /\ alookup mid (g_members g) = Some m /\ alookup mid (g_members g') = Some m' /\
    m_hb m' = now /\ m_session m' = m_session m /\ m_joingen m' = m_joingen m /\ g_gen g' = g_gen g.
Proof. intros E h. intros. eapply c43_heartbeat_refreshes; [apply run_inv|eassumption..]. Qed.
Print Assumptions C43_heartbeat_refreshes.

(* (5) nothing else removes a member: after any operation other than a cleanup tick or
       the member's own LeaveGroup a current member is still a member (while the group
       exists; incl. failover). With (3): a member that keeps heartbeating within its
       session timeout and rejoins before the rebalance deadlines is never removed. *)
Theorem C43_only_cleanup_or_leave_removes : forall E h o n0 n1 g g' k,
  cur (run E h) n0 = Some g -> In k (keys g) ->
  cur (fst (step E (run E h) o)) n1 = Some g' ->
  In k (keys g') \/ (exists now, o = Leave k now) \/ (exists now, o = Cleanup now).
Proof. intros E h. intros. eapply c43_only_cleanup_or_leave_removes; [apply run_inv|eassumption..]. Qed.
Print Assumptions C43_only_cleanup_or_leave_removes.

(* (6) trace level: along any history during which k stays a member, its lastHeartbeat is
       the time of its last accepted refresh -- [last_refresh] scans the operations and
       takes the time of a JoinGroup that (re)creates k or of a Heartbeat of k as current
       member in the current generation (in any phase), nothing else (not syncs, commits,
       other members' requests, cleanup ticks, rebalances, failovers). With (1)-(3): a
       member is expired by a tick iff more than its session timeout has passed since
       that refresh. *)
Theorem C43_lasthb_is_last_refresh : forall E h h2 k n0 n1 g g' t t',
  member_all E (run E h) h2 k ->
  cur (run E h) n0 = Some g -> hb_of g k = Some t ->
  cur (run_from E (run E h) h2) n1 = Some g' -> hb_of g' k = Some t' ->
  t' = last_refresh E (run E h) h2 k t.
Proof. intros E h h2 k n0 n1 g g' t t'. apply c43_lasthb_is_last_refresh. apply run_inv. Qed.
Print Assumptions C43_lasthb_is_last_refresh.

(* non-vacuity: thresholds at +-1 ms; a member heartbeating through a long rebalance stays *)
Example C43_nonvacuous :
  let E := mkEnv [(0, [0])] true in
  let h := [Join (-1) 1 10000 60000 [0] 0; Sync 1 1 0; Join (-1) 2 10000 60000 [0] 0;
            Join 1 (-100) 10000 60000 [0] 0; Heartbeat 1 2 6000] in
  (* at 10000 both still live (not >), at 10001 member 2 (last refresh 0) expires, member 1 stays *)
  option_map keys (s_mem (fst (step E (run E h) (Cleanup 10000)))) = Some [1; 2] /\
  option_map keys (s_mem (fst (step E (run E h) (Cleanup 10001)))) = Some [1] /\
  option_map g_gen (s_mem (fst (step E (run E h) (Cleanup 10001)))) = Some 3 /\
  option_map keys (s_mem (fst (step E (run E h) (Cleanup 16001)))) = None.
Proof. vm_compute. repeat split. Qed.
