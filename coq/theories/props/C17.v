From KS Require Import lib.Base lib.Strings model.MetaStore.
Open Scope Z_scope.
Example C17_nonvacuous : True.
Proof. exact I. Qed.
