(* C17 — In-memory and etcd metadata stores behave the same.
   Only statements closed by [exact]; proofs live in proofs/MetaStoreBisim.v.
   Both models are of the code with the C16 / C17 / C22 fixes (committed in /repo).

   The unrestricted statement ([C17_statement]: every operation sequence, every name) is
   refuted for names the etcd key layout cannot represent (open finding
   etcd-name-with-slash-or-empty).  On the complement of that class ([op_ok]: group and
   topic names non-empty and '/'-free, partitions in int32 as the Go types demand) the
   bisimulation is proved for all sixteen Store operations. *)
From Coq Require Import String.
From KS Require Import lib.Base lib.Strings model.MetaStore proofs.MetaStoreProofs proofs.MetaStoreKeys proofs.MetaStoreParse proofs.MetaStoreBisim.
Open Scope Z_scope.

Definition C17_statement : Prop :=
  forall brokers ops, snd (im_run (im_new brokers) ops) = snd (et_run (et_new brokers) ops).

Theorem C17_refuted : ~ C17_statement.
Proof.
  intros H. specialize (H 1 [OCommit (lit "g/1") (lit "orders") 0 3 []; OListOffsets]).
  vm_compute in H. discriminate.
Qed.
Print Assumptions C17_refuted.

(* the relation holds initially and EVERY Store operation preserves it and answers the same
   in both stores *)
Theorem C17_bisimulation_step : forall im et o,
  R im et -> op_ok o ->
  snd (im_step im o) = snd (et_step et o) /\ R (fst (im_step im o)) (fst (et_step et o)).
Proof. exact step_preserves. Qed.
Print Assumptions C17_bisimulation_step.

Theorem C17_bisimulation : forall brokers ops,
  Forall op_ok ops ->
  snd (im_run (im_new brokers) ops) = snd (et_run (et_new brokers) ops).
Proof. intros b ops H. exact (proj1 (run_bisim ops _ _ (R_init b) H)). Qed.
Print Assumptions C17_bisimulation.

(* [op_ok] excludes no Store operation: each of the sixteen methods has admissible calls *)
Theorem C17_all_operations_covered :
  forall m, In m [M_Metadata; M_NextOffset; M_UpdateOffsets; M_CommitConsumerOffset; M_FetchConsumerOffset;
                  M_ListConsumerOffsets; M_PutConsumerGroup; M_FetchConsumerGroup; M_ListConsumerGroups;
                  M_DeleteConsumerGroup; M_FetchTopicConfig; M_UpdateTopicConfig; M_CreatePartitions;
                  M_CreateTopic; M_DeleteTopic; M_LookupConsumerOffset] ->
  exists o, method_of o = m /\ op_ok o.
Proof.
  assert (name_ok (lit "t")) as Ht by (split; [discriminate|vm_compute; intuition discriminate]).
  intros m Hin. cbn [In] in Hin.
  repeat (destruct Hin as [<-|Hin]); try contradiction.
  - exists (OMetadata []). split; [reflexivity|exact I].
  - exists (ONextOffset (lit "t") 0). split; [reflexivity|exact Ht].
  - exists (OUpdateOffsets (lit "t") 0 0). split; [reflexivity|exact Ht].
  - exists (OCommit (lit "t") (lit "t") 0 0 []). split; [reflexivity|repeat split; try apply Ht].
  - exists (OFetchOffset (lit "t") (lit "t") 0). split; [reflexivity|repeat split; try apply Ht].
  - exists OListOffsets. split; [reflexivity|exact I].
  - exists (OPutGroup (mkGroup (lit "t") [] [] [] [] 0 0 [])). split; [reflexivity|apply Ht].
  - exists (OFetchGroup (lit "t")). split; [reflexivity|exact Ht].
  - exists OListGroups. split; [reflexivity|exact I].
  - exists (ODeleteGroup (lit "t")). split; [reflexivity|exact Ht].
  - exists (OFetchCfg (lit "t")). split; [reflexivity|exact Ht].
  - exists (OUpdateCfg (mkCfg (lit "t") 0 0 0 0 0 [])). split; [reflexivity|exact Ht].
  - exists (OCreatePartitions (lit "t") 2). split; [reflexivity|exact Ht].
  - exists (OCreateTopic (lit "t") 1 1). split; [reflexivity|exact I].
  - exists (ODeleteTopic (lit "t")). split; [reflexivity|exact Ht].
  - exists (OLookupOffset (lit "t") (lit "t") 0). split; [reflexivity|repeat split; try apply Ht].
Qed.
Print Assumptions C17_all_operations_covered.

(* the formerly diverging shapes, now equal on the models of the fixed code, including
   the operations outside the proven fragment (by computation on concrete histories) *)
Example C17_nonvacuous :
  let g := mkGroup (lit "g1") (lit "stable") (lit "consumer") (lit "range") (lit "m0") 3 45000
             [(lit "m0", mkMember (lit "c") (lit "/h") (lit "x") [(lit "orders", [0; 1])] [lit "orders"] 20000)] in
  let ops1 := [OCreateTopic (lit "orders") 3 1; OCommit (lit "g1") (lit "orders") 0 7 (lit "m"); OPutGroup g;
               OFetchGroup (lit "g1"); OFetchCfg (lit "orders"); OCreatePartitions (lit "orders") 5;
               OFetchCfg (lit "orders"); OUpdateOffsets (lit "orders") 4 9; ONextOffset (lit "orders") 4;
               OLookupOffset (lit "g1") (lit "orders") 0; OMetadata []] in
  let ops2 := ops1 ++ [OUpdateCfg (mkCfg (lit "orders") 0 1 1000 (-1) 0 []); OCreatePartitions (lit "orders") 6;
                       OFetchCfg (lit "orders"); OListOffsets; OListGroups; ODeleteTopic (lit "orders");
                       OFetchOffset (lit "g1") (lit "orders") 0; OListOffsets; OCreateTopic (lit "orders") 1 1;
                       ONextOffset (lit "orders") 0] in
  Forall op_ok ops2 /\
  nth 3 (snd (im_run (im_new 3) ops1)) (RErr EOther) = RGroup (Some g) /\
  nth 8 (snd (im_run (im_new 3) ops1)) (RErr EOther) = ROffset ENone 10 /\
  snd (im_run (im_new 3) ops2) = snd (et_run (et_new 3) ops2) /\
  nth 17 (snd (et_run (et_new 3) ops2)) (RErr EOther) = RFetched 0 [].
Proof.
  cbv zeta. split.
  - repeat constructor; cbn; try discriminate; try (intros H; vm_compute in H; intuition discriminate).
  - vm_compute. repeat split; reflexivity.
Qed.
