(* C17 — In-memory and etcd metadata stores behave the same.
   Only statements closed by [exact]; proofs live in proofs/MetaStoreBisim.v.
   Both models are of the code with the C16 / C17 / C22 fixes (committed in /repo).

   The unrestricted statement ([C17_statement]: every operation sequence, every name) is
   refuted for names the etcd key layout cannot represent (open finding
   etcd-name-with-slash-or-empty).  On the complement of that class ([op_ok]: group and
   topic names non-empty and '/'-free, partitions in int32 as the Go types demand) the
   bisimulation is proved for all sixteen Store operations. *)
From Coq Require Import String.
From KS Require Import lib.Base lib.Strings model.MetaStore proofs.MetaStoreProofs proofs.MetaStoreKeys proofs.MetaStoreParse proofs.MetaStoreFlat proofs.MetaStoreBisim.
Open Scope Z_scope.

Definition C17_statement : Prop :=
  forall brokers ops, snd (im_run (im_new brokers) ops) = snd (et_run (et_new brokers) ops).

Theorem C17_refuted : ~ C17_statement.
Proof.
  intros H. specialize (H 1 [OCommit (lit "g/1") (lit "orders") 0 3 []; OListOffsets]).
  vm_compute in H. discriminate.
Qed.
Print Assumptions C17_refuted.

(* the relation holds initially and EVERY Store operation preserves it and answers the same
   in both stores *)
Theorem C17_bisimulation_step : forall im et o,
  R im et -> op_ok o ->
  snd (im_step im o) = snd (et_step et o) /\ R (fst (im_step im o)) (fst (et_step et o)).
Proof. exact step_preserves. Qed.
Print Assumptions C17_bisimulation_step.

Theorem C17_bisimulation : forall brokers ops,
  Forall op_ok ops ->
  snd (im_run (im_new brokers) ops) = snd (et_run (et_new brokers) ops).
Proof. intros b ops H. exact (proj1 (run_bisim ops _ _ (R_init b) H)). Qed.
Print Assumptions C17_bisimulation.

(* [op_ok] excludes no Store operation: each of the sixteen methods has admissible calls *)
Theorem C17_all_operations_covered :
  forall m, In m [M_Metadata; M_NextOffset; M_UpdateOffsets; M_CommitConsumerOffset; M_FetchConsumerOffset;
                  M_ListConsumerOffsets; M_PutConsumerGroup; M_FetchConsumerGroup; M_ListConsumerGroups;
                  M_DeleteConsumerGroup; M_FetchTopicConfig; M_UpdateTopicConfig; M_CreatePartitions;
                  M_CreateTopic; M_DeleteTopic; M_LookupConsumerOffset] ->
  exists o, method_of o = m /\ op_ok o.
Proof.
  assert (name_ok (lit "t")) as Ht by (split; [discriminate|vm_compute; intuition discriminate]).
  intros m Hin. cbn [In] in Hin.
  repeat (destruct Hin as [<-|Hin]); try contradiction.
  - exists (OMetadata []). split; [reflexivity|exact I].
  - exists (ONextOffset (lit "t") 0). split; [reflexivity|exact Ht].
  - exists (OUpdateOffsets (lit "t") 0 0). split; [reflexivity|exact Ht].
  - exists (OCommit (lit "t") (lit "t") 0 0 []). split; [reflexivity|repeat split; try apply Ht].
  - exists (OFetchOffset (lit "t") (lit "t") 0). split; [reflexivity|repeat split; try apply Ht].
  - exists OListOffsets. split; [reflexivity|exact I].
  - exists (OPutGroup (mkGroup (lit "t") [] [] [] [] 0 0 [])). split; [reflexivity|apply Ht].
  - exists (OFetchGroup (lit "t")). split; [reflexivity|exact Ht].
  - exists OListGroups. split; [reflexivity|exact I].
  - exists (ODeleteGroup (lit "t")). split; [reflexivity|exact Ht].
  - exists (OFetchCfg (lit "t")). split; [reflexivity|exact Ht].
  - exists (OUpdateCfg (mkCfg (lit "t") 0 0 0 0 0 [])). split; [reflexivity|exact Ht].
  - exists (OCreatePartitions (lit "t") 2). split; [reflexivity|exact Ht].
  - exists (OCreateTopic (lit "t") 1 1). split; [reflexivity|exact I].
  - exists (ODeleteTopic (lit "t")). split; [reflexivity|exact Ht].
  - exists (OLookupOffset (lit "t") (lit "t") 0). split; [reflexivity|repeat split; try apply Ht].
Qed.
Print Assumptions C17_all_operations_covered.

(* The etcd store model keeps one map per key family; the real etcd is ONE flat map. For a
   flat content F that the family maps of s are a view of ([represents]) and family maps that
   hold only keys of their own shape with '/'-free names ([shaped]): every Put the store
   issues on the flat map is exactly the Put on the key's own family map (no other family is
   touched or shadowed), a Get reads the key's own family, and DeleteTopic's prefix delete
   changes the three topic families only - so the per-family model is a faithful view. *)
Theorem C17_flat_keyspace_refines_families : forall F s, represents F s -> shaped s ->
  (forall t p z, noslash t ->
     represents (aput bytes_eqb (offset_key t p) (VOff z) F) (eset_noff s (aput bytes_eqb (offset_key t p) z (et_noff s)))) /\
  (forall t c, noslash t ->
     represents (aput bytes_eqb (topic_config_key t) (VCfg c) F) (eset_cfg s (aput bytes_eqb (topic_config_key t) c (et_cfg s)))) /\
  (forall t p x, noslash t ->
     represents (aput bytes_eqb (partition_state_key t p) (VPst x) F) (eset_pstate s (aput bytes_eqb (partition_state_key t p) x (et_pstate s)))) /\
  (forall g v, noslash g ->
     represents (aput bytes_eqb (group_key g) (VGrp v) F) (eset_groups s (aput bytes_eqb (group_key g) v (et_groups s)))) /\
  (forall g t p x, names_noslash g t ->
     represents (aput bytes_eqb (coff_key g t p) (VCof x) F) (eset_coff s (aput bytes_eqb (coff_key g t p) x (et_coff s)))) /\
  (forall g t p, names_noslash g t ->
     aget bytes_eqb (coff_key g t p) F = option_map VCof (aget bytes_eqb (coff_key g t p) (et_coff s))) /\
  (forall n, represents (adel_if (has_prefix (topic_delete_prefix n)) F)
     (mkEtcd (et_meta s) (adel_if (has_prefix (topic_delete_prefix n)) (et_noff s))
             (adel_if (has_prefix (topic_delete_prefix n)) (et_cfg s))
             (adel_if (has_prefix (topic_delete_prefix n)) (et_pstate s)) (et_groups s) (et_coff s))).
Proof.
  intros F s Hr Hs. repeat split; intros.
  - now apply flat_put_noff.
  - now apply flat_put_cfg.
  - now apply flat_put_pstate.
  - now apply flat_put_group.
  - now apply flat_put_coff.
  - now apply flat_get_coff.
  - now apply flat_delete_topic_prefix.
Qed.
Print Assumptions C17_flat_keyspace_refines_families.

Example C17_flat_init : forall b, represents [] (et_new b) /\ shaped (et_new b).
Proof. exact represents_init. Qed.

(* the formerly diverging shapes, now equal on the models of the fixed code, including
   the operations outside the proven fragment (by computation on concrete histories) *)
Example C17_nonvacuous :
  let g := mkGroup (lit "g1") (lit "stable") (lit "consumer") (lit "range") (lit "m0") 3 45000
             [(lit "m0", mkMember (lit "c") (lit "/h") (lit "x") [(lit "orders", [0; 1])] [lit "orders"] 20000)] in
  let ops1 := [OCreateTopic (lit "orders") 3 1; OCommit (lit "g1") (lit "orders") 0 7 (lit "m"); OPutGroup g;
               OFetchGroup (lit "g1"); OFetchCfg (lit "orders"); OCreatePartitions (lit "orders") 5;
               OFetchCfg (lit "orders"); OUpdateOffsets (lit "orders") 4 9; ONextOffset (lit "orders") 4;
               OLookupOffset (lit "g1") (lit "orders") 0; OMetadata []] in
  let ops2 := ops1 ++ [OUpdateCfg (mkCfg (lit "orders") 0 1 1000 (-1) 0 []); OCreatePartitions (lit "orders") 6;
                       OFetchCfg (lit "orders"); OListOffsets; OListGroups; ODeleteTopic (lit "orders");
                       OFetchOffset (lit "g1") (lit "orders") 0; OListOffsets; OCreateTopic (lit "orders") 1 1;
                       ONextOffset (lit "orders") 0] in
  Forall op_ok ops2 /\
  nth 3 (snd (im_run (im_new 3) ops1)) (RErr EOther) = RGroup (Some g) /\
  nth 8 (snd (im_run (im_new 3) ops1)) (RErr EOther) = ROffset ENone 10 /\
  snd (im_run (im_new 3) ops2) = snd (et_run (et_new 3) ops2) /\
  nth 17 (snd (et_run (et_new 3) ops2)) (RErr EOther) = RFetched 0 [].
Proof.
  cbv zeta. split.
  - repeat constructor; cbn; try discriminate; try (intros H; vm_compute in H; intuition discriminate).
  - vm_compute. repeat split; reflexivity.
Qed.
