(* C05 -- The durable high watermark never regresses or runs ahead of S3.
   Over model/Storage.v (fixes applied, see C01.v). [s_store] is the metadata store's
   next_offset, [s_pubs] every value written to it (newest first), [s3_end] one past
   the last offset held by S3 segment objects that have an index (0 when none).
   "Never ahead of S3" is proved in full; "never decreases" is refuted on the current
   code (known finding hw-callback-reorder) and proved on the complement class. *)
From KS Require Import lib.Base model.Storage proofs.StorageProofs.
Open Scope Z_scope.

(* (1) never ahead of S3: in every reachable state, under any concurrency, any S3 /
       store failure sequence, crashes and restarts *)
Theorem C05_not_ahead : forall c evs s,
  run (init c) evs = Some s -> s_store s <= s3_end s.
Proof. exact not_ahead. Qed.
Print Assumptions C05_not_ahead.

Theorem C05_published_not_ahead : forall c evs s,
  run (init c) evs = Some s -> forall v, In v (s_pubs s) -> v <= s3_end s.
Proof. exact pubs_not_ahead. Qed.
Print Assumptions C05_published_not_ahead.

(* (2) never decreases. FULL STATEMENT: *)
Definition C05_monotone_statement : Prop := monotone_statement.

(* refuted: two consecutive flushes commit (last offsets 0 then 1); the second flush's
   callback reaches the store first, the first one then overwrites 2 with 1. *)
Theorem C05_monotone_refuted : ~ C05_monotone_statement.
Proof. exact monotone_refuted. Qed.
Print Assumptions C05_monotone_refuted.

(* the statement on the complement of the finding's schedule class: runs of one broker
   incarnation in which at most one onFlush callback is pending at any time
   (any number of producers, any S3/store faults, empty flushes included).
   What is missing: overlapping callbacks (the finding) and runs that continue after a
   crash+restart (covered by C05_not_ahead, not by this monotonicity lemma). *)
Theorem C05_monotone_partial : forall c s,
  reach_serial c s -> nondecreasing_newest_first (s_pubs s).
Proof. exact monotone_partial. Qed.
Print Assumptions C05_monotone_partial.

Example C05_nonvacuous :
  (* the refuting run really regresses 2 -> 1 while staying <= s3_end = 2; and a serial
     run with an empty-flush publish is in reach_serial's domain *)
  match run (init (mkCfg 0 0 0 1)) reorder_witness with
  | Some s => s_pubs s = [1; 2] /\ s_store s = 1 /\ s3_end s = 2
  | None => False
  end.
Proof. vm_compute. repeat split. Qed.
