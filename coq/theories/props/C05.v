(* C05 -- The durable high watermark never regresses or runs ahead of S3.
   Over model/Storage.v (fixes applied, see C01.v). [s_store] is the metadata store's
   next_offset, [s_pubs] every value written to it (newest first), [s3_end] one past
   the last offset held by S3 segment objects that have an index (0 when none).
   "Never ahead of S3" is proved in full; "never decreases" is refuted on the current
   code (known findings hw-callback-reorder and hw-empty-flush-publish-reorder), every
   regression is shown to need an overtaken callback, and the statement is proved on the
   complement class (callbacks that do not overlap). *)
From KS Require Import lib.Base model.Storage proofs.StorageProofs.
Open Scope Z_scope.

(* (1) never ahead of S3: in every reachable state, under any concurrency, any S3 /
       store failure sequence, crashes and restarts *)
Theorem C05_not_ahead : forall c evs s,
  run (init c) evs = Some s -> s_store s <= s3_end s.
Proof. exact not_ahead. Qed.
Print Assumptions C05_not_ahead.

Theorem C05_published_not_ahead : forall c evs s,
  run (init c) evs = Some s -> forall v, In v (s_pubs s) -> v <= s3_end s.
Proof. exact pubs_not_ahead. Qed.
Print Assumptions C05_published_not_ahead.

(* (2) never decreases. FULL STATEMENT: *)
Definition C05_monotone_statement : Prop := monotone_statement.

(* refuted: two consecutive flushes commit (last offsets 0 then 1); the second flush's
   callback reaches the store first, the first one then overwrites 2 with 1. *)
Theorem C05_monotone_refuted : ~ C05_monotone_statement.
Proof. exact monotone_refuted. Qed.
Print Assumptions C05_monotone_refuted.

(* second witness of the refutation, structurally different (known finding
   hw-empty-flush-publish-reorder): the overwritten value comes from an EMPTY Flush that
   re-publishes the committed offset it read under the lock: published history 2, 3, 2. *)
Theorem C05_monotone_refuted_empty_publish :
  exists s, run (init (mkCfg 0 0 0 1)) empty_publish_witness = Some s /\
            s_pubs s = [2; 3; 2] /\ s_pcs s 1%nat = PRet (mkBatch 1 0 1 (one_raw 2)) true.
Proof. exact monotone_refuted_empty_publish. Qed.
Print Assumptions C05_monotone_refuted_empty_publish.

(* each open finding is reachable in the sense of the characterisation below: in the state
   before the last event of its witness the victim's callback is pending and marked
   overtaken ([ov]), and its landing lowers the store.
     hw-callback-reorder            : C05_monotone_refuted, C05_reorder_reachable
                                      (both callbacks created by ECommit = non-empty flushes)
     hw-empty-flush-publish-reorder : C05_monotone_refuted_empty_publish,
                                      C05_empty_publish_reorder_reachable (the victim's
                                      callback was created by EFlushBegin on an empty buffer)
     both, and nothing else         : C05_store_lowered_only_by_callback +
                                      C05_regress_only_when_overtaken (necessity);
                                      C05_monotone_partial (no overlap => no regression) *)
Theorem C05_reorder_reachable :
  match runG (init (mkCfg 0 0 0 1)) (fun _ => false) (removelast reorder_witness) with
  | Some (s, ov) =>
      ov 0%nat = true /\ (exists b, s_pcs s 0%nat = PCb FromFlush b 0) /\ s_store s = 2 /\
      (exists s', step s (ECallback 0%nat true) = Some s' /\ s_store s' = 1)
  | None => False
  end.
Proof. exact reorder_reachable. Qed.
Print Assumptions C05_reorder_reachable.

Theorem C05_empty_publish_reorder_reachable :
  match runG (init (mkCfg 0 0 0 1)) (fun _ => false) (removelast empty_publish_witness) with
  | Some (s, ov) =>
      ov 1%nat = true /\ (exists b, s_pcs s 1%nat = PCb FromFlush b 1) /\ s_store s = 3 /\
      (exists s', step s (ECallback 1%nat true) = Some s' /\ s_store s' = 2)
  | None => False
  end.
Proof. exact empty_publish_reorder_reachable. Qed.
Print Assumptions C05_empty_publish_reorder_reachable.

(* characterisation of BOTH findings, over every run (any concurrency, faults, crashes,
   restarts): the store value is only ever lowered by an onFlush callback, and only by one
   that was overtaken -- [ov t] says that since thread t's callback became pending (at its
   commit, or when its empty Flush read the committed offset) another thread's callback
   reached the store. There is no other way to regress. *)
Theorem C05_store_lowered_only_by_callback : forall c evs s e s',
  run (init c) evs = Some s -> step s e = Some s' -> s_store s' < s_store s ->
  exists t, e = ECallback t true.
Proof. exact store_lowered_only_by_callback. Qed.
Print Assumptions C05_store_lowered_only_by_callback.

Theorem C05_regress_only_when_overtaken : forall c evs s ov t s',
  runG (init c) (fun _ => false) evs = Some (s, ov) ->
  step s (ECallback t true) = Some s' -> s_store s' < s_store s -> ov t = true.
Proof. exact regress_only_when_overtaken. Qed.
Print Assumptions C05_regress_only_when_overtaken.

(* the statement on the complement of the findings' schedule class: runs in which at most
   one onFlush callback is pending at any time -- any number of producers, any S3/store
   faults, empty-flush publishes, crashes and restarts included. *)
Theorem C05_monotone_partial : forall c s ov,
  reach_serial_all c s ov -> nondecreasing_newest_first (s_pubs s).
Proof. exact monotone_serial. Qed.
Print Assumptions C05_monotone_partial.

Example C05_nonvacuous :
  (* the refuting run really regresses 2 -> 1 while staying <= s3_end = 2; and a serial
     run with an empty-flush publish is in reach_serial's domain *)
  match run (init (mkCfg 0 0 0 1)) reorder_witness with
  | Some s => s_pubs s = [1; 2] /\ s_store s = 1 /\ s3_end s = 2
  | None => False
  end.
Proof. vm_compute. repeat split. Qed.
