(* C41 -- the broker data path is free of data races (partial: lock discipline only,
   see checks/C41.py).  Only statements closed by [exact]; proofs live in
   proofs/LocksetProofs.v. *)
From KS Require Import lib.Base lib.Strings model.Cache proofs.CacheProofs model.Lockset proofs.LocksetProofs.
Open Scope Z_scope.

(* In every state reachable by any sequence of enabled steps of any threads (any
   cache capacity, any keys/data, any number of logs), two enabled steps of different
   threads that conflict on a shared location (one writes what the other reads or
   writes) hold a common lock.  Locations without a lock are conflict-free because they
   are immutable after publication: a cache buffer is written only by the SetSegment
   step that allocates it (a fresh id no thread holds yet -- the C09 model after fix
   9e45e57), and an unpublished PartitionLog is touched only by its single-flight
   creator. *)
Theorem C41_lockset : forall cap pubs evs s,
  run (init_cold cap pubs) evs = Some s ->
  forall t1 a1 t2 a2, t1 <> t2 ->
    enabled s t1 a1 = true -> enabled s t2 a2 = true ->
    conflict (footprint s a1) (footprint s a2) = true ->
    common_lock (footprint s a1) (footprint s a2) = true.
Proof. exact lockset_discipline. Qed.
Print Assumptions C41_lockset.

(* the quantification includes every "cold" start: [init_cold cap pubs] has the logs
   [pubs] already published (freshly constructed or rebuilt by RestoreFromS3) and no
   operation has run on them, so all first operations are concurrent. *)

(* the field table (model/Lockset.v, compared with the structs' real field lists by the
   harness): no field is written after construction without a lock, and every step
   touching the location of a lock-guarded field holds that lock (or is the unpublished
   log's single-flight initialisation). *)
Theorem C41_fields_guarded : existsb (fun e => is_unguarded (snd e)) field_table = false.
Proof. vm_compute. reflexivity. Qed.
Print Assumptions C41_fields_guarded.

Theorem C41_guard_locks_held : forall g l x k s a,
  guard_loc g l = Some (x, k) -> touches s a x = true -> holds_lock s a k = true \/ is_init a = true.
Proof. exact guard_locks_held. Qed.
Print Assumptions C41_guard_locks_held.

(* non-vacuity: a reachable state in which thread 1 still reads a handed-out buffer
   while thread 2's SetSegment on the same key is enabled; the two do not conflict (the
   Set writes a fresh buffer); an append by thread 2 and a read lookup by thread 1 on
   the published log do conflict and share l.mu; and the discipline is not trivially
   true: were SetSegment to write the handed-out buffer in place (pre-fix behaviour),
   the footprints would conflict without a common lock. *)
Example C41_nonvacuous :
  match run (init 16) [(1, ABeginInit 0); (1, AInit 0); (1, APublish 0);
                       (2, ACacheSet [110] 0 0 [1;2;3]); (1, ACacheGet [110] 0 0)] with
  | Some s =>
      enabled s 1 (AUseBuf 0) = true /\ enabled s 2 (ACacheSet [110] 0 0 [7;8;9]) = true /\
      conflict (footprint s (AUseBuf 0)) (footprint s (ACacheSet [110] 0 0 [7;8;9])) = false /\
      conflict (footprint s (AReadLookup 0)) (footprint s (AAppend 0)) = true /\
      common_lock (footprint s (AReadLookup 0)) (footprint s (AAppend 0)) = true /\
      (let inplace := ([LCache], [LCache; LBuf 0], [KCache]) in
       conflict (footprint s (AUseBuf 0)) inplace = true /\ common_lock (footprint s (AUseBuf 0)) inplace = false)
  | None => False
  end.
Proof. vm_compute. repeat split. Qed.
