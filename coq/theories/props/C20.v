(* C20 — Proxy routing tables converge to current lease owners.
   Only statements closed by [exact]; proofs live in proofs/RouterProofs.v.
   The model is the code with fixes/C20-router-watch-revision.patch applied
   ([step _ true]); [step _ false] is the code before the patch. *)
From KS Require Import lib.Base lib.Strings lib.RevKV model.Router proofs.RouterProofs.
Open Scope Z_scope.

(* (1) Partition router.  For every history of lease writes/deletes/transactions
   (keys as written by partitionLeaseKey), writes elsewhere, compactions, loadAll
   successes and failures, Watch calls, deliveries and stream closes that the
   program can take: when the router is watching and the stream has nothing left
   to deliver, every lookup in the table gives what a full read of etcd gives now. *)
Theorem C20_converges_partition : forall evs w,
  Forall (good_event canonical) evs ->
  run rk_part true init evs = Some w -> quiescent w ->
  map_equiv (r_routes (w_router w)) (etcd_routes rk_part w).
Proof. exact (converges rk_part canonical rk_part_inj). Qed.
Print Assumptions C20_converges_partition.

(* (2) Group router: every key, no side condition. *)
Theorem C20_converges_group : forall evs w,
  run rk_group true init evs = Some w -> quiescent w ->
  map_equiv (r_routes (w_router w)) (etcd_routes rk_group w).
Proof.
  intros evs w. apply (converges rk_group (fun _ => True)).
  - intros k k' r _ _. apply rk_group_inj.
  - apply Forall_forall. intros e _. destruct e; cbn; auto.
    apply Forall_forall. intros; exact I.
Qed.
Print Assumptions C20_converges_group.

(* (3) Stronger, at every moment (not only at quiescence): the table is the image of
   ONE etcd revision — never a mixture of old and new owners. *)
Theorem C20_snapshot_partition : forall evs w,
  Forall (good_event canonical) evs ->
  run rk_part true init evs = Some w -> r_pc (w_router w) <> PcInit ->
  exists rev, (rev <= s_rev (w_store w))%nat /\
    map_equiv (r_routes (w_router w)) (project rk_part (kv_at (w_store w) rev)).
Proof. exact (snapshot_consistent rk_part canonical rk_part_inj). Qed.
Print Assumptions C20_snapshot_partition.

(* (4) The key translation is injective on the keys brokers write. *)
Theorem C20_route_key_injective : forall k k' r,
  canonical k -> canonical k' -> rk_part k = Some r -> rk_part k' = Some r -> k = k'.
Proof. exact rk_part_inj. Qed.
Print Assumptions C20_route_key_injective.

(* (5) Why the patch is needed: the code before it (Watch without a start revision)
   does not converge — load; a lease is written; the watch starts; nothing pending;
   the table has no owner for the group while etcd has one. *)
Theorem C20_unpatched_refuted : exists evs w,
  run rk_group false init evs = Some w /\ quiescent w /\
  mget (r_routes (w_router w)) [103] = None /\
  mget (etcd_routes rk_group w) [103] = Some [49].
Proof.
  exists [ELoadOk; EPut [103] [49]; EWatchStart]. eexists. split; [vm_compute; reflexivity|].
  vm_compute. repeat split.
Qed.
Print Assumptions C20_unpatched_refuted.

(* non-vacuity: a history with a write in the load/watch gap, a multi-key revoke, a
   closed stream with a failed reload, a compaction that cancels the resumed watch,
   ends quiescent with the expected table ("orders/3" -> "orders:3"). *)
Example C20_nonvacuous :
  let o3 := [111;114;100;101;114;115;47;51] in      (* "orders/3" *)
  let o4 := [111;114;100;101;114;115;47;52] in      (* "orders/4" *)
  let evs := [EPut o3 [49]; ELoadOk; EPut o4 [50]; EWatchStart; EDeliver 1%nat;
              EStreamClosed; EPut o3 [50]; ELoadFail; EWatchStart; EDeliver 1%nat;
              EStreamClosed; ETxn [KDel o3; KDel o4]; EPut o4 [51]; ECompact; ECompact; ELoadFail;
              EWatchStart; ELoadOk; EWatchStart; EStreamClosed; EDel o4; ECompactAt 8%nat; ELoadFail;
              EWatchStart; EDeliver 1%nat] in
  Forall (good_event canonical) evs /\
  exists w, run rk_part true init evs = Some w /\ quiescentb w = true /\
    r_routes (w_router w) = [].
Proof.
  split.
  - repeat constructor.
  - eexists. split; [vm_compute; reflexivity|]. vm_compute. split; reflexivity.
Qed.
