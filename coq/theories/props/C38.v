(* C38 — Console API requires a live session; logins are rate limited.
   Only statements closed by [exact]/[vm_compute] on a regenerated table; proofs in
   proofs/ConsoleProofs.v.  Traces are newest first; the clock only moves forward. *)
From Coq Require Import String.
From KS Require Import lib.Base model.Console proofs.ConsoleProofs gen.ConsoleRoutes.
Open Scope Z_scope.

(* (1) after ANY history of login (good/bad/malformed/wrong-method, any client
       address, any token the generator hands out), logout, request, session-probe
       and clock events, a request with ANY cookie value is let through to a
       protected handler iff auth is enabled and the cookie is a non-empty token that
       some successful login issued, that no later effective logout presented, and
       whose issuing login is at most ttl old.  [live] is that existential statement
       over the trace. *)
Theorem C38_session_sound : forall c evs cookie,
  let '(s, tr) := run c state0 [] evs in
  accepts c s cookie = true <->
  cf_enabled c = true /\ exists tok, cookie = Some tok /\ tok <> [] /\ live c tr tok (s_now s).
Proof. exact session_sound. Qed.
Print Assumptions C38_session_sound.

(* ... and the HTTP answer of a protected endpoint is the handler's (200 here)
   exactly in that case, 401 (503 when auth is disabled) otherwise. *)
Theorem C38_request_answer : forall c s cookie,
  snd (step c s (ERequest cookie)) = if accepts c s cookie then A200 else if cf_enabled c then A401 else A503.
Proof. exact request_answer. Qed.
Print Assumptions C38_request_answer.

(* (2) every route registered in internal/console (table regenerated from the
       source by tools/console_routes on every run) is wrapped in requireAuth,
       except the static UI, the four auth endpoints and /healthz; in particular
       everything under /ui/api/ outside /ui/api/auth/ is wrapped; and nothing is
       registered outside NewMux. *)
Definition public_routes : list string :=
  ["/ui"; "/ui/"; "/ui/api/auth/config"; "/ui/api/auth/session"; "/ui/api/auth/login"; "/ui/api/auth/logout"; "/healthz"]%string.
Definition route_ok (r : string * bool * bool) : bool :=
  let '(pat, prot, _) := r in
  (prot || existsb (String.eqb pat) public_routes) &&
  (if String.prefix "/ui/api/" pat && negb (String.prefix "/ui/api/auth/" pat) then prot else true).
Theorem C38_all_protected :
  forall r, In r console_routes -> route_ok r = true.
Proof. apply forallb_forall. vm_compute. reflexivity. Qed.
Print Assumptions C38_all_protected.
Theorem C38_routes_only_in_NewMux : registrations_outside_NewMux = O /\ (8 <= length console_routes)%nat.
Proof. vm_compute. split; [reflexivity|repeat constructor]. Qed.

(* (3) with the limiter configured (limit > 0, window > 0), for every history, every
       client address and every t, at most [limit] login attempts of that address in
       the window (t, t+window] get past the limiter (to payload decoding and
       credential checking: answers 200 / 400 / 401). *)
Theorem C38_rate_limit : forall c evs ip t,
  limiter_on c = true ->
  window_count ip t (cf_window c) (snd (run c state0 [] evs)) <= cf_limit c.
Proof. exact rate_limit. Qed.
Print Assumptions C38_rate_limit.

(* non-vacuity (ttl 100, limit 2, window 10): a session is accepted, expires at
   ttl+1, a logged-out and a forged cookie are refused, the third attempt in a
   window is refused and an attempt after the window passes. *)
Example C38_nonvacuous :
  let c := mkConfig true 100 2 10 in
  let T := [116] in let ip := [49] in
  let evs := [ELogin ip (LGood T); EAdvance 100; ERequest (Some T); EAdvance 1; ERequest (Some T);
              ELogin ip (LGood [117]); ERequest (Some [117]); ELogout true (Some [117]); ERequest (Some [117]);
              ERequest (Some [120]); ERequest None; ERequest (Some []);
              ELogin ip LBad; ELogin ip LBad; EAdvance 9; ELogin ip LBad; EAdvance 1; ELogin ip LBad] in
  map (fun en => snd (fst en)) (rev (snd (run c state0 [] evs))) =
    [A200; ANone; A200; ANone; A401; A200; A200; A200; A401; A401; A401; A401; A401; A429; ANone; A429; ANone; A401] /\
  window_count ip 100 10 (snd (run c state0 [] evs)) = 2.
Proof. vm_compute. split; reflexivity. Qed.
