(* C02 -- placeholder while the proofs are being written (replaced below). *)
From KS Require Import lib.Base model.Storage.
Open Scope Z_scope.
Example C02_nonvacuous : run (init (mkCfg 0 0 0 1)) [] <> None.
Proof. vm_compute. discriminate. Qed.
