(* C02 -- Offsets are unique, contiguous and increasing per partition.
   Over model/Storage.v (fixes applied, see C01.v). [log s] is the list of batches the
   live PartitionLog accepted, in lock order (committed ++ in flight ++ buffered);
   [chain lo bs hi] says the offset extents [base, base+lastOffsetDelta] of bs tile
   [lo,hi) in order and none is empty (hence unique and strictly increasing). The
   input domain is every byte string: [parse_hdr] is exactly the acceptance test of
   NewRecordBatchFromBytes (length >= 61, and after the fix lastOffsetDelta >= 0).
   One clause is refuted on the current code and kept as a known finding
   (concatenated-batches): see C02_visible_statement below. *)
From KS Require Import lib.Base model.Storage proofs.StorageProofs.
Open Scope Z_scope.

(* (1) assigned extents tile [start, next) in append order: unique, increasing, no gap *)
Theorem C02_assigned_chain : forall c evs s,
  run (init c) evs = Some s -> s_live s = true -> chain (s_start s) (log s) (s_next s).
Proof. exact assigned_chain. Qed.
Print Assumptions C02_assigned_chain.

(* (2) an accepted append gets base = previous end of the log, for any accepted bytes;
       a rejected record set changes nothing *)
Theorem C02_append_extends : forall c evs s t raw s' lod cnt,
  run (init c) evs = Some s -> step s (EAppend t raw) = Some s' -> parse_hdr raw = Some (lod, cnt) ->
  log s' = log s ++ [mkBatch (s_next s) lod cnt raw] /\ s_next s' = s_next s + lod + 1 /\ 0 <= lod.
Proof. exact append_extends. Qed.
Print Assumptions C02_append_extends.

Theorem C02_rejected_no_effect : forall s t raw s',
  step s (EAppend t raw) = Some s' -> parse_hdr raw = None -> s' = s.
Proof. exact rejected_append_no_effect. Qed.
Print Assumptions C02_rejected_no_effect.

(* (2b) widths: AppendBatch computes nextOffset = baseOffset + int64(LastOffsetDelta) + 1 in
       int64 (the int32 header field is widened BEFORE the +1). For every accepted record set
       (bytes in 0..255) the delta is in [0, 2^31) and, while offsets are below 2^62, the Go
       computation [advance_go] does not wrap and equals the model's base + delta + 1, which
       is strictly above base. (An int32 "+1" would give -2^31 for delta = 2^31-1.) *)
Theorem C02_no_wrap : forall raw lod cnt base,
  Forall is_byte raw -> parse_hdr raw = Some (lod, cnt) -> 0 <= base < 4611686018427387904 ->
  0 <= lod < 2147483648 /\ advance_go base lod = base + lod + 1 /\ base < advance_go base lod.
Proof. exact advance_go_exact. Qed.
Print Assumptions C02_no_wrap.

(* (3) no gap between acknowledged batches: every accepted batch is either durable in
       S3 or still pending (in flight / buffered) -- a failed flush drops nothing *)
Theorem C02_no_gap : forall c evs s,
  run (init c) evs = Some s -> s_live s = true ->
  forall b, In b (log s) -> durable s b \/ In b (s_fl s ++ s_buf s).
Proof. exact no_gap. Qed.
Print Assumptions C02_no_gap.

(* (4) the base offset of a success response is the base patched into the stored bytes *)
Theorem C02_response_base : forall c evs s,
  run (init c) evs = Some s -> forall b, In b (s_acked s) ->
  durable s b /\ firstn 8 (b_bytes b) = be64 (b_base b).
Proof. exact response_base. Qed.
Print Assumptions C02_response_base.

(* (4b) storage level, for ANY accepted bytes (also a first-frame batchLength that is 0, too
       short or overruns the record set): every S3 segment body is the concatenation, in
       offset order (a chain from the object's key), of record sets accepted by some EAppend
       of the run, each with ONLY its first 8 bytes replaced by the assigned base offset --
       same length, bytes 8.. unchanged: nothing dropped, added or shifted. So an overrun
       cannot corrupt a neighbouring record set's bytes in S3; what a consumer that trusts
       batchLength then reads stays with the open finding concatenated-batches ((6) below). *)
Theorem C02_stored_bytes_are_appended_bytes : forall c evs s k bs,
  run (init c) evs = Some s -> lookup k (s_seg s) = Some bs ->
  seg_body bs = flat_map b_bytes bs /\ bs <> [] /\ chain k bs (last_off bs + 1) /\
  Forall (fun b => In b (appended (init c) evs) /\
                   firstn 8 (b_bytes b) = be64 (b_base b) /\
                   skipn 8 (b_bytes b) = skipn 8 (b_raw b) /\
                   length (b_bytes b) = length (b_raw b)) bs.
Proof. exact stored_bytes_are_appended_bytes. Qed.
Print Assumptions C02_stored_bytes_are_appended_bytes.

(* (5) across restarts: after a restart the next offset is past every acknowledged one *)
Theorem C02_restart_resumes : forall c evs s,
  run (init c) evs = Some s -> s_live s = true ->
  (forall b, In b (s_acked s) -> b_last b < s_next s) /\
  (forall v, In v (s_pubs s) -> v <= s_next s) /\ s_store s <= s_next s.
Proof. exact no_reuse. Qed.
Print Assumptions C02_restart_resumes.

(* (6) the consumer's view: walking each stored record set frame by frame (batchLength),
       the extents seen tile the log. FULL STATEMENT: *)
Definition C02_visible_statement : Prop := visible_statement.

(* refuted on the faithful model: a record set made of two concatenated batches is
   accepted as one batch; only the first frame's base is patched (known finding
   concatenated-batches, reproduced on the implementation by the harness corpus) *)
Theorem C02_visible_refuted : ~ C02_visible_statement.
Proof. exact visible_refuted. Qed.
Print Assumptions C02_visible_refuted.

(* the same statement on the complement of the finding's input class: record sets whose
   first frame is the whole record set (no further 61-byte header after 12+batchLength).
   What is missing: multi-batch record sets. *)
Theorem C02_visible_partial : forall c evs s,
  run (init c) evs = Some s -> s_live s = true ->
  Forall (fun b => concatenated (b_bytes b) = false) (log s) ->
  chain_ext (s_start s) (flat_map visible (log s)) (s_next s).
Proof. exact visible_partial. Qed.
Print Assumptions C02_visible_partial.

Example C02_nonvacuous :
  (* four producers, a 3-record batch, a rejected negative-delta batch, a failed flush *)
  let evs := [EAppend 0%nat (hdr61 49 2 3); EAppend 1%nat (hdr61 49 255 1 ++ [9]);
              EAppend 2%nat (hdr61 49 0 1); EFlushBegin 2%nat; EUpSeg 2%nat true; EUpIdx 2%nat false;
              EFailReset 2%nat; EAppend 3%nat (hdr61 49 1 2); EFlushBegin 0%nat] in
  be_i32 (hdr61 49 255 1 ++ [9]) 23 = 255 /\
  parse_hdr (map (fun x => if x =? 0 then 255 else x) (hdr61 49 1 1)) = None /\
  match run (init (mkCfg 0 0 0 1)) evs with
  | Some s => map (fun b => (b_base b, b_lod b)) (log s) = [(0, 2); (3, 255); (259, 0); (260, 1)] /\ s_next s = 262 /\
              map b_base (s_fl s) = [0; 3; 259; 260]
  | None => False
  end.
Proof. vm_compute. repeat split. Qed.
