(* C39 — Operator metadata matches the deployed brokers; derived bucket names are
   valid.  Only statements closed by [exact]; proofs in proofs/OperatorProofs.v.
   [trim] = strings.TrimSpace and [lower_trim] = runes of ToLower(TrimSpace(.)) are
   arbitrary functions.  [admissible]: spec.brokers.replicas present and >= 1 (the
   CRD schema sets minimum 1 and default 3, so the API server never stores an
   absent or non-positive value); [topics_admissible]: partitions >= 0 (CRD: >= 1). *)
From Coq Require Import String.
From KS Require Import lib.Base lib.Strings model.Operator proofs.OperatorProofs.
Open Scope Z_scope.

(* (1) one broker per replica of the StatefulSet that reconcileBrokerDeployment
       renders; node ids are 0..r-1 in order; broker i's host is pod i's stable DNS
       name <sts>-<i>.<service>.<ns>.svc.cluster.local - or, exactly when the
       broker container is given KAFSCALE_BROKER_HOST (single replica with an
       advertised host), that advertised host. *)
Theorem C39_brokers_match : forall trim sp topics m,
  admissible sp -> build_meta trim sp topics = Done m ->
  let s := sts_of trim sp in
  zlen (m_brokers m) = sts_replicas s /\
  map b_id (m_brokers m) = seqZ (sts_replicas s) /\
  forall i, 0 <= i < sts_replicas s ->
    nth (Z.to_nat i) (m_brokers m) (mkBroker (-1) [] 0) =
    mkBroker i (match sts_env_host s with Some h => h | None => pod_dns s i end) (meta_port sp).
Proof. exact brokers_match. Qed.
Print Assumptions C39_brokers_match.

(* (2) every partition's leader, replicas and ISR are node ids of listed brokers *)
Theorem C39_leaders_valid : forall trim sp topics m,
  admissible sp -> build_meta trim sp topics = Done m ->
  forall mt p, In mt (m_topics m) -> In p (mt_parts mt) ->
    In (p_leader p) (map b_id (m_brokers m)) /\
    incl (p_replicas p) (map b_id (m_brokers m)) /\ incl (p_isr p) (map b_id (m_brokers m)).
Proof. exact leaders_valid. Qed.
Print Assumptions C39_leaders_valid.


(* (2') the same for what the operator PUBLISHES: PublishMetadataSnapshot merges the
        rendered metadata with the stored snapshot (topics only the snapshot knows are
        kept; a partition list a broker has grown is kept).  For every sequence of
        publishes with admissible specs (replicas scaled up or down, topics added or
        removed) interleaved with broker-side CreatePartitions / CreateTopic /
        DeleteTopic / error-marked entries, starting from an empty etcd, the stored
        snapshot always has dense partitions and only leader / replica / ISR ids of
        listed brokers; right after a publish the brokers are exactly the spec's
        replicas.  Holds with fixes/C39-merge-reassign-missing-brokers.patch. *)
Theorem C39_published_valid : forall trim es,
  Forall pevent_admissible es -> meta_ok (prun trim true meta0 es).
Proof. exact published_valid. Qed.
Print Assumptions C39_published_valid.

Theorem C39_published_brokers : forall trim es sp topics,
  Forall pevent_admissible es -> admissible sp -> topics_admissible topics ->
  let m := prun trim true meta0 (es ++ [PPublish sp topics]) in
  meta_ok m /\ broker_ids m = seqZ (sts_replicas (sts_of trim sp)).
Proof. exact published_brokers. Qed.
Print Assumptions C39_published_brokers.

(* the merge before the fix: 3 replicas, topic x (3 partitions) published; a broker
   grows x to 6; scale to 2; publish -> 2 brokers listed, partition 2 still led by
   broker 2.  The fixed merge keeps the 6 partitions and names listed brokers only. *)
Theorem C39_published_unfixed_refuted :
  let id := fun b : bytes => b in
  let x := [120] in
  let sp3 := mkSpec [100] [110] (Some 3) [] None [] in
  let sp2 := mkSpec [100] [110] (Some 2) [] None [] in
  let es := [PPublish sp3 [mkTopic x 3]; PGrow x 6; PPublish sp2 [mkTopic x 3]] in
  meta_okb (prun id false meta0 es) = false /\ broker_ids (prun id false meta0 es) = [0; 1] /\
  meta_okb (prun id true meta0 es) = true /\
  map (fun t => zlen (mt_parts t)) (m_topics (prun id true meta0 es)) = [6].
Proof. exact merge_orig_refuted. Qed.

(* (3) topics are rendered one-to-one in order and each topic's partitions are
       numbered 0..n-1 with no gaps (n = spec.partitions); no panic for admissible
       topic specs. *)
Theorem C39_partitions_dense : forall trim sp topics m,
  build_meta trim sp topics = Done m ->
  map mt_name (m_topics m) = map t_name topics /\
  Forall2 (fun mt t => map p_id (mt_parts mt) = seqZ (t_parts t) /\ zlen (mt_parts mt) = t_parts t) (m_topics m) topics.
Proof. exact partitions_dense. Qed.
Print Assumptions C39_partitions_dense.

Theorem C39_no_panic : forall trim sp topics,
  topics_admissible topics -> exists m, build_meta trim sp topics = Done m.
Proof. exact no_panic. Qed.
Print Assumptions C39_no_panic.

(* (4) every bucket name derived for etcd snapshots is a valid S3 bucket name
       (3-63 characters of [a-z0-9-], letter or digit at both ends) - for every
       cluster name and namespace, and indeed for every string sanitizeBucketName is
       given.  Holds for the code with fixes/C39-bucket-name-length.patch. *)
Theorem C39_bucket_valid : forall trim lower_trim name ns,
  s3_valid (default_bucket trim lower_trim name ns).
Proof. exact bucket_valid. Qed.
Print Assumptions C39_bucket_valid.

Theorem C39_sanitize_valid : forall rs, s3_valid (sanitize_core rs).
Proof. exact sanitize_core_valid. Qed.
Print Assumptions C39_sanitize_valid.

(* non-vacuity: a 3-replica spec (pod DNS hosts), a 1-replica spec with advertised
   host; leaders wrap round; the unfixed sanitizer gave 128 characters on the
   63+50 witness, the fixed one a valid name. *)
Example C39_nonvacuous :
  let id := fun b : bytes => b in
  let sp := mkSpec (str "demo"%string) (str "prod"%string) (Some 3) (str "kafka.example.com"%string) None [] in
  let sp1 := mkSpec (str "demo"%string) (str "prod"%string) (Some 1) (str "kafka.example.com"%string) (Some 19092) [] in
  (match build_meta id sp [mkTopic (str "orders"%string) 5] with
   | Done m => map b_host (m_brokers m) = map (pod_dns (sts_of id sp)) [0;1;2] /\
               nth 0 (map b_host (m_brokers m)) [] = str "demo-broker-0.demo-broker-headless.prod.svc.cluster.local"%string /\
               map (fun t => map p_leader (mt_parts t)) (m_topics m) = [[0;1;2;0;1]]
   | Panic => False end) /\
  (match build_meta id sp1 [] with
   | Done m => m_brokers m = [mkBroker 0 (str "kafka.example.com"%string) 19092] /\ sts_env_host (sts_of id sp1) = Some (str "kafka.example.com"%string)
   | Panic => False end) /\
  build_meta id sp [mkTopic (str "t"%string) (-1)] = Panic /\
  (let rs := bucket_prefix ++ [dash] ++ repeat 97 63 ++ [dash] ++ repeat 98 50 in
   zlen (sanitize_core_orig rs) = 128 /\ s3_validb (sanitize_core_orig rs) = false /\ s3_validb (sanitize_core rs) = true).
Proof. vm_compute. repeat split. Qed.
