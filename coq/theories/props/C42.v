(* C42 -- operator reconciliation is idempotent (partial: see checks/C42.py).
   Only statements closed by [exact]/[vm_compute]; proofs live in
   proofs/ReconcileProofs.v.  The closures are the generated gen/ReconcileIR.v. *)
From KS Require Import model.Reconcile proofs.ReconcileProofs gen.ReconcileIR.
Open Scope string_scope.

(* For EVERY interpretation of the expressions (values, inputs = cluster + environment,
   expression/condition functions, and an update function that is idempotent --
   SetControllerReference's upsert), a mutate closure whose target reads are all
   dominated by assignments earlier in the same run is idempotent on every object:
   mutating the result again changes no path. *)
Theorem C42_idempotent :
  forall (value : Type) (inputs : string -> value)
         (fe : Z -> list value -> list (option value) -> value)
         (fc : Z -> list value -> list (option value) -> bool)
         (fu : Z -> list value -> option value -> value),
    (forall i ins v, fu i ins (Some (fu i ins v)) = fu i ins v) ->
    forall c, target_reads_dominated c = true ->
    forall o q, mutate value inputs fe fc fu c (mutate value inputs fe fc fu c o) q
              = mutate value inputs fe fc fu c o q.
Proof. exact mutate_idempotent. Qed.
Print Assumptions C42_idempotent.

(* ... and every path its body assigns gets a value that is a function of the inputs
   only: the same whatever object (fresh, or changed by someone else) it started from. *)
Theorem C42_depends_only_on_inputs :
  forall (value : Type) (inputs : string -> value)
         (fe : Z -> list value -> list (option value) -> value)
         (fc : Z -> list value -> list (option value) -> bool),
    forall c, target_reads_dominated c = true ->
    forall o o' q, wmap value inputs fe fc (c_body c) q <> None ->
      run value inputs fe fc (c_body c) o q = run value inputs fe fc (c_body c) o' q /\
      run value inputs fe fc (c_body c) o q = wmap value inputs fe fc (c_body c) q.
Proof. exact body_depends_only_on_inputs. Qed.
Print Assumptions C42_depends_only_on_inputs.

(* the side condition holds for every CreateOrUpdate closure found in pkg/operator
   today; when it fails the unification error lists the offending functions *)
Theorem C42_all_closures_dominated :
  map c_fn (filter (fun c => negb (target_reads_dominated c)) closures) = [].
Proof. vm_compute. reflexivity. Qed.
Print Assumptions C42_all_closures_dominated.

Theorem C42_closures_idempotent :
  forall (value : Type) inputs fe fc fu,
    (forall i ins v, fu i ins (Some (fu i ins v)) = fu i ins v) ->
    forall c, In c closures ->
    forall o q, mutate value inputs fe fc fu c (mutate value inputs fe fc fu c o) q
              = mutate value inputs fe fc fu c o q.
Proof.
  intros value inputs fe fc fu Hfu c Hc. apply mutate_idempotent; [exact Hfu|].
  assert (forallb target_reads_dominated closures = true) as H by (vm_compute; reflexivity).
  rewrite forallb_forall in H. now apply H.
Qed.
Print Assumptions C42_closures_idempotent.

(* non-vacuity: the generated file holds the 13 closures; one of them (the broker
   Service) reads a target field it assigned itself (Spec.Type) inside a condition;
   and the side condition is not trivially true: a closure reading a target path it
   did not assign is rejected, and is indeed not idempotent under some interpretation. *)
Example C42_nonvacuous :
  length closures = 13%nat /\
  existsb (fun c => String.eqb (c_fn c) "reconcileBrokerService") closures = true /\
  (let bad := mkClosure "bad" "K" "" (Assign "Spec.Replicas" (mkE 1 [] ["Spec.Replicas"])) None in
   target_reads_dominated bad = false /\
   let fe := fun (_ : Z) (_ : list Z) (r : list (option Z)) => match r with [Some v] => (v + 1)%Z | _ => 0%Z end in
   let m := mutate Z (fun _ => 0%Z) fe (fun _ _ _ => true) (fun _ _ _ => 0%Z) bad in
   m (m (empty Z)) "Spec.Replicas" <> m (empty Z) "Spec.Replicas").
Proof. vm_compute. repeat split; discriminate. Qed.
