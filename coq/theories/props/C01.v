(* C01 -- Acknowledged produce is durable in S3.
   Statements over model/Storage.v, which models the write path WITH the proposed
   fixes C01-requeue-failed-flush, C02-reject-negative-last-offset-delta and
   C05-empty-flush-publishes-committed applied. A run is any [list event]: every
   interleaving of producers (any number of thread ids), every outcome of each
   segment/index upload and store update, crashes and restarts at any step.
   Only statements closed by [exact]; proofs are in proofs/StorageProofs.v. *)
From KS Require Import lib.Base model.Storage proofs.StorageProofs.
Open Scope Z_scope.

(* (1) at every point of every run, every batch for which a success response has been
       sent sits in an S3 segment object whose index object exists. *)
Theorem C01_acked_durable : forall c evs s,
  run (init c) evs = Some s -> forall b, In b (s_acked s) -> durable s b.
Proof. exact acked_durable. Qed.
Print Assumptions C01_acked_durable.

(* (2) ... and it stays there: whatever was acknowledged at some point is durable in
       every later state, across crashes, failed restores and restarts. *)
Theorem C01_survives_restart : forall c evs1 evs2 s1 s,
  run (init c) evs1 = Some s1 -> run s1 evs2 = Some s ->
  forall b, In b (s_acked s1) -> durable s b.
Proof. exact acked_survives. Qed.
Print Assumptions C01_survives_restart.

(* (3) the invariant behind (1),(2): acknowledged batches lie in complete objects
       strictly below the write frontier, where no upload can overwrite them. *)
Theorem C01_invariant : forall c evs s, run (init c) evs = Some s -> Inv s.
Proof. exact reach_inv. Qed.
Print Assumptions C01_invariant.

(* non-vacuity: the schedule that loses an acknowledged batch on the unfixed code
   (B drains A's batch, B's segment upload fails while A waits in Flush) ends, on the
   fixed model, with A re-flushing both batches, A acknowledged and durable. *)
Example C01_nonvacuous :
  let r1 := hdr61 49 0 1 ++ [1] in let r2 := hdr61 49 0 1 ++ [2] in
  let evs := [EAppend 0%nat r1; EAppend 1%nat r2; EFlushBegin 1%nat; EUpSeg 1%nat false; EUpIdx 1%nat true;
              EFailReset 1%nat; EFlushBegin 0%nat; ERespond 1%nat; EUpSeg 0%nat true; EUpIdx 0%nat true;
              ECommit 0%nat; ECallback 0%nat true; ERespond 0%nat; ECrash; ERestart true] in
  match run (init (mkCfg 0 0 0 1)) evs with
  | Some s => map b_base (s_acked s) = [0] /\ forallb (durableb s) (s_acked s) = true /\
              s_next s = 2 /\ s_store s = 2 /\ s_live s = true
  | None => False
  end.
Proof. vm_compute. repeat split. Qed.
