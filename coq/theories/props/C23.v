(* C23 — ACL decisions: deny overrides, defaults apply, rules are monotone.
   Only statements closed by [exact]; proofs live in proofs/AclProofs.v.
   Every theorem holds for ALL configurations (any number of entries, duplicates,
   blank names, any rule lists), ALL requests, and for every TrimSpace / EqualFold /
   path.Match function (they are universally quantified, no law assumed).
   Broker authorizer = pkg/acl with fixes/C23-merge-duplicate-principals.patch. *)
From KS Require Import lib.Base model.Acl proofs.AclProofs.
Open Scope Z_scope.

(* ---------------- broker authorizer (pkg/acl/acl.go) ---------------- *)

(* a matching deny rule in ANY configuration entry naming the principal denies *)
Theorem C23_deny_overrides : forall trim eqfold cfg p act res name e r,
  c_enabled cfg = true ->
  In e (c_principals cfg) -> trim (e_name e) = norm_principal trim p ->
  In r (e_deny e) -> matches trim eqfold r act res name = true ->
  allows trim eqfold (new_authorizer trim eqfold cfg) p act res name = false.
Proof. exact deny_overrides. Qed.
Print Assumptions C23_deny_overrides.

(* no matching deny: a matching allow rule allows; no matching allow: the default *)
Theorem C23_allow_then_default : forall trim eqfold cfg p act res name,
  c_enabled cfg = true -> no_deny_matches trim eqfold cfg p act res name ->
  ((exists e r, In e (c_principals cfg) /\ trim (e_name e) = norm_principal trim p /\
                In r (e_allow e) /\ matches trim eqfold r act res name = true) ->
   allows trim eqfold (new_authorizer trim eqfold cfg) p act res name = true) /\
  (no_allow_matches trim eqfold cfg p act res name ->
   allows trim eqfold (new_authorizer trim eqfold cfg) p act res name = default_allow trim eqfold cfg).
Proof. exact allow_then_default. Qed.
Print Assumptions C23_allow_then_default.

(* a principal no entry names (after TrimSpace; "" is "anonymous") gets the default *)
Theorem C23_unknown_default : forall trim eqfold cfg p act res name,
  c_enabled cfg = true ->
  (forall e, In e (c_principals cfg) -> trim (e_name e) <> norm_principal trim p) ->
  allows trim eqfold (new_authorizer trim eqfold cfg) p act res name = default_allow trim eqfold cfg.
Proof. exact unknown_default. Qed.
Print Assumptions C23_unknown_default.

(* the authorizer IS the three-step decision procedure of the statement *)
Theorem C23_decision_procedure : forall trim eqfold cfg p act res name,
  allows trim eqfold (new_authorizer trim eqfold cfg) p act res name =
  spec_allows trim eqfold cfg p act res name.
Proof. exact allows_spec. Qed.
Print Assumptions C23_decision_procedure.

(* adding allow rules (in any entries, at any positions, as new entries) never
   removes access; adding deny rules never grants it *)
Theorem C23_add_allow_monotone : forall trim eqfold cfg cfg' p act res name,
  allow_extends trim eqfold cfg cfg' ->
  allows trim eqfold (new_authorizer trim eqfold cfg) p act res name = true ->
  allows trim eqfold (new_authorizer trim eqfold cfg') p act res name = true.
Proof. exact add_allow_monotone. Qed.
Print Assumptions C23_add_allow_monotone.

Theorem C23_add_deny_antitone : forall trim eqfold cfg cfg' p act res name,
  deny_extends trim eqfold cfg cfg' ->
  allows trim eqfold (new_authorizer trim eqfold cfg') p act res name = true ->
  allows trim eqfold (new_authorizer trim eqfold cfg) p act res name = true.
Proof. exact add_deny_antitone. Qed.
Print Assumptions C23_add_deny_antitone.

(* the concrete edits: a new entry anywhere (also for an already listed principal),
   a new rule anywhere inside an existing entry *)
Theorem C23_add_allow_entry : forall trim eqfold en df pre post nm rs p act res name,
  allows trim eqfold (new_authorizer trim eqfold (mkConfig en df (pre ++ post))) p act res name = true ->
  allows trim eqfold (new_authorizer trim eqfold (mkConfig en df (pre ++ mkEntry nm rs [] :: post))) p act res name = true.
Proof. exact add_allow_entry_monotone. Qed.
Print Assumptions C23_add_allow_entry.

Theorem C23_add_allow_rule : forall trim eqfold en df pre post nm al1 al2 dn r p act res name,
  allows trim eqfold (new_authorizer trim eqfold (mkConfig en df (pre ++ mkEntry nm (al1 ++ al2) dn :: post))) p act res name = true ->
  allows trim eqfold (new_authorizer trim eqfold (mkConfig en df (pre ++ mkEntry nm (al1 ++ r :: al2) dn :: post))) p act res name = true.
Proof. exact add_allow_rule_monotone. Qed.
Print Assumptions C23_add_allow_rule.

Theorem C23_add_deny_entry : forall trim eqfold en df pre post nm rs p act res name,
  allows trim eqfold (new_authorizer trim eqfold (mkConfig en df (pre ++ mkEntry nm [] rs :: post))) p act res name = true ->
  allows trim eqfold (new_authorizer trim eqfold (mkConfig en df (pre ++ post))) p act res name = true.
Proof. exact add_deny_entry_antitone. Qed.
Print Assumptions C23_add_deny_entry.

Theorem C23_add_deny_rule : forall trim eqfold en df pre post nm al dn1 dn2 r p act res name,
  allows trim eqfold (new_authorizer trim eqfold (mkConfig en df (pre ++ mkEntry nm al (dn1 ++ r :: dn2) :: post))) p act res name = true ->
  allows trim eqfold (new_authorizer trim eqfold (mkConfig en df (pre ++ mkEntry nm al (dn1 ++ dn2) :: post))) p act res name = true.
Proof. exact add_deny_rule_antitone. Qed.
Print Assumptions C23_add_deny_rule.

(* prefix wildcard: "p*" matches exactly the names that start with p *)
Theorem C23_prefix_wildcard : forall trim pre name,
  pre <> [] -> trim (pre ++ star) = pre ++ star ->
  (name_matches trim (pre ++ star) name = true <-> exists t, name = pre ++ t).
Proof. exact prefix_wildcard_matches. Qed.
Print Assumptions C23_prefix_wildcard.

(* ---------------- SQL-proxy ACL (sql-processor/internal/proxy/acl.go) ----------------
   Its default policy is "allow iff the allow list is empty" (sql_default), so
   monotonicity in the allow list is stated at equal default (non-empty lists);
   C23_sql_scoping_needed shows the restriction is necessary, not a convenience. *)
Theorem C23_sql_deny_overrides : forall trim pmatch al dn t p,
  In p dn -> pat_match trim pmatch t p = true -> sql_allows trim pmatch al dn t = false.
Proof. exact sql_deny_overrides. Qed.
Print Assumptions C23_sql_deny_overrides.

Theorem C23_sql_allow_then_default : forall trim pmatch al dn t,
  (forall p, In p dn -> pat_match trim pmatch t p = false) ->
  ((exists p, In p al /\ pat_match trim pmatch t p = true) -> sql_allows trim pmatch al dn t = true) /\
  ((forall p, In p al -> pat_match trim pmatch t p = false) -> sql_allows trim pmatch al dn t = sql_default al).
Proof. exact sql_allow_then_default. Qed.
Print Assumptions C23_sql_allow_then_default.

Theorem C23_sql_add_allow_monotone : forall trim pmatch al al' dn t,
  al <> [] -> incl al al' ->
  (sql_allows trim pmatch al dn t = true -> sql_allows trim pmatch al' dn t = true) /\
  (sql_show_topics trim pmatch al dn = true -> sql_show_topics trim pmatch al' dn = true).
Proof. exact sql_add_allow_monotone_both. Qed.
Print Assumptions C23_sql_add_allow_monotone.

Theorem C23_sql_add_deny_antitone : forall trim pmatch al dn dn' t,
  incl dn dn' ->
  (sql_allows trim pmatch al dn' t = true -> sql_allows trim pmatch al dn t = true) /\
  (sql_show_topics trim pmatch al dn' = true -> sql_show_topics trim pmatch al dn = true).
Proof. exact sql_add_deny_antitone_both. Qed.
Print Assumptions C23_sql_add_deny_antitone.

Theorem C23_sql_scoping_needed : forall trim pmatch,
  trim [97] = [97] -> trim [98] = [98] -> pmatch [98] [97] = false ->
  sql_allows trim pmatch [] [] [97] = true /\ sql_allows trim pmatch [[98]] [] [97] = false.
Proof. exact sql_empty_allow_not_monotone. Qed.
Print Assumptions C23_sql_scoping_needed.

(* non-vacuity: a duplicate principal (names differing in whitespace) whose first
   entry denies and whose second allows: denied; the allow matters elsewhere; an
   unknown principal gets the default; the hypotheses of the extension theorems are
   met by a real edit that changes an answer. *)
Example C23_nonvacuous :
  let T := ascii_trim in let F := ascii_eqfold in
  let deny_orders := mkRule [112] [116] [111;42] in          (* action "p", resource "t", name "o*" *)
  let allow_all := mkRule [] star [] in
  let cfg := mkConfig true [100] [mkEntry [97] [] [deny_orders]; mkEntry [32;97;32] [allow_all] []] in
  let cfg0 := mkConfig true [100] [mkEntry [97] [] [deny_orders]] in
  allows T F (new_authorizer T F cfg) [97] [80] [84] [111;120] = false /\
  allows T F (new_authorizer T F cfg) [97] [80] [84] [120] = true /\
  allows T F (new_authorizer T F cfg) [98] [80] [84] [120] = false /\
  allows T F (new_authorizer T F cfg0) [97] [80] [84] [120] = false /\
  allows T F (new_authorizer_lastwins T F cfg) [97] [80] [84] [111;120] = true.
Proof. vm_compute. repeat split. Qed.
