(* C28 — Proxy metadata points clients at the proxy, topology intact.
   Only statements closed by [exact]; proofs live in proofs/ProxyProofs.v.
   The model is of the code with fixes/C28-rewrite-error-topic-partitions.patch
   applied (unpatched, a topic carrying a topic-level error keeps the real leader /
   replica ids of its partitions: [C28_unfixed_leaks]). *)
From KS Require Import lib.Base model.Proxy proofs.ProxyProofs.
Open Scope Z_scope.

(* (1) every metadata reply of a ready proxy — for every cluster metadata snapshot and
       every request (all topics, by name, by id, even the mixed shape) — names only
       the proxy: one broker entry (node 0, advertised host/port), controller 0, every
       partition leader / replica / ISR id 0, no offline replicas; the same holds for
       what a client decodes at any protocol version, for the not-ready reply
       (no brokers, controller absent, no partitions), and for both coordinator replies. *)
Theorem C28_only_proxy : forall c r host port v,
  only_proxy host port (handle_metadata c r host port) /\
  only_proxy host port (wire_cluster v (handle_metadata c r host port)) /\
  only_proxy host port (not_ready_metadata r) /\
  coord_only_proxy host port (handle_find_coordinator host port) /\
  coord_only_proxy host port not_ready_coordinator.
Proof.
  intros c r host port v.
  exact (conj (metadata_only_proxy c r host port)
        (conj (wire_only_proxy v host port _ (metadata_only_proxy c r host port))
        (conj (not_ready_only_proxy r host port) (coordinator_only_proxy host port)))).
Qed.
Print Assumptions C28_only_proxy.

(* (1b) through handleConnection, whatever the metadata store does: a Metadata request
        on a ready proxy is either answered with a reply naming only the proxy, or — when
        the store fails — not answered at all (connection dropped); no other reply exists *)
Theorem C28_only_proxy_conn : forall store_ok c r host port v,
  match conn_metadata store_ok c r host port with
  | Some resp => only_proxy host port resp /\ only_proxy host port (wire_cluster v resp)
  | None => True
  end.
Proof. exact conn_metadata_only_proxy. Qed.
Print Assumptions C28_only_proxy_conn.

(* (2) topology kept.  [topo] of a topic entry = (error code, name, topic id,
       [(partition id, partition error code, leader epoch)]).
   all topics: the reply lists exactly the cluster's topics, in order, same topology *)
Theorem C28_topology_kept_all : forall c r host port,
  req_all r ->
  map topo (cl_topics (handle_metadata c r host port)) = map topo (cl_topics c).
Proof. exact topo_all. Qed.
Print Assumptions C28_topology_kept_all.

(* by name (all ids zero, names non-null, at least one): the i-th reply topic is the
   cluster's topic of that name with unchanged topology, or — only when the cluster has
   no such topic — an UNKNOWN_TOPIC_OR_PARTITION entry without partitions *)
Theorem C28_topology_kept_by_name : forall c r host port,
  req_by_name r ->
  Forall2 (name_answer c) (map req_name (mr_topics r)) (cl_topics (handle_metadata c r host port)).
Proof. exact topo_by_name. Qed.
Print Assumptions C28_topology_kept_by_name.

(* by topic id (all ids non-zero, at least one; requests mixing names and ids are
   outside the Kafka protocol and excluded): the i-th reply topic is the cluster's
   topic with that id, topology unchanged, or — only when there is none — an
   UNKNOWN_TOPIC_ID entry *)
Theorem C28_topology_kept_by_id : forall c r host port,
  req_by_id r ->
  Forall2 (id_answer c) (map snd (mr_topics r)) (cl_topics (handle_metadata c r host port)).
Proof. exact topo_by_id. Qed.
Print Assumptions C28_topology_kept_by_id.

(* the not-ready reply echoes the requested names / ids and invents no partitions *)
Theorem C28_not_ready_topics : forall r,
  map (fun t => (mt_name t, mt_id t, mt_parts t)) (cl_topics (not_ready_metadata r)) =
  map (fun t : option bytes * bytes => (fst t, snd t, [])) (if mr_all r then [] else mr_topics r).
Proof. exact not_ready_topics. Qed.
Print Assumptions C28_not_ready_topics.

(* the defect the patch removes: the shipped builder copies a topic with a topic-level
   error verbatim, so the reply names broker 3 as leader *)
Theorem C28_unfixed_leaks :
  ~ only_proxy [112] 9092 (handle_metadata_unfixed leak_cluster (mkMReq true []) [112] 9092).
Proof. exact unfixed_leaks. Qed.
Print Assumptions C28_unfixed_leaks.

(* non-vacuity: a by-name request hitting an existing topic with a topic-level error and
   a partition led by broker 3, plus a missing topic; a by-id request; leader rewritten,
   epoch / ids / error codes kept *)
Example C28_nonvacuous :
  let id1 := [1;0;0;0;0;0;0;0;0;0;0;0;0;0;0;0] in
  let id9 := [9;0;0;0;0;0;0;0;0;0;0;0;0;0;0;0] in
  let r1 := mkMReq false [(Some [116], zero_id); (Some [122], zero_id)] in
  let r2 := mkMReq false [(None, id1); (None, id9)] in
  req_by_name r1 /\ req_by_id r2 /\
  cl_topics (handle_metadata leak_cluster r1 [112] 9092) =
    [mkMTopic 5 (Some [116]) id1 false [mkMPart 0 0 0 7 [0] [0] []];
     mkMTopic 3 (Some [122]) zero_id false []] /\
  map mt_err (cl_topics (handle_metadata leak_cluster r2 [112] 9092)) = [5; 100].
Proof.
  cbv zeta. split; [|split; [|split]]; try (vm_compute; reflexivity).
  - split; [reflexivity|]. split; [discriminate|]. repeat constructor; cbn; discriminate.
  - split; [reflexivity|]. split; [discriminate|]. repeat constructor.
Qed.
