(* C30 — LFS readers never return a blob that fails its envelope checksum.
   Only statements closed by [exact]; proofs live in proofs/ChecksumProofs.v.
   The hash functions, the JSON decoder and the storage are universally quantified
   parameters of every theorem (no law about them is assumed). *)
From Coq Require Import String.
From KS Require Import lib.Base lib.Strings model.Envelope model.Checksum proofs.ChecksumProofs.
Open Scope Z_scope.

(* What an envelope declares about its blob, written here independently of the
   code's case analysis in EnvelopeChecksum:
     - an unknown checksum_alg: nothing may be returned for it (DInvalid);
     - checksum_alg "none": the envelope declares no digest (DNothing) — nothing can
       be demanded of the blob; this is the envelope's own statement;
     - otherwise the explicit checksum under the named algorithm (default sha256),
       else the sha256 field as a SHA-256 digest. *)
Definition declared (e : envelope) : decl :=
  match normalize_alg (e_alg e) with
  | None => DInvalid
  | Some ANone => DNothing
  | Some a => if nonempty (e_checksum e) then DDigest a (e_checksum e)
              else if nonempty (e_sha256 e) then DDigest ASha256 (e_sha256 e)
              else DNothing
  end.

Definition digest_ok (digest : alg -> bytes -> bytes) (d : decl) (blob : bytes) : Prop :=
  match d with
  | DInvalid => False
  | DNothing => True
  | DDigest a h => digest a blob = h
  end.

(* Resolver.Resolve with ValidateChecksum on: a returned payload is exactly the
   stored object of the decoded envelope's key, within MaxSize when one is
   configured, and its digest is the declared one. *)
Theorem C30_resolver_sound :
  forall (digest : alg -> bytes -> bytes) (unmarshal : bytes -> option envelope) (fetch : bytes -> fetched)
         max_size has_s3 value p a expected,
  resolve digest unmarshal fetch max_size true has_s3 value = ROk p a expected ->
  exists env, go_is_envelope value = true /\ decode unmarshal value = Some env /\
              fetch (e_key env) = FOk p /\
              (0 < max_size -> zlen p <= max_size) /\
              digest_ok digest (declared env) p.
Proof. exact resolver_sound. Qed.
Print Assumptions C30_resolver_sound.

(* Consumer.Unwrap with checksum validation on (the default). *)
Theorem C30_consumer_sound :
  forall (digest : alg -> bytes -> bytes) (unmarshal : bytes -> option envelope) (fetch : bytes -> fetched)
         value p a expected,
  unwrap digest unmarshal fetch true value = ROk p a expected ->
  exists env, go_is_envelope value = true /\ decode unmarshal value = Some env /\
              fetch (e_key env) = FOk p /\ digest_ok digest (declared env) p.
Proof. exact unwrap_sound. Qed.
Print Assumptions C30_consumer_sound.

(* The only other way bytes come back: a value that is not an envelope is passed
   through unchanged (and nothing else is). *)
Theorem C30_passthrough_only :
  forall (digest : alg -> bytes -> bytes) (unmarshal : bytes -> option envelope) (fetch : bytes -> fetched)
         max_size validate has_s3 value p,
  resolve digest unmarshal fetch max_size validate has_s3 value = RPass p \/
  unwrap digest unmarshal fetch validate value = RPass p ->
  p = value /\ go_is_envelope value = false.
Proof. exact resolve_pass_only. Qed.
Print Assumptions C30_passthrough_only.

(* POST /lfs/download: object bytes are sent (DStream, status 200) only if they are
   the complete body of the FIRST GetObject call for the key (no read error; [get]
   lists the outcomes of successive calls, the code makes one), their SHA-256 is the one the caller
   supplied (modulo surrounding white space and letter case), their length is the
   size the caller supplied, the bucket is the proxy's bucket and the size is within
   the proxy's blob ceiling.  Every other response constructor carries no object
   bytes. *)
Theorem C30_download_sound :
  forall (sha256hex : bytes -> bytes) (presign_ok : bool) (get : bytes -> list s3obj) cfg q body hdr,
  download sha256hex presign_ok get cfg q = DStream body hdr ->
  first_attempt get (trim_space (q_key q)) = GBody body false /\
  sha256hex body = norm (q_sha q) /\
  zlen body = q_size q /\
  hdr = norm (q_sha q) /\
  q_post q = true /\ q_auth q = true /\ q_integrity q = true /\
  trim_space (q_bucket q) = c_bucket cfg /\
  (0 < c_max_blob cfg -> zlen body <= c_max_blob cfg).
Proof. exact download_sound. Qed.
Print Assumptions C30_download_sound.

Theorem C30_presign_echo :
  forall (sha256hex : bytes -> bytes) (presign_ok : bool) (get : bytes -> list s3obj) cfg q sha size,
  download sha256hex presign_ok get cfg q = DPresign sha size -> sha = norm (q_sha q) /\ size = q_size q.
Proof. exact presign_echo. Qed.
Print Assumptions C30_presign_echo.

(* non-vacuity, with a toy digest (the length as one byte): a matching blob is
   returned; a tampered, an oversized and an unknown-algorithm one are refused; the
   md5-without-checksum envelope falls back to the sha256 field; the download
   serves the exact object, answers 502 when the first read fails even if a second
   attempt would succeed, and refuses a longer object. *)
Example C30_nonvacuous :
  let digest := fun (a : alg) (b : bytes) => [zlen b + match a with ASha256 => 100 | _ => 0 end] in
  let env := mkEnv 1 [98] [107] 3 [103] [] [] [] [] [] [] in
  let value := enc_head ++ [49; 44; 34; 98; 34; 58; 34; 98; 34; 125] in
  let um := fun _ : bytes => Some env in
  resolve digest um (fun _ => FOk [1; 2; 3]) 0 true true value = ROk [1; 2; 3] (Some ASha256) [103] /\
  resolve digest um (fun _ => FOk [1; 2]) 0 true true value = RErr EMismatch /\
  resolve digest um (fun _ => FOk [1; 2; 3]) 2 true true value = RErr ETooLarge /\
  unwrap digest (fun _ => Some (mkEnv 1 [98] [107] 3 [103] [] (codes "md5"%string) [] [] [] [])) (fun _ => FOk [1; 2; 3]) true value = ROk [1; 2; 3] None [] /\
  unwrap digest (fun _ => Some (mkEnv 1 [98] [107] 3 [103] [] (codes "sha1"%string) [] [] [] [])) (fun _ => FOk [1; 2; 3]) true value = RErr EAlg /\
  let sha := repeat 97 64 in
  let q := mkReq true true true true [98] [107] [] true true sha [] 3 in
  download (fun _ => sha) true (fun _ => [GBody [1; 2; 3] false]) (mkCfg [98] 0 false) q = DStream [1; 2; 3] sha /\
  download (fun _ => sha) true (fun _ => [GBody [1; 2] true; GBody [1; 2; 3] false]) (mkCfg [98] 0 false) q = DError 502 (codes "s3_get_failed"%string) /\
  download (fun _ => sha) true (fun _ => [GBody [1; 2; 3; 4] false]) (mkCfg [98] 0 false) q = DError 502 (codes "integrity_failure"%string).
Proof. vm_compute. repeat split. Qed.
