(* C12 — A completed rebalance assigns each partition to exactly one subscriber.
   Only statements closed by [exact]; proofs live in proofs/CoordinatorProofs.v.
   The model is of JoinGroup WITH fixes/C12-rejoin-changed-subscription.patch. *)
From KS Require Import lib.Base model.Coordinator model.CoordinatorFaults proofs.CoordinatorBase proofs.CoordinatorProofs proofs.CoordinatorTrace proofs.CoordinatorFaults proofs.CoordinatorFinal.
Open Scope Z_scope.

(* (1) For every history (joins, syncs, heartbeats, leaves, commits, cleanup ticks at any
       times, failovers; any number of members, topics, partitions): whenever a sync is
       answered NONE the member receives what the (then Stable) group holds for it, that
       map is assignPartitions of the CURRENT members and subscriptions, and it is a
       partition: no member holds a partition of a topic it did not subscribe to (nor a
       partition that does not exist); each partition of each topic subscribed by a
       current member is held by a current subscriber; with distinct partition ids by
       exactly one. *)
Theorem C12_assignment_partition : forall E h mid gen now s' a,
  step E (run E h) (Sync mid gen now) = (s', RSync NONE a) ->
  exists g, s_mem s' = Some g /\ g_gen g = gen /\ In mid (keys g) /\ a = assignment_of g mid /\
            (forall id, In id (keys g) -> assignment_of g id = assign_for E (subs (g_members g)) id) /\
            is_partition E g.
Proof. exact c12_assignment_partition. Qed.
Print Assumptions C12_assignment_partition.

(* (2) All members of one generation see one consistent assignment: from a Stable group,
       whatever operation comes next, if the group still exists with the same generation
       it is still Stable with the same members, subscriptions and per-member assignment
       (so every sync of that generation reads the same map). *)
Theorem C12_one_map_per_generation : forall E h o n0 n1 g g',
  cur (run E h) n0 = Some g -> g_phase g = PStable ->
  cur (fst (step E (run E h) o)) n1 = Some g' -> g_gen g' = g_gen g ->
  stable_same g g'.
Proof. intros E h o n0 n1 g g'. apply c12_step_same_generation. apply run_inv. Qed.
Print Assumptions C12_one_map_per_generation.

(* (2') the same along any continuation during which the group keeps existing (any number
       of operations, incl. failovers): if the generation at the end is the one the Stable
       group had, the members, subscriptions and per-member assignment are unchanged --
       every sync answered in that generation, however far apart, reads one map. *)
Theorem C12_one_map_per_generation_multi : forall E h h2 n0 n1 g g',
  alive_all E (run E h) h2 ->
  cur (run E h) n0 = Some g -> g_phase g = PStable ->
  cur (run_from E (run E h) h2) n1 = Some g' -> g_gen g' = g_gen g ->
  stable_same g g'.
Proof. intros E h h2 n0 n1 g g'. apply c12_same_generation. apply run_inv. Qed.
Print Assumptions C12_one_map_per_generation_multi.

(* (1f) the same for all histories with arbitrary transient store failures (load, whole-group
       write, offset write; see model/CoordinatorFaults.v): a sync answered NONE hands out
       the partition; no hypothesis on the faults. (A failing store.Metadata inside the
       leader's sync is NOT covered: collectTopicPartitions then assigns partition 0 of every
       subscribed topic only; the harness injects no fault there.) *)
Theorem C12_assignment_partition_under_store_faults : forall E h mid gen now f s' a,
  stepf E (runf E h) (Sync mid gen now) f = (s', Some (RSync NONE a)) ->
  exists g, s_mem s' = Some g /\ g_gen g = gen /\ In mid (keys g) /\ a = assignment_of g mid /\
            (forall id, In id (keys g) -> assignment_of g id = assign_for E (subs (g_members g)) id) /\
            is_partition E g.
Proof. intros E h. intros. eapply c12f_assignment_partition; [apply runf_inv2|eassumption]. Qed.
Print Assumptions C12_assignment_partition_under_store_faults.

(* (1g) across a failover, under store faults: when the last whole-group write succeeded
       ([synced]) a member of a Stable generation that syncs with the successor (load and
       write of that sync succeed) receives exactly the assignment it had, the successor's
       group has the same generation / members / subscriptions / assignments and is a
       partition *)
Theorem C12_assignment_after_failover_under_store_faults : forall E h f mid now n0 g,
  synced E (runf E h) -> cur (runf E h) n0 = Some g -> g_phase g = PStable -> In mid (keys g) ->
  f_load f = false -> f_persist f = false ->
  exists s' g', stepf E (failover (runf E h)) (Sync mid (g_gen g) now) f =
                  (s', Some (RSync NONE (assignment_of g mid))) /\
                s_mem s' = Some g' /\ g_gen g' = g_gen g /\ same_view g g' /\ is_partition E g'.
Proof. intros E h f mid now n0 g. apply c12f_assignment_after_failover. apply runf_inv2. Qed.
Print Assumptions C12_assignment_after_failover_under_store_faults.

(* (1g') the hypothesis is necessary: member 2 joins and the group rebalances to generation 2
       (member 1 then holds partition 0 only) but every write since generation 1 fails; after
       the failover the successor refuses member 1's sync of generation 2 and hands out the
       generation-1 assignment (both partitions) instead *)
Theorem C12_assignment_after_failover_needs_synced :
  let s := runf wE w12 in
  ~ synced wE s /\
  option_map (fun g => (g_phase g, g_gen g, zmem 1 (keys g), assignment_of g 1)) (cur s 3) = Some (PStable, 2, true, [(0, [0])]) /\
  snd (stepf wE (failover s) (Sync 1 2 4) ok) = Some (RSync ILLEGAL_GENERATION []) /\
  snd (stepf wE (failover s) (Sync 1 1 4) ok) = Some (RSync NONE [(0, [0; 1])]).
Proof. exact c12_needs_synced. Qed.
Print Assumptions C12_assignment_after_failover_needs_synced.

(* the assignment function itself, for any member/subscription map with distinct ids *)
Theorem C12_round_robin_unique : forall E sm a b t psa psb p,
  NoDup (parts_of E t) ->
  In (t, psa) (assign_for E sm a) -> In p psa -> In (t, psb) (assign_for E sm b) -> In p psb -> a = b.
Proof. exact assign_for_unique. Qed.
Print Assumptions C12_round_robin_unique.

(* non-vacuity, and the former defect: m1 [A]; sync; re-join m1 with [B]; sync now
   rebalances (generation 2) and hands out B's partitions *)
Example C12_nonvacuous :
  let E := mkEnv [(0, [0; 1; 2]); (1, [0; 1])] false in
  let h := [Join (-1) 7 0 0 [0] 0; Sync 7 1 0; Join 7 (-100) 0 0 [1] 5; Sync 7 2 5] in
  snd (step E (run E (firstn 1 h)) (Sync 7 1 0)) = RSync NONE [(0, [0; 1; 2])] /\
  snd (step E (run E (firstn 3 h)) (Sync 7 2 5)) = RSync NONE [(1, [0; 1])] /\
  snd (step E (run E [Join (-1) 7 0 0 [0; 1] 0; Join (-1) 3 0 0 [1] 1; Join 7 (-100) 0 0 [0; 1] 2; Sync 7 1 3])
           (Sync 3 1 4)) = RSync NONE [(1, [0])].
Proof. vm_compute. repeat split. Qed.
