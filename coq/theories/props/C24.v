(* C24 — With ACLs on, unauthorized requests change nothing and leak nothing.
   Only statements closed by [exact]; proofs live in proofs/DispatchProofs.v.
   Handler = cmd/broker/main.go with fixes/C24-metadata-autocreate-acl.patch.
   [Denied c] means: the item is answered with code c, the guarded effectful call
   (topic creation, append, offset commit, group change, config change) is not attempted
   for it and no record bytes are returned for it; that reading is what the
   correspondence check and the implementation-side oracle validate on the real code. *)
From Coq Require Import String.
From KS Require Import lib.Base lib.Strings model.Dispatch gen.DispatchTable proofs.DispatchProofs.
Open Scope Z_scope.

(* for every request kind Handle accepts, every permission oracle, every handler
   configuration (auto-create on or off, admin APIs on or off), every item of the
   request (mixed per-topic / per-group requests are lists of any length) *)
Theorem C24_unauthorized_inert : forall e p r it o,
  In (it, o) (handle e p r) -> lacks_permission e p r it ->
  exists c, o = Denied c /\ authz_code c = true.
Proof. exact unauthorized_inert. Qed.
Print Assumptions C24_unauthorized_inert.

Theorem C24_effects_need_permission : forall e p r it,
  In it (effects (handle e p r)) -> ~ lacks_permission e p r it.
Proof. exact effects_need_permission. Qed.
Print Assumptions C24_effects_need_permission.

Theorem C24_data_needs_permission : forall e p r it,
  In it (data_items r (handle e p r)) -> ~ lacks_permission e p r it.
Proof. exact data_needs_permission. Qed.
Print Assumptions C24_data_needs_permission.

(* request level: effects = {} /\ no record bytes /\ every reply item an authorization error *)
Theorem C24_all_unauthorized_inert : forall e p r,
  (forall it o, In (it, o) (handle e p r) -> lacks_permission e p r it) ->
  effects (handle e p r) = [] /\ data_items r (handle e p r) = [] /\
  Forall (fun x => exists c, snd x = Denied c /\ authz_code c = true) (handle e p r).
Proof. exact all_unauthorized_inert. Qed.
Print Assumptions C24_all_unauthorized_inert.

(* "creates no topic": whatever the request kind, a topic is created only for a principal
   that may PRODUCE to it (auto-creation via Metadata, Produce, Fetch, ListOffsets) or that
   administers the cluster (CreateTopics); fetch permission alone never creates a topic *)
Theorem C24_creation_needs_permission : forall e p r n,
  In n (creates e p r) -> p AProduce RTopic n = true \/ p AAdmin RCluster s_cluster = true.
Proof. exact creation_needs_permission. Qed.
Print Assumptions C24_creation_needs_permission.

(* ... and that summary is faithful to the source: EVERY call site in EVERY handler that can
   reach topic creation (gen/DispatchTable.v: creation_sites, regenerated from
   cmd/broker/main.go on every run) is dominated by a produce / admin guard or receives a stored
   produce verdict as its autoCreate argument. proofs/DispatchProofs.v has one lemma
   creation_<Kind> per dispatch case, so the broken obligation names the handler. *)
Theorem C24_creation_sites_guarded : forallb (sites_ok creation_sites) all_kinds = true.
Proof. exact creation_all. Qed.
Print Assumptions C24_creation_sites_guarded.

(* whose permissions are checked: with the client_id principal source (with or without PROXY
   protocol) the principal of a request is a function of THAT request's header only -- two
   requests on one connection are authorised independently; with an address source it is a
   function of the connection only *)
Theorem C24_principal_client_id_request_only : forall is_blank trim h h' cid,
  is_blank [] = true ->
  resolve_principal is_blank trim SrcClientId h cid = resolve_principal is_blank trim SrcClientId h' cid.
Proof. exact resolve_client_id_request_only. Qed.
Print Assumptions C24_principal_client_id_request_only.

(* the guard order the model relies on is the one in the source, case by case
   (gen/DispatchTable.v is regenerated from cmd/broker/main.go on every run; the
   per-case lemmas dispatch_<Kind> in proofs/DispatchProofs.v name the case that breaks) *)
Theorem C24_dispatch_table_matches :
  same_kinds dispatch_table = true /\ forallb (row_ok dispatch_table) all_kinds = true.
Proof. exact dispatch_all. Qed.
Print Assumptions C24_dispatch_table_matches.

(* non-vacuity: a principal that may produce to "a" only sends Produce [a; b] and
   Metadata [b] (b does not exist, auto-create on): a proceeds, b is refused with
   TOPIC_AUTHORIZATION_FAILED and is not created *)
Example C24_nonvacuous :
  let a := codes "a" in let b := codes "b" in
  let p : perm_t := fun act res n => match act, res with AProduce, RTopic => bytes_eqb n a | _, _ => false end in
  let e := mkEnv true true (fun t => bytes_eqb t a) (fun t => match t with [] => true | _ => false end) in
  handle e p (RProduce [a; b]) = [((0, a), Proceeds); ((0, b), Denied 29)] /\
  handle e p (RMetadata [b; []]) = [((0, b), Denied 29)] /\
  effects (handle e p (RMetadata [b])) = [] /\
  handle e p (RCreateTopics [b]) = [((0, b), Denied 29)] /\
  handle e p (RJoinGroup b) = [((0, b), Denied 30)] /\
  (* Fetch v13 addresses topics by ID with an empty name: the decision is taken on the name
     the ID resolves to, not on the (empty) wire name *)
  handle e (fun act res n => match n with [] => true | _ => false end) (RFetch [ById (Some b); ByName []; ById None]) =
    [((0, b), Denied 29); ((0, []), Proceeds); ((-1, []), Harmless)] /\
  handle e p (RDescribeConfigs [(4, [])]) = [((4, []), Denied 31)].
Proof. vm_compute. repeat split. Qed.
