(* C29 — LFS envelopes round-trip and are recognized by every SDK.
   Only statements closed by [exact]; proofs live in proofs/EnvelopeProofs.v.
   go/py/js_is_envelope are the hand models of IsLfsEnvelope (Go), is_lfs_envelope
   (Python, after fixes/C29-py-raw-marker-search.patch) and isLfsEnvelope (JS, as
   found).  Quantification is over ALL byte strings (lists of integers, no range
   or length bound). *)
From KS Require Import lib.Base lib.Strings model.Envelope proofs.EnvelopeProofs.
Open Scope Z_scope.

(* The full statement: all three libraries agree on every byte string. *)
Definition C29_detect_agree_statement : Prop :=
  forall bs, go_is_envelope bs = py_is_envelope bs /\ go_is_envelope bs = js_is_envelope bs.

(* It is refuted by the JS library (known finding js-short-input-no-length-check):
   the 13 bytes {"kfs_lfs":1} are an envelope for JS only. *)
Theorem C29_detect_agree_refuted :
  exists bs, go_is_envelope bs = false /\ py_is_envelope bs = false /\ js_is_envelope bs = true.
Proof. exists (123 :: marker ++ [58; 49; 125]). vm_compute. repeat split. Qed.
Print Assumptions C29_detect_agree_refuted.

(* The statement on the complement of the finding's input class: Go and Python agree
   on every byte string; JS agrees with them on every byte string of at least 15
   bytes; and on shorter ones Go and Python always say "not an envelope". *)
Theorem C29_detect_agree_partial : forall bs,
  go_is_envelope bs = py_is_envelope bs /\
  (15 <= zlen bs -> go_is_envelope bs = js_is_envelope bs) /\
  (zlen bs < 15 -> go_is_envelope bs = false).
Proof. intros bs. split; [apply go_py_agree|]. split; [apply go_js_agree_long|apply go_short_false]. Qed.
Print Assumptions C29_detect_agree_partial.

(* The finding's class exactly: a short input JS takes for an envelope starts with
   the brace and contains the marker. *)
Theorem C29_js_short_class : forall bs, zlen bs < 15 -> js_is_envelope bs = true ->
  exists t, bs = 123 :: t /\ contains marker bs = true.
Proof. exact js_short. Qed.
Print Assumptions C29_js_short_class.

(* With the length check of the other two SDKs (minimum length 15 instead of 1) the
   JS detector IS the Go detector, on every byte string: the WHATWG decode with
   replacement characters never creates or destroys an occurrence of an ASCII needle. *)
Theorem C29_detect_agree_with_length_check : forall bs,
  go_is_envelope bs = py_is_envelope bs /\ go_is_envelope bs = js_is_envelope_min 15 bs.
Proof. intros bs. split; [apply go_py_agree|apply go_js15_agree]. Qed.
Print Assumptions C29_detect_agree_with_length_check.

(* "so a non-envelope value is passed through unchanged by each": the first step of
   every SDK's resolver hands a rejected value back as it is, and (on the finding's
   complement) all three take the same decision. *)
Theorem C29_passthrough_agree : forall bs, 15 <= zlen bs ->
  pass_through go_is_envelope bs = pass_through py_is_envelope bs /\
  pass_through go_is_envelope bs = pass_through js_is_envelope bs /\
  (forall p, pass_through go_is_envelope bs = Some p -> p = bs).
Proof. exact pass_through_agree. Qed.
Print Assumptions C29_passthrough_agree.

Theorem C29_js_decode_search : forall m bs, m <> [] -> (forall c, In c m -> c < 128) ->
  contains m (js_decode bs) = contains m bs.
Proof. exact js_decode_search_any. Qed.
Print Assumptions C29_js_decode_search.

(* Every envelope EncodeEnvelope produces is recognized by all three libraries.
   encoding/json enters as [tail] (the bytes after the kfs_lfs number) with the one
   guarantee that the struct's second member, bucket, follows. *)
Theorem C29_encoded_detected : forall (tail : envelope -> bytes),
  (forall e, exists r, tail e = enc_second ++ r) ->
  forall env b, encode tail env = Some b ->
  go_is_envelope b = true /\ py_is_envelope b = true /\ js_is_envelope b = true.
Proof. exact encode_detected. Qed.
Print Assumptions C29_encoded_detected.

(* ... and decodes back to the same fields in all three (decode . encode = id on
   every envelope EncodeEnvelope accepts), given that the JSON library round-trips
   the record ([json_safe]: the strings are valid UTF-8 and numbers within the
   library's exact range — 2^53 for JS — see the harness oracle). *)
Theorem C29_roundtrip : forall (tail : envelope -> bytes) (unmarshal : bytes -> option envelope)
  (json_safe : envelope -> Prop),
  (forall e, json_safe e -> unmarshal (marshal tail e) = Some e) ->
  forall env b, json_safe env -> encode tail env = Some b ->
  decode unmarshal b = Some env /\ py_decode unmarshal b = Some env /\ js_decode_env unmarshal b = Some env.
Proof. exact encode_decode. Qed.
Print Assumptions C29_roundtrip.

(* The Python defect that fixes/C29-py-raw-marker-search.patch removes, on the model
   of the code as found (decode with errors="ignore"): an invalid byte inside the
   marker is dropped and thereby creates it. *)
Example C29_py_lossy_witness :
  let bs := [123; 34; 107; 102; 115; 95; 255; 108; 102; 115; 34; 58; 49; 44; 34; 98; 34; 58; 49; 125] in
  py_is_envelope_lossy bs = true /\ go_is_envelope bs = false /\ js_is_envelope bs = false /\ py_is_envelope bs = false.
Proof. vm_compute. repeat split. Qed.

(* non-vacuity: a real encoded envelope (with a 3-byte and a 4-byte UTF-8 character
   before the 50-byte boundary) is detected; an input with the marker beyond byte 50
   is not; the decoder model emits surrogate pairs and replacement characters. *)
Example C29_nonvacuous :
  go_is_envelope (enc_head ++ dec 1 ++ enc_second ++ [226; 130; 172; 240; 159; 152; 128; 34; 125]) = true /\
  js_is_envelope (enc_head ++ dec 1 ++ enc_second ++ [226; 130; 172; 240; 159; 152; 128; 34; 125]) = true /\
  go_is_envelope (123 :: repeat 32 42 ++ marker ++ [125]) = false /\
  go_is_envelope (123 :: repeat 32 40 ++ marker ++ [125]) = true /\
  js_decode [240; 159; 152; 128; 255; 226; 130; 65] = [55357; 56832; 65533; 65533; 65].
Proof. vm_compute. repeat split. Qed.
