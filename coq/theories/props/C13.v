(* C13 — Stale or unknown group members are fenced.
   Only statements closed by [exact]; proofs live in proofs/CoordinatorProofs.v.
   The model is of OffsetCommit WITH fixes/C13-commit-under-lock.patch (check and store
   write in one critical section, so every operation is atomic and schedules are
   operation sequences). *)
From KS Require Import lib.Base model.Coordinator model.CoordinatorFaults proofs.CoordinatorBase proofs.CoordinatorProofs proofs.CoordinatorFaults model.CoordinatorCluster proofs.CoordinatorCluster proofs.CoordinatorFinal.
Open Scope Z_scope.

(* (1) in ANY state: a sync, heartbeat or offset commit whose (member, generation) is not
       (a current member, the current generation) of the group as that request sees it is
       answered with an error and leaves every committed offset unchanged *)
Theorem C13_fenced : forall E s o mid gen now,
  (o = Sync mid gen now \/ o = Heartbeat mid gen now \/ exists t p off, o = Commit mid gen t p off now) ->
  ~ current s now mid gen ->
  reply_err (snd (step E s o)) <> NONE /\ s_off (fst (step E s o)) = s_off s.
Proof. exact c13_fenced. Qed.
Print Assumptions C13_fenced.

(* (2) conversely the committed offsets change only by a commit of a current member in
       the current generation, answered NONE *)
Theorem C13_offsets_only_by_current_commit : forall E s o,
  s_off (fst (step E s o)) <> s_off s ->
  exists mid gen t p off now, o = Commit mid gen t p off now /\ current s now mid gen /\
                              snd (step E s o) = RErr NONE.
Proof. exact c13_offsets_only_by_commit. Qed.
Print Assumptions C13_offsets_only_by_current_commit.

(* (3) generations never decrease while the group exists: along every history and every
       continuation during which the group does not disappear (incl. failovers, expiry,
       leaves); and what a join reply reports is the generation of the group *)
Theorem C13_generation_monotone : forall E h h2 n0 n1 g g',
  alive_all E (run E h) h2 ->
  cur (run E h) n0 = Some g -> cur (run_from E (run E h) h2) n1 = Some g' -> g_gen g <= g_gen g'.
Proof. intros E h h2 n0 n1 g g'. apply c13_generation_monotone. apply run_inv. Qed.
Print Assumptions C13_generation_monotone.

Theorem C13_join_reports_generation : forall E h mid fresh sess reb topics now s' e gen ld id ms,
  step E (run E h) (Join mid fresh sess reb topics now) = (s', RJoin e gen ld id ms) ->
  exists g', s_mem s' = Some g' /\ gen = g_gen g'.
Proof.
  intros E h mid fresh sess reb topics now s' e gen ld id ms H.
  destruct (join_reply E (run E h) _ _ _ _ _ _ _ _ _ _ _ _ (run_inv E h) H) as [g' [H1 [_ [H2 _]]]]. eauto.
Qed.
Print Assumptions C13_join_reports_generation.

(* ---- under arbitrary transient store failures (model/CoordinatorFaults.v) ---- *)
(* (1f) fencing does not depend on the store working: in ANY state and for ANY fault of the
       request, a sync / heartbeat / commit that is not from (a member, the generation) of
       the group the request sees gets an error (or no reply) and changes no offset *)
Theorem C13_fenced_under_store_faults : forall E s o f mid gen now,
  (o = Sync mid gen now \/ o = Heartbeat mid gen now \/ exists t p off, o = Commit mid gen t p off now) ->
  ~ currentf s now f mid gen ->
  reply_err_opt (snd (stepf E s o f)) <> NONE /\ s_off (fst (stepf E s o f)) = s_off s.
Proof. exact c13f_fenced. Qed.
Print Assumptions C13_fenced_under_store_faults.

(* (3f) whatever fails, the generation of the group a coordinator holds in memory never
       decreases. Across a FAILOVER the generation (and the member set) can only be
       guaranteed when the last whole-group write succeeded ([synced]; then
       C13_generation_monotone applies): after a failed write the store holds an older
       image, and a coordinator that takes over can only know that image -- no
       coordinator-side code can fence what the store never learned. *)
Theorem C13_generation_monotone_in_memory_under_store_faults : forall E h o f g g',
  s_mem (runf E h) = Some g -> s_mem (fst (stepf E (runf E h) o f)) = Some g' -> g_gen g <= g_gen g'.
Proof. intros E h o f g g'. apply c13f_generation_monotone_in_memory. apply runf_inv2. Qed.
Print Assumptions C13_generation_monotone_in_memory_under_store_faults.

(* ---- several brokers (model/CoordinatorCluster.v: the routing rule of cmd/broker) ----
   Named assumption LEASE_SINGLE_OWNER: at any time at most one broker holds the group's
   coordination lease (property C18 of the etcd lease manager; in the model it is the
   shape of the state, [cl_owner : option nat]). Routing rule, checked on the real
   handlers by the second harness: lease not held (and held elsewhere) -> NOT_COORDINATOR
   and no effect; lease newly acquired -> the cached copy is dropped first
   (fixes/C13-group-cache-follows-lease.patch); sweeps of non-holders have no effect. *)

(* (4) whatever requests reach whichever broker, however often the lease moves: the group
       as the lease holder has it is a state of ONE coordinator running a history in which
       every lease move is a Failover -- so every single-coordinator theorem of C12-C15
       and C43 (all are over histories with failovers) holds for the cluster *)
Theorem C13_cluster_is_one_coordinator : forall E evs, exists h, holder_view (crun E evs) = run E h.
Proof. exact crun_refines. Qed.
Print Assumptions C13_cluster_is_one_coordinator.

(* (5) fencing for any number of brokers with caches: in ANY cluster state, a sync /
       heartbeat / commit that is not from (a current member, the current generation) of the
       group as the lease holder has it, sent to ANY broker, is answered NOT_COORDINATOR
       (changing nothing at all) or with an error, and changes no committed offset *)
Theorem C13_fenced_any_broker : forall E c b o mid gen now,
  (o = Sync mid gen now \/ o = Heartbeat mid gen now \/ exists t p off, o = Commit mid gen t p off now) ->
  ~ current (holder_view c) now mid gen ->
  let '(c', r) := cstep E c (CReq b o) in
  (r = CNotCoordinator \/ exists r0, r = CReply r0 /\ reply_err r0 <> NONE) /\
  cl_off c' = cl_off c /\ (r = CNotCoordinator -> c' = c).
Proof. exact c13_fenced_any_broker. Qed.
Print Assumptions C13_fenced_any_broker.

(* (6) across a failover, under store faults: when the last whole-group write succeeded
       ([synced]), a sync / heartbeat / commit that is not from (a member, the generation) of
       the group as the OLD coordinator had it is fenced by its successor too, whatever fault
       hits that request *)
Theorem C13_fenced_across_failover_under_store_faults : forall E h o f mid gen now n0 g,
  synced E (runf E h) -> cur (runf E h) n0 = Some g ->
  ~ (In mid (keys g) /\ gen = g_gen g) ->
  (o = Sync mid gen now \/ o = Heartbeat mid gen now \/ exists t p off, o = Commit mid gen t p off now) ->
  reply_err_opt (snd (stepf E (failover (runf E h)) o f)) <> NONE /\
  s_off (fst (stepf E (failover (runf E h)) o f)) = s_off (failover (runf E h)).
Proof. intros E h o f mid gen now n0 g. apply c13f_fenced_across_failover. apply runf_inv2. Qed.
Print Assumptions C13_fenced_across_failover_under_store_faults.

(* (6') the hypothesis is necessary: two members Stable in generation 2, member 1 expires but
       the sweep's write fails (memory: generation 3 without member 1; store: generation 2
       with it); after the failover the successor ACCEPTS member 1's commit for generation 2
       and overwrites the offset -- it can only know what the store learned *)
Theorem C13_fenced_across_failover_needs_synced :
  let s := runf wE w13 in
  ~ synced wE s /\
  option_map (fun g => (zmem 1 (keys g), g_gen g)) (cur s 5001) = Some (false, 3) /\
  snd (stepf wE (failover s) (Commit 1 2 0 0 9 5001) ok) = Some (RErr NONE) /\
  off_get (0, 0) (s_off (fst (stepf wE (failover s) (Commit 1 2 0 0 9 5001) ok))) = 9 /\
  off_get (0, 0) (s_off s) = 0.
Proof. exact c13_needs_synced. Qed.
Print Assumptions C13_fenced_across_failover_needs_synced.

(* (7) along EVERY cluster history (requests to any broker, lease moves, sweeps): whenever an
       event changes a committed offset, it is an OffsetCommit of a member that is current,
       in the current generation, in the lease holder's view at that time -- a view that is
       a state of the single-coordinator model --, answered NONE *)
Theorem C13_cluster_offsets_only_by_current_commit : forall E evs ev,
  let c := crun E evs in
  cl_off (fst (cstep E c ev)) <> cl_off c ->
  exists b mid gen t p off now h, ev = CReq b (Commit mid gen t p off now) /\
    holder_view c = run E h /\ current (run E h) now mid gen /\
    snd (cstep E c ev) = CReply (RErr NONE).
Proof. exact c13_cluster_offsets_only_by_current_commit. Qed.
Print Assumptions C13_cluster_offsets_only_by_current_commit.

(* non-vacuity: an expired member's commit / heartbeat / sync with its old generation is
   rejected and the offset stays; the surviving member's commit lands *)
Example C13_nonvacuous :
  let E := mkEnv [(0, [0; 1])] true in
  let h := [Join (-1) 1 5000 0 [0] 0; Sync 1 1 0; Join (-1) 2 40000 0 [0] 0; Join 1 (-100) 5000 0 [0] 0;
            Sync 1 2 0; Commit 1 2 0 0 7 0; Heartbeat 2 2 5001; Cleanup 5001] in
  let s := run E h in
  snd (step E s (Commit 1 2 0 0 9 5001)) = RErr UNKNOWN_MEMBER_ID /\
  off_get (0, 0) (s_off (fst (step E s (Commit 1 2 0 0 9 5001)))) = 7 /\
  snd (step E s (Commit 2 2 0 0 9 5001)) = RErr ILLEGAL_GENERATION /\
  snd (step E s (Commit 2 3 0 0 9 5001)) = RErr NONE /\
  off_get (0, 0) (s_off (fst (step E s (Commit 2 3 0 0 9 5001)))) = 9.
Proof. vm_compute. repeat split. Qed.
