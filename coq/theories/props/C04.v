(* C04 - A fetch below the high watermark always makes progress.
   Only statements closed by [exact]; proofs live in proofs/ReadPathProofs.v,
   ReadPathFloor.v and ReadRestoreProofs.v.
   With fixes/C04-never-cut-inside-index-block.patch (model version VFull = [read]) the
   property is PROVED in full.  Without it (VFloor = [read_floor], the tree that only
   has fixes/C04-find-index-entry-floor.patch) it is refuted - the finding
   "sparse-index-entry-before-offset+maxbytes-le-distance" - and holds on the
   complement of that input class. *)
From KS Require Import lib.Base model.ReadPath model.ReadRestore proofs.ReadPathProofs proofs.ReadPathFloor proofs.ReadRestoreProofs.
Open Scope Z_scope.

(* The property, for version [v] of the read path: for every history, index interval,
   cache state, fetch offset o at or below the last offset of some live batch, and
   positive byte limit, Read succeeds and the result reaches past the start of the
   first live batch ending at or after o (the batch holding o, or the first batch after
   o when o is in a gap). *)
Definition C04_progress_statement (v : variant) : Prop :=
  forall iv rq start ops cached o max,
    Forall valid_op ops ->
    let l := run (init_log iv rq start) ops in
    0 < max -> (exists b, In b (live l) /\ o <= b_last b) ->
    exists d, read_gen v true l cached o max = ROk d /\ progress_run (live l) o d.

(* Full theorem for the fixed code. *)
Theorem C04_progress : C04_progress_statement VFull.
Proof. exact read_progress. Qed.
Print Assumptions C04_progress.

(* ... also across restarts (model/ReadRestore.v). *)
Theorem C04_progress_restart : forall iv rq start xs cached o max,
  Forall valid_xop xs ->
  let l := xrun (init_log iv rq start) xs in
  0 < max -> (exists b, In b (live l) /\ o <= b_last b) ->
  exists d, read l cached o max = ROk d /\ progress_run (live l) o d.
Proof. exact read_progress_restart. Qed.
Print Assumptions C04_progress_restart.

Definition p61 (marker : Z) (lod : Z) : bytes :=
  repeat marker 23 ++ u32 lod ++ repeat marker 30 ++ u32 (lod + 1).

(* Without the cap extension the statement is false: index interval 2, four one-record
   61-byte batches in one segment (index entries at offsets 0 and 2), Read(offset 1,
   maxBytes 61) returns exactly batch 0: only records before the fetch offset. *)
Theorem C04_progress_refuted_without_cap_extension : ~ C04_progress_statement VFloor.
Proof.
  intros H.
  set (ops := [OAppend (p61 1 0); OAppend (p61 2 0); OAppend (p61 3 0); OAppend (p61 4 0); OPrepare 0 0; OCommit]).
  assert (Hv : Forall valid_op ops) by (repeat constructor; intros _; vm_compute; discriminate).
  assert (Hex : exists b, In b (live (run (init_log 2 false 0) ops)) /\ 1 <= b_last b).
  { exists (nth 1 (live (run (init_log 2 false 0) ops)) dflt). split; vm_compute; [right; left; reflexivity|discriminate]. }
  destruct (H 2 false 0 ops false 1 61 Hv eq_refl Hex) as (d & Hr & Hp).
  apply progress_run_b in Hp. vm_compute in Hr. injection Hr as <-. vm_compute in Hp. discriminate.
Qed.
Print Assumptions C04_progress_refuted_without_cap_extension.

(* ... and holds, for the versions with the floor lookup, whenever maxBytes exceeds
   [entry_distance] - the bytes between the position of the index entry Read starts
   from and the start of the batch holding o (0 when the index has an entry at that
   batch and for every read served from the flush window or the write buffer). *)
Theorem C04_progress_partial : forall v iv rq start ops cached o max,
  v_floor v = true ->
  Forall valid_op ops ->
  let l := run (init_log iv rq start) ops in
  0 < max -> (exists b, In b (live l) /\ o <= b_last b) ->
  entry_distance l o < max ->
  exists d, read_gen v true l cached o max = ROk d /\ progress_run (live l) o d.
Proof. exact read_progress_partial. Qed.
Print Assumptions C04_progress_partial.

Theorem C04_progress_partial_restart : forall v iv rq start xs cached o max,
  v_floor v = true ->
  Forall valid_xop xs ->
  let l := xrun (init_log iv rq start) xs in
  0 < max -> (exists b, In b (live l) /\ o <= b_last b) ->
  entry_distance l o < max ->
  exists d, read_gen v true l cached o max = ROk d /\ progress_run (live l) o d.
Proof. exact read_progress_partial_restart. Qed.
Print Assumptions C04_progress_partial_restart.

(* A read at or below the end of the live log never fails, for any byte limit. *)
Theorem C04_read_succeeds : forall v iv rq start ops cached o max,
  Forall valid_op ops ->
  let l := run (init_log iv rq start) ops in
  (exists b, In b (live l) /\ o <= b_last b) -> exists d, read_gen v true l cached o max = ROk d.
Proof.
  intros v iv rq start ops cached o max Hv l Hex.
  exact (read_ok v start l cached o max (inv_run start ops _ Hv (inv_init iv rq start)) Hex).
Qed.
Print Assumptions C04_read_succeeds.

(* findIndexEntry (as fixed by fixes/C04-find-index-entry-floor.patch) returns the
   FLOOR entry: on every reachable log, in the segment that serves the offset, the
   entry Read starts from is an index entry at or below the (snapped) offset and no
   other entry at or below the offset is greater. *)
Theorem C04_entry_is_floor : forall iv rq start ops o s o',
  Forall valid_op ops ->
  let l := run (init_log iv rq start) ops in
  find_segment (l_segs l) o = Some (s, o') ->
  let e := find_entry (s_entries s) o' in
  In e (s_entries s) /\ ie_off e <= o' /\
  forall e', In e' (s_entries s) -> ie_off e' <= o' -> ie_off e' <= ie_off e.
Proof. exact read_entry_is_floor. Qed.
Print Assumptions C04_entry_is_floor.

(* The defect fixed by fixes/C04-find-index-entry-floor.patch: HEAD's binary search
   (`mid+1 <= hi`) falls through to entries[0]; the fixed one returns the floor entry. *)
Example C04_head_find_entry_witness :
  let es := map (fun o => mkEntry o (32 + 70 * (o / 3))) [0; 3; 6; 9; 12] in
  ie_off (find_entry_head es 4) = 0 /\ ie_off (find_entry es 4) = 3 /\
  ie_off (find_entry_head es 5) = 0 /\ ie_off (find_entry es 5) = 3 /\
  map (fun o => ie_off (find_entry es o)) [0; 1; 2; 3; 7; 8; 10; 11; 12; 13; 99] = [0; 0; 0; 3; 6; 6; 9; 9; 12; 12; 12].
Proof. vm_compute. repeat split. Qed.

(* non-vacuity / the two versions side by side on the refutation log: the distance from
   the entry for 0 to the batch holding offset 1 is 61 bytes; without the extension
   maxBytes 61 makes no progress and 62 does; with it, maxBytes 1 already returns both
   batches of the index block; an offset with its own index entry is still cut at
   maxBytes *)
Example C04_nonvacuous :
  let ops := [OAppend (p61 1 0); OAppend (p61 2 0); OAppend (p61 3 0); OAppend (p61 4 0); OPrepare 0 0; OCommit] in
  let l := run (init_log 2 false 0) ops in
  entry_distance l 1 = 61 /\ entry_distance l 2 = 0 /\ entry_distance l 3 = 61 /\
  (exists d, read_floor l true 1 61 = ROk d /\ progress_b (live l) 1 d = false) /\
  (exists d, read_floor l false 1 62 = ROk d /\ progress_b (live l) 1 d = true) /\
  (exists d, read l false 1 1 = ROk d /\ zlen d = 122 /\ progress_b (live l) 1 d = true) /\
  (exists d, read l true 3 61 = ROk d /\ zlen d = 122 /\ progress_b (live l) 3 d = true) /\
  (exists d, read l true 2 1 = ROk d /\ zlen d = 1 /\ progress_b (live l) 2 d = true).
Proof. vm_compute. repeat split; eexists; repeat split; reflexivity. Qed.
