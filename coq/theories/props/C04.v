From KS Require Import lib.Base model.ReadPath.
Open Scope Z_scope.
Example C04_nonvacuous : True. Proof. exact I. Qed.
