(* C27 — The proxy answers every requested partition once, without duplicate writes.
   Only statements closed by [exact]; proofs live in proofs/ProxyProofs.v.

   Vocabulary (model/Proxy.v, proofs/ProxyProofs.v):
   [forward E dial backend ord maxr routes rr req] = forwardProduce / forwardFetch with
     maxRetries = maxr on the groups of handle*Routing; [fst] = merged response, [snd] =
     final state with the log of every sub-request sent (attempt, backend, sub-request,
     outcome: Reply parts | FailBefore | FailAfter | Unparseable).
   [backend] is an arbitrary oracle attempt -> addr -> (n-th request there) -> sub-request
     -> outcome; [dial] an arbitrary oracle attempt -> addr -> bool (ConnFailBefore);
     [ord] the Go map iteration order of the groups at each attempt.
   [mkeys E m] = the (topic key, partition) of every entry of merged response m;
   [sub_tps E req] = the (topic key, partition) list of the request.
   Named hypotheses:
   [distinct_tps]      the request names each topic-partition once;
   [replies_complete]  a reply's partitions are exactly its sub-request's;
   [ord_ok]            the iteration order is any permutation of the groups. *)
From Coq Require Import Permutation.
From KS Require Import lib.Base model.Proxy proofs.ProxyProofs.
Open Scope Z_scope.

(* (1) produce: for ANY positive number of attempts, any routing table, round-robin
       state, dial and backend behaviour and iteration order, the merged response has
       exactly the requested topic-partitions (as a multiset: one entry each, no other). *)
Theorem C27_exactly_once : forall E dial backend ord maxr routes rr req,
  e_fetch E = false -> (maxr >= 1)%nat ->
  distinct_tps E req -> ord_ok ord -> replies_complete E (fun _ => True) backend ->
  Permutation (mkeys E (fst (forward E dial backend ord maxr routes rr req))) (sub_tps E req).
Proof. exact produce_exactly_once. Qed.
Print Assumptions C27_exactly_once.

(* ... read as counts: one entry for a requested topic-partition, none for any other *)
Theorem C27_exactly_once_counts : forall (l req : list tpk),
  Permutation l req -> NoDup req ->
  forall x, count_occ tpk_dec l x = if in_dec tpk_dec x req then 1%nat else 0%nat.
Proof. exact perm_count_one. Qed.
Print Assumptions C27_exactly_once_counts.

(* fetch, versions that carry topic names (up to v12): every topic has a non-empty name
   and no id, in the request and in the replies *)
Theorem C27_exactly_once_fetch_by_name : forall E dial backend ord maxr routes rr req,
  e_fetch E = true -> Forall named (sub_topics req) -> (maxr >= 1)%nat ->
  distinct_tps E req -> ord_ok ord -> replies_complete E named backend ->
  Permutation (mkeys E (fst (forward E dial backend ord maxr routes rr req))) (sub_tps E req).
Proof. exact fetch_by_name_exactly_once. Qed.
Print Assumptions C27_exactly_once_fetch_by_name.

(* fetch, general (covers v13 topic ids, resolvable or not): [ok] delimits the topic
   records of the resolved request and of the replies; hypothesis: on them the merge match
   of findOrAddFetchTopicResponse agrees with the key of fetchTopicKey, and a request
   topic's key does not change when it comes back in a reply *)
Theorem C27_exactly_once_fetch : forall E (ok : topic -> Prop) dial backend ord maxr routes rr req,
  (forall e q, ok e -> ok q -> (same E e q = true <-> rkey E e = rkey E q)) ->
  Forall (okq E ok) (sub_topics (resolve_req E req)) -> (maxr >= 1)%nat ->
  distinct_tps E (resolve_req E req) -> ord_ok ord -> replies_complete E ok backend ->
  Permutation (mkeys E (fst (forward E dial backend ord maxr routes rr req)))
              (sub_tps E (resolve_req E req)).
Proof. exact fetch_exactly_once. Qed.
Print Assumptions C27_exactly_once_fetch.

(* (2) produce and fetch, no hypothesis at all: an entry reporting success (code 0) stems
       from a logged backend reply that reported success for that partition under a
       topic record the entry's topic matches *)
Theorem C27_success_sound : forall E dial backend ord maxr routes rr req,
  let r := forward E dial backend ord maxr routes rr req in
  forall x, In x (merged_ents (fst r)) -> snd x = 0 -> from_reply E (s_log (snd r)) x.
Proof. exact forward_success_sound. Qed.
Print Assumptions C27_success_sound.

(* (3) produce: a sub-request sent at attempt j > 0 contains only partitions for which a
       backend replied NOT_LEADER_OR_FOLLOWER at attempt j-1 — never after a connection
       failure (before or after the send) or an undecodable reply; so every send of a
       partition but the last was refused, and at most one backend accepted it *)
Theorem C27_resend_only_not_leader : forall E, e_fetch E = false ->
  forall dial backend ord maxr routes rr req, ord_ok ord ->
  forall e, In e (s_log (snd (forward E dial backend ord maxr routes rr req))) ->
  forall x, In x (sub_tps E (l_sub e)) ->
    l_attempt e = 0 \/
    rejected E (s_log (snd (forward E dial backend ord maxr routes rr req))) (l_attempt e - 1) x.
Proof. exact forward_resend. Qed.
Print Assumptions C27_resend_only_not_leader.

(* non-vacuity: a produce for orders/0,1 owned by broker 1; the backend rejects partition
   0 as NOT_LEADER at the first attempt; the route is invalidated, partition 0 is resent
   (round-robin) and accepted; the hypotheses of (1) hold for this backend *)
Definition ex_env : env := mkEnv false [] [([49], [98;48]); ([50], [98;49])] [[98;48]; [98;49]] 1.
Definition ex_backend : backend_fn := fun k _ _ sub =>
  Reply (map (fun x : topic * Z => (fst x, snd x, if (k =? 0) && (snd x =? 0) then ERR_NOT_LEADER else 0)) (flatten sub)).
Definition ex_topic : topic := mkTopic [111] zero_id.

Example C27_nonvacuous :
  distinct_tps ex_env [(ex_topic, [0; 1])] /\
  replies_complete ex_env (fun _ => True) ex_backend /\
  let r := forward ex_env (fun _ _ => true) ex_backend (fun _ gs => gs) 3
                   [([111], 0, [49]); ([111], 1, [49])] 0 [(ex_topic, [0; 1])] in
  merged_ents (fst r) = [(ex_topic, 1, 0); (ex_topic, 0, 0)] /\
  map (fun e => (l_attempt e, l_target e, sub_tps ex_env (l_sub e))) (s_log (snd r)) =
    [(0, [98;48], [([111], 0); ([111], 1)]); (1, [98;49], [([111], 0)])] /\
  s_routes (snd r) = [([111], 1, [49])].
Proof.
  split; [|split].
  - vm_compute. repeat constructor; cbn; intuition discriminate.
  - intros k a n sub. cbn. split.
    + rewrite map_map. unfold sub_tps. apply Permutation_refl.
    + apply Forall_forall. intros x _. exact I.
  - vm_compute. repeat split.
Qed.
