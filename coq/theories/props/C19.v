(* C19 -- placeholder while the harness is brought up *)
From KS Require Import lib.Base lib.Strings lib.EtcdKV model.Lease proofs.LeaseProofs.
Open Scope Z_scope.
Example C19_nonvacuous : 1 = 1.
Proof. reflexivity. Qed.
