(* C19 -- A broker appends only to partitions whose lease it holds.
   Only statements closed by [exact]; proofs live in proofs/LeaseProofs.v.

   Model: model/Lease.v part 2 = the lease slice of handleProduce
   (acquirePartitionLeases -> AcquireAll -> per-partition error-code mapping) on top of
   the C18 lease-manager model.  Named assumption (event granularity): the request is
   handled atomically with respect to lease state -- the Acquire calls of the request
   run without other events in between ([acquire] chains the four steps of an Acquire
   call).  The pre-state is ANY state reachable by ANY event list of part 1 (any number
   of brokers, pending Release halves, stale acquire flights, expired sessions, ...).
   An outcome is (response code, storage path entered); "entered = false" means neither
   getPartitionLog nor AppendBatch nor Flush is called for that partition entry. *)
From KS Require Import lib.Base lib.Strings lib.EtcdKV model.Lease proofs.LeaseProofs.
Open Scope Z_scope.

Theorem C19_success_implies_lease : forall cfg env evs b req,
  c_guard cfg = true -> pe_leasing env = true ->
  let s := run cfg evs in
  let s' := fst (produce cfg env s b req) in
  forall t p i j out o,
    nth_error req i = Some t -> nth_error (t_parts t) j = Some p ->
    nth_error (snd (produce cfg env s b req)) i = Some out -> nth_error out j = Some o ->
    let rid := partition_rid (t_topic t) (p_part p) in
    (* (a) the storage path is entered only while this broker holds the lease: it owns
           the partition, etcd stores its id under the lease key, no other broker owns it *)
    (snd o = true ->
       owns s' b rid = true /\ key_owner cfg s' rid = Some b /\
       (forall b', owns s' b' rid = true -> b' = b)) /\
    (* (b) a success code is returned only if the storage path was entered (hence (a))
           and reported success *)
    (pe_bp_code env <> 0 -> fst o = 0 -> snd o = true /\ p_down p = 0) /\
    (* (c) a partition that another broker owns is refused with NOT_LEADER_OR_FOLLOWER
           (or the retriable REQUEST_TIMED_OUT) and nothing is written *)
    (forall b', b' <> b -> owns s b' rid = true ->
       snd o = false /\
       (t_allowed t = true -> pe_etcd_avail env = true ->
        fst o = NOT_LEADER_OR_FOLLOWER \/ fst o = REQUEST_TIMED_OUT)).
Proof. exact produce_safe. Qed.
Print Assumptions C19_success_implies_lease.

(* (c) sharpened: if no Acquire for that partition is in flight on this broker (the normal
   situation: Acquire calls complete within their request), a partition owned by another
   broker is answered exactly NOT_LEADER_OR_FOLLOWER and the storage path is not entered *)
Theorem C19_foreign_owner_not_leader : forall cfg env evs b b' req,
  c_guard cfg = true -> pe_leasing env = true -> pe_etcd_avail env = true ->
  let s := run cfg evs in
  forall t p i j out o,
    nth_error req i = Some t -> nth_error (t_parts t) j = Some p ->
    nth_error (snd (produce cfg env s b req)) i = Some out -> nth_error out j = Some o ->
    let rid := partition_rid (t_topic t) (p_part p) in
    t_allowed t = true -> b' <> b -> owns s b' rid = true -> no_flight s b rid ->
    o = (NOT_LEADER_OR_FOLLOWER, false).
Proof. exact produce_foreign_exact. Qed.
Print Assumptions C19_foreign_owner_not_leader.

(* the decision rule of the per-partition check: every non-success lease result is mapped
   to NOT_LEADER_OR_FOLLOWER (ErrNotOwner, ErrShuttingDown) or REQUEST_TIMED_OUT (anything
   else) and the storage path is not entered *)
Theorem C19_lease_error_code : forall env errs topic p a,
  pe_etcd_avail env = true ->
  alookup (partition_rid topic (p_part p)) errs = Some a ->
  part_outcome env errs topic p =
    (match a with ANotOwner | AShutdown => NOT_LEADER_OR_FOLLOWER | _ => REQUEST_TIMED_OUT end, false).
Proof. exact part_outcome_lease_error. Qed.
Print Assumptions C19_lease_error_code.

(* an Acquire that reports success leaves the broker owning the resource; the state stays
   inside the C18 invariant; nobody loses ownership through another broker's Acquire *)
Theorem C19_acquire_ok_owns : forall cfg s b r,
  let '(s', a) := acquire cfg s b r in
  (c_guard cfg = true -> inv cfg s -> inv cfg s') /\ owned_mono s s' /\ (a = AOk -> owns s' b r = true).
Proof. exact acquire_spec. Qed.
Print Assumptions C19_acquire_ok_owns.

(* non-vacuity: broker 1 owns orders/0, broker 2 owns orders/1, events/0 is free; one request
   names all three (orders/0 twice, one undecodable batch): codes 0,6,0 / -1 and the storage
   path is entered exactly for the partitions whose lease broker 1 holds afterwards *)
Definition b1 : bytes := [49].
Definition b2 : bytes := [50].
Definition orders : bytes := [111;114;100;101;114;115].
Definition events : bytes := [101;118;101;110;116;115].
Definition acq (b r : bytes) : list event := [AcqBegin b r; AcqTxn b r; ReacqTxn b r; AcqCommitLocal b r].
Example C19_nonvacuous :
  let cfg := mkConfig [47; 112] true in
  let env := mkPEnv true true true (-1) in
  let s := run cfg (acq b1 (partition_rid orders 0) ++ acq b2 (partition_rid orders 1)) in
  let req := [mkTItem orders true [mkPItem 0 0; mkPItem 1 0; mkPItem 0 0]; mkTItem events true [mkPItem 0 (-1)]] in
  snd (produce cfg env s b1 req) = [[(0, true); (6, false); (0, true)]; [(-1, true)]] /\
  owns (fst (produce cfg env s b1 req)) b1 (partition_rid events 0) = true /\
  owns (fst (produce cfg env s b1 req)) b1 (partition_rid orders 1) = false /\
  owns (fst (produce cfg env s b1 req)) b2 (partition_rid orders 1) = true.
Proof. vm_compute. repeat split. Qed.
