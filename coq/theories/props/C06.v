(* C06 -- Broker restart after any crash point loses no acknowledged record.
   Over model/Storage.v (fixes applied, see C01.v). ECrash may occur between any two
   events (between the segment put, the index put, the in-memory commit, the store
   update and the response); ERestart is getPartitionLog's NextOffset + RestoreFromS3 +
   offset sync (the sync may fail), ERestartFault any transient S3/store error during
   it. Leftover objects of interrupted uploads are ordinary S3 contents of the model. *)
From KS Require Import lib.Base model.Storage proofs.StorageProofs.
Open Scope Z_scope.

(* (1) every batch acknowledged before the crash is, in any later live state, in an S3
       segment with an index (the objects RestoreFromS3 registers), and its offsets lie
       below the next offset the restarted log will assign *)
Theorem C06_restore_complete : forall c evs1 evs2 s1 s,
  run (init c) evs1 = Some s1 -> run s1 evs2 = Some s -> s_live s = true ->
  forall b, In b (s_acked s1) -> durable s b /\ b_last b < s_next s.
Proof. exact restart_complete. Qed.
Print Assumptions C06_restore_complete.

(* (2) no reuse: in every live state the next offset is past every acknowledged offset
       and not below any high watermark ever published (offsets a consumer may have seen) *)
Theorem C06_no_reuse : forall c evs s,
  run (init c) evs = Some s -> s_live s = true ->
  (forall b, In b (s_acked s) -> b_last b < s_next s) /\
  (forall v, In v (s_pubs s) -> v <= s_next s) /\ s_store s <= s_next s.
Proof. exact no_reuse. Qed.
Print Assumptions C06_no_reuse.

(* ... and a new append gets exactly that next offset as its base *)
Theorem C06_append_base : forall c evs s t raw s' lod cnt,
  run (init c) evs = Some s -> step s (EAppend t raw) = Some s' -> parse_hdr raw = Some (lod, cnt) ->
  log s' = log s ++ [mkBatch (s_next s) lod cnt raw] /\ s_next s' = s_next s + lod + 1 /\ 0 <= lod.
Proof. exact append_extends. Qed.
Print Assumptions C06_append_base.

(* (2b) offsets SHOWN to a consumer. In flushOnAck mode handleFetch serves only offsets below
       the metadata store's next_offset read at fetch time ([fetch_limit]; the harness checks
       the real handleFetch against this: every record batch a Fetch returns -- also while a
       produce is between AppendBatch and the end of its flush -- must already be in an S3
       segment with index). Everything below the fetch limit of ANY earlier state was in S3
       then, and in every later live state (after any crashes and restarts) lies below the
       next offset to be assigned: a shown offset is never given to another record. *)
Theorem C06_served_never_reassigned : forall c evs1 evs2 s1 s,
  run (init c) evs1 = Some s1 -> run s1 evs2 = Some s -> s_live s = true ->
  fetch_limit s1 <= s3_end s1 /\ fetch_limit s1 <= s_next s.
Proof. exact served_never_reassigned. Qed.
Print Assumptions C06_served_never_reassigned.

(* (3) acknowledged data is never hidden or overwritten later on, whatever leftovers exist *)
Theorem C06_acked_stays : forall c evs1 evs2 s1 s,
  run (init c) evs1 = Some s1 -> run s1 evs2 = Some s ->
  forall b, In b (s_acked s1) -> durable s b.
Proof. exact acked_survives. Qed.
Print Assumptions C06_acked_stays.

(* (4) leftover objects of interrupted uploads never block the restart: after any history,
       a getPartitionLog that meets no transient fault succeeds (an orphan .kfs without
       .index only ever sits at the write frontier, never below the stored next_offset),
       and by (1) the restarted log then holds every acknowledged batch. *)
Theorem C06_orphans_harmless : forall c evs s ok,
  run (init c) evs = Some s -> s_live s = false ->
  exists s', step s (ERestart ok) = Some s' /\ s_live s' = true.
Proof. exact restart_never_blocked. Qed.
Print Assumptions C06_orphans_harmless.

(* non-vacuity: crash between segment put and index put of the second flush (orphan
   .kfs at base 1), lost store update, restart (orphan skipped, offsets resynced),
   new append reuses base 1 and overwrites the orphan; the acked batch stays. *)
Example C06_nonvacuous :
  let r := fun m => hdr61 49 0 1 ++ [m] in
  let evs := [EAppend 0%nat (r 1); EFlushBegin 0%nat; EUpSeg 0%nat true; EUpIdx 0%nat true; ECommit 0%nat;
              ECallback 0%nat false; ERespond 0%nat;
              EAppend 0%nat (r 2); EFlushBegin 0%nat; EUpSeg 0%nat true; ECrash; ERestartFault; ERestart true;
              EAppend 1%nat (r 3); EFlushBegin 1%nat; EUpSeg 1%nat true; EUpIdx 1%nat true; ECommit 1%nat] in
  match run (init (mkCfg 0 0 0 1)) (firstn 13 evs), run (init (mkCfg 0 0 0 1)) evs with
  | Some s1, Some s => map b_base (s_acked s1) = [0] /\ s_store s1 = 1 /\ s_next s1 = 1 /\
                       map fst (s_seg s1) = [0; 1] /\ map fst (s_idx s1) = [0] /\
                       forallb (durableb s) (s_acked s) = true /\ s_clast s = Some 1 /\
                       map (fun kv => map b_raw (snd kv)) (s_seg s) = [[r 1]; [r 3]]
  | _, _ => False
  end.
Proof. vm_compute. repeat split. Qed.
