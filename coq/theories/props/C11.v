(* C11 — Every advertised API version is served with a decodable response.
   Only statements closed by [exact]; proofs (vm_compute over the finite tables + lifting)
   live in proofs/ApiVersionsProofs.v.  The tables in gen/ApiTables.v are REGENERATED from
   the code (go/ast) and from kmsg (by running it) on every run, so these theorems are
   re-proved against what the code advertises, dispatches and guards now.
   Bound: versions 0..guard_window (= 40) — version guards are evaluated on that window;
   every advertised and every kmsg-known version is shown to lie inside it.
   "Decodable" itself is kmsg's codec, an oracle: it is established by the harness
   (every advertised pair x generated bodies through the real handler, reply decoded by
   kmsg at the same version), hence this property is labelled partial. *)
From KS Require Import lib.Base lib.Wire gen.ApiTables model.ApiVersions proofs.ApiVersionsProofs.
Open Scope Z_scope.

(* (1) every (key, v) the broker advertises (min <= v <= max, v >= 0): handler.Handle has a
       dispatch case for the key, no version guard rejects v, kmsg knows the version, and
       the reply is encoded at v with the Kafka header shape for (key, v). *)
Theorem C11_advertised_served : forall k mn mx v,
  In (k, mn, mx) broker_advertised -> mn <= v <= mx -> 0 <= v ->
  dispatched k = true /\ rejected k v = false /\ v <= guard_window /\
  kmsg_knows k = true /\ v <= kmsg_max k /\
  broker_reply k v = Some (v, kafka_header_flexible k v).
Proof. exact advertised_served. Qed.
Print Assumptions C11_advertised_served.

(* (2) every (key, v) kmsg knows, advertised or not: the reply — the handler's, or
       buildErrorResponse's when there is no dispatch case or a guard rejects v — is
       encoded at v with the header shape of (key, v). *)
Theorem C11_every_known_version_replied : forall k mx fr fp v,
  In (k, mx, fr, fp) kmsg_requests -> 0 <= v <= mx ->
  v <= guard_window /\ broker_reply k v = Some (v, kafka_header_flexible k v).
Proof. exact known_replied. Qed.
Print Assumptions C11_every_known_version_replied.

(* (2') the one place where the reply version differs from the request version: an
       ApiVersions request above the supported maximum is answered at version 0 with the
       v0 header (UNSUPPORTED_VERSION), which is what KIP-511 prescribes and what a
       standard client decodes at version 0. *)
Theorem C11_apiversions_downgrade : forall v,
  fst apiversions_downgrade < v <= guard_window -> broker_reply 18 v = Some (0, false).
Proof. exact apiversions_downgraded. Qed.
Print Assumptions C11_apiversions_downgrade.

(* (3) proxy: every (key, v) the proxy advertises is advertised (hence served, by (1)) by
       the broker it forwards to, can be answered by the proxy itself while it is not
       ready (ApiVersions locally, the rest by buildNotReadyResponse), and is encoded with
       the Kafka header shape. *)
Theorem C11_proxy : forall k mn mx v,
  In (k, mn, mx) proxy_advertised -> mn <= v <= mx -> 0 <= v ->
  In (k, v) (advertised_pairs broker_advertised) /\
  (k = 18 \/ mem k proxy_notready = true) /\
  encode_header_flexible k v = kafka_header_flexible k v.
Proof. exact proxy_advertised_served. Qed.
Print Assumptions C11_proxy.

(* (4) strings in non-flexible responses: the int16 length prefix reads back as the length
       exactly below 2^15; a longer string (an error message built from a long topic name,
       say) reads back with a NEGATIVE length and mis-frames the rest of the reply.  Hence
       the obligation [resp_strings_fit] on every response the handler builds; the harness
       measures the longest response string per API/version on boundary-size requests and
       the correspondence check evaluates the obligation on those measurements. *)
Theorem C11_string_len_prefix : forall n r, 0 <= n < 65536 ->
  (n < 32768 -> get_i16 (put_i16 n ++ r) = Some (n, r)) /\
  (32768 <= n -> get_i16 (put_i16 n ++ r) = Some (n - 65536, r) /\ n - 65536 < 0).
Proof. exact string_len_prefix. Qed.
Print Assumptions C11_string_len_prefix.

Theorem C11_resp_strings_fit : forall flexible maxlen, 0 <= maxlen < 65536 ->
  resp_strings_fit flexible maxlen = true ->
  flexible = true \/ forall n r, 0 <= n <= maxlen -> get_i16 (put_i16 n ++ r) = Some (n, r).
Proof. exact resp_strings_fit_spec. Qed.
Print Assumptions C11_resp_strings_fit.

(* non-vacuity: the advertised sets are not empty, contain flexible and non-flexible
   versions, and the special cases are exercised *)
Example C11_nonvacuous :
  (20 <=? Z.of_nat (length (advertised_pairs broker_advertised))) = true /\
  existsb (fun p => kafka_header_flexible (fst p) (snd p)) (advertised_pairs broker_advertised) = true /\
  existsb (fun p => negb (kafka_header_flexible (fst p) (snd p))) (advertised_pairs broker_advertised) = true /\
  resp_flexible 18 3 = true /\ kafka_header_flexible 18 3 = false /\
  existsb (fun p => negb (dispatched (fst p))) known_pairs = true /\
  (10 <=? Z.of_nat (length (advertised_pairs proxy_advertised))) = true.
Proof. vm_compute. repeat split. Qed.
