(* C33 — Processors deliver every record at least once before checkpointing.
   Statements only; proofs live in proofs/ProcessorProofs.v. The model
   (model/Processor.v) is the Run loop of the iceberg, sql and skeleton processors
   with the fixes fixes/C33-*.patch applied; [kind] ranges over the no-op and the
   persistent (etcd-like) checkpoint store, [decode] over every decoder, [keep] over
   every deterministic drop predicate (LFS mode "skip", lenient schema validation:
   records the configuration excludes on purpose), [evs] over every sequence of
   polling cycles with any listing / claim / load / decode / LFS / sink / checkpoint
   failures and lease losses. *)
From Coq Require Import Sorted.
From KS Require Import lib.Base model.Processor proofs.ProcessorProofs.
Open Scope Z_scope.

(* (1) A partition's checkpoint never is at or beyond a record that has not been
       handed to a successful sink write. *)
Theorem C33_checkpoint_safe :
  forall (kind : store_kind) (decode : Z -> list rec) (keep : rec -> bool) (segs : list seg),
  universe_ok decode segs ->
  forall evs, Forall (event_ok segs) evs ->
  let st := run kind decode keep init evs in
  forall p c, lookup p (st_commit st) = Some c ->
  forall sg r, In sg segs -> s_part sg = p -> In r (decode (s_id sg)) -> keep r = true ->
               r_off r <= c -> In (p, r_off r) (st_written st).
Proof. exact checkpoint_safe. Qed.
Print Assumptions C33_checkpoint_safe.

(* (2) After any fault schedule, one fault-free cycle that lists the completed
       segments leaves a partition leased and every record of every completed segment
       of that partition written to the sink — including offset 0 and including the
       no-op checkpoint store. *)
Theorem C33_eventually_all :
  forall (kind : store_kind) (decode : Z -> list rec) (keep : rec -> bool) (segs : list seg),
  universe_ok decode segs ->
  forall evs, Forall (event_ok segs) evs -> segs <> [] ->
  let st' := step kind decode keep (run kind decode keep init evs) (clean_cycle segs) in
  exists p, st_lease st' = Some p /\
    forall sg r, In sg segs -> s_part sg = p -> In r (decode (s_id sg)) -> keep r = true ->
                 In (p, r_off r) (st_written st').
Proof. exact eventually_all. Qed.
Print Assumptions C33_eventually_all.

(* non-vacuity: a universe with two partitions, the first record at offset 0; a
   schedule with a decode failure on the first segment (the pass stops: nothing of
   the second segment is committed), a sink failure, a checkpoint failure after the
   offset was stored, a lease loss; hypotheses hold, the checkpoint moves, and the
   final clean cycle delivers offsets 0..4 of partition 0. *)
Definition ex_decode (id : Z) : list rec :=
  if id =? 0 then [mkRec 0 0 false; mkRec 0 1 true]
  else if id =? 1 then [mkRec 0 2 false; mkRec 0 4 false]
  else if id =? 2 then [mkRec 1 7 false] else [].
Definition ex_segs : list seg := [mkSeg 0 0; mkSeg 1 2; mkSeg 0 1].
Definition ex_evs : list event :=
  [ECycle (Some [(mkSeg 0 0, true, FDecode); (mkSeg 1 2, true, FNone); (mkSeg 0 1, true, FNone)]);
   ECycle None;
   ECycle (Some [(mkSeg 0 0, true, FSink); (mkSeg 1 2, true, FNone)]);
   ECycle (Some [(mkSeg 0 0, true, FCommitPost); (mkSeg 1 2, true, FNone); (mkSeg 0 1, true, FLoad)]);
   ELeaseLost].

Example C33_nonvacuous :
  let st := run Persistent ex_decode (fun _ => true) init ex_evs in
  let st' := step Persistent ex_decode (fun _ => true) st (clean_cycle ex_segs) in
  st_commit (run Persistent ex_decode (fun _ => true) init (firstn 3 ex_evs)) = [] /\
  st_written (run Persistent ex_decode (fun _ => true) init (firstn 3 ex_evs)) = [] /\
  st_commit st = [(0, 1)] /\ st_written st = [(0, 0); (0, 1)] /\ st_lease st = None /\
  st_lease st' = Some 0 /\ st_commit st' = [(0, 4)] /\
  st_written st' = [(0, 0); (0, 1); (0, 2); (0, 4)] /\
  st_written (step Noop ex_decode (fun _ => true) init (clean_cycle ex_segs)) = [(0, 0); (0, 1); (0, 2); (0, 4)].
Proof. vm_compute. repeat split. Qed.

Example C33_nonvacuous_hyps :
  universe_ok ex_decode ex_segs /\ Forall (event_ok ex_segs) ex_evs.
Proof.
  split; [split|].
  - intros sg r Hs Hr. cbn in Hs. destruct Hs as [<-|[<-|[<-|[]]]]; cbn in Hr;
      repeat (destruct Hr as [<-|Hr]; [cbn; split; [reflexivity|lia]|]); contradiction.
  - intros p. unfold ex_segs, part_is. cbn [filter s_part].
    destruct (0 =? p) eqn:E0; destruct (1 =? p) eqn:E1; cbn;
      repeat (constructor; [|repeat (constructor; try lia)]); try constructor.
  - repeat constructor; intros p; unfold ex_segs, part_is, is_prefix; cbn [map listed_seg fst filter s_part];
      destruct (0 =? p) eqn:E0; destruct (1 =? p) eqn:E1; cbn; eexists; reflexivity.
Qed.
