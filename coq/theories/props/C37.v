(* C37 — The SQL proxy forwards only queries whose topics are all allowed.
   Only statements closed by [exact]; proofs live in proofs/SqlProxyProofs.v and
   proofs/SqlProxyStringProofs.v (the interplay laws of Go's strings.Fields /
   TrimSpace / TrimSuffix / Join and ASCII lower-casing, proved on the byte-level
   models). The only premise left is the one fact used about acl.go (C23):
   matchPatterns with no patterns matches nothing. *)
From KS Require Import lib.Base model.SqlParse model.SqlProxy proofs.SqlParseCaseProofs
  proofs.SqlProxyProofs proofs.SqlProxyStringProofs.
Open Scope Z_scope.

(* Every text the proxy forwards — after any sequence of query messages on the
   connection, with any ACL, cache size, TTL-expiry pattern, any pattern matcher
   that matches nothing against an empty list, and whatever texts the parser
   accepts — makes the upstream read only topics the ACL allows (and list topics
   only if the ACL allows that), the topics being those of exactly the forwarded
   text. Holds for cache hits too. *)
Theorem C37_forward_sound : forall mp parse_ok,
  (forall t, mp [] t = false) ->
  forall a ttl maxn ms x,
  In (Forwarded x) (run mp parse_ok a (new_cache ttl maxn) ms) -> upstream_ok mp parse_ok a x.
Proof.
  intros mp parse_ok Hnil.
  exact (forward_sound mp parse_ok Hnil fields_strip fields_lower fields_join session_tokens).
Qed.
Print Assumptions C37_forward_sound.

(* equal cache keys => the parser sees equal token lists => equal topics *)
Theorem C37_cache_sound : forall m1 m2, cache_key m1 = cache_key m2 ->
  tokens m1 = tokens m2 /\ token_topics (tokens m1) = token_topics (tokens m2).
Proof.
  intros m1 m2 H.
  pose proof (cache_key_tokens fields_strip fields_lower fields_join m1 m2 H) as E. split; [exact E|now rewrite E].
Qed.
Print Assumptions C37_cache_sound.

(* the string laws themselves, for every byte string *)
Theorem C37_string_laws :
  (forall s, fields (trim_semi (trim_space s)) = drop_semi (fields s)) /\
  (forall s, fields (ascii_lower s) = map ascii_lower (fields s)) /\
  (forall s, fields (join32 (fields s)) = fields s) /\
  (forall s, fields (trim_space s) = fields s) /\
  (forall s, session s = true ->
     match tokens s with [] => True | f :: _ => f = kw_set \/ f = kw_reset end).
Proof. exact (conj fields_strip (conj fields_lower (conj fields_join (conj fields_trim_space session_tokens)))). Qed.
Print Assumptions C37_string_laws.

(* a query is never authorized on a different or truncated text: what is forwarded
   is the client's text, and on a cache miss authorizeQuery ran on that same text *)
Theorem C37_authorized_text_is_forwarded_text : forall mp parse_ok a c m e c' x,
  step mp parse_ok a c m e = (c', Forwarded x) ->
  x = m /\ (snd (c_get c (cache_key m) e) = None -> authorize mp parse_ok a m = Allow).
Proof. exact miss_authorizes_forwarded_text. Qed.
Print Assumptions C37_authorized_text_is_forwarded_text.

(* non-vacuity, with exact-match patterns and a parser that accepts everything:
   an allowed select is forwarded (also from the cache, in another spelling), a
   forbidden one and the long join witness of the design round are refused — while
   the unfixed branch (authorization on trimQuery(m)) forwards that witness, whose
   upstream topics include the forbidden topic *)
Example C37_nonvacuous :
  let mp := fun (ps : list bytes) (t : bytes) => existsb (bytes_eqb t) ps in
  let pok := fun _ : bytes => true in
  let allowed := [97;108;108;111;119;101;100] in
  let secret := [115;101;99;114;101;116] in
  let a := mkAcl [allowed] [] in
  let q1 := [115;101;108;101;99;116;32;42;32;102;114;111;109;32] ++ allowed in
  let q1' := [83;69;76;69;67;84;32;32;42;9;70;82;79;77;32] ++ allowed ++ [59] in
  let q2 := [115;101;108;101;99;116;32;42;32;102;114;111;109;32] ++ secret in
  let w := q1 ++ repeat 32 490 ++ [32;106;111;105;110;32] ++ secret ++ [32;115;32;111;110;32;97;46;95;107;101;121;32;61;32;115;46;95;107;101;121] in
  map (fun o => match o with Forwarded _ => true | Refused _ => false end)
      (run mp pok a (new_cache 60 8) [(q1, false); (q1, false); (q2, false); (w, false)]) = [true; true; false; false] /\
  cache_key q1 <> cache_key q1' /\ cache_key q1 = cache_key (32 :: 9 :: q1) /\
  fst (upstream_topics pok w) = [allowed; secret] /\
  step_unfixed_nocache mp pok a w = Forwarded w.
Proof. vm_compute. repeat split; discriminate. Qed.
