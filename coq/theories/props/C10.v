(* C10 — Kafka request decoding never crashes and round-trips.
   Only statements closed by [exact]; proofs live in proofs/ProtoHeaderProofs.v.
   model/ProtoHeader.v models ReadFrame, the byteReader, ParseRequestHeader,
   ParseRequest and handleConnection's read loop; [fixed = true] is the code with
   fixes/C10-tagged-field-size.patch.  [flex] (kmsg: is (key, version) flexible) is
   universally quantified; the kmsg body decoder is an arbitrary total function. *)
From KS Require Import lib.Base lib.Wire model.ProtoHeader proofs.ProtoHeaderProofs.
Open Scope Z_scope.

(* (1) for every byte string, header parsing and request parsing return a request or an
       error — never a panic (slice bounds / negative make), and the model's fuel is
       never exhausted. *)
Theorem C10_no_panic : forall (B : Type) known (body_read : Z -> Z -> bytes -> option B) flex bytes,
  match parse_request B known body_read flex true bytes with
  | Panic _ => False | OutOfFuel => False | _ => True end.
Proof. exact parse_request_safe. Qed.
Print Assumptions C10_no_panic.

Theorem C10_header_no_panic : forall flex bytes,
  match parse_header flex true bytes with Panic _ => False | OutOfFuel => False | _ => True end.
Proof. exact parse_header_safe. Qed.
Print Assumptions C10_header_no_panic.

(* ... and so is the whole connection: for every byte stream a client sends, every frame
       handled by the read loop of handleConnection ends in a request or an error. *)
Theorem C10_connection_no_panic : forall (B : Type) known (body_read : Z -> Z -> bytes -> option B) flex fuel s,
  (length s < fuel)%nat ->
  Forall safe (fst (fst (serve B known body_read flex true fuel s))) /\
  safe (snd (fst (serve B known body_read flex true fuel s))).
Proof. exact serve_safe. Qed.
Print Assumptions C10_connection_no_panic.

(* ... the error path of the loop: a well-framed request that does not parse (header error,
       unsupported API key, body rejected by the decoder) is answered by closing the
       connection — outcome [Err e], end state E_CLOSED, the rest of the stream unread. *)
Theorem C10_connection_error_path : forall (B : Type) known (body_read : Z -> Z -> bytes -> option B) flex fixed fuel p rest e,
  zlen p < 2147483648 ->
  parse_request B known body_read flex fixed p = Err e ->
  serve B known body_read flex fixed (S fuel) (frame p ++ rest) = ([Err e], Err E_CLOSED, rest).
Proof. exact serve_error_path. Qed.
Print Assumptions C10_connection_error_path.

(* (2) header round trip: non-flexible and flexible headers, with arbitrary tagged fields
       (any tag ids, any field bytes) in the flexible case, followed by any body bytes. *)
Theorem C10_header_roundtrip : forall flex fixed h ts body,
  header_ok h -> tags_ok ts ->
  parse_header flex fixed (encode_header (flex (h_key h) (h_version h)) h ts ++ body) = Ok (h, body).
Proof. exact header_roundtrip. Qed.
Print Assumptions C10_header_roundtrip.

(* ... and the request: whatever the kmsg decoder returns for the body is what
       ParseRequest returns, with the same key, version, correlation id and client id. *)
Theorem C10_request_roundtrip : forall (B : Type) known (body_read : Z -> Z -> bytes -> option B) flex fixed h ts body m,
  header_ok h -> tags_ok ts -> known (h_key h) = true ->
  body_read (h_key h) (h_version h) body = Some m ->
  parse_request B known body_read flex fixed (encode_header (flex (h_key h) (h_version h)) h ts ++ body) = Ok (h, m).
Proof. exact request_roundtrip. Qed.
Print Assumptions C10_request_roundtrip.

(* (3) framing: a framed payload followed by anything reads back as (payload, rest);
       a size with the top bit set (negative int32) is rejected. *)
Theorem C10_frame : forall p rest, zlen p < 2147483648 -> read_frame (frame p ++ rest) = Ok (p, rest).
Proof. exact frame_roundtrip. Qed.
Print Assumptions C10_frame.

Theorem C10_frame_negative : forall b0 b1 b2 b3 r,
  byte_ok b0 -> byte_ok b1 -> byte_ok b2 -> byte_ok b3 -> 128 <= b0 ->
  read_frame (b0 :: b1 :: b2 :: b3 :: r) = Err E_FRAMELEN.
Proof. exact frame_negative_rejected. Qed.
Print Assumptions C10_frame_negative.

(* The code before the patch: an ApiVersions v3 header whose tagged-field size uvarint is
   2^64-1 panics (int(size) = -1 passes read's length check). *)
Theorem C10_unpatched_refuted : parse_header witness_flex false witness = Panic 1.
Proof. exact unpatched_panics. Qed.
Print Assumptions C10_unpatched_refuted.

Example C10_nonvacuous :
  let h := mkHeader 18 3 7 (Some [97; 98]) in
  let ts := [(0, [1; 2; 3]); (300, [])] in
  header_ok h /\ tags_ok ts /\
  encode_header true h ts ++ [9; 9] = [0;18; 0;3; 0;0;0;7; 0;2;97;98; 2; 0;3;1;2;3; 172;2;0; 9;9] /\
  parse_header witness_flex true (encode_header true h ts ++ [9; 9]) = Ok (h, [9; 9]) /\
  parse_header witness_flex true witness = Err E_SHORT /\
  read_frame (frame [1; 2; 3] ++ [4]) = Ok ([1; 2; 3], [4]).
Proof.
  cbv zeta. split; [unfold header_ok; cbn; lia|]. split.
  - split; [repeat constructor; cbn; lia|cbn; lia].
  - repeat split; vm_compute; reflexivity.
Qed.
