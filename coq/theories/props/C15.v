(* C15 — Group state survives coordinator failover.
   Only statements closed by [exact]; proofs live in proofs/CoordinatorProofs.v.
   Both store variants are covered: [e_keep E] = false is InMemoryStore.cloneConsumerGroup
   as it is today (drops SessionTimeoutMs / RebalanceTimeoutMs; that defect is C17's),
   true is the etcd codec / the fixed clone. *)
From KS Require Import lib.Base model.Coordinator model.CoordinatorFaults proofs.CoordinatorBase proofs.CoordinatorProofs proofs.CoordinatorTrace proofs.CoordinatorFaults.
Open Scope Z_scope.

(* (1) for every reachable state (any history, failover at any point between requests):
       the coordinator that loads the group from the store sees the same generation,
       state, leader, member set with the same subscriptions, and the same assignment of
       every member; committed offsets are untouched *)
Theorem C15_view_preserved : forall E h n0 n1 g,
  cur (run E h) n0 = Some g ->
  exists g', cur (failover (run E h)) n1 = Some g' /\ same_view g g' /\
             s_off (failover (run E h)) = s_off (run E h).
Proof. intros E h. intros. eapply c15_view_preserved; [apply run_inv|eassumption]. Qed.
Print Assumptions C15_view_preserved.

(* what is in the store always is the persisted form of the group in memory (persist at
   the end of every mutating operation), for every reachable state *)
Theorem C15_store_is_persisted_memory : forall E h g,
  s_mem (run E h) = Some g -> s_store (run E h) = Some (pview E g) /\ wf E g.
Proof.
  intros E h g Hm. pose proof (run_inv E h) as Hinv. unfold inv in Hinv.
  destruct (s_store (run E h)) as [pg|]; [|congruence].
  destruct Hinv as [g0 [Hw [Hp [H|H]]]]; [congruence|]. rewrite Hm in H. inversion H; subst. auto.
Qed.
Print Assumptions C15_store_is_persisted_memory.

(* (2) members of a Stable generation keep working against the new coordinator without
       rejoining: sync returns the same assignment, heartbeat and commit are accepted *)
Theorem C15_members_keep_working : forall E h now g mid,
  cur (run E h) now = Some g -> g_phase g = PStable -> In mid (keys g) ->
  let s1 := failover (run E h) in
  (exists s' a, step E s1 (Sync mid (g_gen g) now) = (s', RSync NONE a) /\ a = assignment_of g mid) /\
  (exists s', step E s1 (Heartbeat mid (g_gen g) now) = (s', RErr NONE)) /\
  (forall t p off, exists s', step E s1 (Commit mid (g_gen g) t p off now) = (s', RErr NONE) /\
                              off_get (t, p) (s_off s') = off).
Proof. intros E h. intros. eapply c15_members_keep_working; [apply run_inv|eassumption..]. Qed.
Print Assumptions C15_members_keep_working.

(* (3) liveness data survive: the coordinator that takes over sees for every member the same
       lastHeartbeat (persisted at every accepted heartbeat / join), the same session
       timeout when the store keeps timeouts (etcd, InMemoryStore after the C17 fix), and
       for a Stable group no rebalance deadline; hence the cleanup criterion [survives]
       gives the same verdict for every tick time before and after the failover: together
       with C43_live_kept (which holds in every reachable state, so also after failovers)
       a member that keeps heartbeating within its session timeout is not evicted by the
       new coordinator's ticks, and by (2) its requests keep being accepted. *)
Theorem C15_liveness_preserved : forall E h n0 n1 g k m,
  cur (run E h) n0 = Some g -> alookup k (g_members g) = Some m ->
  exists g' m', cur (failover (run E h)) n1 = Some g' /\ alookup k (g_members g') = Some m' /\
    m_hb m' = m_hb m /\ (e_keep E = true -> m_session m' = m_session m) /\
    (g_phase g = PStable -> g_deadline g' = None) /\
    (e_keep E = true -> g_phase g = PStable -> g_deadline g = None ->
     forall now, survives now g' m' = survives now g m).
Proof. intros E h n0 n1 g k m. apply c15_liveness_preserved. apply run_inv. Qed.
Print Assumptions C15_liveness_preserved.

(* (1f) with transient store failures in the history: the view is preserved by a failover
       exactly under the hypothesis the property itself needs -- the last whole-group write
       succeeded ([synced]: the store holds the group that is in memory). [synced] holds
       initially and is kept by every operation whose write does not fail; after a failed
       write the store holds an older image and no coordinator can report the newer one. *)
Theorem C15_view_preserved_under_store_faults : forall E h n0 n1 g,
  synced E (runf E h) -> cur (runf E h) n0 = Some g ->
  exists g', cur (failover (runf E h)) n1 = Some g' /\ same_view g g' /\
             s_off (failover (runf E h)) = s_off (runf E h).
Proof.
  intros E h n0 n1 g Hy. apply (c15_view_preserved E). apply inv2_synced_inv; [apply runf_inv2|exact Hy].
Qed.
Print Assumptions C15_view_preserved_under_store_faults.

Theorem C15_synced_kept_by_successful_writes : forall E h o f,
  synced E (runf E h) -> f_persist f = false -> synced E (fst (stepf E (runf E h) o f)).
Proof. intros E h o f. apply synced_after_step. apply runf_inv2. Qed.
Print Assumptions C15_synced_kept_by_successful_writes.

(* non-vacuity: a two-member Stable group with assignments; failover; same replies *)
Example C15_nonvacuous :
  let E := mkEnv [(0, [0; 1; 2])] false in
  let h := [Join (-1) 5 10000 0 [0] 0; Sync 5 1 0; Join (-1) 3 10000 0 [0] 1; Join 5 (-100) 10000 0 [0] 2; Sync 5 2 3] in
  snd (step E (run E h) (Sync 5 2 4)) = RSync NONE [(0, [1])] /\
  snd (step E (failover (run E h)) (Sync 5 2 4)) = RSync NONE [(0, [1])] /\
  snd (step E (failover (run E h)) (Sync 3 2 4)) = RSync NONE [(0, [0; 2])] /\
  snd (step E (failover (run E h)) (Heartbeat 3 2 4)) = RErr NONE /\
  option_map g_phase (cur (failover (run E h)) 4) = Some PStable.
Proof. vm_compute. repeat split. Qed.
