From KS Require Import lib.Base model.SqlParse.
Open Scope Z_scope.
Example C35_nonvacuous : True. Proof. exact I. Qed.
