(* C35 — The SQL parser never crashes and ignores keyword case.
   Only statements closed by [exact]; proofs live in proofs/SqlParseProofs.v. *)
From KS Require Import lib.Base model.SqlParse proofs.SqlParseProofs proofs.SqlParseCaseProofs proofs.SqlParseKwProofs.
Open Scope Z_scope.

(* the lowering the fixed parser computes its offsets on keeps the byte length,
   for every byte string (valid UTF-8 or not) *)
Theorem C35_ascii_lower_preserves_length : forall s, length (ascii_lower s) = length s.
Proof. exact ascii_lower_length. Qed.
Print Assumptions C35_ascii_lower_preserves_length.

(* every slice expression s[a:b] and every index expression fields[i] of the parser
   is in range, and the explain recursion terminates, for ALL query texts and all
   behaviours of the regular-expression oracles, as soon as the lowering function
   used for the offsets preserves the length *)
Theorem C35_slices_safe : forall lower_fn ulower ts_err jexpr_ok,
  (forall s, length (lower_fn s) = length s) ->
  forall raw, parse_with lower_fn ulower ts_err jexpr_ok raw <> Panic /\
              parse_with lower_fn ulower ts_err jexpr_ok raw <> NoFuel.
Proof. exact parse_with_safe. Qed.
Print Assumptions C35_slices_safe.

(* the parser as fixed (offsets on lowerASCII(text)): a query or an error, never a crash *)
Theorem C35_never_crashes : forall ulower ts_err jexpr_ok raw,
  parse ulower ts_err jexpr_ok raw <> Panic /\ parse ulower ts_err jexpr_ok raw <> NoFuel.
Proof. exact parse_never_panics. Qed.
Print Assumptions C35_never_crashes.

(* Keyword case never matters: if q' is q with the case of ASCII letters changed
   anywhere outside single-quoted literals ([kwvar]; keywords, function names and
   identifiers are outside, timestamp and JSON-path literals are data), both parse
   to the same query, error for error and field for field, the raw display strings
   (SelectColumn.Raw, join expression texts) being equal up to ASCII case.
   Oracle premises: strings.ToLower and parseJoinExpr's verdict do not depend on
   ASCII case (true of the code: ToLower folds it, parseJoinExpr uses (?i)
   expressions and lower-cased column names); parseTSFilters' verdict does not
   depend on the case of text outside quoted literals (its keywords _ts / between /
   and are matched with (?i); the literals are untouched by [kwvar]). *)
Theorem C35_keyword_case : forall ulower ts_err jexpr_ok,
  (forall a b, ascii_lower a = ascii_lower b -> ulower a = ulower b) ->
  (forall a b, ascii_lower a = ascii_lower b -> jexpr_ok a = jexpr_ok b) ->
  (forall a b, kwvar a b -> ts_err a = ts_err b) ->
  forall q q', kwvar q q' ->
  norm_res (parse ulower ts_err jexpr_ok q) = norm_res (parse ulower ts_err jexpr_ok q').
Proof. exact parse_keyword_variant. Qed.
Print Assumptions C35_keyword_case.

(* the same for every change of ASCII case (also inside literals) when the
   timestamp oracle ignores that as well — e.g. for texts without timestamp literals *)
Theorem C35_ascii_case : forall ulower ts_err jexpr_ok,
  (forall a b, ascii_lower a = ascii_lower b -> ulower a = ulower b) ->
  (forall a b, ascii_lower a = ascii_lower b -> ts_err a = ts_err b) ->
  (forall a b, ascii_lower a = ascii_lower b -> jexpr_ok a = jexpr_ok b) ->
  forall q q', ascii_lower q = ascii_lower q' ->
  norm_res (parse ulower ts_err jexpr_ok q) = norm_res (parse ulower ts_err jexpr_ok q').
Proof. exact parse_case_insensitive. Qed.
Print Assumptions C35_ascii_case.

(* [kwvar] relates a query to its re-cased form and tells literals apart:
   select a, '$.T' from t  ~  SELECT A, '$.T' FROM T   but not  ... '$.t' ... *)
Example C35_kwvar_example :
  kwvar [115;101;108;101;99;116;32;97;44;32;39;36;46;84;39;32;102;114;111;109;32;116]
        [83;69;76;69;67;84;32;65;44;32;39;36;46;84;39;32;70;82;79;77;32;84] /\
  ~ kwvar [115;101;108;101;99;116;32;97;44;32;39;36;46;84;39;32;102;114;111;109;32;116]
          [83;69;76;69;67;84;32;65;44;32;39;36;46;116;39;32;70;82;79;77;32;84].
Proof.
  split.
  - vm_compute. repeat split.
  - vm_compute. intros H. do 13 (destruct H as [_ H]). destruct H as [H _]. discriminate H.
Qed.

(* non-vacuity: the model parses a join query and an explain; and the length
   hypothesis is necessary — with a lowering that lengthens U+023A (what
   strings.ToLower does) the design-round witness
   "select ȺȺȺȺȺȺȺȺȺȺȺȺȺȺȺȺȺȺȺȺ from t order by x" panics in the model too *)
Example C35_nonvacuous :
  let id := fun s : bytes => s in
  let q1 := [83;69;76;69;67;84;32;42;32;70;82;79;77;32;111;114;100;101;114;115;32;111;32;74;79;73;78;32;112;97;121;32;112;32;79;78;32;111;46;95;107;101;121;32;61;32;112;46;95;107;101;121;32;79;82;68;69;82;32;66;89;32;95;116;115;32;68;69;83;67;59] in
  let q2 := [101;120;112;108;97;105;110;32;115;101;108;101;99;116;32;95;107;101;121;44;32;99;111;117;110;116;40;42;41;32;102;114;111;109;32;116;32;103;114;111;117;112;32;98;121;32;95;107;101;121] in
  let w := [115;101;108;101;99;116;32] ++ concat (repeat [200;186] 20) ++ [32;102;114;111;109;32;116;32;111;114;100;101;114;32;98;121;32;120] in
  (match parse ascii_lower (fun _ => false) (fun _ => true) q1 with
   | Ok (QSelect s) => s_topic s = [111;114;100;101;114;115] /\ s_jtopic s = [112;97;121] /\ s_jtype s = 1 /\
                       s_order s = [95;116;115] /\ s_desc s = true /\ s_cols s = [[42]]
   | _ => False end) /\
  (match parse ascii_lower (fun _ => false) (fun _ => true) q2 with
   | Ok (QExplain s) => s_topic s = [116] /\ s_group s = [[95;107;101;121]] /\ length (s_cols s) = 2%nat
   | _ => False end) /\
  parse_with growing_lower id (fun _ => false) (fun _ => true) w = Panic /\
  (exists q, parse ascii_lower (fun _ => false) (fun _ => true) w = Ok q).
Proof. vm_compute. repeat split. eexists. reflexivity. Qed.
