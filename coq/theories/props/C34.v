(* C34 — Segment decoders never crash on any bytes, and never ask for an allocation
   that is not bounded by the input size.
   Statements only; proofs in proofs/DecodersProofs.v.  The theorems are about the
   decoders WITH fixes/C34-bound-allocations.patch ([c_chk = true]); the unpatched
   behaviour ([*_orig], chk = false) is refuted below by concrete inputs.

   "for every byte string": [bs] ranges over all lists; the only side condition is
   [zlen bs <= 2^41] (2 TiB) because 112 * length must itself stay below Go's largest
   possible allocation 2^48 (a Go slice of that size cannot exist anyway).
   c: 112 (= sizeof(Record)) for the Iceberg and SQL decoders, 1 for the PITR scanner,
   2 for the index parsers. *)
From KS Require Import lib.Base lib.Varint lib.Outcome lib.Kafka model.Decoders proofs.DecodersProofs.
Open Scope Z_scope.

Theorem C34_iceberg_no_panic_alloc_bounded : forall bs, zlen bs <= 2 ^ 41 ->
  no_panic (decode_iceberg bs) /\ allocs_le (112 * zlen bs) (decode_iceberg bs).
Proof. exact c34_iceberg. Qed.
Print Assumptions C34_iceberg_no_panic_alloc_bounded.

Theorem C34_sql_no_panic_alloc_bounded : forall bs, zlen bs <= 2 ^ 41 ->
  no_panic (decode_sql bs) /\ allocs_le (112 * zlen bs) (decode_sql bs).
Proof. exact c34_sql. Qed.
Print Assumptions C34_sql_no_panic_alloc_bounded.

Theorem C34_skeleton_no_panic : forall bs,
  no_panic (decode_skeleton bs) /\ allocs (decode_skeleton bs) = [] /\ out (decode_skeleton bs) = Ok [].
Proof. exact c34_skeleton. Qed.
Print Assumptions C34_skeleton_no_panic.

(* the restore scanner, for every cutoff and every CRC function *)
Theorem C34_pitr_no_panic_alloc_bounded : forall crc bs cutoff, zlen bs <= 2 ^ 41 ->
  no_panic (pitr_collect crc bs cutoff) /\ allocs_le (zlen bs) (pitr_collect crc bs cutoff).
Proof. exact c34_pitr. Qed.
Print Assumptions C34_pitr_no_panic_alloc_bounded.

Theorem C34_pitr_scan_no_panic_alloc_bounded : forall n bs, zlen bs <= 2 ^ 41 ->
  no_panic (pitr_scan_records (S (length bs)) n bs) /\
  allocs_le (zlen bs) (pitr_scan_records (S (length bs)) n bs).
Proof. exact c34_scan. Qed.
Print Assumptions C34_pitr_scan_no_panic_alloc_bounded.

(* the three index parsers (bytes in 0..255) *)
Theorem C34_index_no_panic_alloc_bounded : forall bs, bytes_ok bs -> zlen bs <= 2 ^ 41 ->
  (no_panic (parse_index_storage bs) /\ allocs_le (2 * zlen bs) (parse_index_storage bs)) /\
  (no_panic (parse_index_iceberg true bs) /\ allocs_le (2 * zlen bs) (parse_index_iceberg true bs)) /\
  (no_panic (parse_index_sql true bs) /\ allocs_le (2 * zlen bs) (parse_index_sql true bs)).
Proof. exact c34_index. Qed.
Print Assumptions C34_index_no_panic_alloc_bounded.

(* the model's fuel (input length + 1) is never exhausted *)
Theorem C34_fuel_suffices : forall bs,
  out (decode_iceberg bs) <> Err EFuel /\ out (decode_sql bs) <> Err EFuel /\
  (forall crc cutoff, out (pitr_collect crc bs cutoff) <> Err EFuel).
Proof. exact fuel_suffices. Qed.
Print Assumptions C34_fuel_suffices.

(* ---------- the unpatched decoders violate the property ---------- *)
(* one batch (numRecords = count) around an arbitrary records section, in a segment *)
Definition raw_segment (count : Z) (records : bytes) : bytes :=
  let batch := be_put 8 0 ++ be_put 4 (49 + zlen records) ++ be_put 4 0 ++ [2] ++ be_put 4 0 ++
               be_put 2 0 ++ be_put 4 0 ++ be_put 8 0 ++ be_put 8 0 ++ be_put 8 0 ++ be_put 2 0 ++
               be_put 4 0 ++ be_put 4 count ++ records in
  seg_header 0 count 0 ++ batch ++ seg_footer 0 0.

(* record: len 6 | attr 0 | tsDelta 0 | offDelta 0 | key null | value null | headerCount -1 *)
Definition rec_hdr_minus1 : bytes := [12; 0; 0; 0; 1; 1; 1].
(* record whose key length is 2^30 *)
Definition rec_key_huge : bytes := [24; 0; 0; 0] ++ enc_varint (2 ^ 30) ++ [1; 0; 0; 0; 0].

Theorem C34_unpatched_refuted :
  out (decode_sql_orig (raw_segment 1 rec_hdr_minus1)) = Panic /\
  out (decode_iceberg_orig (raw_segment 1 rec_hdr_minus1)) = Panic /\
  (exists a, In a (allocs (decode_iceberg_orig (raw_segment 1 rec_key_huge))) /\ 2 ^ 30 <= a) /\
  (exists a, In a (allocs (decode_sql_orig (raw_segment (2 ^ 31 - 1) rec_hdr_minus1))) /\ 2 ^ 37 <= a) /\
  out (parse_index_iceberg false (magic_idx ++ be_put 2 1 ++ be_put 4 (-1) ++ be_put 4 1 ++ be_put 2 0)) = Panic /\
  (exists a, In a (allocs (parse_index_sql false (magic_idx ++ be_put 2 1 ++ be_put 4 (-1) ++ be_put 4 1 ++ be_put 2 0))) /\ 2 ^ 35 <= a).
Proof.
  repeat split; try (vm_compute; reflexivity).
  - exists (2 ^ 30); split; [vm_compute; repeat (first [left; reflexivity | right])|lia].
  - exists (112 * (2 ^ 31 - 1)); split; [vm_compute; repeat (first [left; reflexivity | right])|lia].
  - exists (16 * (2 ^ 32 - 1)); split; [vm_compute; repeat (first [left; reflexivity | right])|lia].
Qed.
Print Assumptions C34_unpatched_refuted.

(* non-vacuity: the patched decoders turn the same inputs into errors, and still
   decode a valid record (null key, empty value, one header) *)
Example C34_nonvacuous :
  out (decode_sql (raw_segment 1 rec_hdr_minus1)) = Err EHdrCount /\
  out (decode_iceberg (raw_segment 1 rec_key_huge)) = Err EEof /\
  out (decode_iceberg (raw_segment (2 ^ 31 - 1) rec_hdr_minus1)) = Err ERecCount /\
  out (decode_iceberg (raw_segment 1 [20; 0; 4; 0; 1; 0; 2; 2; 107; 2; 118])) =
    Ok [mkDRec 0 2 None (Some []) [([107], Some [118])]] /\
  allocs (decode_iceberg (raw_segment 1 [20; 0; 4; 0; 1; 0; 2; 2; 107; 2; 118])) = [112; 10; 40; 1; 1].
Proof. vm_compute. repeat split. Qed.
