(* C25 — Unhealthy S3 rejects produce and fetch with backpressure errors.
   Only statements closed by [exact]; proofs live in proofs/HealthProofs.v.
   Float comparisons are Coq primitive floats (IEEE binary64); the only axiom used is
   the standard library's FloatAxioms.leb_spec (and the primitive float/int types). *)
From Coq Require Import Floats.
From Coq Require Import String.
From KS Require Import lib.Base model.Health proofs.HealthProofs model.Dispatch gen.DispatchTable.
Open Scope Z_scope.

(* higher average latency or error rate never gives a better rating -- for EVERY
   threshold configuration: inverted (warn > crit), zero, negative, infinite, NaN *)
Theorem C25_rating_monotone : forall c avg avg' er er',
  avg <= avg' -> PrimFloat.leb er er' = true ->
  rank (rate c avg er) <= rank (rate c avg' er').
Proof. exact rate_monotone. Qed.
Print Assumptions C25_rating_monotone.

(* at the level of samples: same number of samples, a larger latency sum (no int64
   overflow) and a not-smaller error rate never give a better rating *)
Theorem C25_latency_monotone : forall c l l',
  l <> [] -> length l = length l' ->
  0 <= lat_sum l <= lat_sum l' -> lat_sum l' < 9223372036854775808 ->
  PrimFloat.leb (error_rate l) (error_rate l') = true ->
  rank (classify c l) <= rank (classify c l').
Proof. exact latency_monotone. Qed.
Print Assumptions C25_latency_monotone.

(* after ANY history of RecordOperation / State calls on a non-decreasing clock, the
   monitor holds exactly the samples with ts > now - window among the last MaxSamples
   recorded, and its state is the rating of exactly those samples *)
Theorem C25_window_only : forall c, 1 <= h_max c -> forall evs,
  times_ok 0 evs ->
  let m := hrun c evs in
  m_samples m = in_window c (last_time evs) (recorded evs) /\
  m_state m = classify c (in_window c (last_time evs) (recorded evs)).
Proof. exact window_only. Qed.
Print Assumptions C25_window_only.

Theorem C25_window_only_eq : forall c, 1 <= h_max c -> forall evs evs',
  times_ok 0 evs -> times_ok 0 evs' ->
  in_window c (last_time evs) (recorded evs) = in_window c (last_time evs') (recorded evs') ->
  m_state (hrun c evs) = m_state (hrun c evs').
Proof. exact window_only_eq. Qed.
Print Assumptions C25_window_only_eq.

(* and the rating of a non-empty sample set is a function of its two aggregates *)
Theorem C25_aggregates_only : forall c l l',
  l <> [] -> l' <> [] -> avg_latency l = avg_latency l' -> error_rate l = error_rate l' ->
  classify c l = classify c l'.
Proof. exact classify_aggregates. Qed.
Print Assumptions C25_aggregates_only.

(* the gate: while the state read at the gate is not healthy, every partition of every
   topic of a Produce and of a Fetch request is answered with a non-zero error code and
   nothing is appended / read (any request shape: lists of lists) *)
Theorem C25_gate : forall ts,
  (forall t e, In t ts -> In e t -> pe_gate e <> Healthy) ->
  Forall (Forall rejected) (produce_request ts) /\ Forall (Forall rejected) (fetch_request ts).
Proof. exact gate_request. Qed.
Print Assumptions C25_gate.

(* ... and when ACL, etcd and lease checks pass the code is backpressureErrorCode's *)
Theorem C25_gate_code_produce : forall e,
  pe_gate e <> Healthy ->
  rejected (produce_partition e) /\
  (pe_allowed e = true -> pe_etcd e = true -> pe_lease e = LeaseOk ->
   produce_partition e = PReject (bp_code (pe_code e))).
Proof. exact produce_gate. Qed.
Print Assumptions C25_gate_code_produce.

Theorem C25_gate_code_fetch : forall e,
  pe_gate e <> Healthy ->
  rejected (fetch_partition e) /\
  (pe_allowed e = true -> fetch_partition e = PReject (bp_code (pe_code e))).
Proof. exact fetch_gate. Qed.
Print Assumptions C25_gate_code_fetch.

(* the guard order the gate model assumes (ACL -> etcd -> lease -> S3 health before
   getPartitionLog for Produce; ACL -> S3 health before getPartitionLog for Fetch) is the
   one in the source: gen/DispatchTable.v is regenerated from cmd/broker/main.go on every
   run and these two rows are compared with the expected ones by vm_compute *)
Theorem C25_gate_in_source :
  gate_row_ok "Produce" [("acquirePartitionLeases", "pre"); ("allowTopic[topic.Topic]:ActionProduce", "skip"); ("etcdAvailable", "skip");
                         ("leaseErrors", "skip"); ("s3Health.State!=S3StateHealthy", "skip")]%string = true /\
  gate_row_ok "Fetch" [("resolved[topicName]", "pre"); ("allowTopic[topicName]:ActionFetch", "skip");
                       ("s3Health.State:S3StateDegraded|S3StateUnavailable", "skip")]%string = true.
Proof. exact gate_rows_in_source. Qed.
Print Assumptions C25_gate_in_source.

(* non-vacuity: with the default thresholds 1 error in 5 operations (1/5 against the
   literal 0.2) IS degraded, 3 in 5 is unavailable, an old error leaves the window, the
   MaxSamples cap forgets it too, and a healthy gate lets a partition through *)
Example C25_nonvacuous :
  let c := with_defaults (mkHcfg 100 0 0 0%float 0%float 4) in
  let ok t := HRecord t 1000 false in let bad t := HRecord t 1000 true in
  m_state (hrun c [bad 1; ok 2; ok 3; ok 4]) = Degraded /\          (* 1/4 >= 0.2 *)
  m_state (hrun (with_defaults (mkHcfg 100 0 0 0%float 0%float 8)) [bad 1; ok 2; ok 3; ok 4; ok 5]) = Degraded /\
  m_state (hrun (with_defaults (mkHcfg 100 0 0 0%float 0%float 8)) [bad 1; bad 2; bad 3; ok 4; ok 5]) = Unavailable /\
  m_state (hrun c [bad 1; ok 2; ok 3; ok 4; ok 5]) = Healthy /\     (* cap 4: the error was forgotten *)
  m_state (hrun c [bad 1; ok 2; HQuery 101]) = Healthy /\           (* window 100: the error left *)
  m_state (hrun c [bad 1; ok 2; HQuery 100]) = Degraded /\            (* 1 > 100 - 100: still inside *)
  produce_partition (mkPenv true true LeaseOk Healthy Healthy) = PProceed /\
  produce_partition (mkPenv true true LeaseOk Degraded Degraded) = PReject 7 /\
  fetch_partition (mkPenv true true LeaseOk Unavailable Unavailable) = PReject (-1).
Proof. vm_compute. repeat split. Qed.
