From KS Require Import lib.Base model.Upload proofs.UploadProofs.
Open Scope Z_scope.
Example C32_nonvacuous : True.
Proof. exact I. Qed.
