(* C32 — An LFS HTTP upload reported successful is stored and acknowledged.
   Statements about model/Upload.v (the handlers with fixes/C32-*.patch applied), for
   every event sequence: uploads, part sizes, completion lists, checksums, S3 faults and
   broker replies.  Proofs live in proofs/UploadProofs.v. *)
From KS Require Import lib.Base model.Upload proofs.UploadProofs.
Open Scope Z_scope.

(* After any history [es], if a request [e] (single-request upload or multipart
   completion) is answered with an envelope, then the status is 200, the broker's reply to
   the produce request was a per-partition error code 0 (not another code, not a transport
   error, not a late, unparseable or empty response; [broker_answer] is the code with which
   the broker itself answered this request — under the model's named assumption "one request
   per connection" that is the frame the proxy read), the object named by the envelope exists
   in S3 right after the request, and the envelope's size and SHA-256 are those of that
   object.  [hashf 0] is SHA-256 (any function). *)
Theorem C32_success_sound : forall hashf cfg es w rs e w' p env,
  run hashf cfg init_world es = (w, rs) ->
  step hashf cfg w e = (w', p) ->
  p_env p = Some env ->
  p_status p = 200 /\
  (exists r, completion_reply e = Some r /\ broker_answer r = Some 0) /\
  exists obj, get_obj (e_key env) (w_objects w') = Some obj /\
              e_size env = bsize obj /\ e_sha env = hashf 0 obj.
Proof. exact success_sound. Qed.
Print Assumptions C32_success_sound.

(* "Otherwise the client gets an error status": whatever the broker answers other than
   error code 0, the completion is not answered 200. *)
Theorem C32_broker_error_rejected : forall hashf cfg es w rs e w' p r,
  run hashf cfg init_world es = (w, rs) ->
  step hashf cfg w e = (w', p) ->
  completion_reply e = Some r -> broker_answer r <> Some 0 ->
  p_status p <> 200 /\ p_env p = None.
Proof. exact broker_error_rejected. Qed.
Print Assumptions C32_broker_error_rejected.

(* The same for every interleaving of requests on the session: requests arrive (session
   lookup), wait for session.mu and run their body atomically in any lock order ([CRun i]),
   a request that found the session keeps using it after another one deleted it from the
   map, and the session may expire at any point ([CExpire]).  [executed y c] is the request
   whose body produced the response. *)
Theorem C32_success_sound_interleaved : forall hashf cfg cs y rs c y' p env,
  crun hashf cfg init_sys cs = (y, rs) ->
  cstep hashf cfg y c = (y', Some p) ->
  p_env p = Some env ->
  exists e, executed y c = Some e /\ p_status p = 200 /\
    (exists r, completion_reply e = Some r /\ broker_answer r = Some 0) /\
    exists obj, get_obj (e_key env) (w_objects (y_w y')) = Some obj /\
                e_size env = bsize obj /\ e_sha env = hashf 0 obj.
Proof. exact csuccess_sound. Qed.
Print Assumptions C32_success_sound_interleaved.

Theorem C32_broker_error_rejected_interleaved : forall hashf cfg cs y rs c y' p e r,
  crun hashf cfg init_sys cs = (y, rs) ->
  cstep hashf cfg y c = (y', Some p) ->
  executed y c = Some e -> completion_reply e = Some r -> broker_answer r <> Some 0 ->
  p_status p <> 200 /\ p_env p = None.
Proof. exact cbroker_error_rejected. Qed.
Print Assumptions C32_broker_error_rejected_interleaved.

(* non-vacuity: a two-part session completed with the exact list succeeds; listing only
   part 2, a broker error code, and a retried part after an S3 failure are covered *)
Definition h0 (alg : Z) (b : blob) : bytes := alg :: flat_map (fun c => [fst c; snd c]) b.
Definition cfg0 := mkCfg 6291456 5242880 67108864.
Example C32_nonvacuous :
  let pre := [EInit 5243180 [] 0 false; EPart 1 (1, 5242880) false;
              EPart 2 (2, 300) true; EPart 2 (2, 300) false] in
  map p_status (snd (run h0 cfg0 init_world (pre ++ [EComplete [(2, 2)] false (RCode 0)]))) = [200; 200; 502; 200; 400] /\
  map p_status (snd (run h0 cfg0 init_world (pre ++ [EComplete [(1, 1); (2, 2)] false (RCode 6)]))) = [200; 200; 502; 200; 502] /\
  snd (run h0 cfg0 init_world (pre ++ [EComplete [(1, 1); (2, 2)] false (RCode 0)])) =
    [fail 200; fail 200; fails3 5; fail 200;
     mkResp 200 (Some (mkEnv 0 5243180 (h0 0 [(1, 5242880); (2, 300)]) (h0 0 [(1, 5242880); (2, 300)]))) 0] /\
  w_objects (fst (run h0 cfg0 init_world (pre ++ [EComplete [(1, 1); (2, 2)] false (RCode 0)]))) =
    [(0, [(1, 5242880); (2, 300)])] /\
  snd (run h0 cfg0 init_world [EProduce [(7, 100)] [] 0 [] (RCode 0); EProduce [(8, 100)] [] 0 [] (RCode 3)]) =
    [mkResp 200 (Some (mkEnv 0 100 (h0 0 [(7, 100)]) (h0 0 [(7, 100)]))) 0; fail 502].
Proof. vm_compute. repeat split. Qed.

(* two PUTs of part 1 in flight and a Complete racing with them; expiry; a request that
   found the session before it was completed / aborted *)
Example C32_nonvacuous_interleaved :
  let c := [CReq (EInit 100 [] 0 false);
            CArrive (EPart 1 (3, 100) false); CArrive (EPart 1 (4, 100) false);
            CArrive (EComplete [(1, 3)] false (RCode 0));
            CRun 1;      (* the second PUT gets the mutex first *)
            CRun 0;      (* the first PUT: part already received *)
            CArrive EAbort;
            CRun 0;      (* Complete *)
            CRun 0;      (* Abort on the session that Complete deleted from the map *)
            CReq (EPart 1 (5, 100) false)] in
  map (option_map p_status) (snd (crun h0 cfg0 init_sys c)) =
    [Some 200; None; None; None; Some 200; Some 200; None; Some 400; Some 204; Some 404] /\
  map (option_map p_status) (snd (crun h0 cfg0 init_sys
    [CReq (EInit 100 [] 0 false); CArrive (EPart 1 (3, 100) false); CExpire; CRun 0;
     CReq (EComplete [(1, 3)] false (RCode 0))])) = [Some 200; None; None; Some 410; Some 404] /\
  snd (crun h0 cfg0 init_sys
    [CReq (EInit 100 [] 0 false); CArrive (EPart 1 (4, 100) false); CArrive (EPart 1 (3, 100) false);
     CRun 0; CRun 0; CReq (EComplete [(1, 4)] false (RCode 0))]) =
    [Some (fail 200); None; None; Some (fail 200); Some (fail 200);
     Some (mkResp 200 (Some (mkEnv 0 100 (h0 0 [(4, 100)]) (h0 0 [(4, 100)]))) 0)].
Proof. vm_compute. repeat split. Qed.
