(* C16 — Committed offsets read back exactly; never-committed reads as -1.
   Only statements closed by [exact]; proofs live in proofs/MetaStoreProofs.v.
   The models are of the code with fixes/C16-offset-fetch-missing-and-inmem-key.patch. *)
From Coq Require Import String.
From KS Require Import lib.Base lib.Strings model.MetaStore proofs.MetaStoreProofs.
Open Scope Z_scope.

(* The statement, for one store: every history of commits / fetches / lookups, over
   arbitrary byte strings as group and topic names, answers exactly what the
   abstract map keyed by the structured triple (group, topic, partition) answers. *)
Definition C16_statement (run : list op -> list res) : Prop :=
  forall ops, forallb is_coff_op ops = true -> run ops = snd (spec_run spec_empty ops).

(* the abstract map is "the last commit to exactly that triple wins" *)
Theorem C16_spec_is_last_commit : forall ops k,
  fst (spec_run spec_empty ops) k = last_commit ops k.
Proof. intros ops k. rewrite spec_run_state. now destruct (last_commit ops k). Qed.
Print Assumptions C16_spec_is_last_commit.

(* (1) the in-memory store refines it for all names *)
Theorem C16_refines_spec : forall brokers,
  C16_statement (fun ops => snd (im_run (im_new brokers) ops)).
Proof. intros b ops H. exact (im_run_spec ops _ _ H (im_new_rel b)). Qed.
Print Assumptions C16_refines_spec.

(* (2) the etcd store does not: open finding etcd-topic-name-with-slash *)
Theorem C16_etcd_refuted : ~ C16_statement (fun ops => snd (et_run (et_new 1) ops)).
Proof.
  intros H.
  specialize (H [OCommit (lit "a/offsets/b") (lit "c") 0 7 (lit "x"); OFetchOffset (lit "a") (lit "b/offsets/c") 0] eq_refl).
  vm_compute in H. discriminate.
Qed.
Print Assumptions C16_etcd_refuted.

(* ... and it does on the complement of the finding's input class: topics without
   '/', whatever the group ids contain *)
Theorem C16_etcd_partial : forall brokers ops,
  forallb is_coff_op ops = true -> Forall op_topic_noslash ops ->
  snd (et_run (et_new brokers) ops) = snd (spec_run spec_empty ops).
Proof. intros b ops H Hn. exact (et_run_spec ops _ _ H Hn (et_new_rel b)). Qed.
Print Assumptions C16_etcd_partial.

(* (3) OffsetFetch: per requested (topic, partition) the last commit of that group to
   exactly that triple, and offset -1 with empty metadata when there is none *)
Theorem C16_missing_is_minus_one : forall brokers ops g req,
  forallb is_coff_op ops = true ->
  offset_fetch (im_lookup (fst (im_run (im_new brokers) ops))) g req
  = map (fun tp => (fst tp, map (fun p => fetch_answer (last_commit ops (g, fst tp, p)) p) (snd tp))) req.
Proof. exact offset_fetch_im. Qed.
Print Assumptions C16_missing_is_minus_one.

Theorem C16_missing_is_minus_one_etcd : forall brokers ops g req,
  forallb is_coff_op ops = true -> Forall op_topic_noslash ops -> Forall (fun tp => noslash (fst tp)) req ->
  offset_fetch (et_lookup (fst (et_run (et_new brokers) ops))) g req
  = map (fun tp => (fst tp, map (fun p => fetch_answer (last_commit ops (g, fst tp, p)) p) (snd tp))) req.
Proof. exact offset_fetch_et. Qed.
Print Assumptions C16_missing_is_minus_one_etcd.

(* an OffsetCommit request (topics x partitions, nullable metadata) is a sequence of
   per-partition commits, so the theorems above cover whole requests: each (group, topic,
   partition) gets exactly its own offset and its own metadata ("" for null) *)
Theorem C16_commit_request_is_commits : forall g req,
  forallb is_coff_op (offset_commit_ops g req) = true.
Proof.
  intros g req. unfold offset_commit_ops. apply forallb_forall. intros o Hin.
  apply in_flat_map in Hin as ([t ps] & _ & Hin). apply in_map_iff in Hin as ([[p off] m] & <- & _). reflexivity.
Qed.
Print Assumptions C16_commit_request_is_commits.

(* a whole OffsetCommit request (distinct (topic, partition) entries) followed by an OffsetFetch of
   the same partitions returns, per partition, exactly the committed offset and its own
   metadata ("" for null) - after any earlier history, on both stores *)
Theorem C16_request_roundtrip : forall brokers ops g req,
  forallb is_coff_op ops = true ->
  NoDup (map op_key (offset_commit_ops g req)) ->
  let asked := map (fun tp => (fst tp, map (fun e => fst (fst e)) (snd tp))) req in
  let committed := map (fun tp => (fst tp, map (fun e => (fst (fst e), snd (fst e), meta_or_empty (snd e), 0)) (snd tp))) req in
  offset_fetch (im_lookup (fst (im_run (im_new brokers) (ops ++ offset_commit_ops g req)))) g asked = committed /\
  (Forall op_topic_noslash ops -> Forall (fun tp => noslash (fst tp)) req ->
   offset_fetch (et_lookup (fst (et_run (et_new brokers) (ops ++ offset_commit_ops g req)))) g asked = committed).
Proof.
  intros b ops g req H Hnd. cbv zeta. split.
  - exact (request_roundtrip_im b ops g req H Hnd).
  - intros Hn Hr. exact (request_roundtrip_et b ops g req H Hn Hr Hnd).
Qed.
Print Assumptions C16_request_roundtrip.

Example C16_request_nonvacuous :
  let req := [(lit "orders", [(0, 5, Some (lit "checkpoint-a")); (1, 6, None); (2, 7, Some [])]); (lit "events", [(0, 8, None)])] in
  offset_fetch (im_lookup (fst (im_run (im_new 1) (offset_commit_ops (lit "g1") req)))) (lit "g1")
    [(lit "orders", [0; 1; 2; 3]); (lit "events", [0])]
  = [(lit "orders", [(0, 5, lit "checkpoint-a", 0); (1, 6, [], 0); (2, 7, [], 0); (3, -1, [], 0)]); (lit "events", [(0, 8, [], 0)])].
Proof. vm_compute. reflexivity. Qed.

(* the two fixed defects, on the models of the old code: the "%s:%s:%d" key and the
   forwarded 0 *)
Example C16_old_code_witnesses :
  old_fetch (old_commit [] (lit "a:b") (lit "c") 0 (7, lit "x")) (lit "a") (lit "b:c") 0 = Some (7, lit "x") /\
  offset_fetch_part_old (im_lookup (im_new 1) (lit "g") (lit "orders") 0) 0 = (0, 0, [], 0).
Proof. vm_compute. split; reflexivity. Qed.

Example C16_nonvacuous :
  let ops := [OCommit (lit "a:b") (lit "c") 0 7 (lit "x"); OCommit (lit "a") (lit "b:c") 0 9 []; OCommit (lit "a:b") (lit "c") 0 8 []] in
  forallb is_coff_op ops = true /\ Forall op_topic_noslash ops /\
  offset_fetch (im_lookup (fst (im_run (im_new 1) ops))) (lit "a:b") [(lit "c", [0; 1])]
    = [(lit "c", [(0, 8, [], 0); (1, -1, [], 0)])] /\
  offset_fetch (et_lookup (fst (et_run (et_new 1) ops))) (lit "a") [(lit "b:c", [0])]
    = [(lit "b:c", [(0, 9, [], 0)])].
Proof.
  cbv zeta. split; [reflexivity|]. split.
  - repeat constructor; vm_compute; intuition discriminate.
  - vm_compute. split; reflexivity.
Qed.
