(* C08 -- point-in-time restore copies an exact, valid prefix or nothing.
   Only statements closed by [exact]; proofs live in proofs/PitrProofs.v.
   The checksum function is universally quantified ([crc]). *)
From KS Require Import lib.Base lib.PitrWire model.Pitr proofs.PitrProofs.
Open Scope Z_scope.

(* (3) a failed restore leaves no object under the target prefix (space 1) that did
       not exist before, unless a delete call failed -- for every initial object
       map, every fault sequence (one bit per S3 call: list/get/put/delete), every
       cutoff and partition list. *)
Theorem C08_rollback : forall crc s0 faults T parts w',
  restore crc (mkW s0 faults false) T parts = (Err, w') ->
  w_delfail w' = false ->
  forall k, k_space k = 1 -> present (w_objs w') k -> present s0 k.
Proof. exact restore_rollback. Qed.
Print Assumptions C08_rollback.

(* non-vacuity: a two-record batch (timestamps 1000, 1002) restored to T = 1001 is
   rewritten to one record; the fault-free run creates both target objects; a fault
   at the index upload (call 7) fails the restore and the rollback removes the
   uploaded segment again. *)
Definition ex_batch : bytes :=
  be_enc 8 0 ++ be_enc 4 63 ++ [0;0;0;0;2] ++ [0;0;0;0] ++ [0;0] ++ be_enc 4 1 ++ be_enc 8 1000 ++ be_enc 8 1002 ++
  List.repeat 255 14 ++ be_enc 4 2 ++ [12;0;0;0;1;0;0] ++ [12;0;4;2;1;0;0].
Definition ex_store : store :=
  let a := build_segment crc32c 1 [ex_batch] 999 in [(seg_key 0 0 0, a_seg a); (idx_key 0 0 0, a_idx a)].

Example C08_nonvacuous :
  (let '(r, w) := restore crc32c (mkW ex_store [] false) 1001 [] in
   r = Ok [(0, 1, 0)] /\ present (w_objs w) (seg_key 1 0 0) /\ present (w_objs w) (idx_key 1 0 0)) /\
  (let '(r, w) := restore crc32c (mkW ex_store (List.repeat false 7 ++ [true]) false) 1001 [] in
   r = Err /\ w_delfail w = false /\ s_get (w_objs w) (seg_key 1 0 0) = None) /\
  (exists b', truncate_batch crc32c ex_batch 1001 = Ok (Some b', true) /\ zlen b' = 68).
Proof.
  vm_compute. repeat split; try discriminate. eexists; split; reflexivity.
Qed.
