(* C08 -- point-in-time restore copies an exact, valid prefix or nothing.
   Only statements closed by [exact]; proofs live in proofs/PitrProofs.v.
   The checksum function is universally quantified ([crc]). *)
From KS Require Import lib.Base lib.PitrWire model.Pitr proofs.PitrProofs proofs.PitrBatchProofs proofs.PitrCopyProofs proofs.PitrCompleteProofs proofs.PitrRecordsProofs.
Open Scope Z_scope.

(* (3) a failed restore leaves no object under the target prefix (space 1) that did
       not exist before, unless a delete call failed -- for every initial object
       map, every fault sequence (one bit per S3 call: list/get/put/delete), every
       cutoff and partition list. *)
Theorem C08_rollback : forall crc s0 faults T parts w',
  restore crc (mkW s0 faults false) T parts = (Err, w') ->
  w_delfail w' = false ->
  forall k, k_space k = 1 -> present (w_objs w') k -> present s0 k.
Proof. exact restore_rollback. Qed.
Print Assumptions C08_rollback.

(* (1a) per batch (truncateRecordBatchToTimestamp), for EVERY batch whose header is
       consistent with its records (the guard, [hdr_consistent]) and every cutoff: the
       records of the batch that is kept are exactly the records before the first one
       later than T -- same offsets, same timestamps, byte-equal (the views are built
       from the decoded header and records of the OUTPUT batch); nothing is kept iff
       that prefix is empty; and the scan goes on to the next batch (done = false) iff
       no record was cut.  (2) A rewritten batch has batchLength = len - 12, CRC =
       crc(bytes[21:]), numRecords = number of its records, lastOffsetDelta = its last
       record's offset delta; otherwise it is the unchanged source batch. *)
Theorem C08_truncate_prefix : forall crc b T keep done,
  hdr_consistent b -> truncate_batch crc b T = Ok (keep, done) ->
  exists base first rs, batch_view b = Some (base, first, rs) /\
    let kept := take_while (keep_p first T) rs in
    match keep with
    | None => kept = []
    | Some b' => kept <> [] /\ batch_view b' = Some (base, first, kept) /\ (b' = b \/ valid_fields crc b' kept) /\
                 hdr_consistent b'
    end /\
    (done = false <-> kept = rs).
Proof. exact truncate_spec. Qed.
Print Assumptions C08_truncate_prefix.

(* (1b)+(2) lifted to the final candidate segment (buildRestorePlan =
       collectRecoverableBatches + BuildSegment), for EVERY well-formed source segment
       (32-byte header with magic, frames with batchLength = len - 12 and consistent
       headers, 16-byte footer), every index object, cutoff and creation time: the
       body of the rewritten segment is a list of batches whose records, concatenated,
       are exactly the source segment's records up to (excluding) the first record with
       ts > T; every batch in it is a source batch or has valid fields
       (C08_batches_valid); keep=false happens iff that prefix is empty. *)
Theorem C08_prefix_segment : forall crc seg bs ix T created, seg_wf seg bs ->
  match build_plan crc seg ix T created with
  | Err => True
  | Ok None => take_while (ts_ok T) (concat (map recs_of bs)) = []
  | Ok (Some a) =>
      exists out, out <> [] /\ seg_body (a_seg a) = concat out /\
        concat (map recs_of out) = take_while (ts_ok T) (concat (map recs_of bs)) /\
        Forall (out_ok crc bs) out /\ a_base a = b_base (hd [] out)
  end.
Proof. exact plan_spec. Qed.
Print Assumptions C08_prefix_segment.

Theorem C08_batches_valid : forall crc T bs fuel out,
  Forall frame_ok bs -> (length bs < fuel)%nat ->
  collect crc fuel (concat bs) T = Ok out ->
  Forall (fun b' => In b' bs \/
            exists base first rs', batch_view b' = Some (base, first, rs') /\ valid_fields crc b' rs') out.
Proof.
  intros crc T bs fuel out H1 H2 H3. pose proof (proj2 (collect_spec crc T bs fuel out H1 H2 H3)) as H.
  eapply Forall_impl; [|exact H]. intros b' [Hb _]. exact Hb.
Qed.
Print Assumptions C08_batches_valid.

(* closure: what a restore writes satisfies the guard restores require of their input
   (firstTimestamp = the first kept record's timestamp, maxTimestamp = the maximum over
   the kept records, uncompressed, non-negative lastOffsetDelta, decodable) -- per
   batch and for every batch of the rewritten final segment; so C08_truncate_prefix
   applies again to the output: restoring a restored topic is again exact. *)
Theorem C08_output_header_consistent : forall crc T,
  (forall b b' done, hdr_consistent b -> truncate_batch crc b T = Ok (Some b', done) -> hdr_consistent b') /\
  (forall bs fuel out, Forall frame_ok bs -> (length bs < fuel)%nat ->
     collect crc fuel (concat bs) T = Ok out -> Forall hdr_consistent out).
Proof.
  intros crc T. split.
  - intros b b' done Hc Ht. destruct (truncate_spec crc b T (Some b') done Hc Ht) as (? & ? & ? & _ & (_ & _ & _ & H) & _). exact H.
  - intros bs fuel out H1 H2 H3. pose proof (proj2 (collect_spec crc T bs fuel out H1 H2 H3)) as H.
    eapply Forall_impl; [|exact H]. intros b' [_ Hb]. exact Hb.
Qed.
Print Assumptions C08_output_header_consistent.

(* (1c) a weaker, earlier form of the lift kept as an independent check (soundness of
       every target object; C08_prefix below characterises the whole store exactly):
       every segment object under the target prefix after a successful restore existed
       before, or is the byte-identical copy of the source segment object with the same
       partition and base offset, or is the segment build_plan rewrote from a source
       segment object of that partition. *)
Theorem C08_prefix_partial : forall crc s0 faults T parts summ w',
  restore crc (mkW s0 faults false) T parts = (Ok summ, w') ->
  forall k v, k_space k = 1 -> k_idx k = false -> s_get (w_objs w') k = Some v ->
    s_get s0 k = Some v \/ justified crc s0 T k v.
Proof. exact restore_objects_justified. Qed.
Print Assumptions C08_prefix_partial.

(* (1d) completeness and order of the copy, for every object map, fault sequence,
       cutoff and partition list: a successful restore leaves EXACTLY the store of the
       fault-free specification [restore_spec] (model/Pitr.v, no worlds/faults/rollback):
       starting from the initial objects, for each selected partition in ascending
       order, with its segments sorted by base offset and lc = the first segment created
       after T (else the last): byte-identical copies of the segment and index objects
       0..lc-1 under the same (partition, base) and then build_plan's rewrite of segment
       lc (nothing if it keeps no record) -- and nothing else.  With C08_prefix_segment
       for the rewritten segment this is the prefix clause: per selected partition the
       target holds the source records up to (excluding) the first record with ts > T
       in the final candidate segment, byte-equal, in offset order. *)
Theorem C08_prefix : forall crc s0 faults T parts summ w',
  restore crc (mkW s0 faults false) T parts = (Ok summ, w') ->
  restore_spec crc s0 T parts = Some (w_objs w').
Proof. exact restore_complete. Qed.
Print Assumptions C08_prefix.

(* (1e) the prefix clause in the property's own words, per partition, for the segments
       the restore specification writes for that partition IN THE ORDER IT WRITES THEM
       (= ascending base offset of the sorted source segments; by C08_prefix these are
       exactly the objects a successful restore leaves): for every partition whose
       source segments [segs] (sorted by base offset, objects present and well formed
       with batch lists [bss]) have last candidate lc, the records held by the written
       segment objects, concatenated in that order, are the records of the source
       segments before lc followed by the records of segment lc up to (excluding) its
       first record with ts > T -- each record the same (offset, timestamp, bytes)
       triple as in the source, so byte-equal and, being a prefix of the source's record
       list, offset-contiguous whenever the source is.
       PARTIAL, what is missing: (i) re-reading the final store -- that listing the
       target partition's segment objects sorted by key yields these segments in this
       order needs distinct ascending target bases (unique source keys, and key base =
       base offset of the segment's first batch for the rewritten one), not mechanised;
       (ii) [seg_records] says the body IS a concatenation of batches holding those
       records (the decomposition the restore produced), not that a frame parser
       recovers it (needs batchLength < 2^32 for the rewritten batches);
       (iii) [plan_defined]: build_plan does not fail at the last candidate -- true
       whenever the restore succeeded. *)
Theorem C08_prefix_records_partial : forall crc s0 p T segs bss lc,
  Forall2 (src_ok s0 p) segs bss -> segs <> [] -> lc = last_candidate segs T 0 ->
  plan_defined crc s0 p T (nth lc segs (mkSeg 0 0 0 0)) ->
  exists rss, Forall2 seg_records (map a_seg (plan_list crc s0 p segs 0 lc T)) rss /\
    concat rss = concat (map all_recs (firstn lc bss)) ++ take_while (ts_ok T) (all_recs (nth lc bss [])).
Proof.
  intros crc s0 p T segs bss lc HF Hne -> Hd.
  pose proof (last_candidate_lt T segs 0 Hne) as Hr.
  pose proof (plan_list_records crc s0 p T segs bss 0 (last_candidate segs T 0) HF Hr) as H.
  rewrite Nat.sub_0_r in H. exact (H Hd).
Qed.
Print Assumptions C08_prefix_records_partial.

(* towards (i): reading back one partition's writes.  When the bases of the written
   segments are pairwise distinct, each written segment object is found under its
   (partition, base) key, and every segment object under a target key after the writes
   was there before or is one of the written ones.  Still missing for the full
   C08_prefix_records: that the bases ARE distinct and ascending (unique source keys;
   key base = first batch's base offset for the rewritten segment) and the composition
   over the partitions of restore_spec's fold. *)
Theorem C08_read_back_partial : forall p arts s,
  NoDup (map a_base arts) ->
  (forall a, In a arts -> s_get (puts_of p arts s) (seg_key 1 p (a_base a)) = Some (a_seg a)) /\
  (forall k v, k_space k = 1 -> k_idx k = false -> s_get (puts_of p arts s) k = Some v ->
     s_get s k = Some v \/ exists a, In a arts /\ k = seg_key 1 p (a_base a)).
Proof.
  intros p arts s Hnd. split; [intros a Ha; now apply puts_get|]. intros k v H1 H2 H3. now apply (puts_only p arts s k v).
Qed.
Print Assumptions C08_read_back_partial.

(* non-vacuity: a two-record batch (timestamps 1000, 1002) restored to T = 1001 is
   rewritten to one record; the fault-free run creates both target objects; a fault
   at the index upload (call 7) fails the restore and the rollback removes the
   uploaded segment again. *)
Definition ex_batch : bytes :=
  be_enc 8 0 ++ be_enc 4 63 ++ [0;0;0;0;2] ++ [0;0;0;0] ++ [0;0] ++ be_enc 4 1 ++ be_enc 8 1000 ++ be_enc 8 1002 ++
  List.repeat 255 14 ++ be_enc 4 2 ++ [12;0;0;0;1;0;0] ++ [12;0;4;2;1;0;0].
Definition ex_store : store :=
  let a := build_segment crc32c 1 [ex_batch] 999 in [(seg_key 0 0 0, a_seg a); (idx_key 0 0 0, a_idx a)].

Example C08_nonvacuous :
  (let '(r, w) := restore crc32c (mkW ex_store [] false) 1001 [] in
   r = Ok [(0, 1, 0)] /\ present (w_objs w) (seg_key 1 0 0) /\ present (w_objs w) (idx_key 1 0 0)) /\
  (let '(r, w) := restore crc32c (mkW ex_store (List.repeat false 7 ++ [true]) false) 1001 [] in
   r = Err /\ w_delfail w = false /\ s_get (w_objs w) (seg_key 1 0 0) = None) /\
  (exists b', truncate_batch crc32c ex_batch 1001 = Ok (Some b', true) /\ zlen b' = 68) /\
  (match restore_spec crc32c ex_store 1001 [] with
   | Some s => zlen s = 4 /\ present s (seg_key 1 0 0) /\ option_map (@length Z) (s_get s (seg_key 1 0 0)) = Some (32 + 68 + 16)%nat
   | None => False end) /\
  hdr_consistent ex_batch /\ frame_ok ex_batch /\
  recs_of ex_batch = [(0, 1000, [12;0;0;0;1;0;0]); (1, 1002, [12;0;4;2;1;0;0])].
Proof.
  vm_compute. repeat split; try discriminate. eexists; split; reflexivity.
Qed.
