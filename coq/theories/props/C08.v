From KS Require Import lib.Base lib.PitrWire model.Pitr.
Open Scope Z_scope.
Example C08_nonvacuous : zigzag 3 = -2.
Proof. vm_compute. reflexivity. Qed.
