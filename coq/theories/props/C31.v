(* C31 — LFS produce rewriting changes only the flagged values.
   Statements about model/Rewrite.v for ALL inputs (records, batches, states, oracle
   answers).  External code is universally quantified: [decode_rec] (kmsg
   Record.ReadFrom), [decompress]/[compress] (kgo), [crc32c], [hashf] (digests),
   [enc_env] (lfs.EncodeEnvelope); the two round-trip laws used by C31_batch_valid are
   explicit premises.  Level: partial — the step from a rewritten batch's payload back to
   records goes through those oracles (C31_batch_redecodes); everything else, including
   the lift to the whole request and the join/split of several batches per partition
   (C31_whole_request, C31_whole_request_resplit), is proved outright.  Proofs: proofs/RewriteProofs.v. *)
From KS Require Import lib.Base lib.RecVarint model.Rewrite proofs.RewriteProofs.
Open Scope Z_scope.

(* (1) Every unflagged record of a batch comes out identical (all fields, incl. null vs
   empty keys/values/header values), order and count preserved; a batch in which no record
   is flagged keeps its Raw bytes; a partition in which nothing is flagged keeps its bytes. *)
Theorem C31_unflagged_unchanged :
  forall decode_rec decompress compress crc32c hashf enc_env cfg,
  (forall st rs rs' st' ch,
     process_records hashf enc_env cfg st rs = Ok (rs', st', ch) ->
     length rs' = length rs /\
     Forall2 (fun r r' => flagged r = false -> r' = r) rs rs') /\
  (forall st bt bt' st',
     process_batch decode_rec decompress compress crc32c hashf enc_env cfg st bt = Ok (bt', st', false) -> bt' = bt) /\
  (forall st p p' st',
     process_partition decode_rec decompress compress crc32c hashf enc_env cfg st p = Ok (p', st', false) -> p' = p).
Proof. exact unflagged_unchanged. Qed.
Print Assumptions C31_unflagged_unchanged.

(* (2) A flagged record keeps attributes, timestamp delta, offset delta and key, loses
   exactly its LFS_BLOB headers, and its value is the encoding of an envelope for this
   (every one of them: [rec_rel] says headers' = drop_header = filter, and flagged r' = false,
   see C31_flag_headers_removed), and its value is the encoding of an envelope for this
   bucket whose key names an object that — in the store at any later point [stF] of the same
   request — holds exactly the original value, with size and SHA-256 of that value.  The
   object keys handed out by the oracle are pairwise distinct (fresh UUIDs). *)
Theorem C31_flagged_envelope :
  forall (hashf : Z -> bytes -> bytes) (enc_env : envelope -> bytes) cfg rs st rs' st' ch stF,
  process_records hashf enc_env cfg st rs = Ok (rs', st', ch) ->
  NoDup (map fst (u_supply st)) -> ext st' stF ->
  Forall2 (rec_rel hashf enc_env cfg (u_store stF)) rs rs'.
Proof. exact process_records_spec. Qed.
Print Assumptions C31_flagged_envelope.

(* Headers are lists (repeated keys, any position, any value).  What (2) calls "loses exactly
   its LFS_BLOB headers": the rewritten header list is the input list with EVERY entry whose
   key is exactly the bytes "LFS_BLOB" removed (keys differing in case such as lfs_blob, or
   LFS_BLOB_ALG, are ordinary headers) — no header with the flag key remains, the rest is an
   order-preserving sublist that keeps every other key with its multiplicity, and the record
   is no longer flagged for a later LFS-aware hop. *)
Theorem C31_flag_headers_removed : forall k hs,
  find_header k (drop_header k hs) = None /\
  (forall h, In h (drop_header k hs) <-> In h hs /\ h_key h <> k) /\
  sublist (drop_header k hs) hs /\
  (forall k', k' <> k ->
     filter (fun h => bytes_eqb (h_key h) k') (drop_header k hs) = filter (fun h => bytes_eqb (h_key h) k') hs).
Proof.
  intros k hs. split; [apply drop_header_none|]. split; [apply drop_header_in|].
  split; [apply drop_header_sublist|]. intros k'. apply drop_header_other.
Qed.
Print Assumptions C31_flag_headers_removed.

(* the state only grows along a request: what (2) calls "any later point" includes the
   end of every later batch of the request *)
Theorem C31_state_extends :
  forall decode_rec decompress compress crc32c hashf enc_env cfg st bt bt' st' ch,
  process_batch decode_rec decompress compress crc32c hashf enc_env cfg st bt = Ok (bt', st', ch) -> ext st st'.
Proof. exact process_batch_ext. Qed.
Print Assumptions C31_state_extends.

(* (3) A rewritten batch is the kmsg encoding of a header that differs from the input's
   only in Length, CRC, the three codec bits and the payload: Length = len(bytes) - 12,
   CRC = crc32c(bytes[21:]) (both as int32), NumRecords = number of records, payload =
   compress(codec, encode(records')) where records' is what (1)/(2) describe. *)
Theorem C31_batch_valid :
  forall decode_rec decompress compress crc32c hashf enc_env cfg st b raw b' raw' st',
  process_batch decode_rec decompress compress crc32c hashf enc_env cfg st (b, raw) = Ok ((b', raw'), st', true) ->
  exists rs rs' used,
    batch_records decode_rec decompress b = Some rs /\
    process_records hashf enc_env cfg st rs = Ok (rs', st', true) /\
    compress_records compress ((b_attrs b) mod 8) (enc_records rs') = (b_recs b', used) /\
    raw' = enc_batch b' /\ same_header b b' /\
    b_len b' = wrap32 (zlen raw' - 12) /\
    b_crc b' = wrap32 (crc32c (skipn 21 raw')) /\
    b_attrs b' = wrap16 (b_attrs b - (b_attrs b) mod 8 + used) /\
    b_num b' = wrap32 (zlen rs').
Proof. exact process_batch_changed. Qed.
Print Assumptions C31_batch_valid.

(* ... and, if kmsg decodes what lfsEncodeRecord wrote and the compressor round-trips and
   reports the codec it was asked for, the rewritten batch keeps its codec and decodes —
   with the proxy's own lfsDecodeBatchRecords — to exactly records'. *)
Theorem C31_batch_redecodes :
  forall decode_rec decompress compress crc32c hashf enc_env,
  (forall r, wf_rec r -> decode_rec (enc_record r) = Some r) ->
  (forall c raw out used, 1 <= c <= 4 -> compress c raw = (out, used) ->
                          used = c /\ decompress c out = Some raw) ->
  forall cfg st st' b raw b' raw',
  process_batch decode_rec decompress compress crc32c hashf enc_env cfg st (b, raw) = Ok ((b', raw'), st', true) ->
  0 <= (b_attrs b) mod 8 <= 4 -> -32768 <= b_attrs b < 32768 ->
  exists rs rs',
    batch_records decode_rec decompress b = Some rs /\
    process_records hashf enc_env cfg st rs = Ok (rs', st', true) /\
    (Forall wf_rec rs' -> zlen rs' < 2147483648 ->
     (b_attrs b') mod 8 = (b_attrs b) mod 8 /\ batch_records decode_rec decompress b' = Some rs').
Proof. exact rewritten_batch_decodes. Qed.
Print Assumptions C31_batch_redecodes.

(* (4) The whole request.  [rewrite_request] runs over all partitions of all topics in
   request order.  If it returns without error then, with respect to the object store at
   the END of the request, every input partition [p] and output partition [p'] satisfy
   [partition_ok]: [p] splits (lfsDecodeRecordBatches) into batches [bts], [p'] is the
   concatenation of the Raw bytes of batches [bts'] (same number, same order), and every pair
   satisfies [batch_ok]:
     - its records (as decoded by the proxy) are related by [rec_rel]: unflagged records
       identical, flagged records as in (2), same count and order          (clauses 1 and 2)
     - the batch is either returned as is (Raw bytes identical, and then it has no flagged
       record) or [rebuilt]: kmsg encoding of the same header with Length = len - 12,
       CRC = crc32c(bytes[21:]), codec bits, NumRecords = number of records, payload =
       compress(codec, encode(records'))                                    (clause 3). *)
Theorem C31_whole_request :
  forall decode_rec decompress compress crc32c hashf enc_env cfg ps st ps' st' ch,
  rewrite_request decode_rec decompress compress crc32c hashf enc_env cfg st ps = Ok (ps', st', ch) ->
  NoDup (map fst (u_supply st)) ->
  Forall2 (partition_ok decode_rec decompress compress crc32c hashf enc_env cfg (u_store st')) ps ps'.
Proof.
  intros. eapply request_ok; eauto. apply ext_refl.
Qed.
Print Assumptions C31_whole_request.

(* ... and each rewritten partition splits again (same lfsDecodeRecordBatches, kmsg header
   layout) into exactly the batches [bts'] above — several batches per partition, rewritten
   and untouched ones mixed — provided the input headers are within the ranges of their Go
   types and no batch reaches 2 GiB. *)
Theorem C31_whole_request_resplit :
  forall decode_rec decompress compress crc32c hashf enc_env cfg store p bts bts',
  split_batches (S (length p)) p = Some bts ->
  Forall2 (batch_ok decode_rec decompress compress crc32c hashf enc_env cfg store) bts bts' ->
  Forall (fun bt => hdr_in_range (fst bt)) bts ->
  Forall (fun bt' => zlen (snd bt') - 12 < 2147483648) bts' ->
  split_batches (S (length (join_batches bts'))) (join_batches bts') = Some bts'.
Proof. exact partition_resplit. Qed.
Print Assumptions C31_whole_request_resplit.

(* non-vacuity: a batch [unflagged; flagged; unflagged] is rewritten; the middle value
   becomes the envelope, the others are untouched, one object is stored *)
Definition d_env (e : envelope) : bytes := 123 :: e_key e ++ [58] ++ e_sha e ++ [125].
Definition d_hash (a : Z) (b : bytes) : bytes := a :: 35 :: b.
Example C31_nonvacuous :
  let cfg := mkCfg [98] [112] 1000 [] 5242880 in
  let r1 := mkRec 0 5 0 None (Some []) [mkHeader [97] None] in
  let r2 := mkRec 0 (-3) 1 (Some []) (Some [1;2;3])
              [mkHeader s_LFS_BLOB (Some []); mkHeader [97] (Some []); mkHeader s_LFS_BLOB None;
               mkHeader [97] None; mkHeader s_LFS_BLOB (Some [122])] in
  let r3 := mkRec (-1) 7 2 (Some [9]) None [] in
  let st := mkUst [] [([107;49], [116])] [] 0 [] in
  match process_records d_hash d_env cfg st [r1; r2; r3] with
  | Ok (rs', st', ch) =>
      ch = true /\ nth 0 rs' r2 = r1 /\ nth 2 rs' r2 = r3 /\
      r_hdrs (nth 1 rs' r1) = [mkHeader [97] (Some []); mkHeader [97] None] /\ flagged (nth 1 rs' r1) = false /\
      r_val (nth 1 rs' r1) = Some (d_env (mkEnv [98] [107;49] 3 (d_hash 0 [1;2;3]) (d_hash 0 [1;2;3]) s_sha256 [] [] [116] [112])) /\
      u_store st' = [([107;49], [1;2;3])]
  | _ => False
  end.
Proof. vm_compute. repeat split. Qed.
