From KS Require Import lib.Base lib.RecVarint model.Rewrite proofs.RewriteProofs.
Open Scope Z_scope.
Example C31_nonvacuous : True.
Proof. exact I. Qed.
