(* C21 — Acknowledged topic creations and partition growth are never lost.
   Only statements closed by [exact]; proofs live in proofs/SnapshotProofs.v.
   [step true] = the code with fixes/C21-merge-keeps-grown-partitions.patch
   (operator half fixed); the broker half is an open known finding. *)
From KS Require Import lib.Base model.Snapshot proofs.SnapshotProofs.
Open Scope Z_scope.

(* The property at full strength: for every number of brokers, every initial
   snapshot and every schedule of broker operations, refreshes and operator
   publish steps, every acknowledged and not explicitly deleted (topic, count) is
   in the etcd snapshot with at least that many partitions. *)
Definition C21_statement (mfix : bool) : Prop :=
  forall brokers s0 evs w, run mfix (init brokers s0) evs = Some w -> acks_hold w.

(* (1) REFUTED on the faithful model, twice (known findings, see known_findings.d):
   (a) broker 1 creates y from a local copy that has not seen broker 0's x;
   (b) one broker: a refresh between CreatePartitions' local growth and its put. *)
Theorem C21_acked_persist_refuted : ~ C21_statement true.
Proof.
  intros H.
  specialize (H 2%nat [] [BCreate 0 [120] 3; BCreate 1 [121] 1] _ eq_refl).
  vm_compute in H. destruct (H [120] 3 (or_introl eq_refl)) as [m [[Hi|[]] _]]. discriminate.
Qed.
Print Assumptions C21_acked_persist_refuted.

Theorem C21_grow_refresh_race_refuted : exists evs w,
  run true (init 1%nat []) evs = Some w /\ acks_holdb w = false /\
  w_etcd w = Some [([120], 3)] /\ In ([120], 6) (w_acks w).
Proof.
  exists [BCreate 0 [120] 3; BGrowLocal 0 [120] 6; BRefresh 0; BGrowPersist 0].
  eexists. split; [vm_compute; reflexivity|]. vm_compute. repeat split. right. now left.
Qed.
Print Assumptions C21_grow_refresh_race_refuted.

(* (2) PARTIAL: the statement on the complement of the findings' class — every
   broker put writes the current etcd snapshot plus the operation's own change
   ([derived_run], decided on the run) — for ANY interleaving with refreshes and with
   operator publishes, their conflicts and retries. *)
Theorem C21_acked_persist_partial : forall brokers s0 evs w,
  derived_run true (init brokers s0) evs = true ->
  run true (init brokers s0) evs = Some w -> acks_hold w.
Proof. exact acked_persist_partial. Qed.
Print Assumptions C21_acked_persist_partial.

(* (3) The patched operator merge alone: nothing that is in the existing snapshot
   under a non-empty name is lost or shrunk, whatever the resources say. *)
Theorem C21_merge_never_shrinks : forall next existing t m,
  In (t, m) existing -> t <> [] -> has (merge true next existing) t m.
Proof. exact merge_never_shrinks. Qed.
Print Assumptions C21_merge_never_shrinks.

(* (4) ... which the merge before the patch did not guarantee, even when every broker
   put is derived: the design-round witness (3 from the resource over 6 grown). *)
Theorem C21_unpatched_merge_refuted : exists evs w,
  derived_run false (init 1%nat []) evs = true /\
  run false (init 1%nat []) evs = Some w /\ acks_holdb w = false.
Proof.
  exists [BCreate 0 [120] 3; BGrowLocal 0 [120] 6; BGrowPersist 0; OStart [([120], 3)]; OGet; OTxn].
  eexists. split; [vm_compute; reflexivity|]. split; vm_compute; reflexivity.
Qed.
Print Assumptions C21_unpatched_merge_refuted.

(* (5) Quiescence: after a refresh a broker's Metadata() is the etcd snapshot, hence
   has every acknowledged topic the etcd snapshot has. *)
Theorem C21_refresh_agrees : forall w b w' r s,
  acks_hold w -> w_etcd w = Some s -> step true w (BRefresh b) = Some (w', r) ->
  nth_error (w_local w') b = Some s /\ covers s (w_acks w').
Proof. exact refresh_agrees. Qed.
Print Assumptions C21_refresh_agrees.

(* (6) WatchDeliver.  Named assumption (liveness of watchSnapshot, checked on the real
   watcher goroutines by the C21_watch harness): after the last write every live
   broker's refresh runs.  Then every broker's copy IS the etcd snapshot and has
   every acknowledged topic the etcd snapshot has. *)
Theorem C21_watch_deliver_quiesces : forall w s,
  acks_hold w -> w_etcd w = Some s ->
  exists w', run true w (deliver_all (length (w_local w))) = Some w' /\
    quiesced w' /\ w_etcd w' = Some s /\
    (forall b loc, nth_error (w_local w') b = Some loc -> covers loc (w_acks w')).
Proof. exact watch_deliver_quiesces. Qed.
Print Assumptions C21_watch_deliver_quiesces.

(* non-vacuity: two brokers and the operator, a conflict with retry, growth kept *)
Example C21_nonvacuous :
  let x := [120] in let y := [121] in
  let evs := [OStart [(x, 3); (y, 2)]; OGet; OTxn; BRefresh 0; BGrowLocal 0 x 5; BGrowPersist 0;
              BRefresh 1; OStart [(y, 2); (x, 3)]; OGet; BCreate 1 [122] 1; OTxn; OGet; OTxn;
              BRefresh 0; BDelete 0 y] in
  derived_run true (init 2%nat []) evs = true /\
  exists w, run true (init 2%nat []) evs = Some w /\
    w_etcd w = Some [(x, 5); ([122], 1)] /\ w_acks w = [(x, 5); ([122], 1)] /\ acks_holdb w = true.
Proof.
  split; [vm_compute; reflexivity|]. eexists. split; [vm_compute; reflexivity|].
  vm_compute. repeat split.
Qed.
