(* Kafka record / record-batch v2 wire layout: the SPEC side (what a conforming
   producer writes, independent of the repo's code) for uncompressed batches.
   CRC-32C is a Section variable: nothing here depends on what it computes.

   record      = varint(len body) body
   body        = attributes:int8 timestampDelta:varlong offsetDelta:varint
                 key:nullable-bytes(varint len, -1 = null) value:nullable-bytes
                 headerCount:varint { keyLen:varint key valueLen:varint(-1 = null) value }*
   batch (61-byte header):
     0  baseOffset:int64   8 batchLength:int32 (bytes after this field)
     12 partitionLeaderEpoch:int32  16 magic:int8 = 2  17 crc:uint32 (over bytes 21..)
     21 attributes:int16 (bits 0-2 compression)  23 lastOffsetDelta:int32
     27 firstTimestamp:int64  35 maxTimestamp:int64  43 producerId:int64
     51 producerEpoch:int16  53 baseSequence:int32  57 numRecords:int32  61 records *)
From KS Require Import lib.Base lib.Varint.
Open Scope Z_scope.

Record krecord := mkKRec {
  kr_attr : Z;
  kr_ts_delta : Z;
  kr_off_delta : Z;
  kr_key : option bytes;
  kr_value : option bytes;
  kr_headers : list (bytes * option bytes)
}.

Record kbatch := mkKBatch {
  kb_base : Z;
  kb_leader_epoch : Z;
  kb_attrs : Z;
  kb_last_delta : Z;
  kb_first_ts : Z;
  kb_max_ts : Z;
  kb_pid : Z;
  kb_pepoch : Z;
  kb_seq : Z;
  kb_records : list krecord
}.

Definition enc_nbytes (o : option bytes) : bytes :=
  match o with None => enc_varint (-1) | Some b => enc_varint (zlen b) ++ b end.

Definition enc_header (h : bytes * option bytes) : bytes :=
  enc_varint (zlen (fst h)) ++ fst h ++ enc_nbytes (snd h).

Definition enc_headers (hs : list (bytes * option bytes)) : bytes := concat (map enc_header hs).

Definition enc_record_tail (r : krecord) : bytes :=
  enc_varint (kr_ts_delta r) ++ enc_varint (kr_off_delta r) ++ enc_nbytes (kr_key r) ++
  enc_nbytes (kr_value r) ++ enc_varint (zlen (kr_headers r)) ++ enc_headers (kr_headers r).

Definition enc_record_body (r : krecord) : bytes := kr_attr r :: enc_record_tail r.

Definition enc_record (r : krecord) : bytes :=
  enc_varint (zlen (enc_record_body r)) ++ enc_record_body r.

Definition enc_records (rs : list krecord) : bytes := concat (map enc_record rs).

Definition enc_batch_tail (b : kbatch) : bytes :=
  be_put 2 (kb_attrs b) ++ be_put 4 (kb_last_delta b) ++ be_put 8 (kb_first_ts b) ++
  be_put 8 (kb_max_ts b) ++ be_put 8 (kb_pid b) ++ be_put 2 (kb_pepoch b) ++
  be_put 4 (kb_seq b) ++ be_put 4 (zlen (kb_records b)) ++ enc_records (kb_records b).

Section Crc.
  Variable crc : bytes -> Z.

  Definition enc_batch (b : kbatch) : bytes :=
    let tail := enc_batch_tail b in
    be_put 8 (kb_base b) ++ be_put 4 (9 + zlen tail) ++ be_put 4 (kb_leader_epoch b) ++
    2 :: be_put 4 (crc tail) ++ tail.

  Definition enc_batches (bs : list kbatch) : bytes := concat (map enc_batch bs).
End Crc.

(* ---------- well-formedness of what producers send ---------- *)
Definition is_byte (b : Z) : Prop := 0 <= b < 256.
Definition bytes_ok (bs : bytes) : Prop := Forall is_byte bs.
Definition obytes_ok (o : option bytes) : Prop := match o with None => True | Some b => bytes_ok b end.
Definition olen (o : option bytes) : Z := match o with None => 0 | Some b => zlen b end.

Definition header_wf (h : bytes * option bytes) : Prop :=
  bytes_ok (fst h) /\ obytes_ok (snd h) /\ zlen (fst h) < 2 ^ 31 /\ olen (snd h) < 2 ^ 31.

(* any int64 timestamp delta (also negative), int32 offset delta, null/empty/any
   key and value, any headers; lengths fit Kafka's int32 varints *)
Definition record_wf (r : krecord) : Prop :=
  is_byte (kr_attr r) /\ in_signed 64 (kr_ts_delta r) /\ in_signed 32 (kr_off_delta r) /\
  obytes_ok (kr_key r) /\ obytes_ok (kr_value r) /\ olen (kr_key r) < 2 ^ 31 /\ olen (kr_value r) < 2 ^ 31 /\
  Forall header_wf (kr_headers r) /\ zlen (kr_headers r) < 2 ^ 31 /\
  zlen (enc_record_body r) < 2 ^ 31.

(* uncompressed, >= 1 record, fields in their integer ranges, sums do not overflow int64 *)
Definition batch_wf (b : kbatch) : Prop :=
  in_signed 64 (kb_base b) /\ in_signed 64 (kb_first_ts b) /\ in_signed 64 (kb_max_ts b) /\
  0 <= kb_attrs b < 2 ^ 16 /\ Z.land (kb_attrs b) 7 = 0 /\
  1 <= zlen (kb_records b) /\ 12 + 49 + zlen (enc_records (kb_records b)) < 2 ^ 31 /\
  Forall record_wf (kb_records b) /\
  Forall (fun r => in_signed 64 (kb_base b + kr_off_delta r) /\ in_signed 64 (kb_first_ts b + kr_ts_delta r))
         (kb_records b).
