(* Byte-string helpers: Go's "%d" decimal rendering of an integer as bytes, with
   injectivity and character-set lemmas; splitting at a separator that does not
   occur in the fields. Stdlib style. *)
From Coq Require Import Ascii String DecimalString DecimalZ Decimal.
From KS Require Import lib.Base.
Open Scope Z_scope.

Definition code (a : ascii) : Z := Z.of_N (N_of_ascii a).

Lemma code_inj a b : code a = code b -> a = b.
Proof.
  unfold code; intros H. apply N2Z.inj in H.
  rewrite <- (ascii_N_embedding a), <- (ascii_N_embedding b). congruence.
Qed.

Fixpoint codes (s : string) : bytes :=
  match s with
  | EmptyString => []
  | String a s' => code a :: codes s'
  end.

Lemma codes_inj s t : codes s = codes t -> s = t.
Proof.
  revert t; induction s as [|a s IH]; intros [|b t] H; cbn in H; try discriminate; auto.
  inversion H as [[H1 H2]]. apply code_inj in H1. apply IH in H2. congruence.
Qed.

Lemma codes_app s t : codes (s ++ t)%string = codes s ++ codes t.
Proof. induction s as [|a s IH]; cbn; [reflexivity|]. now rewrite IH. Qed.

(* Go fmt "%d" of an integer: optional '-' then decimal digits, "0" for zero. *)
Definition dec (z : Z) : bytes := codes (NilEmpty.string_of_int (Z.to_int z)).

Lemma dec_inj z z' : dec z = dec z' -> z = z'.
Proof.
  unfold dec; intros H. apply codes_inj in H.
  assert (Some (Z.to_int z) = Some (Z.to_int z')) as E.
  { rewrite <- (NilEmpty.isi (Z.to_int z)), <- (NilEmpty.isi (Z.to_int z')). now rewrite H. }
  inversion E as [E']. now apply DecimalZ.to_int_inj.
Qed.

Definition is_dec_char (c : Z) : bool := ((48 <=? c) && (c <=? 57)) || (c =? 45).

Lemma uint_chars d : forallb is_dec_char (codes (NilEmpty.string_of_uint d)) = true.
Proof. induction d; cbn; try reflexivity; exact IHd. Qed.

Lemma dec_chars z : forallb is_dec_char (dec z) = true.
Proof.
  unfold dec. destruct (Z.to_int z) as [d|d]; cbn.
  - apply uint_chars.
  - apply uint_chars.
Qed.

Lemma dec_no_sep z (sep : Z) : is_dec_char sep = false -> ~ In sep (dec z).
Proof.
  intros Hs Hin. pose proof (dec_chars z) as H.
  rewrite forallb_forall in H. apply H in Hin. congruence.
Qed.

(* l1 ++ sep :: r1 = l2 ++ sep :: r2 with sep in neither l1 nor l2 (split at the
   first separator). *)
Lemma split_first_sep (sep : Z) l1 l2 r1 r2 :
  ~ In sep l1 -> ~ In sep l2 -> l1 ++ sep :: r1 = l2 ++ sep :: r2 -> l1 = l2 /\ r1 = r2.
Proof.
  revert l2; induction l1 as [|x l1 IH]; intros [|y l2] H1 H2 E; cbn in *.
  - inversion E; auto.
  - inversion E; subst. exfalso; apply H2; auto.
  - inversion E; subst. exfalso; apply H1; auto.
  - inversion E; subst. destruct (IH l2) as [-> ->]; auto.
Qed.

(* The same from the right: l1 ++ sep :: r1 = l2 ++ sep :: r2 with sep in
   neither r1 nor r2 (split at the last separator). *)
Lemma split_last_sep (sep : Z) l1 l2 r1 r2 :
  ~ In sep r1 -> ~ In sep r2 -> l1 ++ sep :: r1 = l2 ++ sep :: r2 -> l1 = l2 /\ r1 = r2.
Proof.
  intros H1 H2 E.
  assert (rev r1 ++ sep :: rev l1 = rev r2 ++ sep :: rev l2) as E'.
  { apply (f_equal (@rev Z)) in E. rewrite !rev_app_distr in E. cbn in E.
    rewrite <- !app_assoc in E. exact E. }
  apply split_first_sep in E' as [Ea Eb].
  - split.
    + rewrite <- (rev_involutive l1), <- (rev_involutive l2). now rewrite Eb.
    + rewrite <- (rev_involutive r1), <- (rev_involutive r2). now rewrite Ea.
  - now rewrite <- in_rev.
  - now rewrite <- in_rev.
Qed.

Definition colon : Z := 58.
Definition slash : Z := 47.

Lemma colon_not_dec : is_dec_char colon = false. Proof. reflexivity. Qed.
Lemma slash_not_dec : is_dec_char slash = false. Proof. reflexivity. Qed.
