(* Wire-level integer codecs over byte strings ([list Z], each element 0..255 when it
   came from Go): big-endian u16/u32/u64 and their two's-complement signed views,
   Go's binary.Uvarint / PutUvarint, and a small outcome type in which a crash
   (Go panic: slice bounds, negative make) is a first-class result.

   Two's-complement conversions are written explicitly ([mod 2^k]) because the
   properties that use this file (C10, C26) are about exactly those wraps
   (int(uint64) of a huge tagged-field size, int16 string lengths, port numbers).
   Stdlib style; used by model/ProtoHeader.v and model/ProxyProto.v. *)
From KS Require Import lib.Base.
From Coq Require Import ZifyBool.
Open Scope Z_scope.

(* ---------------------------------------------------------------- outcomes *)
Inductive outcome (A : Type) : Type :=
| Ok (a : A)
| Err (e : Z)          (* error returned; e = small error-class number *)
| Panic (why : Z)      (* Go run-time panic; why: 1 = slice bounds, 2 = negative make *)
| OutOfFuel.           (* model artefact; proved unreachable *)
Arguments Ok {A} a.
Arguments Err {A} e.
Arguments Panic {A} why.
Arguments OutOfFuel {A}.

Definition bind {A B} (o : outcome A) (f : A -> outcome B) : outcome B :=
  match o with
  | Ok a => f a
  | Err e => Err e
  | Panic w => Panic w
  | OutOfFuel => OutOfFuel
  end.

Definition is_panic {A} (o : outcome A) : bool :=
  match o with Panic _ => true | _ => false end.
Definition is_fuel {A} (o : outcome A) : bool :=
  match o with OutOfFuel => true | _ => false end.

(* ---------------------------------------------------------------- wraps *)
Definition wrap_u (k z : Z) : Z := z mod 2 ^ k.
(* the signed k-bit integer with the same low k bits as z (Go's intK(x) conversion) *)
Definition wrap_s (k z : Z) : Z := (z + 2 ^ (k - 1)) mod 2 ^ k - 2 ^ (k - 1).

Definition byte_ok (b : Z) : Prop := 0 <= b < 256.
Definition bytes_ok (l : bytes) : Prop := Forall byte_ok l.
Definition byte_okb (b : Z) : bool := (0 <=? b) && (b <? 256).

Lemma wrap_u_id k z : 0 <= z < 2 ^ k -> wrap_u k z = z.
Proof. intros H. unfold wrap_u. apply Z.mod_small. exact H. Qed.

Lemma wrap_s_id k z : 0 < k -> - 2 ^ (k - 1) <= z < 2 ^ (k - 1) -> wrap_s k z = z.
Proof.
  intros Hk H. unfold wrap_s.
  assert (2 ^ k = 2 * 2 ^ (k - 1)) as E.
  { replace k with (1 + (k - 1)) at 1 by lia. rewrite Z.pow_add_r by lia. reflexivity. }
  rewrite Z.mod_small by lia. lia.
Qed.

Lemma wrap_s_range k z : 0 < k -> - 2 ^ (k - 1) <= wrap_s k z < 2 ^ (k - 1).
Proof.
  intros Hk. unfold wrap_s.
  assert (2 ^ k = 2 * 2 ^ (k - 1)) as E.
  { replace k with (1 + (k - 1)) at 1 by lia. rewrite Z.pow_add_r by lia. reflexivity. }
  assert (0 < 2 ^ (k - 1)) as P by (apply Z.pow_pos_nonneg; lia).
  pose proof (Z.mod_pos_bound (z + 2 ^ (k - 1)) (2 ^ k) ltac:(lia)). lia.
Qed.

(* the unsigned view of a signed value and back *)
Lemma wrap_s_wrap_u k z : 0 < k -> wrap_s k (wrap_u k z) = wrap_s k z.
Proof.
  intros Hk. unfold wrap_s, wrap_u.
  assert (0 < 2 ^ k) as P by (apply Z.pow_pos_nonneg; lia).
  rewrite Zplus_mod_idemp_l. reflexivity.
Qed.

(* a uint64 at or above 2^63 converts to a negative int (the C10 defect) *)
Lemma wrap_s_64_neg z : 2 ^ 63 <= z < 2 ^ 64 -> wrap_s 64 z = z - 2 ^ 64 /\ wrap_s 64 z < 0.
Proof.
  intros H. unfold wrap_s. change (64 - 1) with 63.
  assert ((z + 2 ^ 63) mod 2 ^ 64 = z + 2 ^ 63 - 2 ^ 64) as E.
  { symmetry. apply (Zmod_unique _ _ 1); lia. }
  rewrite E. lia.
Qed.

Lemma wrap_s_64_small z : 0 <= z < 2 ^ 63 -> wrap_s 64 z = z.
Proof. intros H. apply wrap_s_id; [lia|]. change (64 - 1) with 63. lia. Qed.

(* ---------------------------------------------------------------- big-endian *)
Definition put_u16 (v : Z) : bytes := [(v / 256) mod 256; v mod 256].
Definition put_u32 (v : Z) : bytes :=
  [(v / 16777216) mod 256; (v / 65536) mod 256; (v / 256) mod 256; v mod 256].
Definition put_u64 (v : Z) : bytes := put_u32 (v / 4294967296) ++ put_u32 v.
Definition put_i16 (v : Z) : bytes := put_u16 (wrap_u 16 v).
Definition put_i32 (v : Z) : bytes := put_u32 (wrap_u 32 v).
Definition put_i64 (v : Z) : bytes := put_u64 (wrap_u 64 v).

(* value of 2 / 4 bytes, big-endian (binary.BigEndian.Uint16 / Uint32) *)
Definition be16 (b0 b1 : Z) : Z := b0 * 256 + b1.
Definition be32 (b0 b1 b2 b3 : Z) : Z := ((b0 * 256 + b1) * 256 + b2) * 256 + b3.

Definition get_u16 (b : bytes) : option (Z * bytes) :=
  match b with b0 :: b1 :: r => Some (be16 b0 b1, r) | _ => None end.
Definition get_u32 (b : bytes) : option (Z * bytes) :=
  match b with b0 :: b1 :: b2 :: b3 :: r => Some (be32 b0 b1 b2 b3, r) | _ => None end.
Definition get_u64 (b : bytes) : option (Z * bytes) :=
  match get_u32 b with
  | Some (hi, r) => match get_u32 r with Some (lo, r') => Some (hi * 4294967296 + lo, r') | None => None end
  | None => None
  end.
Definition get_i16 (b : bytes) : option (Z * bytes) :=
  match get_u16 b with Some (v, r) => Some (wrap_s 16 v, r) | None => None end.
Definition get_i32 (b : bytes) : option (Z * bytes) :=
  match get_u32 b with Some (v, r) => Some (wrap_s 32 v, r) | None => None end.
Definition get_i64 (b : bytes) : option (Z * bytes) :=
  match get_u64 b with Some (v, r) => Some (wrap_s 64 v, r) | None => None end.

Ltac zdm := Z.div_mod_to_equations; lia.

Lemma put_u16_ok v : bytes_ok (put_u16 v).
Proof. unfold put_u16, bytes_ok, byte_ok. repeat constructor; zdm. Qed.
Lemma put_u32_ok v : bytes_ok (put_u32 v).
Proof. unfold put_u32, bytes_ok, byte_ok. repeat constructor; zdm. Qed.

Lemma zlen_put_u16 v : zlen (put_u16 v) = 2. Proof. reflexivity. Qed.
Lemma zlen_put_u32 v : zlen (put_u32 v) = 4. Proof. reflexivity. Qed.
Lemma zlen_put_u64 v : zlen (put_u64 v) = 8. Proof. reflexivity. Qed.

Lemma get_put_u16 v r : 0 <= v < 65536 -> get_u16 (put_u16 v ++ r) = Some (v, r).
Proof.
  intros H. unfold put_u16, get_u16, be16. cbn [app]. f_equal. f_equal. zdm.
Qed.

Lemma get_put_u32 v r : 0 <= v < 4294967296 -> get_u32 (put_u32 v ++ r) = Some (v, r).
Proof.
  intros H. unfold put_u32, get_u32, be32. cbn [app]. f_equal. f_equal. zdm.
Qed.

Lemma get_put_u32_mod v r : get_u32 (put_u32 v ++ r) = Some (v mod 4294967296, r).
Proof.
  unfold put_u32, get_u32, be32. cbn [app]. f_equal. f_equal. zdm.
Qed.

Lemma get_put_u64 v r : 0 <= v < 2 ^ 64 -> get_u64 (put_u64 v ++ r) = Some (v, r).
Proof.
  intros H. unfold put_u64, get_u64. rewrite <- app_assoc.
  rewrite get_put_u32_mod. rewrite get_put_u32_mod. f_equal. f_equal.
  change (2 ^ 64) with 18446744073709551616 in H. zdm.
Qed.

Lemma get_put_i16 v r : - 32768 <= v < 32768 -> get_i16 (put_i16 v ++ r) = Some (v, r).
Proof.
  intros H. unfold get_i16, put_i16. rewrite get_put_u16.
  - rewrite wrap_s_wrap_u by lia. rewrite wrap_s_id; [reflexivity|lia|]. change (2 ^ (16 - 1)) with 32768. lia.
  - unfold wrap_u. change (2 ^ 16) with 65536. zdm.
Qed.

Lemma get_put_i32 v r : - 2147483648 <= v < 2147483648 -> get_i32 (put_i32 v ++ r) = Some (v, r).
Proof.
  intros H. unfold get_i32, put_i32. rewrite get_put_u32.
  - rewrite wrap_s_wrap_u by lia. rewrite wrap_s_id; [reflexivity|lia|]. change (2 ^ (32 - 1)) with 2147483648. lia.
  - unfold wrap_u. change (2 ^ 32) with 4294967296. zdm.
Qed.

Lemma get_put_i64 v r : - 2 ^ 63 <= v < 2 ^ 63 -> get_i64 (put_i64 v ++ r) = Some (v, r).
Proof.
  intros H. unfold get_i64, put_i64. rewrite get_put_u64.
  - rewrite wrap_s_wrap_u by lia. rewrite wrap_s_id; [reflexivity|lia|]. change (64 - 1) with 63. lia.
  - unfold wrap_u. apply Z.mod_pos_bound. lia.
Qed.

(* a negative signed value is what a set top bit decodes to (negative lengths) *)
Lemma get_i32_neg b0 b1 b2 b3 r :
  byte_ok b0 -> byte_ok b1 -> byte_ok b2 -> byte_ok b3 -> 128 <= b0 ->
  exists v, get_i32 (b0 :: b1 :: b2 :: b3 :: r) = Some (v, r) /\ v < 0.
Proof.
  unfold byte_ok. intros H0 H1 H2 H3 Hb. unfold get_i32, get_u32.
  eexists; split; [reflexivity|]. unfold wrap_s, be32. change (2 ^ (32 - 1)) with 2147483648.
  change (2 ^ 32) with 4294967296. zdm.
Qed.

(* ---------------------------------------------------------------- take / drop with Z *)
Definition ztake {A} (n : Z) (l : list A) : list A := firstn (Z.to_nat n) l.
Definition zdrop {A} (n : Z) (l : list A) : list A := skipn (Z.to_nat n) l.

Lemma ztake_app {A} (a b : list A) : ztake (zlen a) (a ++ b) = a.
Proof.
  unfold ztake, zlen. rewrite Nat2Z.id. rewrite firstn_app, Nat.sub_diag, firstn_all. cbn. apply app_nil_r.
Qed.
Lemma zdrop_app {A} (a b : list A) : zdrop (zlen a) (a ++ b) = b.
Proof.
  unfold zdrop, zlen. rewrite Nat2Z.id. rewrite skipn_app, Nat.sub_diag, skipn_all. reflexivity.
Qed.
Lemma ztake_zdrop {A} n (l : list A) : ztake n l ++ zdrop n l = l.
Proof. apply firstn_skipn. Qed.
Lemma zlen_zdrop {A} n (l : list A) : 0 <= n <= zlen l -> zlen (zdrop n l) = zlen l - n.
Proof. unfold zlen, zdrop. intros H. rewrite skipn_length. lia. Qed.
Lemma zlen_ztake {A} n (l : list A) : 0 <= n <= zlen l -> zlen (ztake n l) = n.
Proof. unfold zlen, ztake. intros H. rewrite firstn_length. lia. Qed.

(* ---------------------------------------------------------------- uvarint *)
(* Go encoding/binary.Uvarint(buf) = (value, n): n = 0 buffer too small, n < 0
   overflow (value larger than 64 bits, -n bytes read).  [i] is the loop index,
   [x] the accumulator, [s] = 7*i the shift.  (b & 0x7f) << s on a uint64 is
   (b mod 128) * 2^s mod 2^64; the bits lost at s = 63 never reach a returned
   value because the next byte either ends the loop with an overflow result or is
   missing. *)
Fixpoint uvarint_go (buf : bytes) (i x s : Z) : Z * Z :=
  match buf with
  | [] => (0, 0)
  | b :: rest =>
      if i =? 10 then (0, - (i + 1))
      else if b <? 128 then
        if (i =? 9) && (1 <? b) then (0, - (i + 1))
        else (x + b * 2 ^ s, i + 1)
      else uvarint_go rest (i + 1) (x + (b mod 128) * 2 ^ s) (s + 7)
  end.

Definition uvarint (buf : bytes) : Z * Z := uvarint_go buf 0 0 0.

(* Go binary.PutUvarint / AppendUvarint (canonical LEB128). 10 groups suffice below 2^70. *)
Fixpoint put_uvarint_f (fuel : nat) (v : Z) : bytes :=
  match fuel with
  | O => [v mod 128]
  | S f => if v <? 128 then [v] else (v mod 128 + 128) :: put_uvarint_f f (v / 128)
  end.
Definition put_uvarint (v : Z) : bytes := put_uvarint_f 10 v.

Lemma uvarint_go_n_le buf : forall i x s, 0 <= i -> snd (uvarint_go buf i x s) <= i + zlen buf.
Proof.
  induction buf as [|b rest IH]; intros i x s Hi; cbn [uvarint_go].
  - cbn [snd]. rewrite (@zlen_nil Z). lia.
  - rewrite zlen_cons. pose proof (zlen_nonneg rest).
    destruct (i =? 10) eqn:E1; [cbn [snd]; lia|].
    destruct (b <? 128) eqn:E2.
    + destruct ((i =? 9) && (1 <? b)); cbn [snd]; lia.
    + specialize (IH (i + 1) (x + (b mod 128) * 2 ^ s) (s + 7) ltac:(lia)). lia.
Qed.

(* consumed count is positive exactly on success and never exceeds the buffer *)
Lemma uvarint_n_le buf : snd (uvarint buf) <= zlen buf.
Proof. unfold uvarint. pose proof (uvarint_go_n_le buf 0 0 0 ltac:(lia)). lia. Qed.

Lemma put_uvarint_f_roundtrip fuel : forall v i x s rest,
  s = 7 * i -> 0 <= i <= 9 -> 0 <= v < 2 ^ (64 - s) -> (10 - Z.to_nat i <= fuel)%nat ->
  uvarint_go (put_uvarint_f fuel v ++ rest) i x s = (x + v * 2 ^ s, i + zlen (put_uvarint_f fuel v)).
Proof.
  induction fuel as [|f IH]; intros v i x s rest Hs Hi Hv Hf.
  - lia.
  - cbn [put_uvarint_f]. destruct (v <? 128) eqn:Ev.
    + cbn [app uvarint_go]. replace (i =? 10) with false by lia. rewrite Ev.
      destruct ((i =? 9) && (1 <? v)) eqn:E9.
      * exfalso. assert (i = 9) by lia. subst i s. change (2 ^ (64 - 7 * 9)) with 2 in Hv. lia.
      * rewrite zlen_cons, (@zlen_nil Z). f_equal; lia.
    + assert (128 <= v) as Hv128 by lia.
      assert (i <= 8) as Hi8.
      { destruct (Z.eq_dec i 9) as [->|]; [|lia]. subst s. change (2 ^ (64 - 7 * 9)) with 2 in Hv. lia. }
      cbn [app uvarint_go]. replace (i =? 10) with false by lia.
      replace (v mod 128 + 128 <? 128) with false by zdm.
      replace ((v mod 128 + 128) mod 128) with (v mod 128) by zdm.
      rewrite IH.
      * rewrite zlen_cons. f_equal; [|lia].
        replace (s + 7) with (7 + s) by lia. rewrite Z.pow_add_r by lia.
        change (2 ^ 7) with 128. pose proof (Z.div_mod v 128 ltac:(lia)). nia.
      * lia.
      * lia.
      * split; [zdm|]. replace (64 - s) with (7 + (64 - (s + 7))) in Hv by lia.
        rewrite Z.pow_add_r in Hv by lia. change (2 ^ 7) with 128 in Hv.
        apply Z.div_lt_upper_bound; lia.
      * lia.
Qed.

Lemma uvarint_put v rest : 0 <= v < 2 ^ 64 ->
  uvarint (put_uvarint v ++ rest) = (v, zlen (put_uvarint v)).
Proof.
  intros H. unfold uvarint, put_uvarint.
  rewrite put_uvarint_f_roundtrip; [f_equal; lia|lia|lia|exact H|cbn; lia].
Qed.

Lemma put_uvarint_f_len fuel v : 1 <= zlen (put_uvarint_f fuel v) <= Z.of_nat fuel + 1.
Proof.
  revert v; induction fuel as [|f IH]; intros v; cbn [put_uvarint_f].
  - rewrite zlen_cons, (@zlen_nil Z). lia.
  - destruct (v <? 128).
    + rewrite zlen_cons, (@zlen_nil Z). lia.
    + rewrite zlen_cons. specialize (IH (v / 128)). lia.
Qed.

Lemma put_uvarint_len v : 1 <= zlen (put_uvarint v) <= 11.
Proof. unfold put_uvarint. pose proof (put_uvarint_f_len 10 v). lia. Qed.

Lemma put_uvarint_f_ok fuel : forall v, 0 <= v -> bytes_ok (put_uvarint_f fuel v).
Proof.
  induction fuel as [|f IH]; intros v Hv; cbn [put_uvarint_f].
  - constructor; [unfold byte_ok; zdm|constructor].
  - destruct (v <? 128) eqn:E.
    + constructor; [unfold byte_ok; lia|constructor].
    + constructor; [unfold byte_ok; zdm|]. apply IH. zdm.
Qed.

Lemma bytes_ok_app a b : bytes_ok a -> bytes_ok b -> bytes_ok (a ++ b).
Proof. unfold bytes_ok. intros. apply Forall_app. auto. Qed.

Lemma Forall_firstn' {A} (P : A -> Prop) n (l : list A) : Forall P l -> Forall P (firstn n l).
Proof.
  revert l; induction n as [|n IH]; intros [|x l] H; cbn [firstn]; try constructor.
  - inversion H; assumption.
  - apply IH. inversion H; assumption.
Qed.
Lemma Forall_skipn' {A} (P : A -> Prop) n (l : list A) : Forall P l -> Forall P (skipn n l).
Proof.
  revert l; induction n as [|n IH]; intros [|x l] H; cbn [skipn]; try assumption.
  apply IH. inversion H; assumption.
Qed.
Lemma bytes_ok_ztake n l : bytes_ok l -> bytes_ok (ztake n l).
Proof. apply Forall_firstn'. Qed.
Lemma bytes_ok_zdrop n l : bytes_ok l -> bytes_ok (zdrop n l).
Proof. apply Forall_skipn'. Qed.
Lemma nth_byte_ok (l : bytes) n : bytes_ok l -> byte_ok (nth n l 0).
Proof.
  intros H. destruct (Nat.lt_ge_cases n (length l)) as [L|L].
  - unfold bytes_ok in H. rewrite Forall_forall in H. apply H. apply nth_In. exact L.
  - rewrite nth_overflow by exact L. unfold byte_ok. lia.
Qed.
Lemma be16_range a b : byte_ok a -> byte_ok b -> 0 <= be16 a b < 65536.
Proof. unfold byte_ok, be16. lia. Qed.
Lemma be16_put_u16 v : 0 <= v < 65536 -> be16 ((v / 256) mod 256) (v mod 256) = v.
Proof. intros H. unfold be16. zdm. Qed.
