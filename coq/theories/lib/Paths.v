(* Go's strings.Split on a one-byte separator, path.Clean and path.Join on byte
   strings, as executable functions, plus the lemmas the key-isolation proofs need:
   joining "plain" segments (non-empty, no '/', not "." or "..") after any prefix
   just appends them.  path.Clean is modelled as the segment-stack algorithm it
   implements (lexical processing of "", ".", ".." elements); the correspondence
   check of C22 compares it with the real path.Join on generated strings.
   Owned by the metadata-store group (C16, C17, C22, C40). *)
From KS Require Import lib.Base lib.Strings.
Open Scope Z_scope.

Definition dot : Z := 46.

(* strings.Split(s, sep) for a one-byte separator: always at least one part *)
Fixpoint split_on (sep : Z) (s : bytes) : list bytes :=
  match s with
  | [] => [[]]
  | c :: s' =>
      if c =? sep then [] :: split_on sep s'
      else match split_on sep s' with
           | h :: tl => (c :: h) :: tl
           | [] => [[c]]
           end
  end.

(* strings.Join(parts, sep) *)
Fixpoint join_with (sep : Z) (l : list bytes) : bytes :=
  match l with
  | [] => []
  | [x] => x
  | x :: l' => x ++ sep :: join_with sep l'
  end.

Definition is_dot (s : bytes) : bool := bytes_eqb s [dot].
Definition is_dotdot (s : bytes) : bool := bytes_eqb s [dot; dot].

(* one path element processed by path.Clean; the stack holds the kept elements,
   most recent first *)
Definition clean_step (rooted : bool) (stack : list bytes) (seg : bytes) : list bytes :=
  match seg with
  | [] => stack
  | _ =>
    if is_dot seg then stack
    else if is_dotdot seg then
      match stack with
      | top :: rest => if is_dotdot top then (if rooted then stack else seg :: stack) else rest
      | [] => if rooted then [] else [seg]
      end
    else seg :: stack
  end.

Definition clean_stack (rooted : bool) (segs : list bytes) (stack : list bytes) : list bytes :=
  fold_left (clean_step rooted) segs stack.

Definition is_rooted (p : bytes) : bool :=
  match p with c :: _ => c =? slash | [] => false end.

Definition render (rooted : bool) (stack : list bytes) : bytes :=
  let body := join_with slash (rev stack) in
  if rooted then slash :: body
  else match body with [] => [dot] | _ => body end.

(* path.Clean *)
Definition path_clean (p : bytes) : bytes :=
  match p with
  | [] => [dot]
  | _ => render (is_rooted p) (clean_stack (is_rooted p) (split_on slash p) [])
  end.

(* the buffer path.Join builds before cleaning: empty leading elements are skipped *)
Fixpoint join_buf (buf : bytes) (elems : list bytes) : bytes :=
  match elems with
  | [] => buf
  | e :: rest =>
      match buf, e with
      | [], [] => join_buf [] rest
      | [], _ => join_buf e rest
      | _, _ => join_buf (buf ++ slash :: e) rest
      end
  end.

(* path.Join *)
Definition path_join (elems : list bytes) : bytes :=
  match join_buf [] elems with
  | [] => []
  | buf => path_clean buf
  end.

(* a path element that Clean keeps as it is *)
Definition plain_seg (s : bytes) : Prop :=
  s <> [] /\ ~ In slash s /\ s <> [dot] /\ s <> [dot; dot].

(* ---------- lemmas ---------- *)

Lemma split_on_nonempty sep s : split_on sep s <> [].
Proof.
  induction s as [|c s IH]; cbn; [discriminate|].
  destruct (c =? sep); [discriminate|]. destruct (split_on sep s); discriminate.
Qed.

Lemma split_on_nosep sep s : ~ In sep s -> split_on sep s = [s].
Proof.
  induction s as [|c s IH]; intros H; cbn; [reflexivity|].
  destruct (c =? sep) eqn:E.
  - apply Z.eqb_eq in E. subst. exfalso. apply H. now left.
  - rewrite IH; [reflexivity|]. intros Hin. apply H. now right.
Qed.

Lemma split_on_app_sep sep a b :
  split_on sep (a ++ sep :: b) = split_on sep a ++ split_on sep b.
Proof.
  induction a as [|c a IH].
  - cbn [app split_on]. now rewrite Z.eqb_refl.
  - cbn [app split_on]. destruct (c =? sep) eqn:E.
    + rewrite IH. reflexivity.
    + rewrite IH. destruct (split_on sep a) as [|h tl] eqn:Es.
      * exfalso. now apply (split_on_nonempty sep a).
      * reflexivity.
Qed.

Lemma join_with_cons sep x l : l <> [] -> join_with sep (x :: l) = x ++ sep :: join_with sep l.
Proof. destruct l; [congruence|reflexivity]. Qed.

Lemma join_with_snoc sep l x :
  l <> [] -> join_with sep (l ++ [x]) = join_with sep l ++ sep :: x.
Proof.
  induction l as [|y l IH]; intros H; [congruence|].
  destruct l as [|z l].
  - reflexivity.
  - change ((y :: z :: l) ++ [x]) with (y :: ((z :: l) ++ [x])).
    rewrite join_with_cons by (destruct l; discriminate).
    rewrite IH by discriminate.
    rewrite (join_with_cons sep y (z :: l)) by discriminate.
    now rewrite <- app_assoc.
Qed.

Lemma clean_step_plain rooted stack s : plain_seg s -> clean_step rooted stack s = s :: stack.
Proof.
  intros (Hne & _ & Hd & Hdd). unfold clean_step.
  destruct s as [|c s]; [congruence|].
  unfold is_dot, is_dotdot.
  destruct (bytes_eqb (c :: s) [dot]) eqn:E1; [apply bytes_eqb_eq in E1; congruence|].
  destruct (bytes_eqb (c :: s) [dot; dot]) eqn:E2; [apply bytes_eqb_eq in E2; congruence|].
  reflexivity.
Qed.

Lemma clean_stack_app rooted a b st :
  clean_stack rooted (a ++ b) st = clean_stack rooted b (clean_stack rooted a st).
Proof. unfold clean_stack. now rewrite fold_left_app. Qed.

(* cleaning  pre/s  where s is plain pushes s on whatever pre left *)
Lemma clean_stack_snoc_plain rooted pre s st :
  plain_seg s ->
  clean_stack rooted (split_on slash (pre ++ slash :: s)) st
  = s :: clean_stack rooted (split_on slash pre) st.
Proof.
  intros Hs. rewrite split_on_app_sep, clean_stack_app.
  rewrite split_on_nosep by (destruct Hs as (_ & H & _); exact H).
  cbn [clean_stack fold_left]. now apply clean_step_plain.
Qed.

Lemma is_rooted_app p q : p <> [] -> is_rooted (p ++ q) = is_rooted p.
Proof. destruct p; [congruence|reflexivity]. Qed.

(* The part of a rendered path that precedes the elements appended last:
   "" for an empty relative stack, "/" for an empty rooted one, otherwise the
   rendered stack followed by "/". *)
Definition base_of (rooted : bool) (stack : list bytes) : bytes :=
  match stack with
  | [] => if rooted then [slash] else []
  | _ => (if rooted then [slash] else []) ++ join_with slash (rev stack) ++ [slash]
  end.

Lemma rev_nonnil {A} (l : list A) : l <> [] -> rev l <> [].
Proof. destruct l; [congruence|]. cbn. intros _ H. now apply app_eq_nil in H as [_ H]. Qed.

Lemma join_with_nonempty_last sep l x : x <> [] -> join_with sep (l ++ [x]) <> [].
Proof.
  intros Hx. destruct l as [|y l].
  - exact Hx.
  - change ((y :: l) ++ [x]) with (y :: (l ++ [x])).
    rewrite join_with_cons by (destruct l; discriminate).
    intros H. apply app_eq_nil in H as [_ H]. discriminate.
Qed.

Lemma nonnil_match (b : bytes) : b <> [] -> match b with [] => [dot] | _ => b end = b.
Proof. destruct b; [congruence|reflexivity]. Qed.

Lemma render_push rooted stack s :
  s <> [] -> render rooted (s :: stack) = base_of rooted stack ++ s.
Proof.
  intros Hs. unfold render, base_of. cbn [rev].
  destruct stack as [|t stack].
  - cbn [rev app join_with]. destruct rooted; [reflexivity|]. destruct s; [congruence|reflexivity].
  - assert (rev (t :: stack) <> []) as Hr by (apply rev_nonnil; discriminate).
    rewrite join_with_snoc by exact Hr.
    destruct rooted.
    + cbn [app]. now rewrite <- app_assoc.
    + cbn [app]. rewrite <- app_assoc. cbn [app].
      apply nonnil_match. intros E. apply app_eq_nil in E as [_ E]. discriminate.
Qed.

Lemma base_of_push rooted stack s :
  s <> [] -> base_of rooted (s :: stack) = base_of rooted stack ++ s ++ [slash].
Proof.
  intros Hs. unfold base_of at 1.
  change (join_with slash (rev (s :: stack))) with (join_with slash (rev stack ++ [s])).
  destruct stack as [|t stack].
  - cbn [rev app join_with base_of]. destruct rooted; reflexivity.
  - assert (rev (t :: stack) <> []) as Hr by (apply rev_nonnil; discriminate).
    rewrite join_with_snoc by exact Hr. unfold base_of.
    destruct rooted; cbn [app]; rewrite <- !app_assoc; cbn [app]; reflexivity.
Qed.
