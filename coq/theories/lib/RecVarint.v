(* Go encoding/binary varints as used by cmd/proxy/lfs_record.go (lfsAppendVarint,
   lfsAppendVarlong, lfsVarint): unsigned LEB128 of at most 10 bytes, zig-zag for
   signed values.  Written with + and * instead of | and << (the operands are
   bit-disjoint); round-trip lemmas.  Owned by the C31 model; independent of
   lib/Varint.v. *)
From KS Require Import lib.Base.
Open Scope Z_scope.

(* two's complement wrap of a mathematical integer to intN *)
Definition wrap32 (z : Z) : Z := (z + 2147483648) mod 4294967296 - 2147483648.
Definition wrap16 (z : Z) : Z := (z + 32768) mod 65536 - 32768.

Lemma wrap32_id z : -2147483648 <= z < 2147483648 -> wrap32 z = z.
Proof. intros H. unfold wrap32. rewrite Z.mod_small by lia. lia. Qed.

Lemma wrap16_id z : -32768 <= z < 32768 -> wrap16 z = z.
Proof. intros H. unfold wrap16. rewrite Z.mod_small by lia. lia. Qed.

(* uint64(x)<<1 ^ uint64(x>>63) for an int64 x *)
Definition zigzag (v : Z) : Z := if v <? 0 then -2 * v - 1 else 2 * v.
(* int64(ux>>1) ^ -(ux&1) *)
Definition unzigzag (u : Z) : Z := if Z.even u then u / 2 else - (u / 2) - 1.

Lemma unzigzag_zigzag v : unzigzag (zigzag v) = v.
Proof.
  unfold zigzag, unzigzag. destruct (v <? 0) eqn:E.
  - apply Z.ltb_lt in E. replace (-2 * v - 1) with (1 + 2 * (- v - 1)) by lia.
    rewrite Z.even_add_mul_2. cbn [Z.even].
    replace (1 + 2 * (- v - 1)) with (1 + (- v - 1) * 2) by lia.
    rewrite Z.div_add by lia. cbn. lia.
  - apply Z.ltb_ge in E. rewrite Z.even_mul. cbn [Z.even orb].
    replace (2 * v) with (v * 2) by lia. rewrite Z.div_mul by lia. reflexivity.
Qed.

Lemma zigzag_range v : - 9223372036854775808 <= v < 9223372036854775808 ->
  0 <= zigzag v < 18446744073709551616.
Proof. intros H. unfold zigzag. destruct (v <? 0) eqn:E; [apply Z.ltb_lt in E|apply Z.ltb_ge in E]; lia. Qed.

(* binary.PutUvarint *)
Fixpoint put_uvarint_f (fuel : nat) (x : Z) : bytes :=
  match fuel with
  | O => [x mod 128]
  | S f => if x <? 128 then [x] else (x mod 128 + 128) :: put_uvarint_f f (x / 128)
  end.
Definition put_uvarint (x : Z) : bytes := put_uvarint_f 9 x.
(* binary.PutVarint *)
Definition put_varint (v : Z) : bytes := put_uvarint (zigzag v).

(* binary.Uvarint: None stands for n <= 0 (buffer too small, or overflow) *)
Fixpoint uvarint_f (fuel : nat) (i : Z) (bs : bytes) (mult acc : Z) : option (Z * Z) :=
  match fuel with
  | O => None
  | S f =>
      match bs with
      | [] => None
      | b :: bs' =>
          if b <? 128 then
            if (i =? 9) && (1 <? b) then None else Some (acc + b * mult, i + 1)
          else uvarint_f f (i + 1) bs' (mult * 128) (acc + (b - 128) * mult)
      end
  end.
Definition uvarint (bs : bytes) : option (Z * Z) := uvarint_f 10 0 bs 1 0.
(* binary.Varint *)
Definition varint (bs : bytes) : option (Z * Z) :=
  match uvarint bs with Some (u, n) => Some (unzigzag u, n) | None => None end.
(* lfsVarint: int32(val), n; (0,0) when n <= 0 *)
Definition lfs_varint (bs : bytes) : option (Z * Z) :=
  match varint bs with Some (v, n) => Some (wrap32 v, n) | None => None end.

Lemma put_uvarint_f_len f x : 1 <= zlen (put_uvarint_f f x).
Proof.
  revert x; induction f as [|f IH]; intros x; cbn [put_uvarint_f].
  - rewrite zlen_cons, zlen_nil. lia.
  - destruct (x <? 128); rewrite zlen_cons; [rewrite zlen_nil; lia|]. specialize (IH (x / 128)). lia.
Qed.

Lemma uvarint_f_step f i b bs mult acc :
  uvarint_f (S f) i (b :: bs) mult acc =
    if b <? 128 then
      if (i =? 9) && (1 <? b) then None else Some (acc + b * mult, i + 1)
    else uvarint_f f (i + 1) bs (mult * 128) (acc + (b - 128) * mult).
Proof. reflexivity. Qed.

Lemma uvarint_put_f f : forall i mult acc x rest,
  i = 9 - Z.of_nat f -> 0 <= x < 2 * 128 ^ Z.of_nat f ->
  uvarint_f (S f) i (put_uvarint_f f x ++ rest) mult acc =
    Some (acc + x * mult, i + zlen (put_uvarint_f f x)).
Proof.
  induction f as [|f IH]; intros i mult acc x rest Hi Hx.
  - cbn [put_uvarint_f app]. rewrite uvarint_f_step. change (128 ^ Z.of_nat 0) with 1 in Hx.
    rewrite Z.mod_small by lia.
    assert (x <? 128 = true) as -> by (apply Z.ltb_lt; lia).
    assert (1 <? x = false) as -> by (apply Z.ltb_ge; lia).
    rewrite andb_false_r. rewrite zlen_cons, zlen_nil. reflexivity.
  - cbn [put_uvarint_f]. destruct (x <? 128) eqn:E.
    + cbn [app]. rewrite uvarint_f_step. rewrite E.
      assert (i =? 9 = false) as -> by (apply Z.eqb_neq; lia).
      cbn [andb]. rewrite zlen_cons, zlen_nil. reflexivity.
    + apply Z.ltb_ge in E. cbn [app]. rewrite uvarint_f_step.
      assert (x mod 128 + 128 <? 128 = false) as ->.
      { apply Z.ltb_ge. pose proof (Z.mod_pos_bound x 128). lia. }
      rewrite Nat2Z.inj_succ, Z.pow_succ_r in Hx by lia.
      rewrite IH.
      * rewrite zlen_cons. f_equal. f_equal; [|lia].
        pose proof (Z.div_mod x 128). lia.
      * lia.
      * split; [apply Z.div_pos; lia|]. apply Z.div_lt_upper_bound; lia.
Qed.

Lemma uvarint_put x rest : 0 <= x < 18446744073709551616 ->
  uvarint (put_uvarint x ++ rest) = Some (x, zlen (put_uvarint x)).
Proof.
  intros H. unfold uvarint, put_uvarint. rewrite uvarint_put_f.
  - f_equal. f_equal; lia.
  - reflexivity.
  - change (2 * 128 ^ Z.of_nat 9) with 18446744073709551616. exact H.
Qed.

Lemma varint_put v rest : - 9223372036854775808 <= v < 9223372036854775808 ->
  varint (put_varint v ++ rest) = Some (v, zlen (put_varint v)).
Proof.
  intros H. unfold varint, put_varint. rewrite uvarint_put by (apply zigzag_range; exact H).
  now rewrite unzigzag_zigzag.
Qed.

Lemma lfs_varint_put v rest : - 2147483648 <= v < 2147483648 ->
  lfs_varint (put_varint v ++ rest) = Some (v, zlen (put_varint v)).
Proof.
  intros H. unfold lfs_varint. rewrite varint_put by lia. now rewrite wrap32_id.
Qed.

Lemma put_varint_len v : 1 <= zlen (put_varint v).
Proof. apply put_uvarint_f_len. Qed.
