(* Result type for models in which "the Go code panics" and "the Go code asks the
   allocator for n bytes" are observable outcomes of a total Gallina function.

   [res E A] = the list of allocation sizes (bytes) requested so far, in order,
   plus how the computation ended: [Ok a], [Err e] (a Go error value, E is the
   model's error enum) or [Panic] (a Go run-time panic: makeslice out of range,
   index out of range ...).  [bind] stops at the first Err/Panic and keeps the
   allocations requested up to there. *)
From KS Require Import lib.Base.
Open Scope Z_scope.

Inductive outcome (E A : Type) : Type :=
| Ok (a : A)
| Err (e : E)
| Panic.
Arguments Ok {E A} a.
Arguments Err {E A} e.
Arguments Panic {E A}.

Record res (E A : Type) : Type := mkRes { allocs : list Z; out : outcome E A }.
Arguments mkRes {E A} allocs out.
Arguments allocs {E A} r.
Arguments out {E A} r.

Definition ret {E A} (a : A) : res E A := mkRes [] (Ok a).
Definition fail {E A} (e : E) : res E A := mkRes [] (Err e).
Definition panic {E A} : res E A := mkRes [] Panic.

Definition bind {E A B} (m : res E A) (f : A -> res E B) : res E B :=
  match out m with
  | Ok a => let r := f a in mkRes (allocs m ++ allocs r) (out r)
  | Err e => mkRes (allocs m) (Err e)
  | Panic => mkRes (allocs m) Panic
  end.

Notation "'do' x <- m ; f" := (bind m (fun x => f))
  (at level 200, x pattern, m at level 100, f at level 200, right associativity).

(* Go's make([]T, n) / make([]T, 0, n) with sizeof(T) = elem: run-time panic
   "makeslice: len/cap out of range" when n < 0 or n*elem exceeds maxAlloc
   (2^48 bytes on linux/amd64); otherwise n*elem bytes are requested. *)
Definition max_alloc : Z := 2 ^ 48.
Definition make {E} (elem n : Z) : res E unit :=
  if (n <? 0) || (max_alloc <? n * elem) then panic else mkRes [n * elem] (Ok tt).

Definition no_panic {E A} (r : res E A) : Prop := out r <> Panic.
Definition allocs_le {E A} (bound : Z) (r : res E A) : Prop := Forall (fun a => a <= bound) (allocs r).
Definition is_panic {E A} (r : res E A) : bool := match out r with Panic => true | _ => false end.
Definition max_list (l : list Z) : Z := fold_right Z.max 0 l.

Lemma no_panic_ret {E A} (a : A) : no_panic (@ret E A a).
Proof. unfold no_panic; cbn; discriminate. Qed.
Lemma no_panic_fail {E A} (e : E) : no_panic (@fail E A e).
Proof. unfold no_panic; cbn; discriminate. Qed.
Lemma allocs_le_ret {E A} b (a : A) : allocs_le b (@ret E A a).
Proof. constructor. Qed.
Lemma allocs_le_fail {E A} b (e : E) : allocs_le b (@fail E A e).
Proof. constructor. Qed.

Lemma no_panic_bind {E A B} (m : res E A) (f : A -> res E B) :
  no_panic m -> (forall a, out m = Ok a -> no_panic (f a)) -> no_panic (bind m f).
Proof.
  unfold no_panic, bind. intros Hm Hf. destruct (out m) as [a|e|] eqn:Em; cbn.
  - apply Hf; reflexivity.
  - discriminate.
  - congruence.
Qed.

Lemma allocs_le_bind {E A B} b (m : res E A) (f : A -> res E B) :
  allocs_le b m -> (forall a, out m = Ok a -> allocs_le b (f a)) -> allocs_le b (bind m f).
Proof.
  unfold allocs_le, bind. intros Hm Hf. destruct (out m) as [a|e|] eqn:Em; cbn; [|assumption..].
  apply Forall_app; split; [assumption|]. apply Hf; reflexivity.
Qed.

Lemma allocs_le_mono {E A} b b' (r : res E A) : b <= b' -> allocs_le b r -> allocs_le b' r.
Proof. unfold allocs_le. intros Hb H. eapply Forall_impl; [|exact H]. cbn; intros; lia. Qed.

Lemma bind_ok {E A B} (m : res E A) (f : A -> res E B) a :
  m = ret a -> bind m f = f a.
Proof. intros ->. unfold bind, ret; cbn. destruct (f a); reflexivity. Qed.

Lemma make_ok {E} elem n : 0 <= n -> n * elem <= max_alloc -> @make E elem n = mkRes [n * elem] (Ok tt).
Proof.
  intros H1 H2. unfold make.
  destruct (n <? 0) eqn:E1; [apply Z.ltb_lt in E1; lia|].
  destruct (max_alloc <? n * elem) eqn:E2; [apply Z.ltb_lt in E2; lia|]. reflexivity.
Qed.

Lemma bind_ok_inv {E A B} (m : res E A) (f : A -> res E B) b :
  out (bind m f) = Ok b -> exists a, out m = Ok a /\ out (f a) = Ok b.
Proof.
  unfold bind. destruct (out m) as [a|e|] eqn:Em; cbn; intros H; try discriminate.
  exists a. split; [reflexivity|assumption].
Qed.

Lemma out_ret {E A} (a b : A) : out (@ret E A a) = Ok b -> a = b.
Proof. cbn. intros H. inversion H. reflexivity. Qed.

Lemma out_fail {E A} (e : E) (b : A) : out (@fail E A e) = Ok b -> False.
Proof. cbn. discriminate. Qed.
