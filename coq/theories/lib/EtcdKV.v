(* A small executable model of etcd v3 as used by the lease managers
   (pkg/metadata/lease_manager.go): a revisioned key-value store with leases and
   compare-then-ops transactions.  Definitions only; lemmas are in
   proofs/LeaseProofs.v.

   Representation.  [e_kvs] is an association list from key (byte string) to the
   latest binding; a put conses a new binding (shadowing older ones), a delete
   removes every binding of the key.  A binding attached to a lease is visible
   only while that lease is live: revoking / expiring a lease removes the lease id
   from [e_leases], which hides all keys attached to it at once (etcd deletes them
   in one revision).  Lease ids come from a counter and are never reused, so a
   hidden binding never becomes visible again.

   Revisions follow etcd: the store revision grows by one for every transaction /
   put / delete / revoke that changed at least one key; a key written at store
   revision n has ModRevision n (and CreateRevision n if it did not exist); the
   header revision of a response is the store revision after the operation. *)
From KS Require Import lib.Base.
Open Scope Z_scope.

(* ---------- association lists over byte-string keys ---------- *)
Fixpoint alookup {V} (k : bytes) (l : list (bytes * V)) : option V :=
  match l with
  | [] => None
  | (k', v) :: l' => if bytes_eqb k k' then Some v else alookup k l'
  end.

Fixpoint aremove {V} (k : bytes) (l : list (bytes * V)) : list (bytes * V) :=
  match l with
  | [] => []
  | (k', v) :: l' => if bytes_eqb k k' then aremove k l' else (k', v) :: aremove k l'
  end.

Definition aset {V} (k : bytes) (v : V) (l : list (bytes * V)) : list (bytes * V) :=
  (k, v) :: aremove k l.

(* ---------- store ---------- *)
Record kv := mkKV { kv_val : bytes; kv_lease : Z; kv_create : Z; kv_mod : Z }.

Record etcd := mkEtcd {
  e_rev : Z;                       (* current store revision *)
  e_kvs : list (bytes * kv);
  e_leases : list Z;               (* live lease ids *)
  e_next_lease : Z                 (* next lease id to grant *)
}.

Definition etcd_init : etcd := mkEtcd 1 [] [] 1.

Definition lease_live (e : etcd) (l : Z) : bool := existsb (Z.eqb l) (e_leases e).

(* lease id 0 = no lease *)
Definition visible (e : etcd) (x : kv) : bool := (kv_lease x =? 0) || lease_live e (kv_lease x).

Definition get (e : etcd) (k : bytes) : option kv :=
  match alookup k (e_kvs e) with
  | Some x => if visible e x then Some x else None
  | None => None
  end.

(* LeaseGrant: a fresh lease id (no revision change) *)
Definition grant (e : etcd) : etcd * Z :=
  (mkEtcd (e_rev e) (e_kvs e) (e_next_lease e :: e_leases e) (e_next_lease e + 1), e_next_lease e).

(* does some visible key hang on lease l? *)
Definition lease_has_keys (e : etcd) (l : Z) : bool :=
  existsb (fun k => match get e k with Some x => kv_lease x =? l | None => false end) (map fst (e_kvs e)).

(* LeaseRevoke / lease expiry: the lease disappears together with its keys. *)
Definition revoke (e : etcd) (l : Z) : etcd :=
  if lease_live e l then
    mkEtcd (if lease_has_keys e l then e_rev e + 1 else e_rev e)
           (e_kvs e) (filter (fun x => negb (x =? l)) (e_leases e)) (e_next_lease e)
  else e.

(* ---------- transactions ---------- *)
Inductive cmp :=
| CmpCreate (k : bytes) (n : Z)     (* CreateRevision(k) = n ; 0 for a missing key *)
| CmpMod (k : bytes) (n : Z)        (* ModRevision(k) = n ; 0 for a missing key *)
| CmpValue (k : bytes) (v : bytes). (* Value(k) = v ; false for a missing key *)

Inductive op :=
| OpPut (k : bytes) (v : bytes) (lease : Z)
| OpDel (k : bytes)
| OpGet (k : bytes).

Definition eval_cmp (e : etcd) (c : cmp) : bool :=
  match c with
  | CmpCreate k n => (match get e k with Some x => kv_create x | None => 0 end) =? n
  | CmpMod k n => (match get e k with Some x => kv_mod x | None => 0 end) =? n
  | CmpValue k v => match get e k with Some x => bytes_eqb (kv_val x) v | None => false end
  end.

(* a put naming a lease that is not live makes the whole request fail
   (etcd: "requested lease not found"), before anything is applied *)
Definition op_ok (e : etcd) (o : op) : bool :=
  match o with
  | OpPut _ _ l => (l =? 0) || lease_live e l
  | _ => true
  end.

(* apply one op at revision [r] (= old store revision + 1): new bindings, whether
   anything changed, and the range response of an OpGet *)
Definition apply_op (e : etcd) (r : Z) (st : list (bytes * kv) * bool * list (option kv)) (o : op)
  : list (bytes * kv) * bool * list (option kv) :=
  let '(kvs, changed, gets) := st in
  let cur := mkEtcd (e_rev e) kvs (e_leases e) (e_next_lease e) in
  match o with
  | OpPut k v l =>
      let cr := match get cur k with Some x => kv_create x | None => r end in
      ((k, mkKV v l cr r) :: kvs, true, gets)
  | OpDel k =>
      match get cur k with
      | Some _ => (aremove k kvs, true, gets)
      | None => (kvs, changed, gets)
      end
  | OpGet k => (kvs, changed, gets ++ [get cur k])
  end.

Record txn_result := mkTxnResult {
  t_err : bool;                 (* request rejected, nothing applied *)
  t_succ : bool;                (* all compares held (Then branch taken) *)
  t_gets : list (option kv);    (* range responses, in op order *)
  t_rev : Z                     (* header revision *)
}.

Definition txn (e : etcd) (cmps : list cmp) (thens elses : list op) : etcd * txn_result :=
  let succ := forallb (eval_cmp e) cmps in
  let ops := if succ then thens else elses in
  if negb (forallb (op_ok e) ops) then (e, mkTxnResult true false [] (e_rev e))
  else
    let '(kvs, changed, gets) := fold_left (apply_op e (e_rev e + 1)) ops (e_kvs e, false, []) in
    let rev' := if changed then e_rev e + 1 else e_rev e in
    (mkEtcd rev' kvs (e_leases e) (e_next_lease e), mkTxnResult false succ gets rev').

(* plain Delete(k) = a transaction without compares *)
Definition delete (e : etcd) (k : bytes) : etcd := fst (txn e [] [OpDel k] []).
