(* Shared basics: byte strings are [list Z] (each element in 0..255 when it came
   from Go; the models never rely on that unless a lemma says so), case-mismatch
   scanning for the correspondence files, small list helpers. Stdlib style. *)
From Coq Require Export List ZArith Lia Bool.
Export ListNotations.
Open Scope Z_scope.

Definition bytes := list Z.

Definition zlen {A} (l : list A) : Z := Z.of_nat (length l).

Lemma zlen_nonneg {A} (l : list A) : 0 <= zlen l.
Proof. unfold zlen; lia. Qed.

Lemma zlen_app {A} (l1 l2 : list A) : zlen (l1 ++ l2) = zlen l1 + zlen l2.
Proof. unfold zlen; rewrite app_length; lia. Qed.

Lemma zlen_nil {A} : zlen (@nil A) = 0.
Proof. reflexivity. Qed.

Lemma zlen_cons {A} (x : A) l : zlen (x :: l) = 1 + zlen l.
Proof. unfold zlen; cbn [length]; lia. Qed.

Fixpoint bytes_eqb (a b : bytes) : bool :=
  match a, b with
  | [], [] => true
  | x :: a', y :: b' => (x =? y) && bytes_eqb a' b'
  | _, _ => false
  end.

Lemma bytes_eqb_eq a b : bytes_eqb a b = true <-> a = b.
Proof.
  revert b; induction a as [|x a IH]; intros [|y b]; cbn; split; intros H;
    try reflexivity; try discriminate.
  - apply andb_true_iff in H as [H1 H2]. apply Z.eqb_eq in H1. apply IH in H2. congruence.
  - inversion H; subst. rewrite Z.eqb_refl. cbn. apply IH. reflexivity.
Qed.

Lemma bytes_eqb_refl a : bytes_eqb a a = true.
Proof. apply bytes_eqb_eq; reflexivity. Qed.

Lemma bytes_eqb_neq a b : bytes_eqb a b = false <-> a <> b.
Proof.
  split; intros H.
  - intros E. apply bytes_eqb_eq in E. congruence.
  - destruct (bytes_eqb a b) eqn:E; [|reflexivity]. apply bytes_eqb_eq in E. contradiction.
Qed.

(* Indices (from 0) of the cases on which [f] is false: the correspondence
   files print this list; [] means model and implementation agree everywhere. *)
Fixpoint mismatches_from {A} (f : A -> bool) (l : list A) (i : Z) : list Z :=
  match l with
  | [] => []
  | x :: l' => if f x then mismatches_from f l' (i + 1) else i :: mismatches_from f l' (i + 1)
  end.
Definition mismatches {A} (f : A -> bool) (l : list A) : list Z := mismatches_from f l 0.

Definition opt_eqb {A} (eqb : A -> A -> bool) (a b : option A) : bool :=
  match a, b with
  | Some x, Some y => eqb x y
  | None, None => true
  | _, _ => false
  end.

Fixpoint list_eqb {A} (eqb : A -> A -> bool) (a b : list A) : bool :=
  match a, b with
  | [], [] => true
  | x :: a', y :: b' => eqb x y && list_eqb eqb a' b'
  | _, _ => false
  end.

Lemma NoDup_snoc {A} (l : list A) (x : A) : ~ In x l -> NoDup l -> NoDup (l ++ [x]).
Proof.
  induction l as [|y l IH]; intros Hn Hd; cbn.
  - constructor; [tauto|constructor].
  - inversion Hd; subst. constructor.
    + rewrite in_app_iff. cbn. intros [H|[H|[]]]; [contradiction|]. subst. apply Hn. now left.
    + apply IH; [|assumption]. intros H. apply Hn. now right.
Qed.
