(* A small revisioned key-value store in the style of etcd's MVCC store, as far as
   the proxy routers (C20) need it: byte-string keys and values, one log entry per
   revision (the events of that revision in order; the empty list is a revision
   that touched nothing the watcher is interested in, e.g. a write outside the
   watched prefix), reads at a revision, watches from a revision, compaction.
   Revisions are log positions: entry i (from 0) is revision i+1, so they are
   [nat] (structural indices, never large literals).
   Definitions first, then the lemmas about the association lists. *)
From KS Require Import lib.Base.
Open Scope Z_scope.

(* ---------- lexicographic order on byte strings (= Go string comparison) ---------- *)
Fixpoint bytes_cmp (a b : bytes) : comparison :=
  match a, b with
  | [], [] => Eq
  | [], _ :: _ => Lt
  | _ :: _, [] => Gt
  | x :: a', y :: b' => match x ?= y with Eq => bytes_cmp a' b' | c => c end
  end.

(* ---------- association lists keyed by byte strings, kept in key order ---------- *)
Definition kvmap := list (bytes * bytes).

Fixpoint mget (m : kvmap) (k : bytes) : option bytes :=
  match m with
  | [] => None
  | (k', v) :: m' => if bytes_eqb k k' then Some v else mget m' k
  end.

(* insert a new key at its place in key order *)
Fixpoint minsert (m : kvmap) (k v : bytes) : kvmap :=
  match m with
  | [] => [(k, v)]
  | (k', v') :: m' =>
      match bytes_cmp k k' with
      | Lt | Eq => (k, v) :: m
      | Gt => (k', v') :: minsert m' k v
      end
  end.

(* overwrite the value of a present key in place, or insert a new key in order *)
Definition mset (m : kvmap) (k v : bytes) : kvmap :=
  match mget m k with
  | Some _ => map (fun e => if bytes_eqb k (fst e) then (fst e, v) else e) m
  | None => minsert m k v
  end.

Fixpoint mdel (m : kvmap) (k : bytes) : kvmap :=
  match m with
  | [] => []
  | (k', v) :: m' => if bytes_eqb k k' then mdel m' k else (k', v) :: mdel m' k
  end.

Definition map_equiv (a b : kvmap) : Prop := forall k, mget a k = mget b k.

(* ---------- events and the store ---------- *)
Inductive kvev := KPut (k v : bytes) | KDel (k : bytes).

Definition ev_key (e : kvev) : bytes := match e with KPut k _ => k | KDel k => k end.

Definition apply_ev (m : kvmap) (e : kvev) : kvmap :=
  match e with KPut k v => mset m k v | KDel k => mdel m k end.

Definition apply_evs (m : kvmap) (evs : list kvev) : kvmap := fold_left apply_ev evs m.

Definition replay (m : kvmap) (revs : list (list kvev)) : kvmap := fold_left apply_evs revs m.

Record store := mkStore {
  s_log : list (list kvev);   (* entry i = the events of revision i+1 *)
  s_compact : nat             (* compaction revision (0 = never compacted) *)
}.

Definition s_rev (s : store) : nat := length (s_log s).
Definition kv_at (s : store) (r : nat) : kvmap := replay [] (firstn r (s_log s)).
Definition kv_now (s : store) : kvmap := replay [] (s_log s).

(* A transaction: puts always take effect; a delete of an absent key has no
   effect and produces no event (etcd semantics).  Later operations of the same
   transaction see the earlier ones. *)
Fixpoint effective (m : kvmap) (ops : list kvev) : list kvev :=
  match ops with
  | [] => []
  | KPut k v :: ops' => KPut k v :: effective (mset m k v) ops'
  | KDel k :: ops' =>
      match mget m k with
      | Some _ => KDel k :: effective (mdel m k) ops'
      | None => effective m ops'
      end
  end.

(* commit a transaction on watched keys: no effective operation = no new revision *)
Definition commit (s : store) (ops : list kvev) : store :=
  match effective (kv_now s) ops with
  | [] => s
  | evs => mkStore (s_log s ++ [evs]) (s_compact s)
  end.

(* a write that the watcher does not see (outside the prefix): a revision without events *)
Definition commit_other (s : store) : store := mkStore (s_log s ++ [[]]) (s_compact s).

(* the watched revisions still to be sent to a watcher that has seen [seen] revisions *)
Definition pending (s : store) (seen : nat) : list (list kvev) :=
  filter (fun evs => match evs with [] => false | _ => true end) (skipn seen (s_log s)).

(* consume log entries until [n] non-empty revisions have been taken; result = number
   of entries consumed (None when fewer than [n] non-empty revisions are left) *)
Fixpoint take_revs (l : list (list kvev)) (n : nat) : option nat :=
  match n with
  | O => Some O
  | S n' =>
      match l with
      | [] => None
      | [] :: l' => option_map S (take_revs l' n)
      | (_ :: _) :: l' => option_map S (take_revs l' n')
      end
  end.

(* =================== lemmas =================== *)

Lemma bytes_cmp_eq a b : bytes_cmp a b = Eq <-> a = b.
Proof.
  revert b; induction a as [|x a IH]; intros [|y b]; cbn; split; intros H;
    try reflexivity; try discriminate.
  - destruct (x ?= y) eqn:E; try discriminate. apply Z.compare_eq in E. apply IH in H. congruence.
  - inversion H; subst. rewrite Z.compare_refl. apply IH. reflexivity.
Qed.

Lemma bytes_eqb_sym a b : bytes_eqb a b = bytes_eqb b a.
Proof.
  destruct (bytes_eqb a b) eqn:E.
  - apply bytes_eqb_eq in E. subst. symmetry. apply bytes_eqb_refl.
  - apply bytes_eqb_neq in E. symmetry. apply bytes_eqb_neq. congruence.
Qed.

Lemma mget_minsert m k v k' :
  mget (minsert m k v) k' = if bytes_eqb k' k then Some v else mget m k'.
Proof.
  induction m as [|[k0 v0] m IH]; cbn [minsert mget].
  - reflexivity.
  - destruct (bytes_cmp k k0) eqn:C; cbn [mget]; try reflexivity.
    rewrite IH. destruct (bytes_eqb k' k0) eqn:E0; [|reflexivity].
    apply bytes_eqb_eq in E0. subst k0.
    destruct (bytes_eqb k' k) eqn:E1; [|reflexivity].
    apply bytes_eqb_eq in E1. subst k'.
    assert (bytes_cmp k k = Eq) by (apply bytes_cmp_eq; reflexivity). congruence.
Qed.

Lemma mget_replace m k v k' :
  mget (map (fun e : bytes * bytes => if bytes_eqb k (fst e) then (fst e, v) else e) m) k' =
  if bytes_eqb k' k then (match mget m k with Some _ => Some v | None => None end) else mget m k'.
Proof.
  induction m as [|[k0 v0] m IH]; cbn [map mget fst].
  - destruct (bytes_eqb k' k); reflexivity.
  - destruct (bytes_eqb k k0) eqn:E0; cbn [mget fst].
    + apply bytes_eqb_eq in E0. subst k0.
      destruct (bytes_eqb k' k) eqn:E1; [reflexivity|]. exact IH.
    + destruct (bytes_eqb k' k0) eqn:E1.
      * apply bytes_eqb_eq in E1. subst k0. rewrite bytes_eqb_sym, E0. reflexivity.
      * exact IH.
Qed.

Lemma mget_mset m k v k' :
  mget (mset m k v) k' = if bytes_eqb k' k then Some v else mget m k'.
Proof.
  unfold mset. destruct (mget m k) eqn:G.
  - rewrite mget_replace, G. reflexivity.
  - apply mget_minsert.
Qed.

Lemma mget_mdel m k k' :
  mget (mdel m k) k' = if bytes_eqb k' k then None else mget m k'.
Proof.
  induction m as [|[k0 v0] m IH]; cbn [mdel mget].
  - destruct (bytes_eqb k' k); reflexivity.
  - destruct (bytes_eqb k k0) eqn:E0.
    + apply bytes_eqb_eq in E0. subst k0. rewrite IH.
      destruct (bytes_eqb k' k); reflexivity.
    + cbn [mget]. rewrite IH. destruct (bytes_eqb k' k0) eqn:E1; [|reflexivity].
      apply bytes_eqb_eq in E1. subst k0. rewrite bytes_eqb_sym, E0. reflexivity.
Qed.

Lemma minsert_keys m k v x : In x (map fst (minsert m k v)) <-> x = k \/ In x (map fst m).
Proof.
  induction m as [|[k0 v0] m IH]; cbn [minsert map fst In].
  - intuition.
  - destruct (bytes_cmp k k0) eqn:C; cbn [map fst In]; try rewrite IH; intuition.
Qed.

Lemma replace_keys m k v :
  map fst (map (fun e : bytes * bytes => if bytes_eqb k (fst e) then (fst e, v) else e) m) = map fst m.
Proof.
  induction m as [|[k0 v0] m IH]; cbn [map fst]; [reflexivity|].
  rewrite IH. destruct (bytes_eqb k k0); reflexivity.
Qed.

Lemma mdel_keys m k x : In x (map fst (mdel m k)) <-> x <> k /\ In x (map fst m).
Proof.
  induction m as [|[k0 v0] m IH]; cbn [mdel map fst In].
  - intuition.
  - destruct (bytes_eqb k k0) eqn:E.
    + apply bytes_eqb_eq in E. subst k0. rewrite IH. intuition congruence.
    + apply bytes_eqb_neq in E. cbn [map fst In]. rewrite IH. intuition congruence.
Qed.

Lemma mget_none_keys m k : mget m k = None <-> ~ In k (map fst m).
Proof.
  induction m as [|[k0 v0] m IH]; cbn [mget map fst In].
  - intuition.
  - destruct (bytes_eqb k k0) eqn:E.
    + apply bytes_eqb_eq in E. subst. split; [discriminate|]. intros H. exfalso. apply H. now left.
    + apply bytes_eqb_neq in E. rewrite IH. intuition congruence.
Qed.

Lemma mset_keys m k v x : In x (map fst (mset m k v)) <-> x = k \/ In x (map fst m).
Proof.
  unfold mset. destruct (mget m k) eqn:G.
  - rewrite replace_keys. split; [tauto|]. intros [->|H]; [|exact H].
    destruct (in_dec (list_eq_dec Z.eq_dec) k (map fst m)) as [i|n]; [exact i|].
    apply mget_none_keys in n. congruence.
  - apply minsert_keys.
Qed.

Lemma minsert_nodup m k v : ~ In k (map fst m) -> NoDup (map fst m) -> NoDup (map fst (minsert m k v)).
Proof.
  induction m as [|[k0 v0] m IH]; intros Hn Hd; cbn [minsert map fst].
  - constructor; [intros []|constructor].
  - destruct (bytes_cmp k k0) eqn:C; cbn [map fst]; try (constructor; assumption).
    cbn [map fst] in Hd, Hn. inversion Hd; subst. constructor.
    + rewrite minsert_keys. intros [->|H]; [apply Hn; now left|contradiction].
    + apply IH; [|assumption]. intros H. apply Hn. now right.
Qed.

Lemma mset_nodup m k v : NoDup (map fst m) -> NoDup (map fst (mset m k v)).
Proof.
  intros Hd. unfold mset. destruct (mget m k) eqn:G.
  - now rewrite replace_keys.
  - apply minsert_nodup; [|assumption]. now apply mget_none_keys.
Qed.

Lemma mdel_nodup m k : NoDup (map fst m) -> NoDup (map fst (mdel m k)).
Proof.
  induction m as [|[k0 v0] m IH]; intros Hd; cbn [mdel map fst]; [constructor|].
  cbn [map fst] in Hd. inversion Hd; subst.
  destruct (bytes_eqb k k0); [now apply IH|]. cbn [map fst]. constructor; [|now apply IH].
  rewrite mdel_keys. tauto.
Qed.

Lemma replay_app m a b : replay m (a ++ b) = replay (replay m a) b.
Proof. unfold replay. apply fold_left_app. Qed.

Lemma firstn_add {A} (l : list A) a n :
  firstn (a + n) l = firstn a l ++ firstn n (skipn a l).
Proof.
  revert l; induction a as [|a IH]; intros l; cbn [Nat.add firstn skipn app].
  - reflexivity.
  - destruct l as [|x l]; cbn [firstn skipn app].
    + now rewrite firstn_nil.
    + now rewrite IH.
Qed.

(* revisions without events do not change the contents *)
Lemma replay_empties m l :
  filter (fun evs : list kvev => match evs with [] => false | _ => true end) l = [] ->
  replay m l = m.
Proof.
  revert m; induction l as [|evs l IH]; intros m H; cbn in *.
  - reflexivity.
  - destruct evs as [|e evs]; [|discriminate]. cbn. apply IH. exact H.
Qed.

Lemma take_revs_le l n c : take_revs l n = Some c -> (c <= length l)%nat.
Proof.
  revert n c; induction l as [|evs l IH]; intros n c H; destruct n as [|n]; cbn in H.
  - inversion H. cbn. lia.
  - discriminate.
  - inversion H. lia.
  - destruct evs.
    + destruct (take_revs l (S n)) eqn:E; cbn in H; [|discriminate]. inversion H; subst.
      apply IH in E. cbn. lia.
    + destruct (take_revs l n) eqn:E; cbn in H; [|discriminate]. inversion H; subst.
      apply IH in E. cbn. lia.
Qed.
